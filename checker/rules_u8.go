package main

import (
	"fmt"
	"go/token"
	"go/types"
	"sort"

	"golang.org/x/tools/go/ssa"
)

func init() {
	register("U8", "the library is built and tested for 32-bit targets (386, arm), where int has 32 bits: a value that carries a chunk base (key << 16, possibly OR-ed or added with a low part) covers the whole uint32 range and is not converted to int — from 2^31 up the result is negative and the word index computed from it panics. Shift it down (or compare it) in uint32 first", ruleU8)
}

func ruleU8(p *Prog) *RuleResult {
	res := newResult("U8", ruleDoc["U8"], 1)
	fns := append([]*ssa.Function(nil), p.sourceFns()...)
	sort.Slice(fns, func(i, j int) bool { return fname(fns[i]) < fname(fns[j]) })
	// call sites per callee (static) and per method name (interface invokes)
	static := map[*ssa.Function][]*ssa.CallCommon{}
	invoke := map[string][]*ssa.CallCommon{}
	for _, g := range fns {
		if g.Blocks == nil {
			continue
		}
		for _, b := range g.Blocks {
			for _, ins := range b.Instrs {
				ci, ok := ins.(ssa.CallInstruction)
				if !ok {
					continue
				}
				cc := ci.Common()
				if cc.IsInvoke() {
					invoke[cc.Method.Name()] = append(invoke[cc.Method.Name()], cc)
				} else if callee := cc.StaticCallee(); callee != nil {
					static[callee] = append(static[callee], cc)
				}
			}
		}
	}
	// carriesBase: v is key<<16 (key a 16-bit value widened to 32 bits) or combines one with |, +
	var carriesBase func(v ssa.Value, depth int) bool
	carriesBase = func(v ssa.Value, depth int) bool {
		if depth > 6 {
			return false
		}
		switch x := v.(type) {
		case *ssa.BinOp:
			switch x.Op {
			case token.SHL:
				if k, ok := constIntVal(x.Y); ok && k == 16 {
					if bt, ok := x.Type().Underlying().(*types.Basic); ok && bt.Kind() == types.Uint32 {
						return true
					}
				}
			case token.OR, token.ADD, token.XOR:
				return carriesBase(x.X, depth+1) || carriesBase(x.Y, depth+1)
			}
		case *ssa.Phi:
			for _, e := range x.Edges {
				if carriesBase(e, depth+1) {
					return true
				}
			}
		case *ssa.Parameter:
			// a helper or kind method that is handed the chunk base by every caller
			g := x.Parent()
			idx := -1
			for i, prm := range g.Params {
				if prm == x {
					idx = i
				}
			}
			if idx < 0 || isExportedAPI(g) {
				return false
			}
			n := 0
			for _, cc := range static[g] {
				if idx >= len(cc.Args) || !carriesBase(cc.Args[idx], depth+1) {
					return false
				}
				n++
			}
			if g.Signature.Recv() != nil && idx >= 1 {
				for _, cc := range invoke[g.Name()] {
					if idx-1 >= len(cc.Args) || !carriesBase(cc.Args[idx-1], depth+1) {
						return false
					}
					n++
				}
			}
			return n > 0
		case *ssa.Call:
			// combineLoHi32 and friends
			if g := x.Call.StaticCallee(); g != nil && len(g.Blocks) == 1 {
				if r, ok := g.Blocks[0].Instrs[len(g.Blocks[0].Instrs)-1].(*ssa.Return); ok && len(r.Results) == 1 {
					return carriesBase(r.Results[0], depth+1)
				}
			}
		}
		return false
	}
	for _, f := range fns {
		if f.Blocks == nil || fnPkgPath(f) != pkgPathOf("roaring") {
			continue
		}
		n := 0
		for _, b := range f.Blocks {
			for _, ins := range b.Instrs {
				cv, ok := ins.(*ssa.Convert)
				if !ok {
					continue
				}
				to, ok := cv.Type().Underlying().(*types.Basic)
				if !ok || (to.Kind() != types.Int && to.Kind() != types.Int32) {
					continue
				}
				from, ok := cv.X.Type().Underlying().(*types.Basic)
				if !ok || from.Kind() != types.Uint32 {
					continue
				}
				if !carriesBase(cv.X, 0) {
					continue
				}
				n++
				res.bad(fmt.Sprintf("%s|chunk base converted to int#%d", fname(f), n), p.ipos(cv), "a value holding key<<16 is converted to int: on 386/arm int has 32 bits, every chunk from key 0x8000 up gives a negative number (and a negative word index)")
			}
		}
	}
	// the correct idiom must exist somewhere, or the rule is looking at nothing
	for _, f := range fns {
		if f.Blocks == nil || fnPkgPath(f) != pkgPathOf("roaring") {
			continue
		}
		n := 0
		for _, b := range f.Blocks {
			for _, ins := range b.Instrs {
				cv, ok := ins.(*ssa.Convert)
				if !ok {
					continue
				}
				to, ok := cv.Type().Underlying().(*types.Basic)
				if !ok || (to.Kind() != types.Int64 && to.Kind() != types.Uint64 && to.Kind() != types.Uint) {
					continue
				}
				if from, ok := cv.X.Type().Underlying().(*types.Basic); ok && from.Kind() == types.Uint32 && carriesBase(cv.X, 0) {
					n++
					res.ok(fmt.Sprintf("%s|chunk base widened#%d", fname(f), n), p.ipos(cv), "converted to a type that holds the whole range")
				}
			}
		}
	}
	return res
}
