package main

func init() {
	register("A2.32", "write gate (32-bit): every call that may write a container's payload is applied to an owned container (fresh, gate result, or a slot that is unshared at that point)", func(p *Prog) *RuleResult { return ruleTL(p, "A2", "32", 20) })
	register("A3.32", "hand-off (32-bit): every store into a slot stores an owned container, or moves a container with its flag, or shares it with destination flag true and source flag ensured true", func(p *Prog) *RuleResult { return ruleTL(p, "A3", "32", 40) })
	register("A2.64", "write gate (64-bit buckets)", func(p *Prog) *RuleResult { return ruleTL(p, "A2", "64", 10) })
	register("A3.64", "hand-off (64-bit buckets)", func(p *Prog) *RuleResult { return ruleTL(p, "A3", "64", 20) })
	register("F3.32", "empty-result elision (32-bit): the result of every may-empty container operation that reaches a slot is tested with isEmpty, and every store of it is guarded by that test (or followed by the isEmpty->remove idiom)", func(p *Prog) *RuleResult { return ruleTL(p, "F3", "32", 15) })
	register("F13.32", "in-place kernel results go back into the table: when an in-place container method that returns a container (iaddReturnMinimized, iremoveReturnMinimized, ior, iand, ixor, iandNot, iaddRange, iremoveRange, inot, lazyIOR ...) is applied to a container that sits in a slot, the returned container is stored into the table or returned to the caller", func(p *Prog) *RuleResult { return ruleTL(p, "F13", "32", 12) })
	register("F3.64", "empty-result elision (64-bit buckets)", func(p *Prog) *RuleResult { return ruleTL(p, "F3", "64", 10) })
}

func ruleTL(p *Prog, rule, level string, min int) *RuleResult {
	id := rule + "." + level
	res := newResult(id, ruleDoc[id], min)
	e, err := p.TL(level)
	if err != nil {
		res.undecided("anchors", "-", err.Error())
		return res
	}
	e.report(rule, res)
	res.Extra["functions_analysed"] = len(e.fns)
	res.Extra["summaries"] = len(e.sums)
	res.Assumptions = append(res.Assumptions,
		"a container obtained from a gate stays exclusively owned until the end of the function that obtained it (no function shares a table between obtaining a writable container and writing through it)",
		"a table of unknown origin (received over a channel, element of a local slice of tables) whose slots are transferred together with their flags by a paired bulk copy is discarded afterwards (ParOr chunk assembly); a transfer out of a parameter-rooted table is not assumed but checked: it creates an obligation for the callers that the source is a temporary")
	return res
}
