package main

import (
	"fmt"
	"go/token"
	"go/types"
	"sort"

	"golang.org/x/tools/go/ssa"
)

func init() {
	register("LP2", "a scratch list that a loop empties for its next round (s = s[:0]) is empty at the start of every round: on each way back to the loop header the list is either reset, untouched since the header, or known to be empty (the branch taken under len(s) == 0) — a continue placed before the reset carries the previous key's filter containers into the next key", ruleLP2)
}

func ruleLP2(p *Prog) *RuleResult {
	res := newResult("LP2", ruleDoc["LP2"], 1)
	fns := append([]*ssa.Function(nil), p.sourceFns()...)
	sort.Slice(fns, func(i, j int) bool { return fname(fns[i]) < fname(fns[j]) })
	isReset := func(v ssa.Value) bool {
		sl, ok := v.(*ssa.Slice)
		if !ok || sl.High == nil {
			return false
		}
		k, isC := constIntVal(sl.High)
		return isC && k == 0 && (sl.Low == nil || isConstInt(sl.Low, 0))
	}
	// emptyOnEdge: pred is reached only through a branch edge on which len(v) == 0
	emptyAt := func(v ssa.Value, at *ssa.BasicBlock) bool {
		isLen := func(x ssa.Value) bool {
			c, ok := x.(*ssa.Call)
			if !ok {
				return false
			}
			bi, ok := c.Call.Value.(*ssa.Builtin)
			return ok && bi.Name() == "len" && len(c.Call.Args) == 1 && c.Call.Args[0] == v
		}
		child := at
		for d := at; d != nil; child, d = d, d.Idom() {
			if d == at {
				continue
			}
			ifi, ok := d.Instrs[len(d.Instrs)-1].(*ssa.If)
			if !ok || d.Succs[0] == d.Succs[1] {
				continue
			}
			cmp, ok := ifi.Cond.(*ssa.BinOp)
			if !ok {
				continue
			}
			var truth, known bool
			for k := 0; k < 2; k++ {
				if (d.Succs[k] == child || d.Succs[k].Dominates(at)) && len(d.Succs[k].Preds) == 1 {
					truth, known = k == 0, true
				}
			}
			if !known {
				continue
			}
			if (isLen(cmp.X) && isConstInt(cmp.Y, 0)) || (isLen(cmp.Y) && isConstInt(cmp.X, 0)) {
				if (cmp.Op == token.EQL && truth) || (cmp.Op == token.NEQ && !truth) || (cmp.Op == token.GTR && !truth && isLen(cmp.X)) {
					return true
				}
			}
		}
		return false
	}
	for _, f := range fns {
		if f.Blocks == nil {
			continue
		}
		n := 0
		for _, b := range f.Blocks {
			// loop header?
			var back []int
			for i, pr := range b.Preds {
				if b.Dominates(pr) {
					back = append(back, i)
				}
			}
			if len(back) == 0 {
				continue
			}
			for _, ins := range b.Instrs {
				ph, ok := ins.(*ssa.Phi)
				if !ok {
					break
				}
				if _, isSl := ph.Type().Underlying().(*types.Slice); !isSl {
					continue
				}
				// unchanged(v): v is the header phi itself, or a phi (of inner loops / joins) whose inputs are all unchanged
				var unchanged func(v ssa.Value, seen map[ssa.Value]bool) bool
				unchanged = func(v ssa.Value, seen map[ssa.Value]bool) bool {
					if v == ssa.Value(ph) {
						return true
					}
					if seen[v] {
						return true
					}
					seen[v] = true
					if p2, ok := v.(*ssa.Phi); ok {
						for _, e := range p2.Edges {
							if !unchanged(e, seen) {
								return false
							}
						}
						return true
					}
					return false
				}
				hasReset := false
				for _, i := range back {
					if isReset(ph.Edges[i]) {
						hasReset = true
					}
				}
				if !hasReset {
					continue
				}
				n++
				c := fmt.Sprintf("%s|scratch list %s#%d", fname(f), ph.Comment, n)
				bad := ""
				for _, i := range back {
					e := ph.Edges[i]
					if isReset(e) || unchanged(e, map[ssa.Value]bool{}) || emptyAt(e, b.Preds[i]) {
						continue
					}
					last := b.Preds[i].Instrs[len(b.Preds[i].Instrs)-1]
					bad = fmt.Sprintf("the way back to the loop header from %s carries the list as it was filled in this round (no reset, and not known to be empty)", p.ipos(last))
				}
				if bad != "" {
					res.bad(c, p.ipos(ph), bad)
				} else {
					res.ok(c, p.ipos(ph), "reset, untouched or empty on every way back to the header")
				}
			}
		}
	}
	return res
}
