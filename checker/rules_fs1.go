package main

import (
	"fmt"
	"go/token"
	"sort"

	"golang.org/x/tools/go/ssa"
)

// FS1 — a found-set query counts no raw plane.
//
// Every aggregate of a found-set query (Sum, SumBigValues, the sign correction, min/max
// candidate tests) is over the columns of the found-set: a cardinality in such a function
// is that of the found-set or of an intersection with it. GetCardinality() directly on a
// plane of the index (b.bA[i]) counts the columns of the whole index.
func init() {
	register("FS1", "in a function with a found-set parameter (and in the closures it contains) GetCardinality() is never called directly on a plane of the index (an element of the receiver's bA): every count of a found-set query is of the found-set or of an intersection with it — the cardinality of a raw plane counts columns outside the found-set (the sign-plane correction of Sum 'needs no intersection' only when the found-set is the whole index)", ruleFS1)
}

func ruleFS1(p *Prog) *RuleResult {
	res := newResult("FS1", ruleDoc["FS1"], 8)
	fns := append([]*ssa.Function(nil), p.sourceFns()...)
	sort.Slice(fns, func(i, j int) bool { return fname(fns[i]) < fname(fns[j]) })
	hasFoundSet := func(f *ssa.Function) bool {
		for g := f; g != nil; g = g.Parent() {
			for _, prm := range g.Params {
				if prm.Name() == "foundSet" {
					return true
				}
			}
		}
		return false
	}
	isPlane := func(v ssa.Value) bool {
		if u, ok := v.(*ssa.UnOp); ok && u.Op == token.MUL {
			v = u.X // 32-bit index: the planes are pointers held in bA
		}
		ia, ok := v.(*ssa.IndexAddr)
		if !ok {
			return false
		}
		ld, ok := ia.X.(*ssa.UnOp)
		if !ok || ld.Op != token.MUL {
			return false
		}
		fa, ok := ld.X.(*ssa.FieldAddr)
		return ok && fieldName(fa.X.Type(), fa.Field) != "" && lastSeg(fieldName(fa.X.Type(), fa.Field)) == "bA"
	}
	for _, f := range fns {
		if f.Blocks == nil || !hasFoundSet(f) {
			continue
		}
		bad := false
		for _, b := range f.Blocks {
			for _, ins := range b.Instrs {
				c, ok := ins.(*ssa.Call)
				if !ok {
					continue
				}
				g := c.Call.StaticCallee()
				if g == nil || g.Name() != "GetCardinality" || len(c.Call.Args) == 0 {
					continue
				}
				if isPlane(c.Call.Args[0]) {
					bad = true
					res.bad(fmt.Sprintf("%s|cardinality of a raw plane", fname(f)), p.ipos(c), "GetCardinality() of a plane of the index inside a found-set query: columns outside the found-set are counted")
				}
			}
		}
		if !bad {
			res.ok(fmt.Sprintf("%s|cardinality of a raw plane", fname(f)), p.ipos(f.Blocks[0].Instrs[0]), "no count of a raw plane")
		}
	}
	return res
}

func lastSeg(s string) string {
	for i := len(s) - 1; i >= 0; i-- {
		if s[i] == '.' {
			return s[i+1:]
		}
	}
	return s
}
