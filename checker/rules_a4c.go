package main

import (
	"fmt"
	"sort"

	"golang.org/x/tools/go/ssa"
)

func init() {
	register("A4.clear", "a copy-on-write flag says who may write the container next to it: a store of false into needCopyOnWrite[i] is accompanied, in the same block, by a store of an owned container (fresh, a clone, the gate's result) into containers[i] — clearing the flags of containers that are still shared ('this bitmap owns its containers from now on') lets the next in-place write reach the other owner", ruleA4Clear)
}

func ruleA4Clear(p *Prog) *RuleResult {
	res := newResult("A4.clear", ruleDoc["A4.clear"], 4)
	for _, lvl := range []string{"32", "64"} {
		e, err := p.TL(lvl)
		if err != nil {
			res.undecided("anchors:"+lvl, "-", err.Error())
			continue
		}
		lv := e.lv
		fns := append([]*ssa.Function(nil), e.fns...)
		sort.Slice(fns, func(i, j int) bool { return fname(fns[i]) < fname(fns[j]) })
		for _, f := range fns {
			if f.Blocks == nil {
				continue
			}
			t := e.funcState(f)
			n := 0
			for _, b := range f.Blocks {
				for _, ins := range b.Instrs {
					st, ok := ins.(*ssa.Store)
					if !ok {
						continue
					}
					tab, fld, idx, ok := t.tableElemAddr(st.Addr)
					if !ok || fld != lv.fFlags {
						continue
					}
					if v, isC := constBool(st.Val); !isC || v {
						continue
					}
					n++
					c := fmt.Sprintf("%s|flag cleared#%d", fname(f), n)
					// a fresh table under construction: its slots are the function's own
					if isLocalRoot(tab) && e.localTableOwned(t, tab) {
						res.ok(c, p.ipos(st), "table built by this function")
						continue
					}
					// the slot is known to be unshared here (the gate ran for this index, or the flag was just tested)
					if facts := t.factsAt(st); idx != nil && facts[factKey{tab, idx}] {
						res.ok(c, p.ipos(st), "the slot is already unshared at this point (gate / flag test)")
						continue
					}
					gated := false
					for _, y := range b.Instrs {
						if y == ssa.Instruction(st) {
							break
						}
						g, ok := y.(*ssa.Call)
						if !ok {
							continue
						}
						callee := g.Call.StaticCallee()
						if callee == nil {
							continue
						}
						targs := t.tableArgs(g.Call.Args)
						if len(targs) == 0 {
							continue
						}
						if sm := e.summary(callee, boolCtxArgs(t, callee, g.Call.Args)); sm != nil {
							for ei, est := range sm.establish {
								if tb, ok := targs[est[0]]; ok && est[1] < len(g.Call.Args) && tb+sm.estPaths[ei] == tab && g.Call.Args[est[1]] == idx {
									gated = true
								}
							}
						}
					}
					if gated {
						res.ok(c, p.ipos(st), "the gate ran for this slot earlier in the block")
						continue
					}
					okOwned := false
					why := "no container is stored into the same slot in this block"
					for _, y := range b.Instrs {
						s2, ok := y.(*ssa.Store)
						if !ok {
							continue
						}
						tb2, f2, idx2, ok2 := t.tableElemAddr(s2.Addr)
						if !ok2 || f2 != lv.fCont || tb2 != tab || idx2 != idx {
							continue
						}
						var bad []string
						onlyParams := true
						for _, a := range t.provOf(s2.Val) {
							if a.k != aParam {
								onlyParams = false
							}
						}
						if t.ownedAt(s2.Val, t.factsAt(s2), &bad) {
							okOwned = true
						} else if onlyParams {
							okOwned = true // a container handed in by the caller: the obligation is the caller's (A3 checks it at every call site)
						} else {
							why = fmt.Sprintf("the container stored next to it at %s is not owned: %v", p.ipos(s2), bad)
						}
					}
					if okOwned {
						res.ok(c, p.ipos(st), "an owned container is stored into the same slot")
					} else {
						res.bad(c, p.ipos(st), "needCopyOnWrite["+idxName(idx)+"] is cleared but "+why+": a container that is still shared becomes writable in place")
					}
				}
			}
		}
	}
	return res
}

func idxName(v ssa.Value) string {
	if v == nil {
		return "*"
	}
	return v.Name()
}
