package main

// Engine OWN (DESIGN §3.2): interprocedural ownership / effect / alias summaries over go/ssa.
//
// Per function: abstract regions (parameter-shallow, parameter-deep, allocation sites, call-result
// sites, globals, closures); flow-insensitive points-to over SSA values; heap edges labelled with the
// static type of the stored value. Summaries Mut / Ret / Link are iterated to a fixpoint over all
// functions of the repository (plus container/heap, which calls back into repo code).

import (
	"fmt"
	"go/types"
	"sort"
	"strings"

	"golang.org/x/tools/go/ssa"
)

type onode struct {
	kind string // "ps" param-shallow, "pd" param-deep, "alloc", "call", "global", "closure"
	idx  int
	desc string
	fn   *ssa.Function
	bind []ssa.Value
}

type nset map[*onode]bool

func (s nset) addAll(o nset) bool {
	ch := false
	for n := range o {
		if !s[n] {
			s[n] = true
			ch = true
		}
	}
	return ch
}

type oedge struct {
	to  *onode
	typ types.Type
}

// eff: effect of a function on one of its parameters.
type eff struct {
	shallow, deep bool
	cells         map[string]string // cell class -> witness ("" cell = raw memory of the argument itself)
}

type retinfo struct {
	fresh  bool
	is     map[int]bool // result may be the parameter value itself
	isDeep map[int]bool // result may be a pointer loaded from the parameter's memory
	reach  map[int]bool // a fresh result holds pointers into the parameter's memory
	global bool
}

type summary struct {
	mut   map[int]*eff
	ret   []*retinfo
	links map[[2]int]bool // memory of param [1] may become reachable from param [0]
}

func newSummary(nres int) *summary {
	s := &summary{mut: map[int]*eff{}, links: map[[2]int]bool{}}
	for i := 0; i < nres; i++ {
		s.ret = append(s.ret, &retinfo{is: map[int]bool{}, isDeep: map[int]bool{}, reach: map[int]bool{}})
	}
	return s
}

func ikeys(m map[int]bool) []int {
	var o []int
	for k := range m {
		o = append(o, k)
	}
	sort.Ints(o)
	return o
}

func (s *summary) key() string {
	var parts []string
	for k, e := range s.mut {
		var cs []string
		for c := range e.cells {
			cs = append(cs, c)
		}
		sort.Strings(cs)
		parts = append(parts, fmt.Sprintf("m%d:%v%v%v", k, e.shallow, e.deep, cs))
	}
	for i, r := range s.ret {
		parts = append(parts, fmt.Sprintf("r%d:%v%v%v%v%v", i, r.fresh, ikeys(r.is), ikeys(r.isDeep), ikeys(r.reach), r.global))
	}
	for l := range s.links {
		parts = append(parts, fmt.Sprintf("l%v", l))
	}
	sort.Strings(parts)
	return strings.Join(parts, ";")
}

type ownEngine struct {
	p      *Prog
	sums   map[*ssa.Function]*summary
	impls  map[string][]*ssa.Function
	fns    []*ssa.Function
	rounds int
	dead   map[*ssa.Function]map[*ssa.BasicBlock]bool // NE-pruned blocks
}

// OWN builds (once per Prog) the summaries.
func (p *Prog) OWN() *ownEngine {
	if p.own != nil {
		return p.own
	}
	a := &ownEngine{p: p, sums: map[*ssa.Function]*summary{}, impls: map[string][]*ssa.Function{}, dead: map[*ssa.Function]map[*ssa.BasicBlock]bool{}}
	for f := range p.AllFns {
		pp := fnPkgPath(f)
		if !strings.HasPrefix(pp, modPath) && pp != "container/heap" {
			continue
		}
		a.sums[f] = newSummary(f.Signature.Results().Len())
		a.fns = append(a.fns, f)
	}
	sort.Slice(a.fns, func(i, j int) bool { return a.fns[i].String() < a.fns[j].String() })
	for _, f := range a.fns {
		a.dead[f] = nePrunedBlocks(p, f)
	}
	for round := 0; round < 60; round++ {
		ch := 0
		for _, f := range a.fns {
			if a.analyze(f) {
				ch++
			}
		}
		a.rounds = round + 1
		if ch == 0 {
			break
		}
	}
	p.own = a
	return a
}

func hasPointers(t types.Type) bool {
	switch u := t.Underlying().(type) {
	case *types.Basic:
		return u.Kind() == types.UnsafePointer
	case *types.Pointer, *types.Slice, *types.Map, *types.Chan, *types.Interface, *types.Signature:
		return true
	case *types.Struct:
		for i := 0; i < u.NumFields(); i++ {
			if hasPointers(u.Field(i).Type()) {
				return true
			}
		}
	case *types.Array:
		return hasPointers(u.Elem())
	case *types.Tuple:
		for i := 0; i < u.Len(); i++ {
			if hasPointers(u.At(i).Type()) {
				return true
			}
		}
	}
	return false
}

// compatible: may a stored value of static type e be observed by a load of type t?
func compatible(e, t types.Type) bool {
	if e == nil || t == nil {
		return true
	}
	if types.Identical(e, t) {
		return true
	}
	_, ei := e.Underlying().(*types.Interface)
	ti, tok := t.Underlying().(*types.Interface)
	if tok {
		if ei {
			return true
		}
		return types.Implements(e, ti)
	}
	if ei {
		return types.Implements(t, e.Underlying().(*types.Interface))
	}
	if st, ok := t.Underlying().(*types.Struct); ok {
		for i := 0; i < st.NumFields(); i++ {
			if compatible(e, st.Field(i).Type()) {
				return true
			}
		}
	}
	if at, ok := t.Underlying().(*types.Array); ok {
		return compatible(e, at.Elem())
	}
	if st, ok := e.Underlying().(*types.Struct); ok {
		for i := 0; i < st.NumFields(); i++ {
			if compatible(st.Field(i).Type(), t) {
				return true
			}
		}
	}
	if tu, ok := t.Underlying().(*types.Tuple); ok {
		for i := 0; i < tu.Len(); i++ {
			if compatible(e, tu.At(i).Type()) {
				return true
			}
		}
	}
	if b, ok := t.Underlying().(*types.Basic); ok && b.Kind() == types.UnsafePointer {
		return true
	}
	if b, ok := e.Underlying().(*types.Basic); ok && b.Kind() == types.UnsafePointer {
		return true
	}
	// slices/pointers reinterpreted through unsafe keep their region; labels of different
	// slice element types are compatible only if identical (handled above).
	return false
}

type fstate struct {
	a      *ownEngine
	fn     *ssa.Function
	ps, pd []*onode
	pts    map[ssa.Value]nset
	succ   map[*onode][]oedge
	nodes  map[ssa.Instruction]*onode
	global map[string]*onode
	sum    *summary
	ch     bool
}

func (st *fstate) get(v ssa.Value) nset {
	if s, ok := st.pts[v]; ok {
		return s
	}
	s := nset{}
	st.pts[v] = s
	switch x := v.(type) {
	case *ssa.Parameter:
		for i, p := range st.fn.Params {
			if p == x {
				s[st.ps[i]] = true
				if _, isStruct := x.Type().Underlying().(*types.Struct); isStruct {
					s[st.pd[i]] = true // struct by value: its pointer fields address caller memory
				}
			}
		}
	case *ssa.FreeVar:
		for i, p := range st.fn.FreeVars {
			if p == x {
				s[st.ps[len(st.fn.Params)+i]] = true
			}
		}
	case *ssa.Global:
		s[st.glob(x.String())] = true
	case *ssa.Function:
		s[&onode{kind: "closure", fn: x, desc: x.String()}] = true
	}
	return s
}

func (st *fstate) glob(name string) *onode {
	if n, ok := st.global[name]; ok {
		return n
	}
	n := &onode{kind: "global", desc: name}
	st.global[name] = n
	return n
}

func (st *fstate) site(i ssa.Instruction, kind, desc string) *onode {
	if n, ok := st.nodes[i]; ok {
		return n
	}
	n := &onode{kind: kind, desc: desc}
	st.nodes[i] = n
	return n
}

func (st *fstate) add(v ssa.Value, s nset) {
	if st.get(v).addAll(s) {
		st.ch = true
	}
}

func (st *fstate) addEdge(from, to *onode, t types.Type) {
	for _, e := range st.succ[from] {
		if e.to == to && (e.typ == t || (e.typ != nil && t != nil && types.Identical(e.typ, t))) {
			return
		}
	}
	st.succ[from] = append(st.succ[from], oedge{to, t})
	st.ch = true
}

func (st *fstate) load(ps nset, t types.Type) nset {
	out := nset{}
	for n := range ps {
		switch n.kind {
		case "ps":
			out[st.pd[n.idx]] = true
		case "pd", "call", "global":
			out[n] = true
		}
		for _, e := range st.succ[n] {
			if compatible(e.typ, t) {
				out[e.to] = true
			}
		}
	}
	return out
}

func (st *fstate) reach(ps nset) nset {
	out := nset{}
	var w []*onode
	for n := range ps {
		out[n] = true
		w = append(w, n)
	}
	for len(w) > 0 {
		n := w[len(w)-1]
		w = w[:len(w)-1]
		var next []*onode
		if n.kind == "ps" {
			next = append(next, st.pd[n.idx])
		}
		for _, e := range st.succ[n] {
			next = append(next, e.to)
		}
		for _, m := range next {
			if !out[m] {
				out[m] = true
				w = append(w, m)
			}
		}
	}
	return out
}

func (st *fstate) mark(n *onode, cell, why string) {
	var k int
	var deep bool
	switch n.kind {
	case "ps":
		k, deep = n.idx, false
	case "pd":
		k, deep = n.idx, true
	default:
		return
	}
	e := st.sum.mut[k]
	if e == nil {
		e = &eff{cells: map[string]string{}}
		st.sum.mut[k] = e
		st.ch = true
	}
	if deep && !e.deep {
		e.deep = true
		st.ch = true
	}
	if !deep && !e.shallow {
		e.shallow = true
		st.ch = true
	}
	if _, ok := e.cells[cell]; !ok {
		e.cells[cell] = why
		st.ch = true
	}
}

func (st *fstate) store(addr nset, val nset, vt types.Type, cells []string, why string) {
	for n := range addr {
		for _, c := range cells {
			st.mark(n, c, why)
		}
	}
	if vt == nil || !hasPointers(vt) {
		return
	}
	for n := range addr {
		for m := range val {
			st.addEdge(n, m, vt)
		}
		if n.kind == "ps" || n.kind == "pd" {
			for m := range st.reach(val) {
				if (m.kind == "ps" || m.kind == "pd") && m.idx != n.idx {
					k := [2]int{n.idx, m.idx}
					if !st.sum.links[k] {
						st.sum.links[k] = true
						st.ch = true
					}
				}
			}
		}
	}
}

func typeShort(t types.Type) string {
	if p, ok := t.(*types.Pointer); ok {
		t = p.Elem()
	}
	if n, ok := t.(*types.Named); ok {
		pk := ""
		if n.Obj().Pkg() != nil && n.Obj().Pkg().Path() != modPath {
			pk = strings.TrimPrefix(n.Obj().Pkg().Path(), modPath+"/") + "."
		}
		return pk + n.Obj().Name()
	}
	return t.String()
}

// cellOf: the struct field an address (or slice value) belongs to, type-qualified.
func cellOf(v ssa.Value) string {
	for i := 0; i < 8; i++ {
		switch x := v.(type) {
		case *ssa.FieldAddr:
			st := x.X.Type().Underlying().(*types.Pointer).Elem()
			return typeShort(st) + "." + st.Underlying().(*types.Struct).Field(x.Field).Name()
		case *ssa.Field:
			st := x.X.Type()
			return typeShort(st) + "." + st.Underlying().(*types.Struct).Field(x.Field).Name()
		case *ssa.IndexAddr:
			v = x.X
		case *ssa.UnOp:
			v = x.X
		case *ssa.Slice:
			v = x.X
		case *ssa.Convert:
			v = x.X
		case *ssa.ChangeType:
			v = x.X
		default:
			return ""
		}
	}
	return ""
}

// storeCells: which cell classes a store through addr of a value of type vt writes.
func storeCells(addr ssa.Value, vt types.Type) []string {
	if c := cellOf(addr); c != "" {
		return []string{c}
	}
	// whole-struct store through a pointer: writes every field
	if pt, ok := addr.Type().Underlying().(*types.Pointer); ok {
		if st, ok := pt.Elem().Underlying().(*types.Struct); ok {
			var out []string
			for i := 0; i < st.NumFields(); i++ {
				out = append(out, typeShort(pt.Elem())+"."+st.Field(i).Name())
			}
			if len(out) > 0 {
				return out
			}
		}
	}
	return []string{""}
}

func (a *ownEngine) pos(i ssa.Instruction) string { return a.p.ipos(i) }

func (st *fstate) applyCall(instr ssa.Instruction, common *ssa.CallCommon, result ssa.Value) {
	a := st.a
	if b, ok := common.Value.(*ssa.Builtin); ok {
		switch b.Name() {
		case "append":
			s := st.get(common.Args[0])
			et := common.Args[0].Type().Underlying().(*types.Slice).Elem()
			val := nset{}
			if len(common.Args) > 1 {
				if hasPointers(et) {
					val = st.load(st.get(common.Args[1]), et)
				}
				st.store(s, val, et, []string{cellOf(common.Args[0])}, "append@"+a.pos(instr))
			}
			if result != nil {
				st.add(result, s)
				n := st.site(instr, "alloc", "append")
				st.add(result, nset{n: true})
				if hasPointers(et) {
					for m := range val {
						st.addEdge(n, m, et)
					}
					for m := range st.load(s, et) {
						st.addEdge(n, m, et)
					}
				}
			}
		case "copy":
			d := st.get(common.Args[0])
			var et types.Type
			if sl, ok := common.Args[0].Type().Underlying().(*types.Slice); ok {
				et = sl.Elem()
			}
			val := nset{}
			if et != nil && hasPointers(et) {
				val = st.load(st.get(common.Args[1]), et)
			}
			st.store(d, val, et, []string{cellOf(common.Args[0])}, "copy@"+a.pos(instr))
		case "clear":
			st.store(st.get(common.Args[0]), nset{}, nil, []string{cellOf(common.Args[0])}, "clear@"+a.pos(instr))
		case "Slice", "SliceData", "String", "StringData", "Add", "ssa:wrapnilchk", "min", "max":
			// unsafe reinterpretation / pointer arithmetic: the result addresses the operand's memory
			if result != nil && hasPointers(result.Type()) {
				for _, av := range common.Args {
					if hasPointers(av.Type()) {
						st.add(result, st.get(av))
					}
				}
			}
		}
		return
	}
	var callees []*ssa.Function
	args := common.Args
	perCalleeArgs := map[*ssa.Function][]ssa.Value{}
	if common.IsInvoke() {
		callees = a.lookupImpls(common)
		args = append([]ssa.Value{common.Value}, common.Args...)
	} else if f := common.StaticCallee(); f != nil {
		callees = []*ssa.Function{f}
		if mc, ok := common.Value.(*ssa.MakeClosure); ok {
			args = append(append([]ssa.Value{}, common.Args...), mc.Bindings...)
		}
	} else {
		for n := range st.get(common.Value) {
			if n.kind == "closure" && n.fn != nil {
				callees = append(callees, n.fn)
				perCalleeArgs[n.fn] = append(append([]ssa.Value{}, common.Args...), n.bind...)
			}
		}
		if len(callees) == 0 {
			// call of a function-typed parameter (cb, yield): assumed to read its scalar arguments only
			return
		}
	}
	for _, f := range callees {
		cargs := args
		if pa, ok := perCalleeArgs[f]; ok {
			cargs = pa
		}
		sum := a.sums[f]
		if f.Blocks == nil || sum == nil {
			st.external(instr, f, cargs, result)
			continue
		}
		for k, e := range sum.mut {
			if k >= len(cargs) {
				continue
			}
			direct := st.get(cargs[k])
			argCell := cellOf(cargs[k])
			guarded := false
			if _, onlyCard := e.cells["bitmapContainer.cardinality"]; onlyCard && len(e.cells) == 1 {
				// cardinality cache fill reached only under the lazy sentinel (DESIGN §3.2 idiom 4)
				guarded = a.p.sentinelGuarded(instr, cargs[k])
			}
			if guarded {
				continue
			}
			for cell, w := range e.cells {
				why := fmt.Sprintf("%s @%s -> %s", fname(f), a.pos(instr), w)
				if len(why) > 600 {
					why = why[:600] + "…"
				}
				c := cell
				if c == "" {
					c = argCell
				}
				if e.shallow {
					for n := range direct {
						st.mark(n, c, why)
					}
				}
				if e.deep {
					for n := range direct {
						switch n.kind {
						case "ps":
							st.mark(st.pd[n.idx], c, why)
						case "pd":
							st.mark(n, c, why)
						}
						for m := range st.reach(nset{n: true}) {
							if m != n {
								st.mark(m, c, why)
							}
						}
					}
				}
			}
		}
		for l := range sum.links {
			k, j := l[0], l[1]
			if k < len(cargs) && j < len(cargs) {
				for n := range st.get(cargs[k]) {
					for m := range st.get(cargs[j]) {
						st.addEdge(n, m, nil)
					}
					if n.kind == "ps" || n.kind == "pd" {
						for m := range st.reach(st.get(cargs[j])) {
							if (m.kind == "ps" || m.kind == "pd") && m.idx != n.idx {
								kk := [2]int{n.idx, m.idx}
								if !st.sum.links[kk] {
									st.sum.links[kk] = true
									st.ch = true
								}
							}
						}
					}
				}
			}
		}
		if result != nil {
			for _, r := range sum.ret {
				var fresh *onode
				if r.fresh {
					fresh = st.site(instr, "call", "fresh:"+f.Name())
					st.add(result, nset{fresh: true})
				}
				if r.global {
					st.add(result, nset{st.glob("ret-global"): true})
				}
				for p := range r.is {
					if p < len(cargs) {
						st.add(result, st.get(cargs[p]))
					}
				}
				for p := range r.isDeep {
					if p < len(cargs) {
						// memory loaded from the argument at any depth
						direct := st.get(cargs[p])
						deep := nset{}
						for n := range st.reach(direct) {
							if !direct[n] || n.kind == "pd" {
								deep[n] = true
							}
						}
						for n := range direct {
							if n.kind == "ps" {
								deep[st.pd[n.idx]] = true
							}
						}
						st.add(result, deep)
					}
				}
				for p := range r.reach {
					if p < len(cargs) && fresh != nil {
						for m := range st.get(cargs[p]) {
							st.addEdge(fresh, m, nil)
						}
						for m := range st.load(st.get(cargs[p]), nil) {
							st.addEdge(fresh, m, nil)
						}
					}
				}
			}
		}
	}
}

// external: std-lib / assembly effect table (DESIGN §3.1).
func (st *fstate) external(instr ssa.Instruction, f *ssa.Function, args []ssa.Value, result ssa.Value) {
	name := f.String()
	mutArg := func(i int) {
		if i < len(args) {
			c := cellOf(args[i])
			for n := range st.get(args[i]) {
				st.mark(n, c, "ext "+name+" @"+st.a.pos(instr))
			}
		}
	}
	switch {
	case strings.HasPrefix(name, "(encoding/binary.") && strings.Contains(name, ").PutUint"):
		mutArg(1)
	case strings.HasPrefix(name, "(encoding/binary.") && strings.Contains(name, ").AppendUint"):
		mutArg(1)
	case name == "io.ReadFull", name == "io.ReadAtLeast":
		mutArg(1)
	case name == "encoding/binary.Read":
		mutArg(2)
	case name == "slices.Sort" || strings.HasPrefix(name, "slices.Sort[") || strings.HasPrefix(name, "slices.SortFunc") || strings.HasPrefix(name, "slices.Reverse"):
		mutArg(0)
	case strings.HasPrefix(name, "sort.") && (strings.HasSuffix(name, "Sort") || strings.HasSuffix(name, "Slice") || strings.HasSuffix(name, "Stable") || strings.HasSuffix(name, "Ints")):
		mutArg(0)
	case strings.HasPrefix(name, "sync/atomic.") || strings.HasPrefix(name, "(*sync/atomic."):
		mutArg(0)
	case strings.HasPrefix(name, "(*sync.") || strings.HasPrefix(name, "(*bytes.Buffer)") || strings.HasPrefix(name, "(*math/big.Int)"):
		// receiver-state updates of sync primitives / buffers / big ints: written cell is the receiver object
		if strings.HasPrefix(name, "(*math/big.Int)") {
			if !bigIntReadOnly[f.Name()] {
				mutArg(0) // z.Op(x, y) style: the receiver is the destination
			}
		} else if strings.HasPrefix(name, "(*bytes.Buffer)") {
			mutArg(0)
		}
	case inRepo(f) && f.Blocks == nil:
		// assembly: writes only a parameter named buffer/result (see assumption)
		for i := 0; i < f.Signature.Params().Len(); i++ {
			n := f.Signature.Params().At(i).Name()
			if n == "buffer" || n == "result" || n == "out" || n == "dst" {
				mutArg(i)
			}
		}
	}
	if result != nil && hasPointers(result.Type()) {
		n := st.site(instr, "call", "ext:"+name)
		st.add(result, nset{n: true})
		if opaqueReaders[name] {
			// assumption (stated in evidence): a standard-library reader hands its bytes out only by copying
			// them into the buffer given to Read; the wrapper itself is of a foreign type that implements none
			// of the repository's interfaces, so the library cannot reach the wrapped slice through it.
			return
		}
		// results of external calls may alias their pointer arguments (e.g. bytes.NewBuffer(buf), big.Int.Set)
		for _, av := range args {
			if hasPointers(av.Type()) {
				for m := range st.get(av) {
					st.addEdge(n, m, nil)
				}
			}
		}
	}
}

// methods of *big.Int that only read their receiver
var bigIntReadOnly = map[string]bool{
	"Bit": true, "BitLen": true, "Sign": true, "Cmp": true, "CmpAbs": true, "Int64": true, "Uint64": true,
	"IsInt64": true, "IsUint64": true, "String": true, "Text": true, "Bytes": true, "Bits": true,
	"TrailingZeroBits": true, "ProbablyPrime": true, "Format": true, "Append": true, "Float64": true,
	"MarshalText": true, "MarshalJSON": true, "GobEncode": true,
}

var opaqueReaders = map[string]bool{
	"bytes.NewReader": true, "strings.NewReader": true, "bufio.NewReader": true, "bufio.NewReaderSize": true,
	"encoding/base64.NewDecoder": true,
}

func (a *ownEngine) lookupImpls(c *ssa.CallCommon) []*ssa.Function {
	key := c.Value.Type().String() + "." + c.Method.Name()
	if r, ok := a.impls[key]; ok {
		return r
	}
	var out []*ssa.Function
	iface, _ := c.Value.Type().Underlying().(*types.Interface)
	if iface != nil {
		for _, fn := range a.fns {
			if fn.Signature.Recv() == nil || fn.Name() != c.Method.Name() || fn.Synthetic != "" {
				continue
			}
			if types.Implements(fn.Signature.Recv().Type(), iface) {
				out = append(out, fn)
			}
		}
	}
	a.impls[key] = out
	return out
}

func (a *ownEngine) analyze(fn *ssa.Function) bool {
	if fn.Blocks == nil {
		return false
	}
	sum := a.sums[fn]
	before := sum.key()
	st := &fstate{a: a, fn: fn, pts: map[ssa.Value]nset{}, succ: map[*onode][]oedge{}, nodes: map[ssa.Instruction]*onode{}, global: map[string]*onode{}, sum: sum}
	np := len(fn.Params) + len(fn.FreeVars)
	for i := 0; i < np; i++ {
		st.ps = append(st.ps, &onode{kind: "ps", idx: i})
		st.pd = append(st.pd, &onode{kind: "pd", idx: i})
	}
	dead := a.dead[fn]
	for iter := 0; iter < 200; iter++ {
		st.ch = false
		for _, b := range fn.Blocks {
			if dead[b] {
				continue
			}
			for _, ins := range b.Instrs {
				st.step(ins)
			}
		}
		if !st.ch {
			break
		}
	}
	for _, b := range fn.Blocks {
		if len(b.Instrs) == 0 || dead[b] {
			continue
		}
		if r, ok := b.Instrs[len(b.Instrs)-1].(*ssa.Return); ok {
			for i, v := range r.Results {
				if !hasPointers(v.Type()) {
					continue
				}
				ri := sum.ret[i]
				direct := st.get(v)
				if c, ok := v.(*ssa.Const); ok && c.IsNil() {
					continue
				}
				for n := range direct {
					switch n.kind {
					case "ps":
						ri.is[n.idx] = true
					case "pd":
						ri.isDeep[n.idx] = true
					case "global":
						ri.global = true
					default:
						ri.fresh = true
					}
				}
				for n := range st.reach(direct) {
					if direct[n] {
						continue
					}
					if n.kind == "ps" || n.kind == "pd" {
						ri.reach[n.idx] = true
					}
				}
				for k := range ri.is {
					delete(ri.reach, k)
				}
				for k := range ri.isDeep {
					delete(ri.reach, k)
				}
			}
		}
	}
	return sum.key() != before
}

func (st *fstate) step(ins ssa.Instruction) {
	switch x := ins.(type) {
	case *ssa.Alloc:
		st.add(x, nset{st.site(x, "alloc", "alloc"): true})
	case *ssa.MakeSlice:
		st.add(x, nset{st.site(x, "alloc", "makeslice"): true})
	case *ssa.MakeMap:
		st.add(x, nset{st.site(x, "alloc", "makemap"): true})
	case *ssa.MakeChan:
		st.add(x, nset{st.site(x, "alloc", "makechan"): true})
	case *ssa.MakeClosure:
		n := st.site(x, "closure", x.Fn.String())
		n.fn = x.Fn.(*ssa.Function)
		n.bind = x.Bindings
		for _, b := range x.Bindings {
			for m := range st.get(b) {
				st.addEdge(n, m, nil)
			}
		}
		st.add(x, nset{n: true})
	case *ssa.FieldAddr:
		st.add(x, st.get(x.X))
	case *ssa.IndexAddr:
		st.add(x, st.get(x.X))
	case *ssa.Field:
		st.add(x, st.get(x.X))
	case *ssa.Index:
		st.add(x, st.get(x.X))
	case *ssa.Lookup:
		if hasPointers(x.Type()) {
			st.add(x, st.load(st.get(x.X), x.Type()))
		}
	case *ssa.Slice:
		st.add(x, st.get(x.X))
	case *ssa.Phi:
		dead := st.a.dead[st.fn]
		for i, e := range x.Edges {
			if dead != nil && dead[x.Block().Preds[i]] {
				continue
			}
			st.add(x, st.get(e))
		}
	case *ssa.MakeInterface:
		st.add(x, st.get(x.X))
	case *ssa.ChangeInterface:
		st.add(x, st.get(x.X))
	case *ssa.ChangeType:
		st.add(x, st.get(x.X))
	case *ssa.Convert:
		st.add(x, st.get(x.X))
	case *ssa.SliceToArrayPointer:
		st.add(x, st.get(x.X))
	case *ssa.TypeAssert:
		st.add(x, st.get(x.X))
	case *ssa.Extract:
		st.add(x, st.get(x.Tuple))
	case *ssa.UnOp:
		if x.Op.String() == "*" || x.Op.String() == "<-" {
			if hasPointers(x.Type()) {
				st.add(x, st.load(st.get(x.X), x.Type()))
			}
		}
	case *ssa.Store:
		st.store(st.get(x.Addr), st.get(x.Val), x.Val.Type(), storeCells(x.Addr, x.Val.Type()), "store @"+st.a.pos(x))
	case *ssa.MapUpdate:
		st.store(st.get(x.Map), st.get(x.Value), x.Value.Type(), []string{"map"}, "mapupdate @"+st.a.pos(x))
	case *ssa.Send:
		st.store(st.get(x.Chan), st.get(x.X), x.X.Type(), []string{"chan"}, "send @"+st.a.pos(x))
	case *ssa.Call:
		st.applyCall(x, &x.Call, x)
	case *ssa.Go:
		st.applyCall(x, &x.Call, nil)
	case *ssa.Defer:
		st.applyCall(x, &x.Call, nil)
	case *ssa.Range:
		st.add(x, st.get(x.X))
	case *ssa.Next:
		if hasPointers(x.Type()) {
			st.add(x, st.load(st.get(x.Iter), x.Type()))
		}
	case *ssa.Select:
		for _, s := range x.States {
			if s.Send != nil {
				st.store(st.get(s.Chan), st.get(s.Send), s.Send.Type(), []string{"chan"}, "select-send @"+st.a.pos(x))
			} else {
				st.add(x, st.load(st.get(s.Chan), nil))
			}
		}
	}
}

// ---- queries ----

func (a *ownEngine) Sum(f *ssa.Function) *summary { return a.sums[f] }

// paramIndexOf: index into Params (receiver is 0 for methods).
func paramName(f *ssa.Function, k int) string {
	if k < len(f.Params) {
		return f.Params[k].Name()
	}
	if k-len(f.Params) < len(f.FreeVars) {
		return "freevar:" + f.FreeVars[k-len(f.Params)].Name()
	}
	return fmt.Sprintf("#%d", k)
}

func (a *ownEngine) dump(filter string) {
	for _, f := range a.fns {
		if !strings.Contains(f.String(), filter) {
			continue
		}
		s := a.sums[f]
		var m []string
		for k, e := range s.mut {
			var cs []string
			for c := range e.cells {
				cs = append(cs, c)
			}
			sort.Strings(cs)
			d := ""
			if e.shallow {
				d += "S"
			}
			if e.deep {
				d += "D"
			}
			m = append(m, fmt.Sprintf("%s:%s%v", paramName(f, k), d, cs))
		}
		sort.Strings(m)
		var r []string
		for i, ri := range s.ret {
			r = append(r, fmt.Sprintf("r%d{fresh=%v is=%v isDeep=%v reach=%v glob=%v}", i, ri.fresh, ikeys(ri.is), ikeys(ri.isDeep), ikeys(ri.reach), ri.global))
		}
		fmt.Printf("%-70s mut=%v ret=%v links=%d\n", fname(f), m, r, len(s.links))
	}
	fmt.Println("rounds:", a.rounds, "functions:", len(a.fns))
}
