package main

import (
	"fmt"
	"go/token"
	"strings"

	"golang.org/x/tools/go/ssa"
)

func init() {
	register("P6", "no producer/consumer cycle through the coordinating goroutine: when a function feeds work to its worker goroutines in a loop of its own (not in a goroutine), the channel on which those workers deliver their results is drained by another goroutine — otherwise the coordinator blocks on the work channel while every worker blocks on the result channel as soon as more items are in flight than the buffers hold", ruleP6)
}

// mapToSpawner maps a channel value used inside callee (parameter, free variable, *free variable) to the
// value the spawning instruction passes for it.
func mapToSpawner(callee *ssa.Function, common *ssa.CallCommon, v ssa.Value) ssa.Value {
	switch x := v.(type) {
	case *ssa.Parameter:
		for i, prm := range callee.Params {
			if prm == x && i < len(common.Args) {
				return common.Args[i]
			}
		}
	case *ssa.FreeVar:
		if mc, ok := common.Value.(*ssa.MakeClosure); ok {
			for i, fv := range callee.FreeVars {
				if fv == x && i < len(mc.Bindings) {
					return mc.Bindings[i]
				}
			}
		}
	case *ssa.UnOp:
		if x.Op == token.MUL {
			if fv, ok := x.X.(*ssa.FreeVar); ok {
				if mc, ok := common.Value.(*ssa.MakeClosure); ok {
					for i, v2 := range callee.FreeVars {
						if v2 == fv && i < len(mc.Bindings) {
							// the binding is the cell; its content is the channel
							if al, ok := mc.Bindings[i].(*ssa.Alloc); ok {
								for _, r := range *al.Referrers() {
									if st, ok := r.(*ssa.Store); ok && st.Addr == al {
										return st.Val
									}
								}
							}
							return mc.Bindings[i]
						}
					}
				}
			}
		}
	}
	return nil
}

type chanUse struct {
	recv, send map[ssa.Value]bool // channel origins (MakeChan of the spawner)
	perItem    map[ssa.Value]bool // sends that sit in a loop together with a receive (one answer per item taken)
}

// chanUsesOf collects, for function g reached through call `common` from the spawner, the spawner-level
// channels it receives from and sends on (one level of nested static calls is followed).
func chanUsesOf(g *ssa.Function, common *ssa.CallCommon, depth int) chanUse {
	u := chanUse{recv: map[ssa.Value]bool{}, send: map[ssa.Value]bool{}, perItem: map[ssa.Value]bool{}}
	if g == nil || g.Blocks == nil || depth > 2 {
		return u
	}
	var recvBlocks []*ssa.BasicBlock
	origin := func(v ssa.Value) ssa.Value {
		if o := chanOrigin(v, 0); o != nil {
			return o // a channel made in g itself: not shared with the spawner
		}
		if sv := mapToSpawner(g, common, v); sv != nil {
			return chanOrigin(sv, 0)
		}
		return nil
	}
	for _, b := range g.Blocks {
		for _, ins := range b.Instrs {
			switch x := ins.(type) {
			case *ssa.UnOp:
				if x.Op == token.ARROW {
					if o := origin(x.X); o != nil {
						u.recv[o] = true
						recvBlocks = append(recvBlocks, b)
					}
				}
			case *ssa.Send:
				if o := origin(x.Chan); o != nil {
					u.send[o] = true
					for _, rb := range recvBlocks {
						if blockReaches(b, rb) && blockReaches(rb, b) {
							u.perItem[o] = true
						}
					}
				}
			case *ssa.Select:
				for _, st := range x.States {
					if o := origin(st.Chan); o != nil {
						if st.Dir == 2 { // types.RecvOnly
							u.recv[o] = true
						} else {
							u.send[o] = true
						}
					}
				}
			}
		}
	}
	// receives that come later in block order than a send of the same loop
	for _, b := range g.Blocks {
		for _, ins := range b.Instrs {
			if x, ok := ins.(*ssa.Send); ok {
				if o := origin(x.Chan); o != nil && !u.perItem[o] {
					for _, rb := range recvBlocks {
						if blockReaches(b, rb) && blockReaches(rb, b) {
							u.perItem[o] = true
						}
					}
				}
			}
		}
	}
	return u
}

func ruleP6(p *Prog) *RuleResult {
	res := newResult("P6", ruleDoc["P6"], 2)
	for _, f := range p.sourceFns() {
		if f.Parent() != nil {
			continue
		}
		// goroutines started by f and their channel uses, in terms of f's channels
		type worker struct {
			g   *ssa.Go
			use chanUse
		}
		var workers []worker
		for _, b := range f.Blocks {
			for _, ins := range b.Instrs {
				if g, ok := ins.(*ssa.Go); ok {
					workers = append(workers, worker{g, chanUsesOf(g.Call.StaticCallee(), &g.Call, 0)})
				}
			}
		}
		if len(workers) == 0 {
			continue
		}
		// sends and receives of the coordinator itself
		inLoop := func(b *ssa.BasicBlock) bool {
			for _, s := range b.Succs {
				if blockReaches(s, b) {
					return true
				}
			}
			return false
		}
		n := 0
		type coordSend struct {
			snd  *ssa.Send
			work ssa.Value
			at   *ssa.BasicBlock // block of f from which the coordinator performs it
		}
		var sends []coordSend
		for _, b := range f.Blocks {
			for _, ins := range b.Instrs {
				switch x := ins.(type) {
				case *ssa.Send:
					if inLoop(b) {
						if w := chanOrigin(x.Chan, 0); w != nil {
							sends = append(sends, coordSend{x, w, b})
						}
					}
				case *ssa.Call:
					// func() { for ... { ch <- v } }()  — a closure run by the coordinator itself
					if mc, ok := x.Call.Value.(*ssa.MakeClosure); ok {
						cl := mc.Fn.(*ssa.Function)
						for _, cb := range cl.Blocks {
							for _, ci := range cb.Instrs {
								if cs, ok := ci.(*ssa.Send); ok && (inLoop(cb) || inLoop(b)) {
									if sv := mapToSpawner(cl, &x.Call, cs.Chan); sv != nil {
										if w := chanOrigin(sv, 0); w != nil {
											sends = append(sends, coordSend{cs, w, b})
										}
									}
								}
							}
						}
					}
				}
			}
		}
		for _, cs := range sends {
			{
				snd, work, b := cs.snd, cs.work, cs.at
				// workers consuming this channel, and the channels they answer on
				answers := map[ssa.Value]bool{}
				consumed := false
				for _, w := range workers {
					if w.use.recv[work] {
						consumed = true
						for o := range w.use.perItem {
							answers[o] = true
						}
					}
				}
				if !consumed {
					continue
				}
				n++
				c := fmt.Sprintf("%s|feeding loop#%d", fname(f), n)
				bad := ""
				for ans := range answers {
					// drained by a goroutine that is not one of the consumers?
					drainedElsewhere := false
					late := false
					for _, w := range workers {
						if w.use.recv[ans] && !w.use.recv[work] {
							// ... and it must already be running while the coordinator feeds: its go statement
							// comes before the feeding send on every path
							gb := w.g.Block()
							started := gb.Dominates(b) && gb != b
							if gb == b {
								for _, x := range b.Instrs {
									if x == ssa.Instruction(w.g) {
										started = true
										break
									}
									if x == ssa.Instruction(snd) {
										break
									}
								}
							}
							if started {
								drainedElsewhere = true
							} else {
								late = true
							}
						}
					}
					if drainedElsewhere {
						continue
					}
					if late {
						bad = "LATE:" + p.ipos(ans.(ssa.Instruction))
						continue
					}
					// drained by the coordinator inside the same loop (interleaved)?
					interleaved := false
					for _, b2 := range f.Blocks {
						for _, i2 := range b2.Instrs {
							if u, ok := i2.(*ssa.UnOp); ok && u.Op == token.ARROW && chanOrigin(u.X, 0) == ans {
								if blockReaches(b2, b) && blockReaches(b, b2) {
									interleaved = true
								}
							}
						}
					}
					if !interleaved {
						bad = p.ipos(ans.(ssa.Instruction))
					}
				}
				if strings.HasPrefix(bad, "LATE:") {
					res.bad(c, p.ipos(snd), fmt.Sprintf("the goroutine that takes the workers' answers from the channel made at %s is started only after the loop in which the coordinator feeds them: until then nobody drains that channel, and once its buffer is full workers and coordinator wait for each other", strings.TrimPrefix(bad, "LATE:")))
				} else if bad != "" {
					res.bad(c, p.ipos(snd), fmt.Sprintf("the coordinator sends work in a loop of its own, and the workers that take it answer on the channel made at %s, which only the coordinator reads — after this loop: once more items are in flight than the buffers hold, coordinator and workers wait for each other", bad))
				} else {
					res.ok(c, p.ipos(snd), "the workers' results are taken by another goroutine (or inside the same loop)")
				}
			}
		}
		// functions whose feeding loop runs in a goroutine of its own need nothing: count them for liveness
		for _, w := range workers {
			callee := w.g.Call.StaticCallee()
			if callee == nil {
				continue
			}
			for work := range w.use.send {
				consumed := false
				for _, w2 := range workers {
					if w2.g != w.g && w2.use.recv[work] {
						consumed = true
					}
				}
				if consumed && len(w.use.recv) == 0 {
					n++
					res.ok(fmt.Sprintf("%s|feeder goroutine#%d", fname(f), n), p.ipos(w.g), "work is fed from a goroutine of its own: the coordinator is free to collect results")
				}
			}
		}
	}
	return res
}
