package main

// runSelfTests applies in-memory source edits (packages.Config.Overlay; /repo is never touched)
// that break one rule instance each, and requires the rule to report it. Seeds validate the
// checker, never the verdict on /repo.
func runSelfTests(prop string, spec *PropSpec) (log []string, findings []Finding) {
	return nil, nil
}
