package main

import (
	"fmt"
	"os"
	"path/filepath"
	"strings"
)

// Self-test seeds (thorough tier, DESIGN §5): in-memory source edits (packages.Config.Overlay;
// /repo is never touched) that break exactly one rule instance each. The rule must report a
// finding whose key contains `expect`. A seed whose `old` text no longer occurs is reported as
// skipped; a seed that applies but is not detected means the checker lost its teeth and fails the
// check. Seeds validate the checker, never the verdict on /repo.
type seed struct {
	name   string
	rule   string
	file   string
	old    string
	new    string
	expect string
}

var seeds = []seed{
	{"AddMany guards its first element with a nil test instead of a length test", "IX0", "roaring.go", "func (rb *Bitmap) AddMany(dat []uint32) {\n\tif len(dat) == 0 {\n", "func (rb *Bitmap) AddMany(dat []uint32) {\n\tif dat == nil {\n", "Bitmap).AddMany|fixed position of dat"},
	{"roaring64 Select cuts its running index to 32 bits before comparing it with the bucket size", "U12", "roaring64/roaring64.go", "\t\tif bitmapSize := c.GetCardinality(); remaining >= bitmapSize {\n\t\t\tremaining -= bitmapSize\n\t\t} else {\n", "\t\tif _, err := c.Select(uint32(remaining)); err != nil {\n\t\t\tremaining -= c.GetCardinality()\n\t\t} else {\n", "Select|value cut to 32 bits"},
	{"previousAbsentValue inverts the word after shifting it up", "U4", "bitmapcontainer.go", "\tw := ^bc.bitmap[x] << (63 - uint(target%64))\n", "\tw := ^(bc.bitmap[x] << (63 - uint(target%64)))\n", "previousAbsentValue|complement of a shifted word"},
	{"RemoveRange lets an empty range ending at 0 through to end-1", "U11", "roaring.go", "func (rb *Bitmap) RemoveRange(rangeStart, rangeEnd uint64) {\n\tif rangeStart >= rangeEnd {\n", "func (rb *Bitmap) RemoveRange(rangeStart, rangeEnd uint64) {\n\tif rangeStart > rangeEnd {\n", "Bitmap).RemoveRange|<uint64> - 1"},
	{"Rank asks the first chunk that is not below x about the low half of x", "LOW1", "roaring.go", "\t\tif key > highbits(x) {\n\t\t\treturn size\n\t\t}\n\t\tif key < highbits(x) {\n\t\t\tsize += uint64(rb.highlowcontainer.getContainerAtIndex(i).getCardinality())\n", "\t\tif key < highbits(x) {\n\t\t\tsize += uint64(rb.highlowcontainer.getContainerAtIndex(i).getCardinality())\n", "Bitmap).Rank|low half"},
	{"the ParOr worker hands the range bounds to the in-place merge in exchanged order", "SW1", "parallel.go", "\t\t\t\tra = lazyIOrOnRange(ra, &b.highlowcontainer, spec.start, spec.end)\n", "\t\t\t\tra = lazyIOrOnRange(ra, &b.highlowcontainer, spec.end, spec.start)\n", "ParOr|call of lazyIOrOnRange"},
	{"the run validator leaves its pairwise loop early on a 16-bit last()+1", "U10", "runcontainer.go", "\t\t\tinnerInterval := rc.iv[inneridx]\n\n\t\t\tif outerInterval.equal(innerInterval) {\n", "\t\t\tinnerInterval := rc.iv[inneridx]\n\n\t\t\tif innerInterval.start > outerInterval.last()+1 {\n\t\t\t\tbreak\n\t\t\t}\n\t\t\tif outerInterval.equal(innerInterval) {\n", "validate|<interval16>.last() + 1"},
	{"NextMany asks the inner iterator before looking whether the buffer has room", "CUR5", "roaring.go", "\tfor n < len(buf) {\n\t\tif ii.iter == nil {\n\t\t\tbreak\n\t\t}\n\t\tmoreN := ii.iter.nextMany(ii.hs, buf[n:])\n", "\tfor ii.iter != nil {\n\t\tif n == len(buf) && n > 0 {\n\t\t\tbreak\n\t\t}\n\t\tmoreN := ii.iter.nextMany(ii.hs, buf[n:])\n", "NextMany|zero answer of inner nextMany"},
	{"lazyOrOnRange enters its tail loop with the key of the previous position", "CACHE1", "parallel.go", "\tif idx2 < length2 {\n\t\tkey2 = ra2.getKeyAtIndex(idx2)\n\t\tfor key2 <= last {\n\t\t\tanswer.appendCopy(*ra2, idx2)\n", "\tif idx2 < length2 {\n\t\tfor key2 <= last {\n\t\t\tanswer.appendCopy(*ra2, idx2)\n", "lazyOrOnRange|key2 beside cursor idx2"},
	{"roaring64 reverse iterator reads its bucket key after stepping to the next bucket", "CUR1", "roaring64/iterables64.go", "\tx := uint64(ii.iter.Next()) | ii.hs\n\tif !ii.iter.HasNext() {\n\t\tii.pos = ii.pos - 1\n\t\tii.init()\n\t}\n\treturn x\n", "\tlow := ii.iter.Next()\n\tif !ii.iter.HasNext() {\n\t\tii.pos = ii.pos - 1\n\t\tii.init()\n\t}\n\treturn uint64(low) | ii.hs\n", "intReverseIterator).Next|hs with inner"},
	{"NextMany64 hoists the chunk key out of the refill loop", "CUR1", "roaring.go", "\tn := 0\n\tfor n < len(buf) {\n\t\tif ii.iter == nil {\n\t\t\tbreak\n\t\t}\n\n\t\ths := uint64(ii.hs) | hs64\n", "\tn := 0\n\ths := uint64(ii.hs) | hs64\n\tfor n < len(buf) {\n\t\tif ii.iter == nil {\n\t\t\tbreak\n\t\t}\n\n", "NextMany64|hs with inner"},
	{"roaring64 AdvanceIfNeeded leaves an exhausted bucket under the cursor", "CUR2", "roaring64/iterables64.go", "\t\tii.iter.AdvanceIfNeeded(lowbits(minval))\n\n\t\tif !ii.iter.HasNext() {\n\t\t\tii.pos++\n\t\t\tii.init()\n\t\t}\n", "\t\tii.iter.AdvanceIfNeeded(lowbits(minval))\n", "AdvanceIfNeeded|after inner AdvanceIfNeeded"},
	{"intIterator.AdvanceIfNeeded advances inside whatever chunk the skip loop stopped on", "CUR3", "roaring.go", "\tif ii.HasNext() && ii.hs == to {\n\t\tii.iter.advanceIfNeeded(lowbits(minval))\n", "\tif ii.HasNext() {\n\t\tii.iter.advanceIfNeeded(lowbits(minval))\n", "intIterator).AdvanceIfNeeded|inner advanceIfNeeded of the low half"},
	{"unsetIterator.PeekNext folds the gap leg into the chunk leg", "CUR4", "roaring.go", "\tif iui.iter == nil {\n\t\treturn (uint32(iui.nextKey) << 16) | uint32(iui.emptyContainerVal)\n\t}\n\treturn uint32(iui.iter.peekNext()&maxLowBit) | iui.hs\n", "\tlow := iui.emptyContainerVal\n\tif iui.iter != nil {\n\t\tlow = iui.iter.peekNext()\n\t}\n\treturn uint32(low) | iui.hs\n", "unsetIterator).PeekNext|read of hs"},
	{"Bitmap.And tests the old receiver for emptiness", "RCV1", "roaring.go", "\t\t\t\t\tdiff := c1.iand(c2)\n\t\t\t\t\tif !diff.isEmpty() {\n", "\t\t\t\t\tdiff := c1.iand(c2)\n\t\t\t\t\tif !c1.isEmpty() {\n", "Bitmap).And|receiver of iand"},
	{"the galloping intersection test indexes with an unchecked search result", "GAL1", "setutil.go", "\t\t\tk1 = advanceUntil(largeset, k1, len(largeset), s2)\n\t\t\tif k1 == len(largeset) {\n\t\t\t\tbreak mainwhile\n\t\t\t}\n\t\t\ts1 = largeset[k1]\n", "\t\t\tk1 = advanceUntil(largeset, k1, len(largeset), s2)\n\t\t\ts1 = largeset[k1]\n", "result of advanceUntil"},
	{"andArrayCardinality gallops without reloading the cached element", "CACHE1", "runcontainer.go", "\t\tfor v < p.start {\n\t\t\tpos++\n\t\t\tif pos == maxpos {\n\t\t\t\tbreak mainloop\n\t\t\t}\n\t\t\tv = ac.content[pos]\n\t\t}\n", "\t\tif v < p.start {\n\t\t\tpos = advanceUntil(ac.content, pos, maxpos, p.start)\n\t\t\tif pos == maxpos {\n\t\t\t\tbreak mainloop\n\t\t\t}\n\t\t}\n", "andArrayCardinality|v beside cursor pos"},
	{"removeIndexRange shifts the flags by another distance than keys and containers", "R3", "roaringarray.go", "\tcopy(ra.needCopyOnWrite[begin:], ra.needCopyOnWrite[end:])\n", "\tcopy(ra.needCopyOnWrite[begin:], ra.needCopyOnWrite[end-begin:])\n", "removeIndexRange|P0 shifted"},
	{"removeAtIndex forgets to shift the flags", "R3", "roaringarray.go", "\tcopy(ra.needCopyOnWrite[i:], ra.needCopyOnWrite[i+1:])\n\n\tra.resize(len(ra.keys) - 1)\n", "\tra.resize(len(ra.keys) - 1)\n", "removeAtIndex|P0 shifted"},
	{"DenseSize adds one before widening the maximum", "U1", "roaring.go", "\tmaximum := 1 + uint64(rb.Maximum())\n", "\tmaximum := uint64(rb.Maximum() + 1)\n", "w32:(*roaring.Bitmap).DenseSize"},
	{"intIterator.AdvanceIfNeeded compares its chunk base with a bare key", "U5", "roaring.go", "\tto := minval & 0xffff0000\n", "\tto := uint32(highbits(minval))\n", "AdvanceIfNeeded|base field compared"},
	{"a 64-bit static operation copies the tail of x1 from the position of x2", "IDX1", "roaring64/roaring64.go", "\t\tanswer.highlowcontainer.appendCopyMany(x1.highlowcontainer, pos1, length1)\n", "\t\tanswer.highlowcontainer.appendCopyMany(x1.highlowcontainer, pos2, length1)\n", "cursor pos2"},
	{"the size bound narrows the cardinality to int", "U6", "roaring.go", "\t// two bytes per value, computed in 64 bits: int(cardinality) wraps on 32-bit targets\n\tvalsarray := 2 * cardinality\n", "\tvalsarray := uint64(arrayContainerSizeInBytes(int(cardinality)))\n", "BoundSerializedSizeInBytes|cardinality narrowed"},
	{"intIterator.init re-aims its run cursor field by field and forgets the offset", "R2", "roaring.go", "\t\t\tii.runIter = runIterator16{rc: t, curIndex: 0, curPosInIndex: 0}\n", "\t\t\tii.runIter.rc = t\n\t\t\tii.runIter.curIndex = 0\n", "init|re-aims runIter"},
	{"the stream adapter skips with Seek when the reader happens to offer it", "B7", "internal/byte_input.go", "func (b *ByteInputAdapter) SkipBytes(n int) error {\n", "func (b *ByteInputAdapter) SkipBytes(n int) error {\n\tif s, ok := b.r.(io.Seeker); ok {\n\t\tif _, err := s.Seek(int64(n), io.SeekCurrent); err != nil {\n\t\t\treturn err\n\t\t}\n\t\tb.readBytes += n\n\t\treturn nil\n\t}\n", "SkipBytes|reader asserted"},
	{"CheckedAdd uses the plain point kernel", "F8.point", "roaring.go", "\t\tC = C.iaddReturnMinimized(lowbits(x))\n\t\trb.highlowcontainer.setContainerAtIndex(i, C)\n\t\treturn C.getCardinality() > oldcard\n", "\t\tadded := C.iadd(lowbits(x))\n\t\t_ = oldcard\n\t\treturn added\n", "CheckedAdd|iadd"},
	{"bitmapContainer.andNotArray tests the receiver cardinality instead of the result", "F8.bitmap", "bitmapcontainer.go", "\tif answer.cardinality <= arrayDefaultMaxSize {\n\t\treturn answer.toArrayContainer()\n\t}\n\treturn answer\n}\n\nfunc (bc *bitmapContainer) andNotBitmap", "\tif bc.cardinality <= arrayDefaultMaxSize {\n\t\treturn answer.toArrayContainer()\n\t}\n\treturn answer\n}\n\nfunc (bc *bitmapContainer) andNotBitmap", "andNotArray|return-bitmap"},
	{"ParHeapOr starts the appender after feeding its workers", "P6", "parallel.go", "\tgo appenderRoutine(bitmapChan, resultChan, expectedKeysChan)\n\n\tfor i := 0; i < parallelism; i++ {\n\t\tgo orFunc()\n\t}\n\n\tidx := 0\n\tfor h.Len() > 0 {\n\t\tck := h.Next(pool.Get().([]container))\n\t\tif len(ck.containers) == 1 {\n\t\t\tresultChan <- keyedContainer{\n\t\t\t\tck.key,\n\t\t\t\tck.containers[0].clone(),\n\t\t\t\tidx,\n\t\t\t}\n\t\t\tpool.Put(ck.containers[:0])\n\t\t} else {\n\t\t\tck.idx = idx\n\t\t\tinputChan <- ck\n\t\t}\n\t\tidx++\n\t}\n\texpectedKeysChan <- idx\n", "\tfor i := 0; i < parallelism; i++ {\n\t\tgo orFunc()\n\t}\n\n\tidx := 0\n\tfor h.Len() > 0 {\n\t\tck := h.Next(pool.Get().([]container))\n\t\tif len(ck.containers) == 1 {\n\t\t\tresultChan <- keyedContainer{\n\t\t\t\tck.key,\n\t\t\t\tck.containers[0].clone(),\n\t\t\t\tidx,\n\t\t\t}\n\t\t\tpool.Put(ck.containers[:0])\n\t\t} else {\n\t\t\tck.idx = idx\n\t\t\tinputChan <- ck\n\t\t}\n\t\tidx++\n\t}\n\tgo appenderRoutine(bitmapChan, resultChan, expectedKeysChan)\n\texpectedKeysChan <- idx\n", "ParHeapOr|feeding loop"},
	{"SetCopyOnWrite(false) clears the flags of containers that are still shared", "A4.clear", "roaring.go", "func (rb *Bitmap) SetCopyOnWrite(val bool) {\n", "func (rb *Bitmap) SetCopyOnWrite(val bool) {\n\tif !val {\n\t\tfor i := range rb.highlowcontainer.needCopyOnWrite {\n\t\t\trb.highlowcontainer.needCopyOnWrite[i] = false\n\t\t}\n\t}\n", "SetCopyOnWrite|flag cleared"},
	{"a 64-bit in-place operation removes a bucket without shortening its cached length", "LEN1", "roaring64/roaring64.go", "\t\t\t\t\trb.highlowcontainer.removeAtIndex(pos1)\n\t\t\t\t\tlength1--\n", "\t\t\t\t\trb.highlowcontainer.removeAtIndex(pos1)\n", "removeAtIndex"},
	{"roaring64 FromUnsafeBytes files a bucket at -pos-1 whatever the search said", "F5.neg", "roaring64/roaring64.go", "\t\trb.highlowcontainer.appendContainer(key, bucket, false)\n", "\t\tpos := rb.highlowcontainer.getIndex(key)\n\t\trb.highlowcontainer.insertNewKeyValueAt(-pos-1, key, bucket)\n", "insertion at -i-1"},
	{"a 64-bit merge loop advances the receiver cursor on the argument table", "IDX1", "roaring64/roaring64.go", "\t\t\t\t\tpos1 = rb.highlowcontainer.advanceUntil(s2, pos1)\n", "\t\t\t\t\tpos1 = x2.highlowcontainer.advanceUntil(s2, pos1)\n", "cursor pos1"},
	{"32-bit BSI tests the bits of a signed value with > 0", "U9", "BitSliceIndexing/bsi.go", "\t\tif uint64(value)&(1<<uint64(i)) > 0 {\n", "\t\tif value&(1<<uint(i)) > 0 {\n", "signed bit test"},
	{"CheckedAdd writes the container it read before the gate", "A2.stale", "roaring.go", "\t\tC := rb.highlowcontainer.getWritableContainerAtIndex(i)\n\t\toldcard := C.getCardinality()\n\t\tC = C.iaddReturnMinimized(lowbits(x))\n", "\t\tC := rb.highlowcontainer.getContainerAtIndex(i)\n\t\toldcard := C.getCardinality()\n\t\trb.highlowcontainer.getWritableContainerAtIndex(i)\n\t\tC = C.iaddReturnMinimized(lowbits(x))\n", "CheckedAdd|gate getWritableContainerAtIndex"},
	{"bitmapContainer.validate trusts the cardinality field of a full container", "V3", "bitmapcontainer.go", "func (bc *bitmapContainer) validate() error {\n", "func (bc *bitmapContainer) validate() error {\n\tif bc.isFull() && len(bc.bitmap) == maxCapacity/64 {\n\t\treturn nil\n\t}\n", "bitmapContainer).validate|no early success"},
	{"readFrom multiplies the run count in 16 bits", "U1", "roaringarray.go", "\t\t\tbuf, err := stream.Next(int(nr) * 4)\n", "\t\t\tbuf, err := stream.Next(int(nr * 4))\n", "readFrom|<uint16> * 4"},
	{"OrCardinality reads the argument's chunk at the receiver's position", "IDX1", "roaring.go", "\t\t\t\t\tanswer += uint64(x2.highlowcontainer.getContainerAtIndex(pos2).getCardinality())\n", "\t\t\t\t\tanswer += uint64(x2.highlowcontainer.getContainerAtIndex(pos1).getCardinality())\n", "OrCardinality|cursor pos1"},
	{"arrayContainer.iorRun16 drops the container returned by iaddRange", "RES1", "arraycontainer.go", "\t\t\tresult = result.iaddRange(int(run.start), int(run.start)+int(run.length)+1)\n", "\t\t\tresult.iaddRange(int(run.start), int(run.start)+int(run.length)+1)\n", "iorRun16|result of iaddRange"},
	{"frozenView adds up the announced element totals in int", "T2", "serialization_littleendian.go", "\tvar nArrayEl, nRunEl uint64\n\tfor i, t := range types {\n\t\tswitch t {\n\t\tcase 1:\n\t\t\tnBitmap++\n\t\tcase 2:\n\t\t\tnArray++\n\t\t\tnArrayEl += uint64(counts[i]) + 1\n\t\tcase 3:\n\t\t\tnRun++\n\t\t\tnRunEl += uint64(counts[i])\n\t\tdefault:\n\t\t\treturn ErrFrozenBitmapInvalidTypecode\n\t\t}\n\t}\n\n\tif uint64(len(buf)) < (1<<13)*uint64(nBitmap)+4*nRunEl+2*nArrayEl {\n", "\tnArrayEl, nRunEl := 0, 0\n\tfor i, t := range types {\n\t\tswitch t {\n\t\tcase 1:\n\t\t\tnBitmap++\n\t\tcase 2:\n\t\t\tnArray++\n\t\t\tnArrayEl += int(counts[i]) + 1\n\t\tcase 3:\n\t\t\tnRun++\n\t\t\tnRunEl += int(counts[i])\n\t\tdefault:\n\t\t\treturn ErrFrozenBitmapInvalidTypecode\n\t\t}\n\t}\n\n\tif len(buf) < (1<<13)*nBitmap+4*nRunEl+2*nArrayEl {\n", "frozenView|total"},
	{"64-bit BSI.Add reads the operand also when it is the receiver", "F10.bsi", "roaring64/bsi64.go", "\tif other == b {\n\t\t// doubling: the carries rewrite the planes that are still to be read\n\t\tother = b.Clone()\n\t}\n\n\tb.eBM.Or(&other.eBM)", "\tb.eBM.Or(&other.eBM)", "(*roaring64.BSI).Add|self-application"},
	{"PreviousValue steps its chunk index in the for clause and in the body", "LP1", "roaring.go", "\tfor containerIndex != -1 && prevValue == -1 {\n", "\tfor ; containerIndex >= 0 && prevValue == -1; containerIndex-- {\n", "PreviousValue|for containerIndex"},
	{"AndAny continues to the next key before emptying its filter list", "LP2", "fastaggregation.go", "\t\tif !result.isEmpty() {\n\t\t\tx1.highlowcontainer.replaceKeyAndContainerAtIndex(intersections, baseKey, result, false)\n\t\t\tintersections++\n\t\t}\n", "\t\tif result.isEmpty() {\n\t\t\tbasePos = x1.highlowcontainer.advanceUntil(minNextKey, basePos)\n\t\t\tcontinue\n\t\t}\n\t\tx1.highlowcontainer.replaceKeyAndContainerAtIndex(intersections, baseKey, result, false)\n\t\tintersections++\n", "AndAny|scratch list"},
	{"WriteDenseTo converts the chunk base to int before shifting", "U8", "roaring.go", "\t\t\tcopy(bitmap[int(hb>>log2WordSize):], c.bitmap)\n", "\t\t\tcopy(bitmap[int(hb)>>log2WordSize:], c.bitmap)\n", "WriteDenseTo|chunk base converted to int"},
	{"roaringArray64.equals compares the receiver's keys with themselves", "EQ1", "roaring64/roaringarray64.go", "\t\tfor i, k := range ra.keys {\n\t\t\tif k != srb.keys[i] {", "\t\tkeys := ra.keys\n\t\tfor i, k := range ra.keys {\n\t\t\tif k != keys[i] {", "roaringArray64).equals"},
	{"TransposeWithCounts hands found-set and filter-set over crossed", "SW1", "roaring64/bsi64.go", "parallelExecutorBSIResults(parallelism, b, transposeWithCounts, foundSet, filterSet, true)", "parallelExecutorBSIResults(parallelism, b, transposeWithCounts, filterSet, foundSet, true)", "TransposeWithCounts|call of parallelExecutorBSIResults"},
	{"the reusable 32-bit unset iterator is not rewound", "R2", "roaring.go", "\tiui.end = end\n\tiui.containerIndex = 0\n", "\tiui.end = end\n", "unsetIterator).Initialize|rewinds containerIndex"},
	{"the reusable 64-bit many-iterator is not rewound", "R2", "roaring64/iterables64.go", "func (ii *manyIntIterator) Initialize(a *Bitmap) {\n\tii.pos = 0\n", "func (ii *manyIntIterator) Initialize(a *Bitmap) {\n", "manyIntIterator).Initialize|rewinds pos"},
	{"SumBigValues computes the sign plane's weight in a machine word", "U7", "roaring64/bsi64.go", "\tsum.Sub(sum, planeTerm(b.BitCount()))\n", "\tsum.Sub(sum, big.NewInt(int64(foundSet.AndCardinality(&b.bA[b.BitCount()])<<uint(b.BitCount()))))\n", "SumBigValues|word shift"},
	{"byteSliceAsUint64Slice converts the pointer of an empty slice", "UNS2", "serialization_littleendian.go", "\tif len(slice) == 0 {\n\t\t// nothing to view: the (possibly shorter) allocation behind an empty slice must not be\n\t\t// reinterpreted as a wider element\n\t\treturn nil\n\t}\n\tptr := unsafe.SliceData(slice)\n\treturn unsafe.Slice((*uint64)", "\tptr := unsafe.SliceData(slice)\n\tif ptr == nil {\n\t\treturn nil\n\t}\n\treturn unsafe.Slice((*uint64)", "byteSliceAsUint64Slice"},
	{"RemoveRange clamps the end after comparing it with the start", "U6", "roaring.go", "\t\trangeEnd = uint64(0x100000000)\n\t\tif rangeStart >= rangeEnd {\n\t\t\t// the whole range lies beyond the 32-bit universe\n\t\t\treturn\n\t\t}\n", "\t\trangeEnd = uint64(0x100000000)\n", "RemoveRange|rangeStart narrowed"},
	{"CardinalityInRange clamps the end after comparing it with the start", "U6", "roaring.go", "\t\tend = MaxUint32 + 1\n\t\tif start >= end {\n\t\t\t// the whole range lies beyond the 32-bit universe\n\t\t\treturn 0\n\t\t}\n", "\t\tend = MaxUint32 + 1\n", "CardinalityInRange|start narrowed"},
	{"AddRange silently clamps its end instead of refusing it", "U6", "roaring.go", "\tif rangeEnd-1 > MaxUint32 {\n\t\tpanic(\"rangeEnd-1 > MaxUint32\")\n\t}\n\thbStart := uint32(highbits(uint32(rangeStart)))\n\tlbStart := uint32(lowbits(uint32(rangeStart)))\n\thbLast := uint32(highbits(uint32(rangeEnd - 1)))\n\tlbLast := uint32(lowbits(uint32(rangeEnd - 1)))\n\n\tvar max uint32 = maxLowBit\n\tfor hb := hbStart; hb <= hbLast; hb++ {", "\tif rangeEnd-1 > MaxUint32 {\n\t\trangeEnd = MaxUint32 + 1\n\t}\n\thbStart := uint32(highbits(uint32(rangeStart)))\n\tlbStart := uint32(lowbits(uint32(rangeStart)))\n\thbLast := uint32(highbits(uint32(rangeEnd - 1)))\n\tlbLast := uint32(lowbits(uint32(rangeEnd - 1)))\n\n\tvar max uint32 = maxLowBit\n\tfor hb := hbStart; hb <= hbLast; hb++ {", "AddRange|rangeStart narrowed"},
	{"NextUnsetBit inverts the word after shifting it", "U4", "bitmapcontainer.go", "\tw := ^bc.bitmap[x] >> (i % 64)\n", "\tw := bc.bitmap[x]\n\tw = w >> (i % 64)\n\tw = ^w\n", "NextUnsetBit|complement of a shifted word"},
	{"nextAbsentValue inverts the word after shifting it", "U4", "bitmapcontainer.go", "\tw := ^bc.bitmap[x] >> uint(target%64)\n", "\tw := ^(bc.bitmap[x] >> uint(target%64))\n", "nextAbsentValue|complement of a shifted word"},
	{"Ranges stops bounding the count of ones taken on the shifted word", "U4", "iter.go", "\t\t\t\t\t\tif lo+ones < 64 {\n", "\t\t\t\t\t\tif w&(1<<63) == 0 {\n", "Ranges$1|complement of a shifted word"},
	{"NextAbsentValue combines the answer with the shifted keyspace", "U5", "roaring.go", "\t\t\treturn int64(combineLoHi32(uint32(nextValue), uint32(containerKey)))\n", "\t\t\treturn int64(combineLoHi32(uint32(nextValue), keyspace))\n", "NextAbsentValue|combineLoHi32"},
	{"32-bit BSI.ParOr replaces the collected planes when an operand is narrower", "ACC1", "BitSliceIndexing/bsi.go", "\t\t\t// a narrower operand has nothing to contribute to plane i\n\t\t\tif len(x.bA) > i {\n\t\t\t\ta[i] = append(a[i], x.bA[i])\n\t\t\t}\n", "\t\t\tif len(x.bA) > i {\n\t\t\t\ta[i] = append(a[i], x.bA[i])\n\t\t\t} else {\n\t\t\t\ta[i] = []*roaring.Bitmap{roaring.NewBitmap()}\n\t\t\t}\n", "(*BitSliceIndexing.BSI).ParOr|accumulator"},
	{"64-bit BSI.ParOr ignores the sign plane of a narrower operand", "PC2", "roaring64/bsi64.go", "\t\t\t} else if len(x.bA) > 0 {\n\t\t\t\t// a narrower operand: its sign plane (the last one) extends to every higher plane\n\t\t\t\ta[i] = append(a[i], &x.bA[len(x.bA)-1])\n\t\t\t}\n", "\t\t\t} else if b.runOptimized && len(a[i]) > 0 {\n\t\t\t\ta[i][0].RunOptimize()\n\t\t\t}\n", "ParOr|narrow operand"},
	{"64-bit BSI.ParOr widens the receiver without sign extension", "PC2", "roaring64/bsi64.go", "\t\tif oldSignPos >= 0 {\n\t\t\tfor i := oldSignPos + 1; i < len(b.bA); i++ {\n\t\t\t\tb.bA[i].Or(&b.bA[oldSignPos])\n\t\t\t}\n\t\t}\n", "\t\t_ = oldSignPos\n", "ParOr|sign-extension"},
	{"64-bit BSI.ParOr sign-extends below the new top plane only", "PC2", "roaring64/bsi64.go", "\t\t\tfor i := oldSignPos + 1; i < len(b.bA); i++ {\n\t\t\t\tb.bA[i].Or(&b.bA[oldSignPos])", "\t\t\tfor i := oldSignPos + 1; i < len(b.bA)-1; i++ {\n\t\t\t\tb.bA[i].Or(&b.bA[oldSignPos])", "ParOr|sign-extension"},
	{"64-bit detach forgets the buckets' own containers", "A5", "roaring64/roaringarray64.go", "\t\t// a bucket, owned or just cloned, may itself hold containers that point into a buffer (FromUnsafeBytes)\n\t\tra.containers[i].CloneCopyOnWriteContainers()\n", "", "inner detach"},
	{"64-bit detach skips the buckets it has just cloned", "A5", "roaring64/roaringarray64.go", "\t\t\tra.needCopyOnWrite[i] = false\n\t\t}\n\t\t// a bucket, owned", "\t\t\tra.needCopyOnWrite[i] = false\n\t\t\tcontinue\n\t\t}\n\t\t// a bucket, owned", "inner detach"},
	{"a second portable decoder adopts a run list verbatim", "L8", "roaringarray.go", "func (ra *roaringArray) hasRunCompression() bool {\n", "func readRunChunk(stream internal.ByteInput, nr int) (container, error) {\n\tbuf, err := stream.Next(nr * 4)\n\tif err != nil {\n\t\treturn nil, err\n\t}\n\treturn &runContainer16{iv: byteSliceAsInterval16Slice(buf)}, nil\n}\n\nfunc (ra *roaringArray) hasRunCompression() bool {\n", "roaring.readRunChunk"},
	{"64-bit ClearValues empties the existence bitmap before the planes", "F10.bsi", "roaring64/bsi64.go", "\tfor i := range b.bA {\n\t\tb.bA[i].AndNot(foundSet)\n\t}\n\t// last: foundSet may be the existence bitmap itself\n\tb.eBM.AndNot(foundSet)\n", "\tb.eBM.AndNot(foundSet)\n\tfor i := range b.bA {\n\t\tb.bA[i].AndNot(foundSet)\n\t}\n", "(*roaring64.BSI).ClearValues"},
	{"32-bit ClearValues clears the existence bitmap in a goroutine of its own", "F10.bsi", "BitSliceIndexing/bsi.go", "\tvar wg sync.WaitGroup\n\tfor i := 0; i < b.BitCount(); i++ {\n\t\twg.Add(1)\n\t\tgo func(j int) {\n\t\t\tdefer wg.Done()\n\t\t\tb.bA[j].AndNot(foundSet)\n\t\t}(i)\n\t}\n\twg.Wait()\n\t// last, and after the workers: foundSet may be the existence bitmap itself\n\tb.eBM.AndNot(foundSet)\n", "\tvar wg sync.WaitGroup\n\twg.Add(1)\n\tgo func() {\n\t\tdefer wg.Done()\n\t\tb.eBM.AndNot(foundSet)\n\t}()\n\tfor i := 0; i < b.BitCount(); i++ {\n\t\twg.Add(1)\n\t\tgo func(j int) {\n\t\t\tdefer wg.Done()\n\t\t\tb.bA[j].AndNot(foundSet)\n\t\t}(i)\n\t}\n\twg.Wait()\n", "(*BitSliceIndexing.BSI).ClearValues"},
	{"64-bit in-place Xor loses its self-application guard", "F10", "roaring64/roaring64.go", "func (rb *Bitmap) Xor(x2 *Bitmap) {\n\tif rb == x2 {\n\t\trb.Clear()\n\t\treturn\n\t}\n", "func (rb *Bitmap) Xor(x2 *Bitmap) {\n", "(*roaring64.Bitmap).Xor"},
	{"ParOr truncates an unclamped chunk start into the key type", "U1", "parallel.go", "\t\t\t\tstart: uint16(minOfInt(int(lKey)+i*chunkSize, int(hKey))),\n", "\t\t\t\tstart: uint16(int(lKey) + i*chunkSize),\n", "trunc:roaring.ParOr"},
	{"NextAbsentValue tests the error of safeMaximum the wrong way round", "B8", "roaring.go", "\t\t\tif containerKey == MaxUint16 {\n\t\t\t\treturn -1\n\t\t\t}\n\t\t\treturn (int64(containerKey) + 1) << 16\n", "\t\t\tval, err := container.safeMaximum()\n\t\t\tif err == nil {\n\t\t\t\treturn -1\n\t\t\t}\n\t\t\treturn int64(val) + 1\n", "NextAbsentValue|value of"},
	{"the in-place lazy union of ParOr asks for a read-only container", "A2.32", "parallel.go", "getFastContainerAtIndex(idx1, true)", "getFastContainerAtIndex(idx1, false)", "lazyIOrOnRange"},
	{"32-bit BSI Increment forgets the existence bitmap", "A1.bsi", "BitSliceIndexing/bsi.go", "\tb.addDigit(foundSet, 0)\n\tb.eBM.Or(foundSet)\n", "\tb.addDigit(foundSet, 0)\n", "Increment|existence bitmap"},
	{"64-bit Flip stores a fresh bucket without testing it", "F3.64", "roaring64/roaring64.go", "\t\t\tc := roaring.NewBitmap()\n\t\t\tc.Flip(containerStart, containerLast)\n\t\t\tif !c.IsEmpty() {\n\t\t\t\trb.highlowcontainer.insertNewKeyValueAt(-i-1, uint32(hb), c)\n\t\t\t}\n", "\t\t\tc := roaring.NewBitmap()\n\t\t\tc.Flip(containerStart, containerLast)\n\t\t\trb.highlowcontainer.insertNewKeyValueAt(-i-1, uint32(hb), c)\n", "(*roaring64.Bitmap).Flip|may-empty"},
	{"array addOffset carves both halves out of one allocation", "A9", "arraycontainer.go", "\t\tlow = &arrayContainer{}\n\t}\n\tif y := uint32(ac.content[len(ac.content)-1]) + uint32(x); highbits(y) > 0 {\n\t\t// Some elements will fall into high part, allocate a container.\n\t\t// Checking the last one is enough because they are ordered.\n\t\thigh = &arrayContainer{}\n", "\t\tlow = &arrayContainer{}\n\t}\n\tif y := uint32(ac.content[len(ac.content)-1]) + uint32(x); highbits(y) > 0 {\n\t\thigh = &arrayContainer{}\n\t}\n\tif low != nil && high != nil {\n\t\tscratch := make([]uint16, len(ac.content))\n\t\tlow.content = scratch[:0]\n\t\thigh.content = scratch[len(scratch)/2:][:0]\n", "addOffset|payload cut"},
	{"CheckedAdd forgets to store the container returned by the kernel", "F13.32", "roaring.go", "\t\tC = C.iaddReturnMinimized(lowbits(x))\n\t\trb.highlowcontainer.setContainerAtIndex(i, C)\n", "\t\tC = C.iaddReturnMinimized(lowbits(x))\n", "CheckedAdd|result of iaddReturnMinimized"},
	{"FromBuffer asks the pooled reader for its position after giving it back", "PT2", "roaring.go", "\tp, err = rb.highlowcontainer.readFrom(stream)\n\tinternal.ByteBufferPool.Put(stream)\n\n\treturn\n", "\t_, err = rb.highlowcontainer.readFrom(stream)\n\tinternal.ByteBufferPool.Put(stream)\n\n\treturn stream.GetReadBytes(), err\n", "FromBuffer|Pool.Put"},
	{"MustReadFrom validates before looking at the decode error", "B4", "roaring.go", "\tif err != nil {\n\t\treturn\n\t}\n\tif err := rb.Validate(); err != nil {\n\t\tpanic(err)\n\t}\n", "\tif verr := rb.Validate(); err == nil && verr != nil {\n\t\tpanic(verr)\n\t}\n", "MustReadFrom|error"},
	{"BSI Sum workers add into the shared result without atomics", "P2", "BitSliceIndexing/bsi.go", "\t\t\tatomic.AddInt64(&sum, int64(foundSet.AndCardinality(b.bA[j])<<uint(j)))\n", "\t\t\tsum += int64(foundSet.AndCardinality(b.bA[j]) << uint(j))\n\t\t\tatomic.AddInt64(&sum, 0)\n", "Sum|go"},
	{"roaring64 ReadFrom buffers the caller's stream", "B7", "roaring64/roaring64.go", "func (rb *Bitmap) ReadFrom(stream io.Reader) (p int64, err error) {\n\tsizeBuf := make([]byte, 8)\n", "func (rb *Bitmap) ReadFrom(stream io.Reader) (p int64, err error) {\n\tall, _ := io.ReadAll(stream)\n\tstream = bytes.NewReader(all)\n\tsizeBuf := make([]byte, 8)\n", "ReadFrom|stream stream"},
	{"Roaring32AsRoaring64 stores an empty argument as a bucket", "F3.64", "roaring64/roaring64.go", "\tif bm32.IsEmpty() {\n\t\t// an empty 32-bit bitmap is no bucket at all\n\t\treturn rb\n\t}\n", "", "roaring32AsRoaring64|parameter bm32"},
	{"a container table is overlaid on byte memory", "UNS1", "serialization_littleendian.go", "// FrozenView creates a static view of a serialized bitmap stored in buf.\n", "func byteSliceAsContainerTable(slice []byte) []container {\n\treturn unsafe.Slice((*container)(unsafe.Pointer(unsafe.SliceData(slice))), len(slice)/16)\n}\n\n// FrozenView creates a static view of a serialized bitmap stored in buf.\n", "byteSliceAsContainerTable"},
	{"roaring64.ParOr feeds its workers from the coordinating goroutine", "P6", "roaring64/parallel64.go", "\tgo func() {\n\t\tfor i := int64(0); i < chunkCount; i++ {", "\tfunc() {\n\t\tfor i := int64(0); i < chunkCount; i++ {", "roaring64.ParOr|feeding loop"},
	{"arrayContainer.addOffset returns typed nil halves", "F6", "arraycontainer.go", "\t// Ensure proper nil interface.\n\tif low == nil {\n\t\treturn nil, high\n\t}\n\tif high == nil {\n\t\treturn low, nil\n\t}\n\n\treturn low, high\n", "\treturn low, high\n", "addOffset"},
	{"frozenView checks the type code with an upper bound only", "L4", "serialization_littleendian.go", "\t\t\tnRunEl += uint64(counts[i])\n\t\tdefault:\n\t\t\treturn ErrFrozenBitmapInvalidTypecode\n\t\t}", "\t\t\tnRunEl += uint64(counts[i])\n\t\t}\n\t\tif t > 3 {\n\t\t\treturn ErrFrozenBitmapInvalidTypecode\n\t\t}", "type codes checked exhaustively"},
	{"readFrom reuses keys under the capacity test of containers", "T1", "roaringarray.go", "\tif cap(ra.keys) >= int(size) {\n", "\tif cap(ra.containers) >= int(size) {\n", "reslice roaringArray.keys"},
	{"FromDense extends the caller's words up to their capacity", "B6", "roaring.go", "func (rb *Bitmap) FromDense(bitmap []uint64, doCopy bool) {\n", "func (rb *Bitmap) FromDense(bitmap []uint64, doCopy bool) {\n\tif cap(bitmap) > len(bitmap) && cap(bitmap)%1024 == 0 {\n\t\tbitmap = bitmap[:cap(bitmap)]\n\t}\n", "FromDense|param:bitmap"},
	{"Unset creates its iterator outside the sequence function", "F12", "iter.go", "\treturn func(yield func(uint32) bool) {\n\t\tit := b.UnsetIterator(uint64(min), uint64(max)+1)\n", "\tit := b.UnsetIterator(uint64(min), uint64(max)+1)\n\treturn func(yield func(uint32) bool) {\n", "roaring.Unset"},
	{"roaring64 FromBase64 decodes the URL alphabet", "L1", "roaring64/roaring64.go", "\tdata, err := base64.StdEncoding.DecodeString(str)", "\tdata, err := base64.URLEncoding.DecodeString(str)", "alphabet"},
	{"32-bit BSI addDigit adopts the caller's bitmap as a plane", "A3.bsi", "BitSliceIndexing/bsi.go", "\tif i >= len(b.bA) {\n\t\tb.bA = append(b.bA, roaring.NewBitmap())\n\t}\n\tcarry := roaring.And(b.bA[i], foundSet)", "\tif i >= len(b.bA) {\n\t\tb.bA = append(b.bA, foundSet)\n\t\treturn\n\t}\n\tcarry := roaring.And(b.bA[i], foundSet)", "addDigit"},
	{"twosComplement takes the absolute value in place", "A1.bsi", "roaring64/bsi64.go", "\tabs := new(big.Int).Abs(num)\n", "\tabs := num.Abs(num)\n", "twosComplement|constant num"},
	{"ReadFrom forgets to forward the pre-read cookie", "U3", "roaring.go", "\tp, err = rb.highlowcontainer.readFrom(stream, cookieHeader...)\n", "\tp, err = rb.highlowcontainer.readFrom(stream)\n", "ReadFrom|param:cookieHeader"},
	{"ParHeapOr worker returns its scratch slice to the pool before it is done with it", "PT2", "parallel.go", "\t\t\tfor _, next := range input.containers[2:] {\n\t\t\t\tc = c.lazyIOR(next)\n\t\t\t}\n", "\t\t\trest := input.containers[2:]\n\t\t\tpool.Put(input.containers[:0])\n\t\t\tfor _, next := range rest {\n\t\t\t\tc = c.lazyIOR(next)\n\t\t\t}\n", "ParHeapOr$2|Pool.Put"},
	{"roaring64 FromUnsafeBytes appends to whatever the receiver held", "R1", "roaring64/roaring64.go", "\trb.highlowcontainer.resize(0)\n\tfor i := uint64(0); i < size; i++ {\n\t\tkeyBuf, err := stream.Next(4)", "\tfor i := uint64(0); i < size; i++ {\n\t\tkeyBuf, err := stream.Next(4)", "FromUnsafeBytes"},
	{"repairAfterLazy re-types only containers with the lazy sentinel", "F2.repair", "parallel.go", "\t\t\tt.computeCardinality()\n\t\t}\n\n\t\tif t.getCardinality() <= arrayDefaultMaxSize {\n\t\t\treturn t.toArrayContainer()\n\t\t} else if c.(*bitmapContainer).isFull() {\n\t\t\treturn newRunContainer16Range(0, MaxUint16)\n\t\t}\n", "\t\t\tt.computeCardinality()\n\t\t\tif t.getCardinality() <= arrayDefaultMaxSize {\n\t\t\t\treturn t.toArrayContainer()\n\t\t\t} else if c.(*bitmapContainer).isFull() {\n\t\t\t\treturn newRunContainer16Range(0, MaxUint16)\n\t\t\t}\n\t\t}\n", "repairAfterLazy"},
	{"AndAny hands its scratch union to iand without re-typing it", "F8.scratch", "fastaggregation.go", "\t\t\tif bc, ok := ored.(*bitmapContainer); ok {\n\t\t\t\tif bc.cardinality <= arrayDefaultMaxSize {\n\t\t\t\t\tored = bc.toArrayContainer()\n\t\t\t\t}\n\t\t\t}\n", "", "AndAny|scratch operand"},
	{"roaring64 ReadFrom decodes through a package-level scratch buffer", "G1", "roaring64/roaring64.go", "func (rb *Bitmap) ReadFrom(stream io.Reader) (p int64, err error) {\n\tsizeBuf := make([]byte, 8)", "var headerScratch [8]byte\n\nfunc (rb *Bitmap) ReadFrom(stream io.Reader) (p int64, err error) {\n\tsizeBuf := headerScratch[:]", "ReadFrom|global headerScratch"},
	{"UnmarshalBinary decodes zero-copy", "A8", "roaring.go", "\tr := bytes.NewReader(data)\n\t_, err := rb.ReadFrom(r)\n\treturn err", "\t_, err := rb.FromBuffer(data)\n\treturn err", "UnmarshalBinary|param:data"},
	{"64-bit size predictor counts 8 bytes per key", "L1", "roaring64/roaringarray64.go", "\t\tanswer += 4\n\t\tanswer += c.GetSerializedSizeInBytes()", "\t\tanswer += 8\n\t\tanswer += c.GetSerializedSizeInBytes()", "serializedSizeInBytes"},
	{"SetBigMany stops sign extension below the new top plane", "PC2", "roaring64/bsi64.go", "\t\t\t// Sign-extend existing negative entries into the new bit slots.\n\t\t\tnewSignPos := len(b.bA) - 1\n\t\t\tfor i := oldSignPos + 1; i <= newSignPos; i++ {", "\t\t\t// Sign-extend existing negative entries into the new bit slots.\n\t\t\tnewSignPos := len(b.bA) - 1\n\t\t\tfor i := oldSignPos + 1; i < newSignPos; i++ {", "SetBigMany"},
	{"32-bit SetMany leaves the top plane untouched", "PC1", "BitSliceIndexing/bsi.go", "\tfor i := 0; i < b.BitCount(); i++ {\n\t\tif uint64(value)&(1<<uint64(i)) > 0 {\n\t\t\tb.bA[i].Or(foundSet)", "\tfor i := 0; i < b.BitCount()-1; i++ {\n\t\tif uint64(value)&(1<<uint64(i)) > 0 {\n\t\t\tb.bA[i].Or(foundSet)", "SetMany"},
	{"table equality skips slots both sides flag as shared", "F11", "roaringarray.go", "\t\tfor i, c := range ra.containers {\n\t\t\tif !c.equals(srb.containers[i]) {\n", "\t\tfor i, c := range ra.containers {\n\t\t\tif ra.needCopyOnWrite[i] && srb.needCopyOnWrite[i] {\n\t\t\t\tcontinue\n\t\t\t}\n\t\t\tif !c.equals(srb.containers[i]) {\n", "(*roaring.Bitmap).Equals"},
	{"ixorBitmap delegates to the operand's in-place ixor", "A1.kernel", "arraycontainer.go", "\treturn value2.xor(ac)\n", "\treturn value2.ixor(ac)\n", "ixorBitmap"},
	{"ixorBitmap returns the operand", "A6.kernel", "arraycontainer.go", "\treturn value2.xor(ac)\n", "\treturn value2.ixor(ac)\n", "(*roaring.arrayContainer).ixor"},
	{"Remove bypasses the copy-before-write gate", "A2.32", "roaring.go", "c := rb.highlowcontainer.getWritableContainerAtIndex(i).iremoveReturnMinimized(lowbits(x))\n\t\trb.highlowcontainer.setContainerAtIndex(i, c)\n\t\tif rb.highlowcontainer.getContainerAtIndex(i).isEmpty() {\n\t\t\trb.highlowcontainer.removeAtIndex(i)\n\t\t}\n\t}\n}", "c := rb.highlowcontainer.getContainerAtIndex(i).iremoveReturnMinimized(lowbits(x))\n\t\trb.highlowcontainer.setContainerAtIndex(i, c)\n\t\tif rb.highlowcontainer.getContainerAtIndex(i).isEmpty() {\n\t\t\trb.highlowcontainer.removeAtIndex(i)\n\t\t}\n\t}\n}", "(*roaring.Bitmap).Remove"},
	{"appendCopy forgets to clone on the non-COW path", "A3.32", "roaringarray.go", "sa.containers[startingindex].clone(), copyonwrite)", "sa.containers[startingindex], copyonwrite)", "appendCopy"},
	{"64-bit Xor inserts the argument's bucket", "A3.64", "roaring64/roaring64.go", "c := x2.highlowcontainer.getContainerAtIndex(pos2).Clone()\n", "c := x2.highlowcontainer.getContainerAtIndex(pos2)\n", "(*roaring64.Bitmap).Xor"},
	{"64-bit Remove bypasses the gate", "A2.64", "roaring64/roaring64.go", "\t\tc := rb.highlowcontainer.getWritableContainerAtIndex(i)\n\t\tc.Remove(lowbits(x))\n", "\t\tc := rb.highlowcontainer.getContainerAtIndex(i)\n\t\tc.Remove(lowbits(x))\n", "(*roaring64.Bitmap).Remove"},
	{"And stores a possibly empty intersection", "F3.32", "roaring.go", "\t\t\t\t\tdiff := c1.iand(c2)\n\t\t\t\t\tif !diff.isEmpty() {\n", "\t\t\t\t\tdiff := c1.iand(c2)\n\t\t\t\t\t{\n", "(*roaring.Bitmap).And"},
	{"64-bit Remove keeps an emptied bucket", "F3.64", "roaring64/roaring64.go", "\t\tc.Remove(lowbits(x))\n\t\tif c.IsEmpty() {\n\t\t\trb.highlowcontainer.removeAtIndex(i)\n\t\t}\n", "\t\tc.Remove(lowbits(x))\n", "(*roaring64.Bitmap).Remove"},
	{"readFrom drops the SkipBytes error", "B1", "roaringarray.go", "\t\tif err := stream.SkipBytes(int(size) * 4); err != nil {\n\t\t\treturn stream.GetReadBytes(), fmt.Errorf(\"failed to skip bytes: %s\", err)\n\t\t}\n", "\t\tstream.SkipBytes(int(size) * 4)\n", "SkipBytes"},
	{"MustReadFrom drops ReadFrom's results", "B4", "roaring.go", "\tp, err = rb.ReadFrom(reader, cookieHeader...)\n\tif err != nil {\n\t\treturn\n\t}\n", "\trb.ReadFrom(reader, cookieHeader...)\n", "MustReadFrom"},
	{"bitmapContainer.and loses the run case", "F1", "bitmapcontainer.go", "\tcase *runContainer16:\n\t\tif x.isFull() {\n\t\t\treturn bc.clone()\n\t\t}\n\t\treturn x.andBitmapContainer(bc)\n\t}\n\tpanic(\"unsupported container type\")", "\t}\n\tpanic(\"unsupported container type\")", "(*roaring.bitmapContainer).and|"},
	{"Ranges ignores the consumer's answer", "F7", "iter.go", "\t\t\t\t\tif !emit(hs+start, hs+end) {\n\t\t\t\t\t\treturn\n\t\t\t\t\t}\n", "\t\t\t\t\temit(hs+start, hs+end)\n", "Ranges"},
	{"xorArray keeps a bitmap container of 4096 values", "F8.bitmap", "arraycontainer.go", "\t\tbc.computeCardinality()\n\t\tif bc.cardinality <= arrayDefaultMaxSize {\n\t\t\treturn bc.toArrayContainer()", "\t\tbc.computeCardinality()\n\t\tif bc.cardinality < arrayDefaultMaxSize {\n\t\t\treturn bc.toArrayContainer()", "xorArray"},
	{"run union is returned un-minimised", "F8.run", "runcontainer.go", "\t\treturn rc.union(c).toEfficientContainer()\n", "\t\treturn rc.union(c)\n", "or result"},
	{"run nextAbsentValue adds in 16 bits", "U1", "runcontainer.go", "\treturn int(rc.iv[whichIndex].last()) + 1\n", "\treturn int(rc.iv[whichIndex].last() + 1)\n", "nextAbsentValue"},
	{"run validator loses the wrap bound", "V2", "runcontainer.go", "\t\tif int(outerInterval.start)+int(outerInterval.length) > MaxUint16 {\n\t\t\treturn ErrRunIntervalOverlap\n\t\t}\n", "", "no wrap"},
	{"table validator stops comparing lengths", "V1", "roaringarray.go", "\tif len(ra.keys) != len(ra.containers) {\n\t\treturn ErrCardinalityConstraint\n\t}\n", "", "len(keys) == len(containers)"},
	{"ReadUInt16 checks only for an empty buffer", "B5", "internal/byte_input.go", "\tif len(b.buf)-b.off < 2 {\n", "\tif b.off >= len(b.buf) {\n", "ReadUInt16"},
	{"readFrom accepts any container count", "T1", "roaringarray.go", "\tif size > (1 << 16) {\n\t\treturn stream.GetReadBytes(), fmt.Errorf(\"it is logically impossible to have more than (1<<16) containers\")\n\t}\n", "", "readFrom"},
	{"noOffsetThreshold changed", "L1", "util.go", "noOffsetThreshold          = 4", "noOffsetThreshold          = 5", "noOffsetThreshold"},
	{"writer omits offsets for exactly 4 containers", "L2", "roaringarray.go", "if !hasRun || (len(ra.keys) >= noOffsetThreshold) {", "if !hasRun || (len(ra.keys) > noOffsetThreshold) {", "writeTo"},
	{"run payload size mispredicted", "L5", "runcontainer.go", "\treturn 2 + len(rc.iv)*4\n", "\treturn 4 + len(rc.iv)*4\n", "payload run"},
	{"FreezeTo writes a wrong type code", "L4", "serialization_littleendian.go", "\t\t\ttypes[i] = 2\n", "\t\t\ttypes[i] = 4\n", "array code"},
	{"run count written big-endian", "L6", "serialization.go", "binary.LittleEndian.PutUint16(buf[0:], uint16(len(b.iv)))", "binary.BigEndian.PutUint16(buf[0:], uint16(len(b.iv)))", "writeTo"},
	{"bound uses 6 bytes of header per chunk", "L7", "roaring.go", "headermax := 8*contnbr + 4", "headermax := 6*contnbr + 4", "BoundSerializedSizeInBytes"},
	{"zero-copy payloads stored with a false flag", "A4", "roaringarray.go", "\t\tra.needCopyOnWrite[i] = willNeedCopyOnWrite\n", "\t\tra.needCopyOnWrite[i] = willNeedCopyOnWrite && ra.copyOnWrite\n", "readFrom|payload"},
	{"detach keeps the shared container", "A5", "roaringarray.go", "\t\t\tra.containers[i] = ra.containers[i].clone()\n\t\t\tra.needCopyOnWrite[i] = false\n", "\t\t\tra.needCopyOnWrite[i] = false\n", "cloneCopyOnWriteContainers"},
	{"HeapOr loses its singleton guard", "F9", "fastaggregation.go", "\t} else if len(bitmaps) == 1 {\n\t\treturn bitmaps[0].Clone()\n\t}\n\t// TODO:  for better speed", "\t}\n\t// TODO:  for better speed", "HeapOr"},
	{"in-place Xor loses the self-application guard", "F10", "roaring.go", "func (rb *Bitmap) Xor(x2 *Bitmap) {\n\tif rb == x2 {\n\t\trb.Clear()\n\t\treturn\n\t}\n", "func (rb *Bitmap) Xor(x2 *Bitmap) {\n", "(*roaring.Bitmap).Xor"},
	{"static 64-bit Flip inserts at the input's index", "F5", "roaring64/roaring64.go", "\t\t\tc.Flip(containerStart, containerLast)\n\t\t\tif !c.IsEmpty() {\n\t\t\t\tanswer.highlowcontainer.insertNewKeyValueAt(-j-1, uint32(hb), c)", "\t\t\tc.Flip(containerStart, containerLast)\n\t\t\tif !c.IsEmpty() {\n\t\t\t\tanswer.highlowcontainer.insertNewKeyValueAt(-i-1, uint32(hb), c)", "roaring64.Flip"},
	{"lazyIOR forgets to invalidate the cardinality", "F2", "bitmapcontainer.go", "\t\tbc.cardinality = invalidCardinality\n\t\treturn bc\n\t}\n\tpanic(\"unsupported container type\")\n}\n\nfunc (bc *bitmapContainer) lazyOR(", "\t\treturn bc\n\t}\n\tpanic(\"unsupported container type\")\n}\n\nfunc (bc *bitmapContainer) lazyOR(", "lazyIOR"},
	{"ParAnd forgets to close its input channel", "P4", "parallel.go", "\tbitmap := <-bitmapChan\n\n\tclose(inputChan)\n\tclose(resultChan)\n\tclose(expectedKeysChan)\n\n\treturn bitmap\n}\n\n// ParOr", "\tbitmap := <-bitmapChan\n\n\tclose(resultChan)\n\tclose(expectedKeysChan)\n\n\treturn bitmap\n}\n\n// ParOr", "ParAnd"},
	{"FromBuffer never returns its pooled reader", "PT", "roaring.go", "\tinternal.ByteBufferPool.Put(stream)\n", "", "FromBuffer"},
	{"compareValue worker never signals Done", "P1", "roaring64/bsi64.go", "func compareValue(e *task, batch []uint64, resultsChan chan *Bitmap, wg *sync.WaitGroup) {\n\n\tdefer wg.Done()\n", "func compareValue(e *task, batch []uint64, resultsChan chan *Bitmap, wg *sync.WaitGroup) {\n\n\t_ = wg\n", "parallelExecutor"},
	{"ParOr closes a channel twice", "P3", "parallel.go", "\tclose(chunkChan)\n\tclose(chunkSpecChan)\n", "\tclose(chunkChan)\n\tclose(chunkChan)\n\tclose(chunkSpecChan)\n", "roaring.ParOr"},
	{"NewBSIRetainSet skips the sign plane", "PC1", "roaring64/bsi64.go", "\tfor i := 0; i <= b.BitCount(); i++ {\n\t\twg.Add(1)\n\t\tgo func(j int) {\n\t\t\tdefer wg.Done()\n\t\t\tnewBSI.bA[j]", "\tfor i := 0; i < b.BitCount(); i++ {\n\t\twg.Add(1)\n\t\tgo func(j int) {\n\t\t\tdefer wg.Done()\n\t\t\tnewBSI.bA[j]", "NewBSIRetainSet"},
	{"static Or appends into its first operand", "A1.api32", "roaring.go", "\t\t\t\tanswer.highlowcontainer.appendContainer(s1, x1.highlowcontainer.getContainerAtIndex(pos1).or(x2.highlowcontainer.getContainerAtIndex(pos2)), false)", "\t\t\t\tx1.highlowcontainer.appendContainer(s1, x1.highlowcontainer.getContainerAtIndex(pos1).or(x2.highlowcontainer.getContainerAtIndex(pos2)), false)", "roaring.Or"},
	{"static 64-bit Or appends into its first operand", "A1.api64", "roaring64/roaring64.go", "\t\t\t\tanswer.highlowcontainer.appendContainer(s1,\n\t\t\t\t\troaring.Or(x1.highlowcontainer.getContainerAtIndex(pos1), x2.highlowcontainer.getContainerAtIndex(pos2)), false)", "\t\t\t\tx1.highlowcontainer.appendContainer(s1,\n\t\t\t\t\troaring.Or(x1.highlowcontainer.getContainerAtIndex(pos1), x2.highlowcontainer.getContainerAtIndex(pos2)), false)", "roaring64.Or"},
	{"ParOr compacts the caller's slice", "A1.slices", "parallel.go", "\tbitmapsFiltered := make([]*Bitmap, 0, len(bitmaps))\n", "\tbitmapsFiltered := bitmaps[:0]\n", "roaring.ParOr"},
	{"matchTrie returns the caller's prefix", "A1.bsi", "BitSliceIndexing/bsi.go", "\t\tif owned {\n\t\t\treturn prefix\n\t\t}\n\t\treturn prefix.Clone()\n", "\t\treturn prefix\n", "BatchEqual"},
	{"NewBSIRetainSet copies plane headers", "A7", "roaring64/bsi64.go", "\t\t\tnewBSI.bA[j] = *b.bA[j].Clone()\n", "\t\t\tnewBSI.bA[j] = b.bA[j]\n", "NewBSIRetainSet"},
	{"writeTo forgets a payload count", "B2", "roaringarray.go", "\t\twritten, err := c.writeTo(w)\n\t\tif err != nil {\n\t\t\treturn n, err\n\t\t}\n\t\tn += int64(written)\n", "\t\t_, err := c.writeTo(w)\n\t\tif err != nil {\n\t\t\treturn n, err\n\t\t}\n", "(roaring.container).writeTo"},
	{"FreezeTo writes before checking the size", "B3", "serialization_littleendian.go", "\tif len(buf) < serialSize {\n\t\treturn 0, ErrFrozenBitmapBufferTooSmall\n\t}\n", "", "FreezeTo"},
}

func runSelfTests(prop string, spec *PropSpec) (log []string, findings []Finding) {
	inSpec := map[string]bool{}
	for _, r := range spec.Rules {
		inSpec[r] = true
	}
	tested := map[string]bool{}
	for _, sd := range seeds {
		if !inSpec[sd.rule] {
			continue
		}
		tested[sd.rule] = true
		path := filepath.Join(repoDir(), sd.file)
		src, err := os.ReadFile(path)
		if err != nil {
			log = append(log, fmt.Sprintf("seed %q (%s): SKIPPED, cannot read %s", sd.name, sd.rule, sd.file))
			continue
		}
		if strings.Count(string(src), sd.old) < 1 {
			log = append(log, fmt.Sprintf("seed %q (%s): SKIPPED, its pattern no longer occurs in %s", sd.name, sd.rule, sd.file))
			continue
		}
		mod := strings.Replace(string(src), sd.old, sd.new, 1)
		p, err := Load(cfgAmd64, map[string][]byte{path: []byte(mod)})
		if err != nil {
			log = append(log, fmt.Sprintf("seed %q (%s): SKIPPED, the edited source does not type-check (%v)", sd.name, sd.rule, firstLine(err.Error())))
			continue
		}
		fn := ruleTable[sd.rule]
		if fn == nil {
			continue
		}
		hit := ""
		func() {
			defer func() {
				if r := recover(); r != nil {
					hit = ""
					findings = append(findings, Finding{Rule: "SELFTEST", Key: "SELFTEST|" + sd.rule + "|" + sd.name, Pos: sd.file, Msg: fmt.Sprintf("rule panicked on the seeded source: %v", r), Undecided: true})
				}
			}()
			res := fn(p)
			for _, f := range res.Findings {
				if strings.Contains(f.Key, sd.expect) {
					hit = f.Key
				}
			}
		}()
		if hit != "" {
			log = append(log, fmt.Sprintf("seed %q (%s): DETECTED as %s", sd.name, sd.rule, hit))
		} else {
			log = append(log, fmt.Sprintf("seed %q (%s): NOT DETECTED", sd.name, sd.rule))
			findings = append(findings, Finding{Rule: "SELFTEST", Key: "SELFTEST|" + sd.rule + "|" + sd.name, Pos: sd.file, Undecided: true,
				Msg: fmt.Sprintf("checker self-test: the seeded edit %q of %s is not reported by rule %s (expected a finding containing %q); the rule has lost its teeth", sd.name, sd.file, sd.rule, sd.expect)})
		}
		tlCache = map[*Prog]map[string]*tlEngine{} // release the engines of the overlay program
	}
	for _, r := range spec.Rules {
		if !tested[r] {
			log = append(log, fmt.Sprintf("rule %s: no self-test seed", r))
		}
	}
	return log, findings
}

func firstLine(s string) string {
	if i := strings.IndexByte(s, '\n'); i >= 0 {
		return s[:i]
	}
	if len(s) > 200 {
		return s[:200]
	}
	return s
}
