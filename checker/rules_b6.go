package main

import (
	"fmt"
	"sort"
	"strings"

	"golang.org/x/tools/go/ssa"
)

func init() {
	register("B6", "a caller's slice ends at its length: no exported function consults cap() of a slice of scalars it was given (the only way to read or write the caller's memory beyond len without panicking)", ruleB6)
}

func ruleB6(p *Prog) *RuleResult {
	res := newResult("B6", ruleDoc["B6"], 15)
	var fns []*ssa.Function
	for _, f := range p.sourceFns() {
		if isExportedAPI(f) && !strings.Contains(fnPkgPath(f), "/internal") && f.Blocks != nil {
			fns = append(fns, f)
		}
	}
	sort.Slice(fns, func(i, j int) bool { return fname(fns[i]) < fname(fns[j]) })
	for _, f := range fns {
		for _, prm := range f.Params {
			if !scalarSlice(prm.Type()) {
				continue
			}
			c := fmt.Sprintf("%s|param:%s", fname(f), prm.Name())
			derived := map[ssa.Value]bool{}
			var bad ssa.Instruction
			var walk func(v ssa.Value, d int)
			walk = func(v ssa.Value, d int) {
				if derived[v] || d > 10 || v.Referrers() == nil {
					return
				}
				derived[v] = true
				for _, r := range *v.Referrers() {
					switch x := r.(type) {
					case *ssa.Slice:
						if x.X == v {
							walk(x, d+1)
						}
					case *ssa.Phi:
						walk(x, d+1)
					case *ssa.ChangeType:
						walk(x, d+1)
					case *ssa.Store:
						if x.Val == v {
							if al, ok := x.Addr.(*ssa.Alloc); ok {
								for _, rr := range *al.Referrers() {
									if ld, ok := rr.(*ssa.UnOp); ok {
										walk(ld, d+1)
									}
								}
							}
						}
					case *ssa.Call:
						if bi, ok := x.Call.Value.(*ssa.Builtin); ok && bi.Name() == "cap" && bad == nil {
							bad = x
						}
					}
				}
			}
			walk(prm, 0)
			if bad != nil {
				res.bad(c, p.ipos(bad), "cap() of the caller's slice is consulted: memory between len and cap belongs to the caller's surrounding buffer and must be neither read into the bitmap nor written")
			} else {
				res.ok(c, p.pos(f.Pos()), "cap() never consulted")
			}
		}
	}
	return res
}
