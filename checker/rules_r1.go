package main

import (
	"fmt"
	"sort"
	"strings"

	"golang.org/x/tools/go/ssa"
)

func init() {
	register("R1", "decoders replace the receiver: on every path to a successful return, the three slot-table arrays (keys, containers, needCopyOnWrite) of the receiver have been reassigned or reset, so decoding into a used bitmap cannot keep old chunks", ruleR1)
}

var r1Targets = []string{
	"(*roaring.roaringArray).readFrom",
	"(*roaring.roaringArray).frozenView",
	"(*roaring64.Bitmap).ReadFrom",
	"(*roaring64.Bitmap).FromUnsafeBytes",
}

// tableFieldOfRecv: addr is &recv.<f> or &recv.highlowcontainer.<f> with f one of the table arrays.
func tableFieldOfRecv(addr ssa.Value, recv ssa.Value) (string, bool) {
	fa, ok := addr.(*ssa.FieldAddr)
	if !ok {
		return "", false
	}
	name := fieldName(fa.X.Type(), fa.Field)
	short := name[strings.LastIndex(name, ".")+1:]
	if short != "keys" && short != "containers" && short != "needCopyOnWrite" {
		return "", false
	}
	if fa.X == recv {
		return short, true
	}
	if in, ok := fa.X.(*ssa.FieldAddr); ok && in.X == recv && strings.HasSuffix(fieldName(in.X.Type(), in.Field), ".highlowcontainer") {
		return short, true
	}
	return "", false
}

func isRecvTable(v ssa.Value, recv ssa.Value) bool {
	if v == recv {
		return true
	}
	if in, ok := v.(*ssa.FieldAddr); ok && in.X == recv && strings.HasSuffix(fieldName(in.X.Type(), in.Field), ".highlowcontainer") {
		return true
	}
	return false
}

type r1set map[string]bool

func (a r1set) union(b r1set) r1set {
	o := r1set{}
	for k := range a {
		o[k] = true
	}
	for k := range b {
		o[k] = true
	}
	return o
}
func (a r1set) inter(b r1set) r1set {
	o := r1set{}
	for k := range a {
		if b[k] {
			o[k] = true
		}
	}
	return o
}
func (a r1set) String() string {
	var ks []string
	for k := range a {
		ks = append(ks, k)
	}
	sort.Strings(ks)
	return strings.Join(ks, ",")
}

// mustAssign: the table arrays of f's receiver assigned on every path to each return (all returns when
// onlySuccess is false). Returns per-return sets.
func mustAssign(p *Prog, f *ssa.Function, depth int, memo map[*ssa.Function]r1set) map[*ssa.Return]r1set {
	if len(f.Blocks) == 0 || len(f.Params) == 0 {
		return nil
	}
	recv := f.Params[0]
	gen := map[*ssa.BasicBlock]r1set{}
	for _, b := range f.Blocks {
		g := r1set{}
		for _, ins := range b.Instrs {
			switch x := ins.(type) {
			case *ssa.Store:
				if fld, ok := tableFieldOfRecv(x.Addr, recv); ok {
					g[fld] = true
				}
			case *ssa.Call:
				callee := x.Call.StaticCallee()
				if callee == nil || len(x.Call.Args) == 0 || !isRecvTable(x.Call.Args[0], recv) || callee.Signature.Recv() == nil || depth > 3 {
					continue
				}
				s, ok := memo[callee]
				if !ok {
					memo[callee] = r1set{} // recursion guard
					per := mustAssign(p, callee, depth+1, memo)
					first := true
					for _, rs := range per {
						if first {
							s, first = rs, false
						} else {
							s = s.inter(rs)
						}
					}
					if s == nil {
						s = r1set{}
					}
					memo[callee] = s
				}
				for k := range s {
					g[k] = true
				}
			}
		}
		gen[b] = g
	}
	all := r1set{"keys": true, "containers": true, "needCopyOnWrite": true}
	in := map[*ssa.BasicBlock]r1set{}
	out := map[*ssa.BasicBlock]r1set{}
	for _, b := range f.Blocks {
		out[b] = all
	}
	for changed := true; changed; {
		changed = false
		for _, b := range f.Blocks {
			var i r1set
			if b == f.Blocks[0] {
				i = r1set{}
			} else {
				first := true
				for _, pr := range b.Preds {
					if first {
						i, first = out[pr], false
					} else {
						i = i.inter(out[pr])
					}
				}
				if i == nil {
					i = r1set{}
				}
			}
			o := i.union(gen[b])
			if o.String() != out[b].String() || in[b].String() != i.String() {
				changed = true
			}
			in[b], out[b] = i, o
		}
	}
	res := map[*ssa.Return]r1set{}
	for _, b := range f.Blocks {
		if r, ok := b.Instrs[len(b.Instrs)-1].(*ssa.Return); ok {
			res[r] = out[b]
		}
	}
	return res
}

// failureReturn: the error result of r is provably non-nil.
func failureReturn(f *ssa.Function, r *ssa.Return) bool {
	ei := errResultIndex(f.Signature)
	if ei < 0 || ei >= len(r.Results) {
		return false
	}
	return provablyNonNilErr(r.Results[ei], r.Block(), 0)
}

func provablyNonNilErr(v ssa.Value, at *ssa.BasicBlock, depth int) bool {
	if depth > 4 {
		return false
	}
	switch x := v.(type) {
	case *ssa.Const:
		return false
	case *ssa.Call:
		name := calleeName(&x.Call)
		if strings.HasPrefix(name, "fmt.Errorf") || strings.HasPrefix(name, "errors.New") {
			return true
		}
	case *ssa.MakeInterface:
		return true
	case *ssa.UnOp:
		if g, ok := x.X.(*ssa.Global); ok && strings.HasPrefix(g.Name(), "Err") {
			return true
		}
	case *ssa.Phi:
		for i, e := range x.Edges {
			if !provablyNonNilErr(e, x.Block().Preds[i], depth+1) {
				return false
			}
		}
		return true
	}
	// dominated by the true edge of `v != nil` (or the false edge of `v == nil`)
	for d := at; d != nil; d = d.Idom() {
		ifi, ok := d.Instrs[len(d.Instrs)-1].(*ssa.If)
		if !ok {
			continue
		}
		bo, ok := ifi.Cond.(*ssa.BinOp)
		if !ok {
			continue
		}
		if (bo.X == v && isNilConst(bo.Y)) || (bo.Y == v && isNilConst(bo.X)) {
			switch bo.Op.String() {
			case "!=":
				if d != at && dominatedByEdge(d, 0, at) {
					return true
				}
			case "==":
				if d != at && dominatedByEdge(d, 1, at) {
					return true
				}
			}
		}
		// `a || v != nil`: go/ssa splits it into two Ifs that share the true successor; either way being on
		// that successor does not prove v != nil, so nothing to add here.
	}
	return false
}

func ruleR1(p *Prog) *RuleResult {
	res := newResult("R1", ruleDoc["R1"], 3)
	for _, name := range r1Targets {
		f := p.Func(name)
		if f == nil {
			if strings.Contains(name, "frozenView") && p.Cfg.Name != cfgAmd64.Name {
				continue // the portable (appengine) build has no frozen format
			}
			res.undecided(name, "-", "anchor not found")
			continue
		}
		per := mustAssign(p, f, 0, map[*ssa.Function]r1set{})
		n := 0
		var rets []*ssa.Return
		for r := range per {
			rets = append(rets, r)
		}
		sort.Slice(rets, func(i, j int) bool { return rets[i].Pos() < rets[j].Pos() })
		for _, r := range rets {
			if failureReturn(f, r) {
				continue
			}
			n++
			c := fmt.Sprintf("%s|success return#%d", name, n)
			got := per[r]
			if got["keys"] && got["containers"] && got["needCopyOnWrite"] {
				res.ok(c, p.ipos(r), "keys, containers and needCopyOnWrite are reassigned or reset on every path")
			} else {
				var missing []string
				for _, k := range []string{"keys", "containers", "needCopyOnWrite"} {
					if !got[k] {
						missing = append(missing, k)
					}
				}
				res.bad(c, p.ipos(r), fmt.Sprintf("a path reaches this return (error not provably non-nil) without resetting %s of the receiver: decoding into a bitmap that already holds chunks keeps them", strings.Join(missing, ", ")))
			}
		}
		if n == 0 {
			res.undecided(name+"|success return", p.pos(f.Pos()), "no successful return recognised")
		}
	}
	return res
}
