package main

import (
	"fmt"
	"go/types"
	"sort"
	"strings"

	"golang.org/x/tools/go/ssa"
)

func init() {
	register("UNS1", "pointers live in memory the garbage collector scans: no unsafe reinterpretation gives a pointer-containing element type (interfaces, slices, pointers, structs holding them) to memory that was allocated as bytes or other pointer-free data — a pointer stored there (for instance the clone made by copy-on-write) would be invisible to the collector", ruleUNS1)
}

// ruleUNS1 inspects every conversion unsafe.Pointer -> *T with T containing pointers and follows the
// unsafe.Pointer back to where it was made: from *E with E pointer-free (unsafe.SliceData of a []byte,
// &b[0]) is a violation; from a pointerful *E it is a plain cast.
func ruleUNS1(p *Prog) *RuleResult {
	res := newResult("UNS1", ruleDoc["UNS1"], 3)
	var fns []*ssa.Function
	fns = append(fns, p.sourceFns()...)
	sort.Slice(fns, func(i, j int) bool { return fname(fns[i]) < fname(fns[j]) })
	isUnsafePtr := func(t types.Type) bool {
		b, ok := t.Underlying().(*types.Basic)
		return ok && b.Kind() == types.UnsafePointer
	}
	for _, f := range fns {
		if strings.HasPrefix(f.Name(), "smat") {
			continue
		}
		n := 0
		for _, b := range f.Blocks {
			for _, ins := range b.Instrs {
				cv, ok := ins.(*ssa.Convert)
				if !ok || !isUnsafePtr(cv.X.Type()) {
					continue
				}
				pt, ok := cv.Type().Underlying().(*types.Pointer)
				if !ok {
					continue
				}
				n++
				c := fmt.Sprintf("%s|reinterpret as *%s#%d", fname(f), typeShort(pt.Elem()), n)
				if !hasPointers(pt.Elem()) {
					res.ok(c, p.ipos(cv), "pointer-free element type")
					continue
				}
				// where does the unsafe.Pointer come from?
				src := cv.X
				from := "an unknown source"
				bad := true
				for i := 0; i < 6; i++ {
					switch x := src.(type) {
					case *ssa.Convert:
						if spt, ok := x.X.Type().Underlying().(*types.Pointer); ok {
							if hasPointers(spt.Elem()) {
								bad = false
								from = "a *" + typeShort(spt.Elem())
							} else {
								from = "a *" + typeShort(spt.Elem()) + " (pointer-free memory)"
							}
							i = 6
							continue
						}
						src = x.X
						continue
					case *ssa.Phi:
						if len(x.Edges) > 0 {
							src = x.Edges[0]
							continue
						}
					}
					break
				}
				if bad {
					res.bad(c, p.ipos(cv), fmt.Sprintf("memory obtained from %s is reinterpreted as %s, which contains pointers: the garbage collector does not scan that memory, so anything stored through the new type can be freed while in use", from, typeShort(pt.Elem())))
				} else {
					res.ok(c, p.ipos(cv), "source memory is pointerful as well ("+from+")")
				}
			}
		}
	}
	return res
}
