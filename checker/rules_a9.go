package main

import (
	"fmt"
	"sort"
	"strings"

	"golang.org/x/tools/go/ssa"
)

func init() {
	register("A9", "containers do not share a backing array through spare capacity: when two payload slices (arrayContainer.content, runContainer16.iv, bitmapContainer.bitmap) stored by one function are cut out of the same allocation, each cut that does not run to the end of the allocation caps its capacity (three-index slice), so that growing one container cannot overwrite the other", ruleA9)
}

var payloadFields = []string{"arrayContainer.content", "runContainer16.iv", "bitmapContainer.bitmap"}

func ruleA9(p *Prog) *RuleResult {
	res := newResult("A9", ruleDoc["A9"], 1)
	isPayload := func(addr ssa.Value) bool {
		fa, ok := addr.(*ssa.FieldAddr)
		if !ok {
			return false
		}
		n := fieldName(fa.X.Type(), fa.Field)
		for _, pf := range payloadFields {
			if strings.HasSuffix(n, pf) {
				return true
			}
		}
		return false
	}
	// allocation base of a slice value: the make / array it is cut from
	var base func(v ssa.Value, d int) ssa.Value
	base = func(v ssa.Value, d int) ssa.Value {
		if d > 6 {
			return v
		}
		switch x := v.(type) {
		case *ssa.Slice:
			return base(x.X, d+1)
		case *ssa.ChangeType:
			return base(x.X, d+1)
		}
		return v
	}
	var fns []*ssa.Function
	for _, f := range p.sourceFns() {
		if fnPkgPath(f) == modPath && f.Blocks != nil {
			fns = append(fns, f)
		}
	}
	sort.Slice(fns, func(i, j int) bool { return fname(fns[i]) < fname(fns[j]) })
	total := 0
	for _, f := range fns {
		type cut struct {
			st *ssa.Store
			sl *ssa.Slice
		}
		byBase := map[ssa.Value][]cut{}
		for _, b := range f.Blocks {
			for _, ins := range b.Instrs {
				st, ok := ins.(*ssa.Store)
				if !ok || !isPayload(st.Addr) {
					continue
				}
				sl, ok := st.Val.(*ssa.Slice)
				if !ok {
					continue
				}
				bs := base(sl, 0)
				switch bs.(type) {
				case *ssa.MakeSlice, *ssa.Alloc:
					byBase[bs] = append(byBase[bs], cut{st, sl})
				}
			}
		}
		n := 0
		for bs, cuts := range byBase {
			if len(cuts) < 2 {
				continue
			}
			for _, c := range cuts {
				n++
				total++
				k := fmt.Sprintf("%s|payload cut#%d", fname(f), n)
				_ = bs
				if c.sl.High == nil || c.sl.Max != nil || c.sl.Low != nil {
					// (a cut that starts inside the allocation is taken to be the last one; only a cut from the
					// start with open capacity is certain to reach into a sibling)
					res.ok(k, p.ipos(c.st), "caps its capacity, or is the trailing cut of the allocation")
				} else {
					res.bad(k, p.ipos(c.st), "this payload slice and a sibling container's are cut from one allocation, and this one keeps spare capacity that reaches into the sibling's elements: an append to this container overwrites the other")
				}
			}
		}
	}
	if total == 0 {
		res.ok("no function cuts two payloads out of one allocation", "-", fmt.Sprintf("%d functions scanned", len(fns)))
	}
	return res
}
