package main

import (
	"fmt"
	"go/token"
	"go/types"
	"sort"
	"strings"

	"golang.org/x/tools/go/ssa"
)

func init() {
	register("F10.bsi", "a found-set may be the index's own existence bitmap (GetExistenceBitmap returns it, and the library passes it itself): a BSI mutator that removes its found-set from the existence bitmap (eBM.AndNot / Xor with the parameter) does so only after its last other use of that parameter, and not concurrently with one; x.Add(x) never reads the operand on the path where it is the receiver", ruleF10BSI)
}

func ruleF10BSI(p *Prog) *RuleResult {
	res := newResult("F10.bsi", ruleDoc["F10.bsi"], 4)
	var fns []*ssa.Function
	for _, f := range p.sourceFns() {
		pp := fnPkgPath(f)
		if (pp == pkgPathOf("roaring64") || pp == pkgPathOf("BitSliceIndexing")) && f.Blocks != nil && f.Parent() == nil && f.Signature.Recv() != nil && strings.HasSuffix(typeShort(f.Signature.Recv().Type()), "BSI") {
			fns = append(fns, f)
		}
	}
	sort.Slice(fns, func(i, j int) bool { return fname(fns[i]) < fname(fns[j]) })
	isEBM := func(v ssa.Value) bool {
		// &b.eBM (struct field) or the loaded pointer b.eBM
		if fa, ok := v.(*ssa.FieldAddr); ok {
			return strings.HasSuffix(fieldName(fa.X.Type(), fa.Field), "BSI.eBM")
		}
		if ld, ok := v.(*ssa.UnOp); ok {
			if fa, ok := ld.X.(*ssa.FieldAddr); ok {
				return strings.HasSuffix(fieldName(fa.X.Type(), fa.Field), "BSI.eBM")
			}
		}
		return false
	}
	for _, f := range fns {
		for k, prm := range f.Params {
			if k == 0 || !strings.HasSuffix(typeShort(prm.Type()), "Bitmap") {
				continue
			}
			// all uses of the parameter in f and in the function literals of f (captured through a cell)
			type use struct {
				ins     ssa.Instruction
				fn      *ssa.Function
				kills   bool
				spawned bool // the parameter is handed to a go / defer statement
			}
			var uses []use
			var collect func(g *ssa.Function, isParam func(ssa.Value) bool)
			collect = func(g *ssa.Function, isParam func(ssa.Value) bool) {
				for _, b := range g.Blocks {
					for _, ins := range b.Instrs {
						switch x := ins.(type) {
						case *ssa.Go, *ssa.Defer:
							cc := x.(ssa.CallInstruction).Common()
							for _, a := range cc.Args {
								if isParam(a) {
									uses = append(uses, use{ins: ins, fn: g, spawned: true})
								}
							}
						case *ssa.Call:
							for ai, a := range x.Call.Args {
								if !isParam(a) {
									continue
								}
								name := calleeName(&x.Call)
								kills := ai == 1 && len(x.Call.Args) >= 2 && isEBM(x.Call.Args[0]) && (strings.HasSuffix(name, ").AndNot") || strings.HasSuffix(name, ").Xor"))
								uses = append(uses, use{ins: x, fn: g, kills: kills})
							}
						case *ssa.MakeClosure:
							cl := x.Fn.(*ssa.Function)
							for bi, bnd := range x.Bindings {
								// the cell that holds the parameter
								if al, ok := bnd.(*ssa.Alloc); ok {
									holds := false
									for _, r := range *al.Referrers() {
										if st, ok := r.(*ssa.Store); ok && st.Addr == al && isParam(st.Val) {
											holds = true
										}
									}
									if holds {
										fv := cl.FreeVars[bi]
										collect(cl, func(v ssa.Value) bool {
											ld, ok := v.(*ssa.UnOp)
											return ok && ld.X == ssa.Value(fv)
										})
									}
								}
							}
						}
					}
				}
			}
			isP := func(v ssa.Value) bool {
				if v == ssa.Value(prm) {
					return true
				}
				// reloaded from the cell it was spilled to
				if ld, ok := v.(*ssa.UnOp); ok {
					if al, ok := ld.X.(*ssa.Alloc); ok {
						for _, r := range *al.Referrers() {
							if st, ok := r.(*ssa.Store); ok && st.Addr == al && st.Val == ssa.Value(prm) {
								return true
							}
						}
					}
				}
				return false
			}
			collect(f, isP)
			var kill *use
			for i := range uses {
				if uses[i].kills {
					kill = &uses[i]
				}
			}
			if kill == nil {
				continue
			}
			c := fmt.Sprintf("%s|found-set %s removed from the existence bitmap", fname(f), prm.Name())
			bad := ""
			for _, u := range uses {
				if u.ins == kill.ins {
					continue
				}
				switch {
				case u.spawned:
					if _, isGo := u.ins.(*ssa.Go); isGo && u.fn == f && kill.fn == f && waitSeparates(f, []ssa.Instruction{u.ins}, kill.ins) {
						continue
					}
					bad = fmt.Sprintf("the parameter is handed to the go/defer statement at %s, which is not ordered before the removal at %s", p.ipos(u.ins), p.ipos(kill.ins))
				case u.fn != kill.fn:
					if kill.fn == f && waitSeparates(f, makesOf(f, u.fn), kill.ins) {
						continue
					}
					bad = fmt.Sprintf("the removal at %s runs in a different goroutine/function literal than the use at %s, with no ordering between them", p.ipos(kill.ins), p.ipos(u.ins))
				case u.ins.Block() == kill.ins.Block():
					after := false
					for _, x := range u.ins.Block().Instrs {
						if x == kill.ins {
							after = true
						}
						if x == u.ins && after {
							bad = fmt.Sprintf("the parameter is used at %s after it was removed from the existence bitmap at %s", p.ipos(u.ins), p.ipos(kill.ins))
						}
					}
				case blockReaches(kill.ins.Block(), u.ins.Block()):
					bad = fmt.Sprintf("the parameter is used at %s after it was removed from the existence bitmap at %s", p.ipos(u.ins), p.ipos(kill.ins))
				}
			}
			if bad != "" {
				res.bad(c, p.ipos(kill.ins), bad+": when the caller passes the index's own existence bitmap, that use sees an already emptied set and the value planes keep their bits")
			} else {
				res.ok(c, p.ipos(kill.ins), "last use of the parameter")
			}
		}
	}
	// in-place binary operations of an index with an index: x.Add(x) (doubling) is ordinary use, and the
	// carries rewrite the planes that are still to be read — the operand is not read on the path where it
	// is the receiver
	for _, f := range fns {
		if f.Name() != "Add" || len(f.Params) != 2 || !types.Identical(f.Params[0].Type(), f.Params[1].Type()) {
			continue
		}
		c := fname(f) + "|self-application guarded"
		var guard *ssa.If
		differ := 0
		for _, b := range f.Blocks {
			ifi, ok := b.Instrs[len(b.Instrs)-1].(*ssa.If)
			if !ok {
				continue
			}
			bo, ok := ifi.Cond.(*ssa.BinOp)
			if !ok || (bo.Op != token.EQL && bo.Op != token.NEQ) {
				continue
			}
			if (bo.X == ssa.Value(f.Params[0]) && bo.Y == ssa.Value(f.Params[1])) || (bo.Y == ssa.Value(f.Params[0]) && bo.X == ssa.Value(f.Params[1])) {
				guard = ifi
				if bo.Op == token.EQL {
					differ = 1
				}
			}
		}
		if guard == nil {
			res.bad(c, p.pos(f.Pos()), "no test of the operand against the receiver: b.Add(b) reads planes that its own carries have already rewritten (and appended to) — the call never returns")
			continue
		}
		bad := ""
		if refs := f.Params[1].Referrers(); refs != nil {
			for _, r := range *refs {
				if r == guard.Cond.(ssa.Instruction) {
					continue
				}
				if _, isPhi := r.(*ssa.Phi); isPhi {
					continue // joined with the snapshot taken on the other side
				}
				if _, isDbg := r.(*ssa.DebugRef); isDbg {
					continue
				}
				d := guard.Block().Succs[differ]
				if !(len(d.Preds) == 1 && d.Dominates(r.Block())) {
					bad = "the operand is read at " + p.ipos(r) + " also on the path where it is the receiver itself"
				}
			}
		}
		if bad != "" {
			res.bad(c, p.ipos(guard), bad)
		} else {
			res.ok(c, p.ipos(guard), "the raw operand is read only where it differs from the receiver (a snapshot stands in for it otherwise)")
		}
	}
	return res
}

// makesOf: the instructions of f that create the function literal lit.
func makesOf(f, lit *ssa.Function) []ssa.Instruction {
	var makes []ssa.Instruction
	for _, b := range f.Blocks {
		for _, ins := range b.Instrs {
			if mc, ok := ins.(*ssa.MakeClosure); ok && mc.Fn == ssa.Value(lit) {
				makes = append(makes, ins)
			}
		}
	}
	return makes
}

// waitSeparates: a (*sync.WaitGroup).Wait call of f precedes the instruction at on every path, and
// none of the spawning instructions (creation of a worker literal, go statement) can execute after it.
func waitSeparates(f *ssa.Function, makes []ssa.Instruction, at ssa.Instruction) bool {
	var waits []ssa.Instruction
	for _, b := range f.Blocks {
		for _, ins := range b.Instrs {
			if c, ok := ins.(*ssa.Call); ok && calleeName(&c.Call) == "(*sync.WaitGroup).Wait" {
				waits = append(waits, ins)
			}
		}
	}
	before := func(a, b ssa.Instruction) bool { // a strictly precedes b on every path to b
		if a.Block() == b.Block() {
			for _, x := range a.Block().Instrs {
				if x == a {
					return true
				}
				if x == b {
					return false
				}
			}
		}
		return a.Block().Dominates(b.Block())
	}
	after := func(a, b ssa.Instruction) bool { // a may execute after b
		if a.Block() == b.Block() {
			if !before(a, b) {
				return true
			}
			return blockReaches(b.Block(), a.Block()) && inCycle(b.Block())
		}
		return blockReaches(b.Block(), a.Block())
	}
	for _, w := range waits {
		if !before(w, at) {
			continue
		}
		ok := len(makes) > 0
		for _, m := range makes {
			if after(m, w) {
				ok = false
			}
		}
		if ok {
			return true
		}
	}
	return false
}

func inCycle(b *ssa.BasicBlock) bool {
	for _, s := range b.Succs {
		if s == b || blockReaches(s, b) {
			return true
		}
	}
	return false
}
