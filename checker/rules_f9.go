package main

import (
	"fmt"
	"go/token"
	"go/types"
	"strings"

	"golang.org/x/tools/go/ssa"
)

func init() {
	register("F9", "aggregate siblings: every exported func(...*Bitmap) *Bitmap returns an independent bitmap when given a single input (result provably fresh, or a len==1 guard returning a clone)", ruleF9)
	register("F10", "self-application: in-place Xor / AndNot test rb == x2 before any container is written", ruleF10)
	register("F5", "index provenance: the position at which a key is inserted into a table was searched in that same table", ruleF5)
}

func isBitmapPtrSliceParam(t types.Type) bool {
	s, ok := t.Underlying().(*types.Slice)
	if !ok {
		return false
	}
	p, ok := s.Elem().Underlying().(*types.Pointer)
	if !ok {
		return false
	}
	n, ok := p.Elem().(*types.Named)
	return ok && n.Obj().Name() == "Bitmap" && strings.HasPrefix(n.Obj().Pkg().Path(), modPath)
}

func ruleF9(p *Prog) *RuleResult {
	res := newResult("F9", ruleDoc["F9"], 8)
	own := p.OWN()
	for _, f := range p.sourceFns() {
		if !isExportedAPI(f) || f.Signature.Recv() != nil || f.Signature.Results().Len() != 1 {
			continue
		}
		listParam := -1
		for i, prm := range f.Params {
			if isBitmapPtrSliceParam(prm.Type()) {
				listParam = i
			}
		}
		if listParam < 0 {
			continue
		}
		rt := f.Signature.Results().At(0).Type()
		if pt, ok := rt.Underlying().(*types.Pointer); !ok {
			continue
		} else if n, ok := pt.Elem().(*types.Named); !ok || n.Obj().Name() != "Bitmap" {
			continue
		}
		c := fname(f) + "|singleton"
		pos := p.pos(f.Pos())
		sum := own.Sum(f)
		ri := sum.ret[0]
		if ri.fresh && len(ri.is) == 0 && len(ri.isDeep) == 0 && !ri.global {
			res.ok(c, pos, "result object is fresh on every path")
			continue
		}
		// look for the guard len(list) == 1 -> return <fresh call>
		guard := false
		why := "result may be one of the inputs and there is no len(list)==1 guard returning a clone"
		for _, b := range f.Blocks {
			if len(b.Instrs) == 0 {
				continue
			}
			ifi, ok := b.Instrs[len(b.Instrs)-1].(*ssa.If)
			if !ok {
				continue
			}
			bo, ok := ifi.Cond.(*ssa.BinOp)
			if !ok || bo.Op != token.EQL {
				continue
			}
			var lenCall ssa.Value
			if isConstInt(bo.Y, 1) {
				lenCall = bo.X
			} else if isConstInt(bo.X, 1) {
				lenCall = bo.Y
			}
			if !isLenOfBitmapList(lenCall) {
				continue
			}
			tb := b.Succs[0]
			if len(tb.Instrs) == 0 {
				continue
			}
			ret, ok := tb.Instrs[len(tb.Instrs)-1].(*ssa.Return)
			if !ok || len(ret.Results) != 1 {
				continue
			}
			call, ok := ret.Results[0].(*ssa.Call)
			if !ok {
				why = "the len(list)==1 branch does not return the result of a call"
				continue
			}
			callee := call.Call.StaticCallee()
			if callee == nil {
				continue
			}
			cs := own.Sum(callee)
			if cs != nil && len(cs.ret) > 0 && cs.ret[0].fresh && len(cs.ret[0].is) == 0 && len(cs.ret[0].isDeep) == 0 {
				guard = true
			} else {
				why = fmt.Sprintf("the len(list)==1 branch returns %s, whose result is not a fresh bitmap", fname(callee))
			}
		}
		// the guard may live in a helper shared by the siblings: answer, done := few(list); if done { return answer }
		if !guard {
			for _, b := range f.Blocks {
				ifi, ok := b.Instrs[len(b.Instrs)-1].(*ssa.If)
				if !ok {
					continue
				}
				ex, ok := ifi.Cond.(*ssa.Extract)
				if !ok {
					continue
				}
				call, ok := ex.Tuple.(*ssa.Call)
				if !ok {
					continue
				}
				h := call.Call.StaticCallee()
				if h == nil || h.Blocks == nil || h.Signature.Results().Len() != 2 {
					continue
				}
				passesList := false
				for _, a := range call.Call.Args {
					if isBitmapPtrSliceParam(a.Type()) {
						passesList = true
					}
				}
				tb := b.Succs[0]
				ret, ok := tb.Instrs[len(tb.Instrs)-1].(*ssa.Return)
				if !passesList || !ok || len(ret.Results) != 1 {
					continue
				}
				if ex0, ok := ret.Results[0].(*ssa.Extract); !ok || ex0.Tuple != ex.Tuple || ex0.Index != 0 {
					continue
				}
				hs := own.Sum(h)
				if hs == nil || len(hs.ret) == 0 || !hs.ret[0].fresh || len(hs.ret[0].is) != 0 || len(hs.ret[0].isDeep) != 0 {
					why = fmt.Sprintf("the shared guard %s may hand back one of the inputs", fname(h))
					continue
				}
				// the helper answers done=true for a single input
				single := false
				for _, hb := range h.Blocks {
					hi, ok := hb.Instrs[len(hb.Instrs)-1].(*ssa.If)
					if !ok {
						continue
					}
					bo, ok := hi.Cond.(*ssa.BinOp)
					if !ok || bo.Op != token.EQL {
						continue
					}
					var lenCall ssa.Value
					if isConstInt(bo.Y, 1) {
						lenCall = bo.X
					} else if isConstInt(bo.X, 1) {
						lenCall = bo.Y
					}
					if !isLenOfBitmapList(lenCall) {
						continue
					}
					t := hb.Succs[0]
					if r, ok := t.Instrs[len(t.Instrs)-1].(*ssa.Return); ok && len(r.Results) == 2 {
						if cb, ok := constBool(r.Results[1]); ok && cb {
							single = true
						}
					}
				}
				if single {
					guard = true
				} else {
					why = fmt.Sprintf("the shared guard %s does not answer for a single input", fname(h))
				}
			}
		}
		if guard {
			res.ok(c, pos, "len(list)==1 guard returns a fresh copy")
		} else {
			res.bad(c, pos, why)
		}
	}
	res.Assumptions = append(res.Assumptions, "for two or more inputs HeapOr/HeapXor return the last heap item, which is always a pushed Or/Xor result (loop-count argument, not decided)")
	return res
}

func isConstInt(v ssa.Value, n int64) bool {
	c, ok := v.(*ssa.Const)
	if !ok || c.Value == nil {
		return false
	}
	return c.Value.ExactString() == fmt.Sprint(n)
}

func isLenOfBitmapList(v ssa.Value) bool {
	c, ok := v.(*ssa.Call)
	if !ok {
		return false
	}
	if b, ok := c.Call.Value.(*ssa.Builtin); !ok || b.Name() != "len" {
		return false
	}
	return isBitmapPtrSliceParam(c.Call.Args[0].Type())
}

func ruleF10(p *Prog) *RuleResult {
	res := newResult("F10", ruleDoc["F10"], 2)
	for _, spec := range []struct{ name, level string }{
		{"(*roaring.Bitmap).Xor", "32"}, {"(*roaring.Bitmap).AndNot", "32"},
		// the 64-bit in-place Xor walks the operand's table with a length read before the loop while it
		// removes cancelled buckets from the receiver: with receiver == operand it runs off the end
		{"(*roaring64.Bitmap).Xor", "64"},
	} {
		name := spec.name
		e, err := p.TL(spec.level)
		if err != nil {
			res.undecided("anchors:"+spec.level, "-", err.Error())
			continue
		}
		f := p.Func(name)
		if f == nil {
			res.undecided(name, "-", "anchor not found")
			continue
		}
		var guard *ssa.If
		for _, b := range f.Blocks {
			if len(b.Instrs) == 0 {
				continue
			}
			if ifi, ok := b.Instrs[len(b.Instrs)-1].(*ssa.If); ok {
				if bo, ok := ifi.Cond.(*ssa.BinOp); ok && bo.Op == token.EQL {
					if (bo.X == ssa.Value(f.Params[0]) && bo.Y == ssa.Value(f.Params[1])) || (bo.Y == ssa.Value(f.Params[0]) && bo.X == ssa.Value(f.Params[1])) {
						guard = ifi
					}
				}
			}
		}
		if guard == nil {
			res.bad(name, p.pos(f.Pos()), "no rb == x2 test: applying the operation to the bitmap itself runs in-place kernels with receiver == operand")
			continue
		}
		// every write-through site is on the "different bitmaps" side
		bad := ""
		n := 0
		for _, k := range e.order {
			s := e.sites[k]
			if s == nil || s.rule != "A2" || s.fn != f {
				continue
			}
			n++
			if !dominatedByEdge(guard.Block(), 1, s.instr.Block()) {
				bad = "a container write at " + p.ipos(s.instr) + " is not behind the rb == x2 test"
			}
		}
		for _, b := range f.Blocks {
			for _, ins := range b.Instrs {
				if c, ok := ins.(*ssa.Call); ok {
					if callee := c.Call.StaticCallee(); callee != nil && len(c.Call.Args) > 0 && e.lv.isTableRef(c.Call.Args[0].Type()) {
						if s := e.sums[e.sumKey(callee, "")]; s != nil && len(s.mutTab) > 0 && b != guard.Block().Succs[0] {
							if !dominatedByEdge(guard.Block(), 1, b) && !guard.Block().Succs[0].Dominates(b) {
								bad = "a table update at " + p.ipos(c) + " is not behind the rb == x2 test"
							}
						}
					}
				}
			}
		}
		if bad != "" {
			res.bad(name, p.pos(f.Pos()), bad)
		} else {
			res.ok(name, p.pos(f.Pos()), fmt.Sprintf("guard dominates %d container write site(s)", n))
		}
	}
	return res
}

// searchCallRoot: v is (an arithmetic transformation of) the result of a search in a table; returns that table's root.
func searchRoot(t *tlFunc, v ssa.Value, depth int) (string, bool) {
	if depth > 8 {
		return "", false
	}
	switch x := v.(type) {
	case *ssa.BinOp:
		if r, ok := searchRoot(t, x.X, depth+1); ok {
			return r, true
		}
		return searchRoot(t, x.Y, depth+1)
	case *ssa.UnOp:
		return searchRoot(t, x.X, depth+1)
	case *ssa.Convert:
		return searchRoot(t, x.X, depth+1)
	case *ssa.Phi:
		for _, e := range x.Edges {
			if r, ok := searchRoot(t, e, depth+1); ok {
				return r, true
			}
		}
	case *ssa.Call:
		f := x.Call.StaticCallee()
		if f == nil || len(x.Call.Args) == 0 || !t.e.lv.isTableRef(x.Call.Args[0].Type()) {
			return "", false
		}
		if b, ok := x.Type().Underlying().(*types.Basic); !ok || b.Info()&types.IsInteger == 0 {
			return "", false
		}
		// a search takes a key and returns a position: one non-receiver parameter of the key type
		if len(x.Call.Args) >= 2 {
			return t.root(x.Call.Args[0]), true
		}
	}
	return "", false
}

func ruleF5(p *Prog) *RuleResult {
	res := newResult("F5", ruleDoc["F5"], 10)
	for _, lvl := range []string{"32", "64"} {
		e, err := p.TL(lvl)
		if err != nil {
			res.undecided("anchors", "-", err.Error())
			continue
		}
		for _, f := range e.fns {
			t := e.funcState(f)
			per := map[string]int{}
			for _, b := range f.Blocks {
				for _, ins := range b.Instrs {
					c, ok := ins.(*ssa.Call)
					if !ok {
						continue
					}
					callee := c.Call.StaticCallee()
					if callee == nil || !e.inScope(callee) || len(c.Call.Args) < 2 || !e.lv.isTableRef(c.Call.Args[0].Type()) {
						continue
					}
					// structural insertion: the callee shifts the key array and stores a parameter at an index parameter
					s := e.sums[e.sumKey(callee, "")]
					os := e.own.Sum(callee)
					if s == nil || os == nil || os.mut[0] == nil {
						continue
					}
					if _, shifts := os.mut[0].cells[e.lv.cellKeys]; !shifts {
						continue
					}
					idxParam := -1
					for _, rq := range s.reqs {
						if rq.idxParam > 0 && rq.flag == "false" && rq.tabParam == 0 {
							idxParam = rq.idxParam
						}
					}
					if idxParam < 0 || idxParam >= len(c.Call.Args) {
						continue
					}
					per[fname(callee)]++
					construct := fmt.Sprintf("%s|%s#%d", fname(f), callee.Name(), per[fname(callee)])
					dst := t.root(c.Call.Args[0])
					src, ok := searchRoot(t, c.Call.Args[idxParam], 0)
					switch {
					case !ok:
						res.ok(construct, p.ipos(c), "position is a merge cursor of the destination")
					case src == dst:
						res.ok(construct, p.ipos(c), "position searched in "+dst)
					default:
						res.bad(construct, p.ipos(c), fmt.Sprintf("inserts into %s at a position that was searched in %s", dst, src))
					}
				}
			}
		}
	}
	return res
}
