package main

import (
	"fmt"
	"sort"
	"strings"

	"golang.org/x/tools/go/ssa"
)

func init() {
	register("V3", "a validator has no early way out: every success return (return nil) of a validate function lies behind every check that guards its final success return — a shortcut such as 'the cardinality field says full, nothing to count' accepts exactly the streams in which that field lies", ruleV3)
}

func ruleV3(p *Prog) *RuleResult {
	res := newResult("V3", ruleDoc["V3"], 5)
	fns := append([]*ssa.Function(nil), p.sourceFns()...)
	sort.Slice(fns, func(i, j int) bool { return fname(fns[i]) < fname(fns[j]) })
	for _, f := range fns {
		if f.Blocks == nil || f.Parent() != nil {
			continue
		}
		ln := strings.ToLower(f.Name())
		if !strings.HasPrefix(ln, "validate") && ln != "checkkeyssorted" {
			continue
		}
		r := f.Signature.Results()
		if r.Len() != 1 || typeShort(r.At(0).Type()) != "error" {
			continue
		}
		isNil := func(v ssa.Value) bool {
			c, ok := v.(*ssa.Const)
			return ok && c.IsNil()
		}
		var succ []*ssa.Return
		for _, b := range f.Blocks {
			if ret, ok := b.Instrs[len(b.Instrs)-1].(*ssa.Return); ok && len(ret.Results) == 1 && isNil(ret.Results[0]) {
				succ = append(succ, ret)
			}
		}
		if len(succ) == 0 {
			continue // delegates its verdict
		}
		// the final success return: the one latest in the source
		final := succ[0]
		for _, s := range succ {
			if s.Pos() > final.Pos() {
				final = s
			}
		}
		// checks guarding it: dominating blocks that end in a branch with an error-returning side
		var checks []*ssa.BasicBlock
		for d := final.Block().Idom(); d != nil; d = d.Idom() {
			ifi, ok := d.Instrs[len(d.Instrs)-1].(*ssa.If)
			if !ok {
				continue
			}
			_ = ifi
			errSide := false
			for _, s := range d.Succs {
				if !s.Dominates(final.Block()) {
					errSide = true
				}
			}
			if errSide {
				checks = append(checks, d)
			}
		}
		c := fname(f) + "|no early success"
		bad := ""
		early := 0
		for _, s := range succ {
			if s == final {
				continue
			}
			isEarly := false
			for _, chk := range checks {
				if !chk.Dominates(s.Block()) && !sameQuantityShortcut(s, chk) {
					isEarly = true
					bad = fmt.Sprintf("the success return at %s is not behind the check at %s, which guards the final success return", p.ipos(s), p.ipos(chk.Instrs[len(chk.Instrs)-1]))
				}
			}
			if isEarly {
				early++
			}
		}
		_ = early
		if bad != "" {
			res.bad(c, p.pos(f.Pos()), bad)
		} else {
			res.ok(c, p.pos(f.Pos()), fmt.Sprintf("%d success return(s), all behind the %d guarding check(s)", len(succ), len(checks)))
		}
	}
	return res
}

// sameQuantityShortcut: the early success return s is taken on a comparison of the very quantity that the
// skipped check chk compares (sizeAsRun < min(a, b) ahead of sizeAsRun >= a and sizeAsRun >= b): a shortcut
// over the same decision, not a way around it.
func sameQuantityShortcut(s *ssa.Return, chk *ssa.BasicBlock) bool {
	ci, ok := chk.Instrs[len(chk.Instrs)-1].(*ssa.If)
	if !ok {
		return false
	}
	cc, ok := ci.Cond.(*ssa.BinOp)
	if !ok {
		return false
	}
	// the branch that decides s: the nearest dominator ending in an If
	for d := s.Block().Idom(); d != nil; d = d.Idom() {
		ifi, ok := d.Instrs[len(d.Instrs)-1].(*ssa.If)
		if !ok {
			continue
		}
		ec, ok := ifi.Cond.(*ssa.BinOp)
		if !ok {
			return false
		}
		for _, a := range []ssa.Value{ec.X, ec.Y} {
			if _, isC := a.(*ssa.Const); isC {
				continue
			}
			if a == cc.X || a == cc.Y {
				return true
			}
		}
		return false
	}
	return false
}
