package main

import (
	"fmt"
	"go/constant"
	"go/token"
	"go/types"
	"sort"
	"strings"

	"golang.org/x/tools/go/ssa"
)

func init() {
	register("F8.bitmap", "a kernel that can shrink or freshly build a bitmap container returns it as a bitmap only behind a test that its cardinality exceeds 4096 (otherwise it is converted to an array container)", ruleF8Bitmap)
}

// cardOf: v is the cardinality of container value c (load of c.cardinality, or c.getCardinality()).
func cardinalityOf(v ssa.Value) (ssa.Value, bool) {
	switch x := v.(type) {
	case *ssa.UnOp:
		if x.Op == token.MUL {
			if fa, ok := x.X.(*ssa.FieldAddr); ok && strings.HasSuffix(fieldName(fa.X.Type(), fa.Field), "bitmapContainer.cardinality") {
				return fa.X, true
			}
		}
	case *ssa.Call:
		name := ""
		var recv ssa.Value
		if x.Call.IsInvoke() {
			name, recv = x.Call.Method.Name(), x.Call.Value
		} else if f := x.Call.StaticCallee(); f != nil && f.Signature.Recv() != nil && len(x.Call.Args) > 0 {
			name, recv = f.Name(), x.Call.Args[0]
		}
		if name == "getCardinality" && recv != nil {
			return recv, true
		}
	case *ssa.Convert:
		return cardinalityOf(x.X)
	}
	return nil, false
}

// exceedsThreshold: block b is dominated by a branch on which card(c) > arrayDefaultMaxSize.
func (p *Prog) exceedsThreshold(c ssa.Value, b *ssa.BasicBlock, thr int64) (bool, string) {
	base := stripAssert(c)
	for d := b; d != nil; d = d.Idom() {
		if len(d.Instrs) == 0 || d == b {
			continue
		}
		ifi, ok := d.Instrs[len(d.Instrs)-1].(*ssa.If)
		if !ok {
			continue
		}
		bo, ok := ifi.Cond.(*ssa.BinOp)
		if !ok {
			continue
		}
		// same cardinality as the receiver (itself a valid bitmap container)
		if bo.Op == token.EQL && dominatedByEdge(d, 0, b) {
			sx, okx := cardinalityOf(bo.X)
			sy, oky := cardinalityOf(bo.Y)
			if okx && oky {
				_, px := stripAssert(sx).(*ssa.Parameter)
				_, py := stripAssert(sy).(*ssa.Parameter)
				if (stripAssert(sx) == base && py) || (stripAssert(sy) == base && px) {
					return true, "same cardinality as the receiver"
				}
			}
		}
		var subj ssa.Value
		var k int64
		var op token.Token
		if cv, ok := constIntVal(bo.Y); ok {
			if s, ok2 := cardinalityOf(bo.X); ok2 {
				subj, k, op = s, cv, bo.Op
			}
		} else if cv, ok := constIntVal(bo.X); ok {
			if s, ok2 := cardinalityOf(bo.Y); ok2 {
				subj, k = s, cv
				op = flipOp(bo.Op)
			}
		}
		if subj == nil {
			// any integer compared with the threshold (a freshly computed cardinality such as
			// newCardinality that is stored into the container afterwards)
			if cv, ok := constIntVal(bo.Y); ok && cv == thr {
				k, op = cv, bo.Op
			} else if cv, ok := constIntVal(bo.X); ok && cv == thr {
				k, op = cv, flipOp(bo.Op)
			} else {
				continue
			}
		} else if stripAssert(subj) != base {
			// the cardinality of another container counts only for a result that is an unmodified
			// conversion / copy of that container (the receiver whose conversion is returned); once the
			// result has been written to, only its own cardinality says anything about it
			if !unmodifiedCopyOf(base, stripAssert(subj)) {
				continue
			}
		}
		// lower bound established on each edge
		lbTrue, lbFalse := int64(-1), int64(-1)
		switch op {
		case token.GTR:
			lbTrue = k + 1
		case token.GEQ:
			lbTrue = k
		case token.LEQ:
			lbFalse = k + 1
		case token.LSS:
			lbFalse = k
		}
		if dominatedByEdge(d, 0, b) && lbTrue >= 0 {
			return lbTrue > thr, fmt.Sprintf("cardinality >= %d", lbTrue)
		}
		if dominatedByEdge(d, 1, b) && lbFalse >= 0 {
			return lbFalse > thr, fmt.Sprintf("cardinality >= %d", lbFalse)
		}
	}
	return false, "no dominating cardinality test"
}

func constIntVal(v ssa.Value) (int64, bool) {
	c, ok := v.(*ssa.Const)
	if !ok || c.Value == nil || c.Value.Kind() != constant.Int {
		return 0, false
	}
	return constant.Int64Val(c.Value)
}

func flipOp(op token.Token) token.Token {
	switch op {
	case token.LSS:
		return token.GTR
	case token.GTR:
		return token.LSS
	case token.LEQ:
		return token.GEQ
	case token.GEQ:
		return token.LEQ
	}
	return op
}

// Kernels whose returned bitmap container can only have grown from a state that already was a
// bitmap container (> 4096) or whose cardinality is decided later by the caller (lazy kernels,
// repaired by repairAfterLazy; conversions that the caller guards). Confirmed by reading.
var bitmapReturnGrowOnly = map[string]string{
	"(*roaring.bitmapContainer).iremoveReturnMinimized": "named exception: a single removal crosses the threshold exactly, tested with cardinality == 4096",
	"(*roaring.bitmapContainer).iaddReturnMinimized":    "adds one value to a bitmap container",
	"(*roaring.arrayContainer).iaddReturnMinimized":     "adds a value that is not present to an array of >= 4096 values: 4097 afterwards",
	"(*roaring.bitmapContainer).iaddRange":              "adds a range to a bitmap container",
	"(*roaring.bitmapContainer).ior":                    "in-place union: cardinality cannot decrease",
	"(*roaring.bitmapContainer).iorArray":               "in-place union",
	"(*roaring.bitmapContainer).iorBitmap":              "in-place union",
	"(*roaring.bitmapContainer).iorRun16":               "in-place union",
	"(*roaring.bitmapContainer).lazyIOR":                "lazy union: cardinality repaired by repairAfterLazy",
	"(*roaring.bitmapContainer).lazyIORArray":           "lazy union",
	"(*roaring.bitmapContainer).lazyIORBitmap":          "lazy union",
	"(*roaring.bitmapContainer).lazyOR":                 "lazy union of a bitmap container with anything: superset of a set with > 4096 values",
	"(*roaring.bitmapContainer).lazyORArray":            "lazy union",
	"(*roaring.bitmapContainer).lazyORBitmap":           "lazy union",
	"(*roaring.bitmapContainer).or":                     "union with a bitmap container (> 4096 values)",
	"(*roaring.bitmapContainer).orArray":                "union with a bitmap container",
	"(*roaring.bitmapContainer).orBitmap":               "union with a bitmap container",
	"(*roaring.bitmapContainer).clone":                  "copy of a valid bitmap container",
	"(*roaring.arrayContainer).lazyIOR":                 "lazy union: repaired by repairAfterLazy",
	"(*roaring.arrayContainer).lazyorArray":             "lazy union: repaired by repairAfterLazy",
	"(*roaring.arrayContainer).lazyIorArray":            "lazy union: repaired by repairAfterLazy",
	"(*roaring.arrayContainer).lazyIorBitmap":           "lazy union with a bitmap container",
	"(*roaring.arrayContainer).lazyIorRun16":            "lazy union",
	"(*roaring.arrayContainer).lazyOR":                  "lazy union: repaired by repairAfterLazy",
	"(*roaring.arrayContainer).iorBitmap":               "union with a bitmap container",
	"(*roaring.arrayContainer).orBitmap":                "union with a bitmap container",
	"(*roaring.runContainer16).lazyIOR":                 "lazy union: repaired by repairAfterLazy",
	"(*roaring.runContainer16).lazyOR":                  "lazy union: repaired by repairAfterLazy",
}

func ruleF8Bitmap(p *Prog) *RuleResult {
	res := newResult("F8.bitmap", ruleDoc["F8.bitmap"], 20)
	thrC := p.Const("roaring", "arrayDefaultMaxSize")
	if thrC == nil {
		res.undecided("arrayDefaultMaxSize", "-", "constant not found")
		return res
	}
	thr, _ := constant.Int64Val(thrC.Val())
	bct := p.Type("roaring", "bitmapContainer")
	if bct == nil {
		res.undecided("bitmapContainer", "-", "type not found")
		return res
	}
	bcPtr := types.NewPointer(bct)
	_, perKind, err := kindMethods(p)
	if err != nil {
		res.undecided("anchors", "-", err.Error())
		return res
	}
	ct := p.Type("roaring", "container")
	var kinds []string
	for k := range perKind {
		kinds = append(kinds, k)
	}
	sort.Strings(kinds)
	// kernels: the methods of the container interface and the kind methods they (transitively) call. A kind
	// method outside that closure is table-level code that happens to be spelled as a method (for example a
	// per-kind hook of the lazy aggregation, whose results are repaired later) and is not judged here.
	ifaceNames, _, _ := kindMethods(p)
	kernel := map[*ssa.Function]bool{}
	var work []*ssa.Function
	for _, k := range kinds {
		for _, f := range perKind[k] {
			if ifaceNames[f.Name()] {
				kernel[f] = true
				work = append(work, f)
			}
		}
	}
	isKindMethod := map[*ssa.Function]bool{}
	for _, k := range kinds {
		for _, f := range perKind[k] {
			isKindMethod[f] = true
		}
	}
	for len(work) > 0 {
		f := work[len(work)-1]
		work = work[:len(work)-1]
		for _, b := range f.Blocks {
			for _, ins := range b.Instrs {
				if c, ok := ins.(*ssa.Call); ok {
					if g := c.Call.StaticCallee(); g != nil && isKindMethod[g] && !kernel[g] {
						kernel[g] = true
						work = append(work, g)
					}
				}
			}
		}
	}
	for _, k := range kinds {
		for _, f := range perKind[k] {
			if f.Blocks == nil || !kernel[f] {
				continue
			}
			rt := f.Signature.Results()
			per := 0
			dead := nePrunedBlocks(p, f)
			for _, b := range f.Blocks {
				if dead[b] {
					continue // reachable only with an empty receiver/operand (NE pruning)
				}
				ret, ok := b.Instrs[len(b.Instrs)-1].(*ssa.Return)
				if !ok {
					continue
				}
				for ri, v := range ret.Results {
					if !types.Identical(rt.At(ri).Type(), ct) {
						continue
					}
					// values returned as a bitmap container
					for _, bv := range bitmapTypedSources(v, bcPtr, 0) {
						per++
						c := fmt.Sprintf("%s|return-bitmap#%d", fname(f), per)
						if why, ok := bitmapReturnGrowOnly[fname(f)]; ok {
							res.ok(c, p.ipos(ret), "grow-only: "+why)
							continue
						}
						at := b
						if bv.blk != nil {
							at = bv.blk
						}
						ok, why := p.exceedsThreshold(bv.val, at, thr)
						if ok {
							res.ok(c, p.ipos(ret), why)
						} else {
							res.bad(c, p.ipos(ret), fmt.Sprintf("a bitmap container is returned without a dominating test that its cardinality exceeds %d (%s)", thr, why))
						}
					}
				}
			}
		}
	}
	return res
}

type bitmapSrc struct {
	val ssa.Value
	blk *ssa.BasicBlock // for phi edges: the predecessor block on which the value arrives
}

// bitmapTypedSources: the *bitmapContainer values that v (an interface) may wrap.
func bitmapTypedSources(v ssa.Value, bcPtr types.Type, depth int) []bitmapSrc {
	if depth > 6 {
		return nil
	}
	switch x := v.(type) {
	case *ssa.MakeInterface:
		if types.Identical(x.X.Type(), bcPtr) {
			return []bitmapSrc{{x.X, nil}}
		}
	case *ssa.Phi:
		var out []bitmapSrc
		for i, e := range x.Edges {
			for _, s := range bitmapTypedSources(e, bcPtr, depth+1) {
				if s.blk == nil {
					s.blk = x.Block().Preds[i]
				}
				out = append(out, s)
			}
		}
		return out
	}
	return nil
}

func init() {
	register("F8.run", "run containers reach a slot only in minimised form: a kernel returns a run container only through toEfficientContainer / clone / the full run / its unmodified receiver, and where a kernel keeps its kind (iaddRange) the driver re-minimises before storing", ruleF8Run)
}

// Producers of a run-kind value that is known to be the cheapest representation (or a copy of one).
var runMinimisers = map[string]bool{
	"(*roaring.runContainer16).toEfficientContainer":                true,
	"(*roaring.runContainer16).toEfficientContainerFromCardinality": true,
	"(*roaring.runContainer16).clone":                               true,
	"(*roaring.runContainer16).Clone":                               true,
}

func ruleF8Run(p *Prog) *RuleResult {
	res := newResult("F8.run", ruleDoc["F8.run"], 10)
	rct := p.Type("roaring", "runContainer16")
	ct := p.Type("roaring", "container")
	if rct == nil || ct == nil {
		res.undecided("anchors", "-", "types not found")
		return res
	}
	rcPtr := types.NewPointer(rct)
	ifaceNames, perKind, err := kindMethods(p)
	if err != nil {
		res.undecided("anchors", "-", err.Error())
		return res
	}
	own := p.OWN()
	rawMethods := map[string]string{} // interface method name -> implementing function that may return a raw run
	var kinds []string
	for k := range perKind {
		kinds = append(kinds, k)
	}
	sort.Strings(kinds)
	for _, k := range kinds {
		for _, f := range perKind[k] {
			if f.Blocks == nil || !ifaceNames[f.Name()] {
				continue
			}
			dead := nePrunedBlocks(p, f)
			rt := f.Signature.Results()
			per := 0
			// blocks that may write the receiver's intervals
			var writers []*ssa.BasicBlock
			if f.Signature.Recv() != nil && types.Identical(f.Signature.Recv().Type(), rcPtr) {
				recv := f.Params[0]
				for _, b := range f.Blocks {
					for _, ins := range b.Instrs {
						switch x := ins.(type) {
						case *ssa.Store:
							if fa, ok := x.Addr.(*ssa.FieldAddr); ok && fa.X == ssa.Value(recv) {
								writers = append(writers, b)
							}
							if x.Addr == ssa.Value(recv) {
								writers = append(writers, b)
							}
						case *ssa.Call:
							callees := []*ssa.Function{}
							args := x.Call.Args
							if x.Call.IsInvoke() {
								callees = own.lookupImpls(&x.Call)
								args = append([]ssa.Value{x.Call.Value}, x.Call.Args...)
							} else if c := x.Call.StaticCallee(); c != nil {
								callees = append(callees, c)
							}
							for _, c := range callees {
								s := own.Sum(c)
								if s == nil {
									continue
								}
								for ai, a := range args {
									if a == ssa.Value(recv) {
										if e := s.mut[ai]; e != nil {
											for cell := range e.cells {
												if kindContentCells[cell] {
													writers = append(writers, b)
												}
											}
										}
									}
								}
							}
						}
					}
				}
			}
			reachesFromWriter := func(b *ssa.BasicBlock) bool {
				for _, w := range writers {
					if w == b {
						return true
					}
					seen := map[*ssa.BasicBlock]bool{}
					st := []*ssa.BasicBlock{w}
					for len(st) > 0 {
						x := st[len(st)-1]
						st = st[:len(st)-1]
						if seen[x] {
							continue
						}
						seen[x] = true
						if x == b {
							return true
						}
						st = append(st, x.Succs...)
					}
				}
				return false
			}
			for _, b := range f.Blocks {
				if dead[b] {
					continue
				}
				ret, ok := b.Instrs[len(b.Instrs)-1].(*ssa.Return)
				if !ok {
					continue
				}
				for ri, v := range ret.Results {
					if !types.Identical(rt.At(ri).Type(), ct) {
						continue
					}
					for _, src := range bitmapTypedSources(v, rcPtr, 0) {
						per++
						c := fmt.Sprintf("%s|return-run#%d", fname(f), per)
						status, why := "raw", "a run container built here is returned without being converted to its cheapest representation"
						if f.Name() == "clone" || strings.HasPrefix(f.Name(), "toEfficientContainer") {
							status, why = "min", "this method is itself a minimiser / copies a valid container"
						}
						switch x := src.val.(type) {
						case *ssa.Parameter:
							if len(f.Params) > 0 && x == f.Params[0] {
								if !reachesFromWriter(b) && (src.blk == nil || !reachesFromWriter(src.blk)) {
									status, why = "min", "receiver returned on a path that does not modify it"
								} else {
									why = "the receiver is returned after its intervals were modified, without re-minimising"
								}
							}
						case *ssa.Call:
							if callee := x.Call.StaticCallee(); callee != nil {
								if runMinimisers[fname(callee)] {
									status, why = "min", "produced by "+callee.Name()
								} else if callee.Name() == "newRunContainer16Range" && len(x.Call.Args) == 2 && isConstInt(x.Call.Args[0], 0) && isConstInt(x.Call.Args[1], 65535) {
									status, why = "min", "the full run"
								}
							}
						}
						if status == "min" {
							res.ok(c, p.ipos(ret), why)
						} else {
							rawMethods[f.Name()] = fname(f)
							res.ok(c, p.ipos(ret), "kernel keeps the run kind: "+why+" — every driver that stores this result must re-minimise (checked below)")
						}
					}
				}
			}
		}
	}
	// a kernel that forwards the result of a raw-returning kernel of the run kind is raw as well
	rawFns := map[string]bool{}
	for _, fn := range rawMethods {
		rawFns[fn] = true
	}
	for changed := true; changed; {
		changed = false
		for _, k := range kinds {
			for _, f := range perKind[k] {
				if f.Blocks == nil || !ifaceNames[f.Name()] || rawFns[fname(f)] || f.Name() == "clone" || strings.HasPrefix(f.Name(), "toEfficientContainer") {
					continue
				}
				for _, b := range f.Blocks {
					ret, ok := b.Instrs[len(b.Instrs)-1].(*ssa.Return)
					if !ok {
						continue
					}
					for _, v := range ret.Results {
						if c, ok := v.(*ssa.Call); ok {
							if callee := c.Call.StaticCallee(); callee != nil && rawFns[fname(callee)] {
								rawFns[fname(f)] = true
								if rawMethods[f.Name()] == "" {
									rawMethods[f.Name()] = fname(f) + " (forwards " + fname(callee) + ")"
								}
								changed = true
							}
						}
					}
				}
			}
		}
	}
	// drivers: results of raw-returning methods must be re-minimised before they reach a slot
	e, err := p.TL("32")
	if err != nil {
		res.undecided("anchors", "-", err.Error())
		return res
	}
	var raws []string
	for m := range rawMethods {
		raws = append(raws, m)
	}
	sort.Strings(raws)
	res.Extra["raw_returning_methods"] = raws
	for _, f := range e.fns {
		t := e.funcState(f)
		per := map[string]int{}
		for _, b := range f.Blocks {
			for _, ins := range b.Instrs {
				call, ok := ins.(*ssa.Call)
				if !ok || !call.Call.IsInvoke() || rawMethods[call.Call.Method.Name()] == "" || !e.lv.isSlotType(call.Call.Value.Type()) {
					continue
				}
				m := call.Call.Method.Name()
				per[m]++
				c := fmt.Sprintf("%s|store of %s result#%d", fname(f), m, per[m])
				bad := t.rawRunReachesSlot(call, rcPtr)
				if bad != "" {
					res.bad(c, p.ipos(call), fmt.Sprintf("%s (%s) may return an un-minimised run container, and %s", m, rawMethods[m], bad))
				} else {
					res.ok(c, p.ipos(call), "re-minimised (or not a run) on every path to a slot")
				}
			}
		}
	}
	return res
}

// rawRunReachesSlot: does the value r reach a slot store on a path on which it may still be a run container?
func (t *tlFunc) rawRunReachesSlot(r *ssa.Call, rcPtr types.Type) string {
	lv := t.e.lv
	// blocks in which r is known not to be a run container: dominated by the false edge of `_, ok := r.(*runContainer16)`
	notRun := func(b *ssa.BasicBlock) bool {
		if r.Referrers() == nil {
			return false
		}
		for _, ref := range *r.Referrers() {
			ta, ok := ref.(*ssa.TypeAssert)
			if !ok || !ta.CommaOk || !types.Identical(ta.AssertedType, rcPtr) || ta.Referrers() == nil {
				continue
			}
			for _, r2 := range *ta.Referrers() {
				ex, ok := r2.(*ssa.Extract)
				if !ok || ex.Index != 1 || ex.Referrers() == nil {
					continue
				}
				for _, r3 := range *ex.Referrers() {
					if ifi, ok := r3.(*ssa.If); ok {
						if dominatedByEdge(ifi.Block(), 1, b) || (ifi.Block() == b && false) {
							return true
						}
						// the edge itself: predecessor is the If block and the successor is the false target
						_ = ifi
					}
				}
			}
		}
		return false
	}
	edgeNotRun := func(pred, succ *ssa.BasicBlock) bool {
		if notRun(pred) {
			return true
		}
		// phi edge coming directly from the type-test block on its false edge
		if len(pred.Instrs) > 0 {
			if ifi, ok := pred.Instrs[len(pred.Instrs)-1].(*ssa.If); ok && pred.Succs[1] == succ && pred.Succs[0] != succ {
				if ex, ok := ifi.Cond.(*ssa.Extract); ok && ex.Index == 1 {
					if ta, ok := ex.Tuple.(*ssa.TypeAssert); ok && ta.X == ssa.Value(r) && types.Identical(ta.AssertedType, rcPtr) {
						return true
					}
				}
			}
		}
		return false
	}
	seen := map[ssa.Value]bool{}
	bad := ""
	var walk func(v ssa.Value)
	walk = func(v ssa.Value) {
		if seen[v] || v.Referrers() == nil || bad != "" {
			return
		}
		seen[v] = true
		for _, ref := range *v.Referrers() {
			switch u := ref.(type) {
			case *ssa.Phi:
				for i, e := range u.Edges {
					if e == v && !edgeNotRun(u.Block().Preds[i], u.Block()) {
						walk(u)
					}
				}
			case *ssa.MakeInterface, *ssa.ChangeInterface:
				walk(u.(ssa.Value))
			case *ssa.Extract:
				if lv.isSlotType(u.Type()) {
					walk(u)
				}
			case *ssa.Store:
				if u.Val == v && !notRun(u.Block()) {
					if _, fld, _, ok := t.tableElemAddr(u.Addr); ok && fld == lv.fCont {
						bad = "it is stored into a slot at " + t.e.p.ipos(u) + " as is"
					}
				}
			case *ssa.Call:
				if notRun(u.Block()) {
					continue
				}
				callee := u.Call.StaticCallee()
				if callee == nil || !t.e.inScope(callee) {
					continue
				}
				s := t.e.sums[t.e.sumKey(callee, "")]
				if s == nil {
					continue
				}
				for _, rq := range s.reqs {
					if rq.valParam < len(u.Call.Args) && u.Call.Args[rq.valParam] == v {
						bad = "it is stored into a slot by " + fname(callee) + " at " + t.e.p.ipos(u) + " as is"
					}
				}
			}
		}
	}
	walk(r)
	return bad
}

// unmodifiedCopyOf: v is src itself, or the result of a call on src (clone, toX...) that is not written
// through afterwards (no store into its fields, no further call with it as receiver or argument).
func unmodifiedCopyOf(v, src ssa.Value) bool {
	if v == src {
		return true
	}
	call, ok := v.(*ssa.Call)
	if !ok {
		// not a copy we can see being made: keep the earlier, permissive behaviour for values that are
		// not calls (phis of conversions, fields)
		return true
	}
	derived := false
	for _, a := range call.Call.Args {
		if stripAssert(a) == src {
			derived = true
		}
	}
	if call.Call.IsInvoke() && stripAssert(call.Call.Value) == src {
		derived = true
	}
	if !derived {
		return true
	}
	// the copy under all its static types
	alias := []ssa.Value{call}
	for i := 0; i < len(alias); i++ {
		if alias[i].Referrers() == nil {
			continue
		}
		for _, r := range *alias[i].Referrers() {
			switch x := r.(type) {
			case *ssa.TypeAssert:
				alias = append(alias, x)
			case *ssa.ChangeInterface:
				alias = append(alias, x)
			case *ssa.MakeInterface:
				alias = append(alias, x)
			}
		}
	}
	var refs []ssa.Instruction
	for _, a := range alias {
		if a.Referrers() != nil {
			refs = append(refs, *a.Referrers()...)
		}
	}
	isAlias := func(v ssa.Value) bool {
		for _, a := range alias {
			if a == v {
				return true
			}
		}
		return false
	}
	for _, r := range refs {
		switch x := r.(type) {
		case *ssa.FieldAddr:
			if x.Referrers() != nil {
				for _, rr := range *x.Referrers() {
					if st, ok := rr.(*ssa.Store); ok && st.Addr == ssa.Value(x) {
						return false
					}
				}
			}
		case *ssa.Call:
			for _, a := range x.Call.Args {
				if isAlias(a) {
					// a read-only conversion of the copy (toArrayContainer on the other branch) is not a write
					if g := x.Call.StaticCallee(); g != nil && strings.HasPrefix(g.Name(), "to") {
						continue
					}
					return false
				}
			}
		}
	}
	return true
}
