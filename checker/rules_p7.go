package main

import (
	"fmt"
	"go/token"
	"go/types"
	"sort"

	"golang.org/x/tools/go/ssa"
)

func init() {
	register("P7", "the fan-out executors size their result channel to the number of workers and start draining it only after wg.Wait(): so every worker (a function that defers wg.Done() and reports on a channel of such a type) sends at most once per invocation — no send inside a loop, no second send on a path that already sent. One extra send per worker fills the channel, the sender blocks ahead of its wg.Done(), and Wait never returns", ruleP7)
}

func ruleP7(p *Prog) *RuleResult {
	res := newResult("P7", ruleDoc["P7"], 5)
	fns := append([]*ssa.Function(nil), p.sourceFns()...)
	sort.Slice(fns, func(i, j int) bool { return fname(fns[i]) < fname(fns[j]) })
	isWG := func(c *ssa.CallCommon, name string) bool {
		g := c.StaticCallee()
		return g != nil && g.Name() == name && g.Signature.Recv() != nil && g.Signature.Recv().Type().String() == "*sync.WaitGroup"
	}
	// 1. channel types that some executor drains only after Wait
	drained := map[string]string{}
	for _, f := range fns {
		for _, b := range f.Blocks {
			for _, ins := range b.Instrs {
				mc, ok := ins.(*ssa.MakeChan)
				if !ok || mc.Referrers() == nil {
					continue
				}
				var waits []ssa.Instruction
				for _, b2 := range f.Blocks {
					for _, in2 := range b2.Instrs {
						if c, ok := in2.(*ssa.Call); ok && isWG(&c.Call, "Wait") {
							waits = append(waits, c)
						}
					}
				}
				if len(waits) == 0 {
					continue
				}
				recvs, early := 0, false
				for _, r := range *mc.Referrers() {
					u, ok := r.(*ssa.UnOp)
					if !ok || u.Op != token.ARROW {
						continue
					}
					recvs++
					after := false
					for _, w := range waits {
						if w.Block() == u.Block() || w.Block().Dominates(u.Block()) {
							after = true
						}
					}
					if !after {
						early = true
					}
				}
				if recvs > 0 && !early {
					drained[mc.Type().String()] = fname(f)
					res.ok(fmt.Sprintf("%s|drains %s after Wait", fname(f), mc.Type().String()), p.ipos(mc), "every receive on the channel is dominated by wg.Wait()")
				}
			}
		}
	}
	// 2. workers
	for _, f := range fns {
		if f.Blocks == nil {
			continue
		}
		if !deferredDone(f) {
			continue
		}
		var sends []*ssa.Send
		for _, b := range f.Blocks {
			for _, ins := range b.Instrs {
				if s, ok := ins.(*ssa.Send); ok {
					if _, isChan := s.Chan.Type().Underlying().(*types.Chan); isChan {
						if _, ok := drained[chanKey(s.Chan.Type())]; ok {
							sends = append(sends, s)
						}
					}
				}
			}
		}
		for i, s := range sends {
			cn := fmt.Sprintf("%s|send#%d", fname(f), i+1)
			inLoop := innermostLoop(s.Block()) != nil
			again := false
			for _, s2 := range sends {
				if s2 != s && sameChan(s.Chan, s2.Chan) && reachAvoid(s, s2, nil) {
					again = true
				}
			}
			switch {
			case inLoop:
				res.bad(cn, p.ipos(s), "the worker sends inside a loop: the executor's channel holds one result per worker and is drained only after Wait")
			case again:
				res.bad(cn, p.ipos(s), "a second send can follow this one in the same invocation: the executor's channel holds one result per worker and is drained only after Wait")
			default:
				res.ok(cn, p.ipos(s), "one send, outside any loop")
			}
		}
	}
	return res
}

// chanKey: the bidirectional form of a channel type, as the executor made it
func chanKey(t types.Type) string {
	if c, ok := t.Underlying().(*types.Chan); ok {
		return types.NewChan(types.SendRecv, c.Elem()).String()
	}
	return t.String()
}

func sameChan(a, b ssa.Value) bool {
	if a == b {
		return true
	}
	return sameAccessPath(a, b, 0)
}
