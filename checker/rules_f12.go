package main

import (
	"fmt"
	"go/types"
	"sort"
	"strings"

	"golang.org/x/tools/go/ssa"
)

func init() {
	register("F12", "a range-over-func sequence is restartable: a function that returns an iter.Seq / iter.Seq2 captures only its own parameters, so all traversal state (the underlying iterator, pending ranges) is created inside the sequence function on every traversal", ruleF12)
}

func isIterSeq(t types.Type) bool {
	n, ok := t.(*types.Named)
	if !ok || n.Obj().Pkg() == nil {
		return false
	}
	return n.Obj().Pkg().Path() == "iter" && strings.HasPrefix(n.Obj().Name(), "Seq")
}

func ruleF12(p *Prog) *RuleResult {
	res := newResult("F12", ruleDoc["F12"], 4)
	var fns []*ssa.Function
	for _, f := range p.sourceFns() {
		if f.Blocks == nil || f.Signature.Results().Len() != 1 || !isIterSeq(f.Signature.Results().At(0).Type()) {
			continue
		}
		fns = append(fns, f)
	}
	sort.Slice(fns, func(i, j int) bool { return fname(fns[i]) < fname(fns[j]) })
	for _, f := range fns {
		c := fname(f) + "|captured state"
		var mk []*ssa.MakeClosure
		for _, b := range f.Blocks {
			if r, ok := b.Instrs[len(b.Instrs)-1].(*ssa.Return); ok && len(r.Results) == 1 {
				v := r.Results[0]
				if ct, ok := v.(*ssa.ChangeType); ok {
					v = ct.X
				}
				if m, ok := v.(*ssa.MakeClosure); ok {
					mk = append(mk, m)
				} else {
					res.undecided(c, p.ipos(r), "the returned sequence is not a function literal of this function")
				}
			}
		}
		for _, m := range mk {
			bad := ""
			for i, bnd := range m.Bindings {
				name := m.Fn.(*ssa.Function).FreeVars[i].Name()
				switch x := bnd.(type) {
				case *ssa.Parameter:
				case *ssa.Alloc:
					for _, r := range *x.Referrers() {
						if st, ok := r.(*ssa.Store); ok && st.Addr == x {
							switch st.Val.(type) {
							case *ssa.Parameter, *ssa.Const:
							default:
								// a scalar computed once and only read by the sequence function is harmless
								if hasPointers(st.Val.Type()) || closureWrites(m.Fn.(*ssa.Function), i) {
									bad = fmt.Sprintf("variable %s is computed outside the sequence function (%s) and captured", name, p.ipos(st))
								}
							}
						}
					}
				default:
					bad = fmt.Sprintf("value %s is computed outside the sequence function and captured", name)
				}
			}
			if bad != "" {
				res.bad(c, p.ipos(m), bad+": every traversal of the same sequence value shares it, so a second `for range` resumes where the first one stopped")
			} else {
				res.ok(c, p.ipos(m), fmt.Sprintf("%d captured variable(s), all parameters", len(m.Bindings)))
			}
		}
	}
	return res
}

// closureWrites: the closure (or a function nested in it) assigns free variable #i.
func closureWrites(fn *ssa.Function, i int) bool {
	fv := fn.FreeVars[i]
	if fv.Referrers() == nil {
		return false
	}
	for _, r := range *fv.Referrers() {
		switch x := r.(type) {
		case *ssa.Store:
			if x.Addr == ssa.Value(fv) {
				return true
			}
		case *ssa.MakeClosure:
			for j, b := range x.Bindings {
				if b == ssa.Value(fv) && closureWrites(x.Fn.(*ssa.Function), j) {
					return true
				}
			}
		}
	}
	return false
}
