package main

import (
	"fmt"
	"go/token"
	"go/types"
	"sort"

	"golang.org/x/tools/go/ssa"
)

func init() {
	register("U4", "word scans look for zero bits in the inverted word: the word is inverted before it is shifted (^w >> k downwards, ^w << k upwards in the backward scan). Inverting after the shift (^(w >> k), ^(w << k)) turns the k zero bits shifted in into ones, which the scan then reports as unset positions — values that are in the set, or positions beyond the word", ruleU4)
}

func ruleU4(p *Prog) *RuleResult {
	res := newResult("U4", ruleDoc["U4"], 1)
	fns := append([]*ssa.Function(nil), p.sourceFns()...)
	sort.Slice(fns, func(i, j int) bool { return fname(fns[i]) < fname(fns[j]) })
	for _, f := range fns {
		if f.Blocks == nil {
			continue
		}
		n, m := 0, 0
		for _, b := range f.Blocks {
			for _, ins := range b.Instrs {
				switch x := ins.(type) {
				case *ssa.UnOp:
					if x.Op != token.XOR {
						continue
					}
					sh, ok := x.X.(*ssa.BinOp)
					if !ok || (sh.Op != token.SHR && sh.Op != token.SHL) {
						continue
					}
					if bt, ok := sh.Type().Underlying().(*types.Basic); !ok || bt.Info()&types.IsUnsigned == 0 {
						continue
					}
					if c, ok := constIntVal(sh.Y); ok && c == 0 {
						continue
					}
					// a mask built from constants (^(^0 >> k)) is not a scan
					if _, isConst := stripConv(sh.X).(*ssa.Const); isConst {
						continue
					}
					if u2, ok := stripConv(sh.X).(*ssa.UnOp); ok && u2.Op == token.XOR {
						if _, isConst := stripConv(u2.X).(*ssa.Const); isConst {
							continue
						}
					}
					why := ""
					if x.Referrers() != nil {
						for _, r := range *x.Referrers() {
							switch y := r.(type) {
							case *ssa.BinOp:
								if (y.Op == token.EQL || y.Op == token.NEQ) && (isConstInt(y.X, 0) || isConstInt(y.Y, 0)) {
									why = "it is then compared with zero at " + p.ipos(y) + ": for a non-zero shift the test is vacuous"
								}
							case *ssa.Call:
								if g := y.Call.StaticCallee(); g != nil && (g.String() == "math/bits.TrailingZeros64" || g.String() == "math/bits.LeadingZeros64" || g.String() == "math/bits.TrailingZeros32" || g.String() == "math/bits.TrailingZeros") && !boundedLater(y, 0) {
									why = "the position counted on it at " + p.ipos(y) + " is never compared with the word size"
								}
							}
						}
					}
					c := fmt.Sprintf("%s|complement of a shifted word#%d", fname(f), n+1)
					n++
					if why == "" {
						res.ok(c, p.ipos(x), "used as a count of leading/trailing ones that is bounded by a later comparison")
						continue
					}
					res.bad(c, p.ipos(x), "the word is shifted first and inverted afterwards, so the zero bits shifted in (at the top for >>, at the bottom for <<) become ones; "+why+", and a scan for the next unset position can land on a position that is set (or beyond the word)")
				case *ssa.BinOp:
					// the correct form: (^w) >> k, (^w) << k
					if x.Op != token.SHR && x.Op != token.SHL {
						continue
					}
					if u, ok := x.X.(*ssa.UnOp); ok && u.Op == token.XOR {
						m++
						res.ok(fmt.Sprintf("%s|inverted word shifted#%d", fname(f), m), p.ipos(x), "inverted before the shift")
					}
				}
			}
		}
	}
	return res
}

// boundedLater: v, or a sum/conversion of it, is an operand of an ordering comparison.
func boundedLater(v ssa.Value, depth int) bool {
	if depth > 4 || v.Referrers() == nil {
		return false
	}
	for _, r := range *v.Referrers() {
		switch y := r.(type) {
		case *ssa.BinOp:
			switch y.Op {
			case token.LSS, token.LEQ, token.GTR, token.GEQ, token.EQL, token.NEQ:
				return true
			case token.ADD, token.SUB:
				if boundedLater(y, depth+1) {
					return true
				}
			}
		case *ssa.Convert:
			if boundedLater(y, depth+1) {
				return true
			}
		case *ssa.Phi:
			if boundedLater(y, depth+1) {
				return true
			}
		}
	}
	return false
}
