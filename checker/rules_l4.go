package main

import (
	"fmt"
	"go/token"
	"go/types"
	"sort"
	"strings"

	"golang.org/x/tools/go/ssa"
)

func init() {
	register("L4", "frozen format tables: FreezeTo, WriteFrozenTo, GetFrozenSizeInBytes and frozenView agree with each other and with the CRoaring layout on type codes, count encodings, size formula and arena order", ruleL4)
}

type frozenKind struct{ name, typ, sizeSym string }

var frozenKinds = []frozenKind{
	{"bitmap", "bitmapContainer", ""},
	{"array", "arrayContainer", "len(arrayContainer.content)"},
	{"run", "runContainer16", "len(runContainer16.iv)"},
}

// CRoaring frozen layout (roaring.c, "FROZEN SERIALIZATION FORMAT DESCRIPTION", embedded verbatim
// in serialization_littleendian.go): type codes and count encodings.
var frozenSpec = map[string]struct {
	code  int64
	count string // count field as a function of the container
}{
	"bitmap": {1, "bitmapContainer.cardinality + -1"},
	"array":  {2, "len(arrayContainer.content) + -1"},
	"run":    {3, "len(runContainer16.iv)"},
}

// kindUnder: the container kind whose successful type test dominates block b.
func kindUnder(p *Prog, b *ssa.BasicBlock) string {
	for d := b; d != nil; d = d.Idom() {
		if len(d.Instrs) == 0 {
			continue
		}
		ifi, ok := d.Instrs[len(d.Instrs)-1].(*ssa.If)
		if !ok {
			continue
		}
		ex, ok := ifi.Cond.(*ssa.Extract)
		if !ok || ex.Index != 1 {
			continue
		}
		ta, ok := ex.Tuple.(*ssa.TypeAssert)
		if !ok {
			continue
		}
		if d != b && !(dominatedByEdge(d, 0, b) || d.Succs[0] == b) {
			continue
		}
		if d == b {
			continue
		}
		for _, k := range frozenKinds {
			if t := p.Type("roaring", k.typ); t != nil && types.Identical(ta.AssertedType, types.NewPointer(t)) {
				return k.name
			}
		}
	}
	return ""
}

// accumulators: loop-carried phis incremented under a kind test; returns phi -> (kind, increment).
func kindAccumulators(p *Prog, f *ssa.Function, env func() *linEnv) map[*ssa.Phi]struct {
	kind string
	inc  lin
} {
	out := map[*ssa.Phi]struct {
		kind string
		inc  lin
	}{}
	for _, b := range f.Blocks {
		for _, ins := range b.Instrs {
			bo, ok := ins.(*ssa.BinOp)
			if !ok || bo.Op != token.ADD {
				continue
			}
			ph, ok := bo.X.(*ssa.Phi)
			if !ok {
				continue
			}
			k := kindUnder(p, b)
			if k == "" {
				continue
			}
			// the sum flows back into the phi (directly or through a join phi)
			back := false
			var flows func(v ssa.Value, depth int)
			flows = func(v ssa.Value, depth int) {
				if depth > 3 || v.Referrers() == nil {
					return
				}
				for _, r := range *v.Referrers() {
					if r2, ok := r.(*ssa.Phi); ok {
						if r2 == ph {
							back = true
						} else {
							flows(r2, depth+1)
						}
					}
				}
			}
			flows(bo, 0)
			if back {
				out[ph] = struct {
					kind string
					inc  lin
				}{k, env().eval(bo.Y)}
			}
		}
	}
	return out
}

func ruleL4(p *Prog) *RuleResult {
	res := newResult("L4", ruleDoc["L4"], 12)
	env := func() *linEnv { return &linEnv{p: p, vals: map[ssa.Value]lin{}, lens: map[ssa.Value]lin{}} }

	// ---- (1) size formulas ----
	wantSize := linConst(4).add(linSym("N").scale(5), 1).add(linSym("acc:bitmap").scale(8192), 1).add(linSym("acc:array").scale(2), 1).add(linSym("acc:run").scale(4), 1)
	wantInc := map[string]string{"bitmap": "1", "array": "len(arrayContainer.content)", "run": "len(runContainer16.iv)"}
	sizeOf := map[string]lin{}
	for _, fn := range []string{"(*roaring.Bitmap).GetFrozenSizeInBytes", "(*roaring.Bitmap).FreezeTo"} {
		f := p.Func(fn)
		if f == nil {
			res.undecided(fn+"|size formula", "-", "anchor not found")
			continue
		}
		accs := kindAccumulators(p, f, env)
		e := env()
		okInc := true
		var incNotes []string
		for ph, a := range accs {
			e.vals[ph] = linSym("acc:" + a.kind)
			if a.inc.String() != wantInc[a.kind] {
				okInc = false
			}
			incNotes = append(incNotes, a.kind+"+="+a.inc.String())
		}
		sort.Strings(incNotes)
		// the size value: the function's result (GetFrozenSizeInBytes) or the value compared with len(buf) (FreezeTo)
		var sizeVal ssa.Value
		if strings.HasSuffix(fn, "GetFrozenSizeInBytes") {
			if r := singleReturn(f); r != nil {
				sizeVal = r.Results[0]
			}
		} else {
			forEachBinOp(f, func(bo *ssa.BinOp) bool {
				if bo.Op == token.LSS {
					if c, ok := bo.X.(*ssa.Call); ok {
						if bi, ok := c.Call.Value.(*ssa.Builtin); ok && bi.Name() == "len" {
							if _, isParam := c.Call.Args[0].(*ssa.Parameter); isParam {
								sizeVal = bo.Y
								return true
							}
						}
					}
				}
				return false
			})
		}
		c := fn + "|size formula"
		if sizeVal == nil {
			res.undecided(c, p.pos(f.Pos()), "size expression not recognised")
			continue
		}
		l := e.eval(sizeVal)
		l = l.rename("len(roaringArray.containers)", "N")
		sizeOf[fn] = l
		switch {
		case len(accs) != 3:
			res.bad(c, p.pos(f.Pos()), fmt.Sprintf("expected one accumulator per container kind, found %d (%v)", len(accs), incNotes))
		case !okInc:
			res.bad(c, p.pos(f.Pos()), "per-kind element counts are accumulated as "+strings.Join(incNotes, ", ")+"; the layout needs bitmap+=1, array+=len(content), run+=len(iv)")
		case !l.equal(wantSize):
			res.bad(c, p.pos(f.Pos()), fmt.Sprintf("size formula is %s, the CRoaring layout gives %s", l, wantSize))
		default:
			res.ok(c, p.pos(f.Pos()), l.String())
		}
	}

	// ---- (2) type codes and count fields of the writers ----
	for _, fn := range []string{"(*roaring.Bitmap).FreezeTo", "(*roaring.Bitmap).WriteFrozenTo"} {
		f := p.Func(fn)
		if f == nil {
			res.undecided(fn+"|codes", "-", "anchor not found")
			continue
		}
		codes := map[string]int64{}
		counts := map[string]lin{}
		for _, b := range f.Blocks {
			k := kindUnder(p, b)
			if k == "" {
				continue
			}
			for _, ins := range b.Instrs {
				st, ok := ins.(*ssa.Store)
				if !ok {
					continue
				}
				ia, ok := st.Addr.(*ssa.IndexAddr)
				if !ok {
					continue
				}
				sl, ok := ia.X.Type().Underlying().(*types.Slice)
				if !ok {
					continue
				}
				switch basicKind(sl.Elem()) {
				case types.Uint8:
					if c, ok := constIntVal(st.Val); ok {
						codes[k] = c
					}
				case types.Uint16:
					counts[k] = env().eval(st.Val)
				}
			}
		}
		// the per-kind values may come from a method of an unexported interface that the three kinds
		// implement (`counts[i], types[i] = d.frozenCountAndType()`): read each kind's method instead of a case
		if len(codes) == 0 && len(counts) == 0 {
			for _, b := range f.Blocks {
				for _, ins := range b.Instrs {
					call, ok := ins.(*ssa.Call)
					if !ok || !call.Call.IsInvoke() || call.Call.Signature().Results().Len() != 2 || call.Referrers() == nil {
						continue
					}
					// both results are stored into a []uint8 / []uint16 element
					stored := 0
					for _, r := range *call.Referrers() {
						if ex, ok := r.(*ssa.Extract); ok && ex.Referrers() != nil {
							for _, rr := range *ex.Referrers() {
								if st, ok := rr.(*ssa.Store); ok {
									if _, ok := st.Addr.(*ssa.IndexAddr); ok {
										stored++
									}
								}
							}
						}
					}
					if stored < 2 {
						continue
					}
					for _, k := range frozenKinds {
						t := p.Type("roaring", k.typ)
						if t == nil {
							continue
						}
						sel := p.SSA.MethodSets.MethodSet(types.NewPointer(t)).Lookup(call.Call.Method.Pkg(), call.Call.Method.Name())
						if sel == nil {
							continue
						}
						m := p.SSA.MethodValue(sel)
						if m == nil || m.Blocks == nil {
							continue
						}
						for _, mb := range m.Blocks {
							ret, ok := mb.Instrs[len(mb.Instrs)-1].(*ssa.Return)
							if !ok || len(ret.Results) != 2 {
								continue
							}
							for _, rv := range ret.Results {
								switch basicKind(rv.Type()) {
								case types.Uint8:
									if c, ok := constIntVal(rv); ok {
										codes[k.name] = c
									}
								case types.Uint16:
									counts[k.name] = env().eval(rv)
								}
							}
						}
					}
				}
			}
		}
		for _, k := range frozenKinds {
			sp := frozenSpec[k.name]
			c := fmt.Sprintf("%s|%s code and count", fn, k.name)
			code, okc := codes[k.name]
			cnt, okn := counts[k.name]
			switch {
			case !okc || !okn:
				res.undecided(c, p.pos(f.Pos()), "type code / count store not recognised")
			case code != sp.code:
				res.bad(c, p.pos(f.Pos()), fmt.Sprintf("type code %d, the CRoaring layout says %d", code, sp.code))
			case cnt.String() != sp.count:
				res.bad(c, p.pos(f.Pos()), fmt.Sprintf("count field is %s, the CRoaring layout says %s", cnt, sp.count))
			default:
				res.ok(c, p.pos(f.Pos()), fmt.Sprintf("code %d, count %s", code, cnt))
			}
		}
	}

	// ---- (3) the reader's table ----
	if f := p.Func("(*roaring.roaringArray).frozenView"); f == nil {
		res.undecided("(*roaring.roaringArray).frozenView|codes", "-", "anchor not found")
	} else {
		// code under which block b runs: dominated by the true edge of `t == k`
		codeUnder := func(b *ssa.BasicBlock) int64 {
			for d := b; d != nil; d = d.Idom() {
				if d == b || len(d.Instrs) == 0 {
					continue
				}
				ifi, ok := d.Instrs[len(d.Instrs)-1].(*ssa.If)
				if !ok {
					continue
				}
				bo, ok := ifi.Cond.(*ssa.BinOp)
				if !ok || bo.Op != token.EQL {
					continue
				}
				if c, ok := constIntVal(bo.Y); ok && basicKind(bo.X.Type()) == types.Uint8 && (dominatedByEdge(d, 0, b) || d.Succs[0] == b) {
					return c
				}
			}
			return -1
		}
		e := env()
		e.opaque = func(c *ssa.Call) (lin, bool) { return lin{}, false }
		countSym := func(v ssa.Value) lin {
			// counts[i] loaded from a []uint16 that reinterprets the input
			le := env()
			var ev func(x ssa.Value) lin
			ev = func(x ssa.Value) lin {
				switch y := x.(type) {
				case *ssa.Convert:
					return ev(y.X)
				case *ssa.BinOp:
					l, r := ev(y.X), ev(y.Y)
					if y.Op == token.ADD {
						return l.add(r, 1)
					}
				case *ssa.UnOp:
					if y.Op == token.MUL {
						if ia, ok := y.X.(*ssa.IndexAddr); ok {
							if sl, ok := ia.X.Type().Underlying().(*types.Slice); ok && basicKind(sl.Elem()) == types.Uint16 {
								return linSym("count")
							}
						}
					}
				case *ssa.Const:
					return le.eval(y)
				}
				return lin{}
			}
			return ev(v)
		}
		kindOfCode := map[int64]string{}
		inverse := map[int64]lin{}
		for _, b := range f.Blocks {
			code := codeUnder(b)
			if code < 0 {
				continue
			}
			for _, ins := range b.Instrs {
				st, ok := ins.(*ssa.Store)
				if !ok {
					continue
				}
				fa, ok := st.Addr.(*ssa.FieldAddr)
				if !ok {
					continue
				}
				cell := fieldName(fa.X.Type(), fa.Field)
				switch cell {
				case "bitmapContainer.cardinality":
					kindOfCode[code] = "bitmap"
					inverse[code] = countSym(st.Val)
				case "arrayContainer.content":
					kindOfCode[code] = "array"
					if sl, ok := st.Val.(*ssa.Slice); ok && sl.High != nil {
						inverse[code] = countSym(sl.High)
					}
				case "runContainer16.iv":
					kindOfCode[code] = "run"
					if sl, ok := st.Val.(*ssa.Slice); ok && sl.High != nil {
						inverse[code] = countSym(sl.High)
					}
				}
			}
		}
		wantInverse := map[string]string{"bitmap": "count + 1", "array": "count + 1", "run": "count"}
		for _, k := range frozenKinds {
			sp := frozenSpec[k.name]
			c := fmt.Sprintf("(*roaring.roaringArray).frozenView|%s code and count", k.name)
			got, ok := kindOfCode[sp.code]
			switch {
			case !ok:
				res.bad(c, p.pos(f.Pos()), fmt.Sprintf("type code %d is not handled by the reader", sp.code))
			case got != k.name:
				res.bad(c, p.pos(f.Pos()), fmt.Sprintf("type code %d builds a %s container, the layout says %s", sp.code, got, k.name))
			case inverse[sp.code].String() != wantInverse[k.name]:
				res.bad(c, p.pos(f.Pos()), fmt.Sprintf("the reader decodes the count field as %s, the writers store it so that the inverse is %s", inverse[sp.code], wantInverse[k.name]))
			default:
				res.ok(c, p.pos(f.Pos()), fmt.Sprintf("code %d -> %s, size = %s", sp.code, k.name, inverse[sp.code]))
			}
		}
	}

	// ---- (4) arena order of FreezeTo (carve-outs of the destination buffer) ----
	if f := p.Func("(*roaring.Bitmap).FreezeTo"); f != nil {
		accs := kindAccumulators(p, f, env)
		e := env()
		for ph, a := range accs {
			e.vals[ph] = linSym("acc:" + a.kind)
		}
		var buf ssa.Value
		for _, prm := range f.Params {
			if _, ok := prm.Type().Underlying().(*types.Slice); ok {
				buf = prm
			}
		}
		var seq []string
		cur := buf
		for step := 0; step < 12 && cur != nil; step++ {
			var next ssa.Value
			if cur.Referrers() == nil {
				break
			}
			var region *ssa.Slice
			for _, r := range *cur.Referrers() {
				sl, ok := r.(*ssa.Slice)
				if !ok || sl.X != cur {
					continue
				}
				if sl.Low == nil && sl.High != nil {
					region = sl
				}
				if sl.Low != nil && sl.High == nil {
					next = sl
				}
			}
			if region == nil {
				// the header may be written as buf[len(buf)-4:] by a broken variant: record what is there
				for _, r := range *cur.Referrers() {
					if sl, ok := r.(*ssa.Slice); ok && sl.X == cur && sl.Low != nil && sl.High == nil && next == nil {
						seq = append(seq, "suffix:"+e.eval(sl.Low).rename("len(roaringArray.containers)", "N").String())
					}
				}
				break
			}
			l := e.eval(region.High).rename("len(roaringArray.containers)", "N")
			// the length of a carve-out may be expressed through the local nCont = len(containers)
			seq = append(seq, l.String())
			cur = next
		}
		want := []string{"8192*acc:bitmap", "4*acc:run", "2*acc:array", "2*N", "2*N", "N", "4"}
		c := "(*roaring.Bitmap).FreezeTo|arena order"
		if strings.Join(seq, " | ") == strings.Join(want, " | ") {
			res.ok(c, p.pos(f.Pos()), "bitmaps, runs, arrays, keys, counts, type codes, header")
		} else {
			res.bad(c, p.pos(f.Pos()), fmt.Sprintf("the destination buffer is carved as [%s]; the CRoaring layout is [%s] (each region a prefix of the remainder)", strings.Join(seq, " | "), strings.Join(want, " | ")))
		}
	}
	// ---- arena order of WriteFrozenTo (order of the writes) ----
	if f := p.Func("(*roaring.Bitmap).WriteFrozenTo"); f != nil {
		type wr struct {
			blk  *ssa.BasicBlock
			desc string
			idx  int
		}
		var ws []wr
		n := 0
		for _, b := range f.Blocks {
			for _, ins := range b.Instrs {
				c, ok := ins.(*ssa.Call)
				if !ok {
					continue
				}
				desc := ""
				if c.Call.IsInvoke() && c.Call.Method.Name() == "Write" {
					arg := c.Call.Args[0]
					if call, ok := arg.(*ssa.Call); ok && len(call.Call.Args) == 1 {
						if u, ok := call.Call.Args[0].(*ssa.UnOp); ok {
							if fa, ok := u.X.(*ssa.FieldAddr); ok {
								desc = fieldName(fa.X.Type(), fa.Field)
							}
						}
					}
					if desc == "" {
						desc = "counts+types"
					}
				} else if callee := c.Call.StaticCallee(); callee != nil && callee.String() == "encoding/binary.Write" {
					desc = "header"
				}
				if desc != "" {
					ws = append(ws, wr{b, desc, n})
					n++
				}
			}
		}
		// order by control flow: a write precedes another if its block reaches the other's and not vice versa
		sort.SliceStable(ws, func(i, j int) bool {
			a, b := ws[i], ws[j]
			if a.blk == b.blk {
				return a.idx < b.idx
			}
			ab, ba := blockReaches(a.blk, b.blk), blockReaches(b.blk, a.blk)
			if ab != ba {
				return ab
			}
			return a.idx < b.idx
		})
		var seq []string
		for _, w := range ws {
			seq = append(seq, w.desc)
		}
		want := []string{"bitmapContainer.bitmap", "runContainer16.iv", "arrayContainer.content", "roaringArray.keys", "counts+types", "header"}
		c := "(*roaring.Bitmap).WriteFrozenTo|arena order"
		if strings.Join(seq, " | ") == strings.Join(want, " | ") {
			res.ok(c, p.pos(f.Pos()), strings.Join(seq, ", "))
		} else {
			res.bad(c, p.pos(f.Pos()), fmt.Sprintf("arenas are written in the order [%s]; the CRoaring layout is [%s]", strings.Join(seq, " | "), strings.Join(want, " | ")))
		}
	}
	// the two size formulas agree with each other
	if a, b := sizeOf["(*roaring.Bitmap).GetFrozenSizeInBytes"], sizeOf["(*roaring.Bitmap).FreezeTo"]; a.ok && b.ok {
		if a.equal(b) {
			res.ok("GetFrozenSizeInBytes == FreezeTo.serialSize", "-", a.String())
		} else {
			res.bad("GetFrozenSizeInBytes == FreezeTo.serialSize", "-", fmt.Sprintf("%s vs %s", a, b))
		}
	}
	// ---- type codes are checked exhaustively before containers are built ----
	if f := p.Func("(*roaring.roaringArray).frozenView"); f != nil {
		typeCodeTotality(p, f, res)
	}
	return res
}

// typeCodeTotality: the reader dispatches on a one-byte type code twice (a counting/validating loop, then
// the loop that builds the containers). Every byte value that the building loop would not handle must be
// rejected by the validating loop; otherwise its slot stays a nil container. The byte has 256 values, so the
// branch structure is simply evaluated for each of them.
func typeCodeTotality(p *Prog, f *ssa.Function, res *RuleResult) {
	type chain struct {
		t       ssa.Value
		matched map[int64]bool
		errs    map[int64]bool
		fall    []int64
	}
	var chains []*chain
	// the dispatch loops may sit in helpers of the reader (extract-function refactoring): look one and two
	// calls deep; a helper's error result reaches the reader's caller by rule B1
	scope := []*ssa.Function{f}
	seenFn := map[*ssa.Function]bool{f: true}
	for i := 0; i < len(scope) && i < 12; i++ {
		for _, b := range scope[i].Blocks {
			for _, ins := range b.Instrs {
				if c, ok := ins.(*ssa.Call); ok {
					if g := c.Call.StaticCallee(); g != nil && g.Blocks != nil && fnPkgPath(g) == fnPkgPath(f) && !seenFn[g] && errResultIndex(g.Signature) >= 0 {
						seenFn[g] = true
						scope = append(scope, g)
					}
				}
			}
		}
	}
	var allBlocks []*ssa.BasicBlock
	owner := map[*ssa.BasicBlock]*ssa.Function{}
	for _, g := range scope {
		for _, b := range g.Blocks {
			allBlocks = append(allBlocks, b)
			owner[b] = g
		}
	}
	for _, b := range allBlocks {
		for _, ins := range b.Instrs {
			ld, ok := ins.(*ssa.UnOp)
			if !ok || ld.Op != token.MUL {
				continue
			}
			ia, ok := ld.X.(*ssa.IndexAddr)
			if !ok {
				continue
			}
			bt, ok := ld.Type().Underlying().(*types.Basic)
			if !ok || bt.Kind() != types.Uint8 {
				continue
			}
			_ = ia
			// is it compared for equality with at least two constants?
			eq := 0
			if ld.Referrers() != nil {
				for _, r := range *ld.Referrers() {
					if bo, ok := r.(*ssa.BinOp); ok && bo.Op == token.EQL {
						if _, isC := constIntVal(bo.Y); isC {
							eq++
						}
					}
				}
			}
			if eq < 2 {
				continue
			}
			ch := &chain{t: ld, matched: map[int64]bool{}, errs: map[int64]bool{}}
			for v := int64(0); v < 256; v++ {
				blk := ld.Block()
				outcome := "fall"
				for steps := 0; steps < 64; steps++ {
					last := blk.Instrs[len(blk.Instrs)-1]
					if r, ok := last.(*ssa.Return); ok {
						if failureReturn(owner[blk], r) {
							outcome = "err"
						}
						break
					}
					ifi, ok := last.(*ssa.If)
					if !ok {
						if j, ok := last.(*ssa.Jump); ok && steps > 0 && len(blk.Instrs) == 1 {
							_ = j
							blk = blk.Succs[0]
							continue
						}
						break
					}
					bo, ok := ifi.Cond.(*ssa.BinOp)
					if !ok || bo.X != ssa.Value(ld) {
						break
					}
					k, isC := constIntVal(bo.Y)
					if !isC {
						break
					}
					var truth bool
					switch bo.Op {
					case token.EQL:
						truth = v == k
					case token.NEQ:
						truth = v != k
					case token.LSS:
						truth = v < k
					case token.LEQ:
						truth = v <= k
					case token.GTR:
						truth = v > k
					case token.GEQ:
						truth = v >= k
					default:
						steps = 64
						continue
					}
					if truth && bo.Op == token.EQL {
						outcome = "match"
						break
					}
					if truth {
						blk = blk.Succs[0]
					} else {
						blk = blk.Succs[1]
					}
					// a decision block is either the block of the load itself or a pure compare block; a
					// target that does other work ends the decision region
					if blk != ld.Block() {
						lastT := blk.Instrs[len(blk.Instrs)-1]
						if _, isRet := lastT.(*ssa.Return); isRet {
							continue
						}
						if nif, isIf := lastT.(*ssa.If); isIf {
							if nb, ok := nif.Cond.(*ssa.BinOp); ok && nb.X == ssa.Value(ld) {
								continue
							}
						}
						break
					}
				}
				switch outcome {
				case "match":
					ch.matched[v] = true
				case "err":
					ch.errs[v] = true
				default:
					ch.fall = append(ch.fall, v)
				}
			}
			chains = append(chains, ch)
		}
	}
	c := "(*roaring.roaringArray).frozenView|type codes checked exhaustively"
	if len(chains) == 0 {
		res.undecided(c, p.pos(f.Pos()), "no dispatch on a one-byte type code found")
		return
	}
	// the validating chain is the one that can reject
	var val *chain
	for _, ch := range chains {
		if len(ch.errs) > 0 {
			val = ch
		}
	}
	if val == nil {
		res.bad(c, p.pos(f.Pos()), "no loop over the type codes rejects anything: an unknown code leaves a nil container in the table")
		return
	}
	// every value that is neither rejected nor matched there falls through; and every value accepted there
	// must be handled by every other (building) dispatch
	var unhandled []string
	for _, v := range val.fall {
		unhandled = append(unhandled, fmt.Sprint(v))
	}
	for _, ch := range chains {
		if ch == val {
			continue
		}
		for v := range val.matched {
			if !ch.matched[v] {
				unhandled = append(unhandled, fmt.Sprintf("%d (accepted by the check, not built)", v))
			}
		}
	}
	if len(unhandled) > 0 {
		if len(unhandled) > 6 {
			unhandled = append(unhandled[:6], "...")
		}
		res.bad(c, p.ipos(val.t.(ssa.Instruction)), "type code value(s) "+strings.Join(unhandled, ", ")+" pass the validation loop without matching a case: the building loop leaves a nil container for them and the next query dereferences it")
		return
	}
	var ms []string
	for v := range val.matched {
		ms = append(ms, fmt.Sprint(v))
	}
	sort.Strings(ms)
	res.ok(c, p.ipos(val.t.(ssa.Instruction)), fmt.Sprintf("all 256 byte values evaluated: {%s} handled, the other %d rejected with an error", strings.Join(ms, ","), len(val.errs)))
}
