package main

// Program model (DESIGN §3.1): the only place where repository names appear. Every entry is
// resolved through go/types / go/ssa when a rule uses it; an unresolved entry makes the rule
// UNDECIDED (the check fails loudly instead of passing vacuously).

// Interface methods of roaring.container that are documented as in-place (they may write the
// receiver's payload). Confirmed by reading roaringarray.go:13-88 ("i stands for inplace") and the
// implementations. Every other method of the interface must leave the receiver's payload unchanged.
var inplaceContainerMethods = map[string]bool{
	"iand": true, "iandNot": true, "ior": true, "ixor": true, "lazyIOR": true,
	"iadd": true, "iaddReturnMinimized": true, "iaddRange": true,
	"iremove": true, "iremoveReturnMinimized": true, "iremoveRange": true,
	"inot": true,
}

// Payload ("content") cells of the three container kinds.
var kindContentCells = map[string]bool{
	"arrayContainer.content":      true,
	"bitmapContainer.bitmap":      true,
	"bitmapContainer.cardinality": true,
	"runContainer16.iv":           true,
	"interval16.start":            true,
	"interval16.length":           true,
}

// Content cells of the slot tables and of the bitmaps built on them. needCopyOnWrite is
// book-keeping (it may be set on an input when a container is legitimately shared).
var tableContentCells = map[string]bool{
	"roaringArray.keys": true, "roaringArray.containers": true, "roaringArray.copyOnWrite": true,
	"Bitmap.highlowcontainer":       true,
	"roaring64.roaringArray64.keys": true, "roaring64.roaringArray64.containers": true, "roaring64.roaringArray64.copyOnWrite": true,
	"roaring64.Bitmap.highlowcontainer": true,
}

var bookkeepingCells = map[string]bool{
	"roaringArray.needCopyOnWrite":             true,
	"roaring64.roaringArray64.needCopyOnWrite": true,
}

func isContentCell(c string) bool { return kindContentCells[c] || tableContentCells[c] }

// Operations that may be applied to a shared container/bucket without the copy-before-write gate
// because they only change its representation, never its contents (DESIGN §3.2 refinement 7; the
// repository documents the intent at roaringArray.runOptimize). One named symbol per package.
var representationOnly = map[string]bool{
	"(*roaring.Bitmap).RunOptimize": true,
}

// Operations whose result (or receiver, when in place) may be the empty set although both
// operands are non-empty. Level 32: methods of roaring.container. Level 64: functions and methods of
// the 32-bit package applied to buckets.
var mayEmptyKernel32 = map[string]bool{
	"and": true, "iand": true, "andNot": true, "iandNot": true, "xor": true, "ixor": true,
	"not": true, "inot": true, "iremoveRange": true, "iremoveReturnMinimized": true,
}
var mayEmptyBucket64 = map[string]bool{
	"roaring.And": true, "roaring.AndNot": true, "roaring.Xor": true, "roaring.Flip": true, "roaring.FlipInt": true,
	"(*roaring.Bitmap).And": true, "(*roaring.Bitmap).AndNot": true, "(*roaring.Bitmap).Xor": true,
	"(*roaring.Bitmap).Remove": true, "(*roaring.Bitmap).CheckedRemove": true, "(*roaring.Bitmap).RemoveRange": true,
	"(*roaring.Bitmap).Flip": true, "(*roaring.Bitmap).FlipInt": true, "(*roaring.Bitmap).AndAny": true,
}
