package main

import (
	"fmt"
	"go/types"
	"sort"
	"strings"

	"golang.org/x/tools/go/ssa"
)

func init() {
	register("RES1", "an in-place container kernel answers with the container that now holds the result — the receiver, or a different one when the kind had to change (an array that outgrew 4096 values, a bitmap that fell to 4096): a call whose result is thrown away loses the update exactly in that case. No call of a kernel that can return a container other than its receiver is used as a bare statement", ruleRES1)
}

// res1Allowed: call sites of today's tree that drop the result of a kernel whose receiver is NOT a bitmap
// container, confirmed by reading. (For a *bitmapContainer receiver no table is needed: every in-place
// bitmap kernel updates the receiver's own words whatever it returns — the other result is a re-typed
// copy of the same contents — so a caller that goes on with the receiver loses only the re-typing, which
// F8.bitmap checks where it matters.)
var res1Allowed = map[string]string{
	"(*roaring.runContainer16).toArrayContainer|iaddRange": "called only for run containers of at most 4096 values (toEfficientContainer*), so arrayContainer.iaddRange never has to change the kind and appends to the receiver",
}

func ruleRES1(p *Prog) *RuleResult {
	res := newResult("RES1", ruleDoc["RES1"], 50)
	fns := append([]*ssa.Function(nil), p.sourceFns()...)
	sort.Slice(fns, func(i, j int) bool { return fname(fns[i]) < fname(fns[j]) })
	ct := p.Type("roaring", "container")
	if ct == nil {
		res.undecided("anchors", "-", "roaring.container not found")
		return res
	}
	// mayReturnOther(g): some return of g yields a value that is not g's receiver
	memo := map[*ssa.Function]int{}
	var mayOther func(g *ssa.Function, depth int) bool
	mayOther = func(g *ssa.Function, depth int) bool {
		if v, ok := memo[g]; ok {
			return v == 1
		}
		if g.Blocks == nil || depth > 4 {
			return true
		}
		memo[g] = 0
		other := false
		for _, b := range g.Blocks {
			r, ok := b.Instrs[len(b.Instrs)-1].(*ssa.Return)
			if !ok || len(r.Results) != 1 {
				continue
			}
			v := r.Results[0]
			for {
				if mi, ok := v.(*ssa.MakeInterface); ok {
					v = mi.X
					continue
				}
				break
			}
			switch x := v.(type) {
			case *ssa.Parameter:
				if x != g.Params[0] {
					other = true
				}
			case *ssa.Call:
				if h := x.Call.StaticCallee(); h != nil && len(x.Call.Args) > 0 && x.Call.Args[0] == ssa.Value(g.Params[0]) && h.Signature.Recv() != nil {
					if mayOther(h, depth+1) {
						other = true
					}
				} else {
					other = true
				}
			default:
				other = true
			}
		}
		if other {
			memo[g] = 1
		}
		return other
	}
	perSite := map[string]int{}
	for _, f := range fns {
		if f.Blocks == nil || fnPkgPath(f) != pkgPathOf("roaring") {
			continue
		}
		n := 0
		for _, b := range f.Blocks {
			for _, ins := range b.Instrs {
				call, ok := ins.(*ssa.Call)
				if !ok {
					continue
				}
				// result type container (interface) or a container kind pointer, in-place kernel by name
				name := ""
				var g *ssa.Function
				if call.Call.IsInvoke() {
					name = call.Call.Method.Name()
				} else if g = call.Call.StaticCallee(); g != nil {
					name = g.Name()
				}
				if !strings.HasPrefix(name, "i") || len(name) < 2 || !(name[1] >= 'a' && name[1] <= 'z') {
					continue
				}
				sig := call.Call.Signature()
				if sig.Results().Len() != 1 || !types.Identical(sig.Results().At(0).Type(), ct) {
					continue
				}
				if call.Call.IsInvoke() {
					if !types.Identical(call.Call.Value.Type(), ct) {
						continue
					}
				} else if g == nil || g.Signature.Recv() == nil {
					continue
				}
				n++
				c := fmt.Sprintf("%s|result of %s#%d", fname(f), name, n)
				used := call.Referrers() != nil && len(*call.Referrers()) > 0
				switch {
				case used:
					res.ok(c, p.ipos(call), "result used")
				case g != nil && !mayOther(g, 0):
					res.ok(c, p.ipos(call), "this kernel always answers with its receiver")
				case g != nil && g.Signature.Recv() != nil && strings.HasSuffix(typeShort(g.Signature.Recv().Type()), "bitmapContainer"):
					res.ok(c, p.ipos(call), "receiver is a bitmap container: its words are updated in place whatever the kernel returns")
				case res1Allowed[fname(f)+"|"+name] != "" && perSite[fname(f)+"|"+name] == 0:
					perSite[fname(f)+"|"+name]++
					res.ok(c, p.ipos(call), "triaged: "+res1Allowed[fname(f)+"|"+name])
				default:
					res.bad(c, p.ipos(call), fmt.Sprintf("the container returned by %s is thrown away: when the kernel had to change the kind (it returns a new container and leaves the receiver as it was, or half-updated) the update is lost", name))
				}
			}
		}
	}
	return res
}
