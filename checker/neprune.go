package main

import (
	"go/constant"
	"go/token"
	"go/types"

	"golang.org/x/tools/go/ssa"
)

// NE pruning (DESIGN §3.2, context refinement 2).
//
// Representation invariant (its producer side is rule F3, its checker side rule V2): no container
// reachable from a bitmap is empty, and kernels are only ever applied to such containers. Inside a
// method of one of the container kinds, a branch taken only when the receiver or a container-typed
// parameter is empty is therefore infeasible:
//     len(P.iv) == 0, len(P.content) == 0, P.isEmpty(), P.cardinality == 0, P.getCardinality() == 0
// with P a parameter (receiver included). Blocks reachable only through such a branch are ignored by
// the ownership engine (example: runContainer16.AndNotRunContainer16 returns its receiver only there).

func isKindType(p *Prog, t types.Type) bool {
	_, impls := p.containerImpls()
	for _, k := range impls {
		if types.Identical(t, k) {
			return true
		}
	}
	return false
}

func isContainerish(p *Prog, t types.Type) bool {
	if isKindType(p, t) {
		return true
	}
	ct := p.Type("roaring", "container")
	return ct != nil && types.Identical(t, ct)
}

func isParamValue(v ssa.Value) bool {
	switch x := v.(type) {
	case *ssa.Parameter:
		return true
	case *ssa.TypeAssert:
		return isParamValue(x.X)
	case *ssa.Extract:
		if ta, ok := x.Tuple.(*ssa.TypeAssert); ok && x.Index == 0 {
			return isParamValue(ta.X)
		}
	case *ssa.MakeInterface:
		return isParamValue(x.X)
	case *ssa.ChangeInterface:
		return isParamValue(x.X)
	}
	return false
}

func isZeroConst(v ssa.Value) bool {
	c, ok := v.(*ssa.Const)
	if !ok || c.Value == nil {
		return false
	}
	if c.Value.Kind() != constant.Int {
		return false
	}
	n, ok := constant.Int64Val(c.Value)
	return ok && n == 0
}

// emptinessOfParam: v is an integer expression equal to the element count of a container parameter.
func (p *Prog) emptinessCount(v ssa.Value) bool {
	switch x := v.(type) {
	case *ssa.Call:
		if b, ok := x.Call.Value.(*ssa.Builtin); ok && b.Name() == "len" {
			if u, ok := x.Call.Args[0].(*ssa.UnOp); ok && u.Op == token.MUL {
				if fa, ok := u.X.(*ssa.FieldAddr); ok && isParamValue(fa.X) && isContainerish(p, fa.X.Type()) {
					return true
				}
			}
			return false
		}
		// P.getCardinality()
		name := ""
		var recv ssa.Value
		if x.Call.IsInvoke() {
			name, recv = x.Call.Method.Name(), x.Call.Value
		} else if f := x.Call.StaticCallee(); f != nil && f.Signature.Recv() != nil && len(x.Call.Args) > 0 {
			name, recv = f.Name(), x.Call.Args[0]
		}
		if name == "getCardinality" && recv != nil && isParamValue(recv) && isContainerish(p, recv.Type()) {
			return true
		}
	case *ssa.UnOp:
		if x.Op == token.MUL {
			if fa, ok := x.X.(*ssa.FieldAddr); ok && isParamValue(fa.X) && isKindType(p, fa.X.Type()) {
				st := fa.X.Type().Underlying().(*types.Pointer).Elem().Underlying().(*types.Struct)
				if st.Field(fa.Field).Name() == "cardinality" {
					return true
				}
			}
		}
	}
	return false
}

// emptyCond: cond is true exactly when a container parameter is empty.
func (p *Prog) emptyCond(cond ssa.Value) bool {
	switch x := cond.(type) {
	case *ssa.BinOp:
		if x.Op == token.EQL {
			if isZeroConst(x.Y) && p.emptinessCount(x.X) {
				return true
			}
			if isZeroConst(x.X) && p.emptinessCount(x.Y) {
				return true
			}
		}
	case *ssa.Call:
		name := ""
		var recv ssa.Value
		if x.Call.IsInvoke() {
			name, recv = x.Call.Method.Name(), x.Call.Value
		} else if f := x.Call.StaticCallee(); f != nil && f.Signature.Recv() != nil && len(x.Call.Args) > 0 {
			name, recv = f.Name(), x.Call.Args[0]
		}
		if name == "isEmpty" && recv != nil && isParamValue(recv) && isContainerish(p, recv.Type()) {
			return true
		}
	}
	return false
}

func nePrunedBlocks(p *Prog, f *ssa.Function) map[*ssa.BasicBlock]bool {
	if f.Blocks == nil || f.Signature.Recv() == nil || fnPkgPath(f) != modPath {
		return nil
	}
	if !isKindType(p, f.Signature.Recv().Type()) {
		return nil
	}
	// reachability ignoring the infeasible edges
	reach := map[*ssa.BasicBlock]bool{}
	var visit func(b *ssa.BasicBlock)
	visit = func(b *ssa.BasicBlock) {
		if reach[b] {
			return
		}
		reach[b] = true
		if len(b.Instrs) > 0 {
			if ifi, ok := b.Instrs[len(b.Instrs)-1].(*ssa.If); ok && p.emptyCond(ifi.Cond) {
				visit(b.Succs[1]) // only the false edge is feasible
				return
			}
		}
		for _, s := range b.Succs {
			visit(s)
		}
	}
	visit(f.Blocks[0])
	var dead map[*ssa.BasicBlock]bool
	for _, b := range f.Blocks {
		if !reach[b] {
			if dead == nil {
				dead = map[*ssa.BasicBlock]bool{}
			}
			dead[b] = true
		}
	}
	return dead
}
