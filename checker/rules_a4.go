package main

import (
	"fmt"
	"go/token"
	"go/types"
	"sort"
	"strings"

	"golang.org/x/tools/go/ssa"
)

func init() {
	register("A4", "foreign memory confinement: slices of caller-owned memory (zero-copy decode, frozen view, FromDense without copy) are stored only as payload of containers whose slot flag is true on that path, never as slot-table arrays; NextReturnsSafeSlice may be true only for a byte source whose Next allocates", ruleA4)
	register("A5", "detach: cloneCopyOnWriteContainers replaces every flagged slot by a deep clone and clears its flag; the 64-bit table also detaches every bucket's own containers", ruleA5)
}

// taint: slice-typed SSA values of function f that may address caller-owned memory.
type taintInfo struct {
	f      *ssa.Function
	p      *Prog
	vals   map[ssa.Value]string // tainted value -> origin description
	source map[ssa.Value]ssa.Value
}

func isSliceLike(t types.Type) bool {
	switch t.Underlying().(type) {
	case *types.Slice, *types.Pointer:
		return true
	}
	return false
}

// propagate taints through reslicing, phis, reinterpreting helpers (OWN Ret is[arg]) and unsafe builtins.
func (ti *taintInfo) propagate() {
	own := ti.p.OWN()
	for changed := true; changed; {
		changed = false
		add := func(v ssa.Value, from ssa.Value) {
			if _, ok := ti.vals[v]; !ok {
				ti.vals[v] = ti.vals[from]
				ti.source[v] = ti.source[from]
				changed = true
			}
		}
		for _, b := range ti.f.Blocks {
			for _, ins := range b.Instrs {
				switch x := ins.(type) {
				case *ssa.Slice:
					if _, ok := ti.vals[x.X]; ok {
						add(x, x.X)
					}
				case *ssa.Phi:
					for _, e := range x.Edges {
						if _, ok := ti.vals[e]; ok {
							add(x, e)
						}
					}
				case *ssa.ChangeType:
					if _, ok := ti.vals[x.X]; ok {
						add(x, x.X)
					}
				case *ssa.Convert:
					if _, ok := ti.vals[x.X]; ok && isSliceLike(x.Type()) {
						add(x, x.X)
					}
				case *ssa.Extract:
					if _, ok := ti.vals[x.Tuple]; ok && isSliceLike(x.Type()) {
						add(x, x.Tuple)
					}
				case *ssa.Call:
					if !isSliceLike(x.Type()) {
						if _, isTuple := x.Type().(*types.Tuple); !isTuple {
							continue
						}
					}
					if bi, ok := x.Call.Value.(*ssa.Builtin); ok {
						switch bi.Name() {
						case "Slice", "SliceData", "Add", "append":
							for _, a := range x.Call.Args {
								if _, ok := ti.vals[a]; ok {
									add(x, a)
								}
							}
						}
						continue
					}
					callee := x.Call.StaticCallee()
					if callee == nil {
						continue
					}
					s := own.Sum(callee)
					if s == nil {
						continue
					}
					for _, r := range s.ret {
						for k := range r.is {
							if k < len(x.Call.Args) {
								if _, ok := ti.vals[x.Call.Args[k]]; ok {
									add(x, x.Call.Args[k])
								}
							}
						}
						for k := range r.isDeep {
							if k < len(x.Call.Args) {
								if _, ok := ti.vals[x.Call.Args[k]]; ok {
									add(x, x.Call.Args[k])
								}
							}
						}
					}
				case *ssa.UnOp:
					// load of a local variable that holds a tainted slice
					if x.Op == token.MUL {
						if al, ok := x.X.(*ssa.Alloc); ok {
							for _, r := range *al.Referrers() {
								if st, ok := r.(*ssa.Store); ok && st.Addr == al {
									if _, ok := ti.vals[st.Val]; ok {
										add(x, st.Val)
									}
								}
							}
						}
					}
				}
			}
		}
	}
}

type payloadStore struct {
	st   *ssa.Store
	obj  ssa.Value // the container object whose payload field is written
	cell string
	// for a container handed back by a builder helper (st == nil): the call, and the byte source it was given
	at  ssa.Instruction
	src ssa.Value
}

func (ps payloadStore) where() ssa.Instruction {
	if ps.st != nil {
		return ps.st
	}
	return ps.at
}

func (ps payloadStore) sourceOf(ti *taintInfo) ssa.Value {
	if ps.st != nil {
		return ti.source[ps.st.Val]
	}
	return ps.src
}

// sinks classifies the stores of tainted slices.
func (ti *taintInfo) sinks(lv *tlLevel) (payload []payloadStore, bad []string) {
	for _, b := range ti.f.Blocks {
		for _, ins := range b.Instrs {
			st, ok := ins.(*ssa.Store)
			if !ok {
				continue
			}
			if _, tainted := ti.vals[st.Val]; !tainted {
				continue
			}
			switch a := st.Addr.(type) {
			case *ssa.FieldAddr:
				cell := fieldName(a.X.Type(), a.Field)
				pt := a.X.Type().Underlying().(*types.Pointer)
				switch {
				case lv.isTableStruct(pt.Elem()):
					bad = append(bad, fmt.Sprintf("%s: caller-owned memory (%s) is installed as the slot-table array %s, which is shifted and overwritten in place without any copy-on-write check", ti.p.ipos(st), ti.vals[st.Val], cell))
				case kindContentCells[cell]:
					payload = append(payload, payloadStore{st: st, obj: a.X, cell: cell})
				default:
					// a local struct (stream wrapper etc.): not a bitmap data structure
				}
			case *ssa.Alloc:
				// local variable
			case *ssa.IndexAddr:
				bad = append(bad, fmt.Sprintf("%s: caller-owned memory stored into an element of a slice", ti.p.ipos(st)))
			}
		}
	}
	return
}

// slotStoreOf finds where container object obj is stored into a slot table: raw store T.containers[i] = obj,
// or a call with a slot-store summary. Returns the flag expression kind.
type slotUse struct {
	ins      ssa.Instruction
	tab      string
	idx      ssa.Value
	flagKind string
	flagVal  ssa.Value
}

func ruleA4(p *Prog) *RuleResult {
	res := newResult("A4", ruleDoc["A4"], 8)
	e, err := p.TL("32")
	if err != nil {
		res.undecided("anchors", "-", err.Error())
		return res
	}
	lv := e.lv
	own := p.OWN()

	// (a) the safe-slice contract of every ByteInput implementation
	bi := p.Type("internal", "ByteInput")
	if bi == nil {
		res.undecided("internal.ByteInput", "-", "anchor not found")
	} else {
		iface := bi.Underlying().(*types.Interface)
		n := 0
		for _, pk := range p.Pkgs {
			for _, name := range pk.Types.Scope().Names() {
				tn, ok := pk.Types.Scope().Lookup(name).(*types.TypeName)
				if !ok || tn.IsAlias() {
					continue
				}
				pt := types.NewPointer(tn.Type())
				if _, isI := tn.Type().Underlying().(*types.Interface); isI || !types.Implements(pt, iface) {
					continue
				}
				n++
				var next, safe *ssa.Function
				for _, m := range p.Methods(tn.Type()) {
					switch m.Name() {
					case "Next":
						next = m
					case "NextReturnsSafeSlice":
						safe = m
					}
				}
				c := tname(pt) + "|NextReturnsSafeSlice"
				if next == nil || safe == nil {
					res.undecided(c, "-", "methods not found")
					continue
				}
				mayTrue, allConst := false, true
				for _, b := range safe.Blocks {
					if r, ok := b.Instrs[len(b.Instrs)-1].(*ssa.Return); ok {
						if v, ok := constBool(r.Results[0]); ok {
							if v {
								mayTrue = true
							}
						} else {
							allConst = false
						}
					}
				}
				ri := own.Sum(next).ret[0]
				freshOnly := ri.fresh && len(ri.is) == 0 && len(ri.isDeep) == 0 && len(ri.reach) == 0 && !ri.global
				switch {
				case !allConst:
					res.undecided(c, p.pos(safe.Pos()), "NextReturnsSafeSlice is not a constant")
				case mayTrue && !freshOnly:
					res.bad(c, p.pos(safe.Pos()), fmt.Sprintf("NextReturnsSafeSlice returns true but Next may return memory that is not freshly allocated (fresh=%v aliases receiver=%v)", ri.fresh, len(ri.is)+len(ri.isDeep)+len(ri.reach) > 0))
				default:
					res.ok(c, p.pos(safe.Pos()), fmt.Sprintf("safe=%v, Next fresh-only=%v", mayTrue, freshOnly))
				}
			}
		}
		if n < 2 {
			res.undecided("internal.ByteInput|implementations", "-", fmt.Sprintf("expected at least 2 implementations, found %d", n))
		}
	}

	// (b) the three places where caller-owned memory enters a bitmap
	type site struct {
		fn     string
		source func(f *ssa.Function, ti *taintInfo)
	}
	sites := []site{
		{"(*roaring.roaringArray).readFrom", func(f *ssa.Function, ti *taintInfo) {
			for _, b := range f.Blocks {
				for _, ins := range b.Instrs {
					if c, ok := ins.(*ssa.Call); ok && c.Call.IsInvoke() && c.Call.Method.Name() == "Next" {
						ti.vals[c] = "result of ByteInput.Next"
						ti.source[c] = c.Call.Value
					}
				}
			}
		}},
		{"(*roaring.roaringArray).frozenView", func(f *ssa.Function, ti *taintInfo) {
			for _, prm := range f.Params {
				if _, ok := prm.Type().Underlying().(*types.Slice); ok {
					ti.vals[prm] = "parameter " + prm.Name()
					ti.source[prm] = prm
				}
			}
		}},
		{"(*roaring.Bitmap).FromDense", func(f *ssa.Function, ti *taintInfo) {
			for _, prm := range f.Params {
				if _, ok := prm.Type().Underlying().(*types.Slice); ok {
					ti.vals[prm] = "parameter " + prm.Name()
					ti.source[prm] = prm
				}
			}
		}},
	}
	for _, s := range sites {
		f := p.Func(s.fn)
		if f == nil {
			res.undecided(s.fn, "-", "anchor not found")
			continue
		}
		ti := &taintInfo{f: f, p: p, vals: map[ssa.Value]string{}, source: map[ssa.Value]ssa.Value{}}
		s.source(f, ti)
		if len(ti.vals) == 0 {
			res.undecided(s.fn+"|sources", p.pos(f.Pos()), "no source of caller-owned memory found")
			continue
		}
		ti.propagate()
		payload, bad := ti.sinks(lv)
		for i, b := range bad {
			res.bad(fmt.Sprintf("%s|table-array#%d", s.fn, i+1), p.pos(f.Pos()), b)
		}
		if len(bad) == 0 {
			res.ok(s.fn+"|table-arrays", p.pos(f.Pos()), "no slot-table array is caller-owned memory")
		}
		t := e.funcState(f)
		per := map[string]int{}
		for _, ps := range payload {
			per[ps.cell]++
			c := fmt.Sprintf("%s|payload %s#%d", s.fn, ps.cell, per[ps.cell])
			ok, why := t.taintedPayloadFlagged(ti, ps)
			if ok {
				res.ok(c, p.ipos(ps.where()), why)
			} else {
				res.bad(c, p.ipos(ps.where()), why)
			}
		}
		if len(payload) == 0 {
			// the zero-copy branch may live in a helper that hands back the container together with its flag:
			//   c, cow := wrapWords(words, ...) ; table.appendContainer(k, c, cow)
			if built, bad := a4BuilderHelper(p, lv, f, ti); len(built) > 0 || len(bad) > 0 {
				// or in a helper that reads from the byte source itself and hands back the finished container:
				//   c, n, err := readPayload(stream, ...) ; table.containers[i] = c
				for i, b := range bad {
					res.bad(fmt.Sprintf("%s|builder table-array#%d", s.fn, i+1), p.pos(f.Pos()), b)
				}
				for i, ps := range built {
					c := fmt.Sprintf("%s|payload built by helper#%d", s.fn, i+1)
					if ok, why := t.taintedPayloadFlagged(ti, ps); ok {
						res.ok(c, p.ipos(ps.where()), ps.cell+": "+why)
					} else {
						res.bad(c, p.ipos(ps.where()), why)
					}
				}
			} else if ok, why, pos := a4PairHelper(p, e, f, ti); ok {
				res.ok(s.fn+"|payload via helper", pos, why)
			} else if why != "" {
				res.bad(s.fn+"|payload via helper", pos, why)
			} else {
				res.undecided(s.fn+"|payload", p.pos(f.Pos()), "no payload store of caller-owned memory found (zero-copy path removed or not recognised)")
			}
		}
	}
	return res
}

// funcState builds the per-function TL state (roots, facts) for a function outside the fixpoint.
func (e *tlEngine) funcState(f *ssa.Function) *tlFunc {
	t := &tlFunc{e: e, fn: f, ctxS: "", prov: map[ssa.Value]atomSet{}, busy: map[ssa.Value]bool{}, roots: map[ssa.Value]string{}, rbusy: map[ssa.Value]bool{}}
	t.computeDead()
	t.buildGroups()
	t.runFacts()
	t.sum = &tlSummary{pair: [2]int{-1, -1}}
	return t
}

// taintedPayloadFlagged: the container object that received caller-owned memory reaches a slot
// whose flag is true whenever that memory is still its payload.
func (t *tlFunc) taintedPayloadFlagged(ti *taintInfo, ps payloadStore) (bool, string) {
	lv := t.e.lv
	obj := ps.obj
	// the object may be an element of a local slice of structs (&bitsets[i]) or a local variable
	// find slot stores of the object (as interface)
	var uses []slotUse
	seen := map[ssa.Value]bool{}
	var walk func(v ssa.Value)
	walk = func(v ssa.Value) {
		if seen[v] || v.Referrers() == nil {
			return
		}
		seen[v] = true
		for _, r := range *v.Referrers() {
			switch u := r.(type) {
			case *ssa.MakeInterface:
				walk(u)
			case *ssa.Phi:
				walk(u)
			case *ssa.UnOp:
				// whole-struct copy of a composite literal into the variable that is stored: *nb = *complit
				if u.Op == token.MUL && u.X == v {
					if _, isStruct := u.Type().Underlying().(*types.Struct); isStruct {
						walk(u)
					}
				}
			case *ssa.Store:
				if u.Val != v {
					continue
				}
				if al, ok := u.Addr.(*ssa.Alloc); ok {
					if _, isStruct := u.Val.Type().Underlying().(*types.Struct); isStruct {
						walk(al)
						continue
					}
				}
				if tab, fld, idx, ok := t.tableElemAddr(u.Addr); ok && fld == lv.fCont {
					uses = append(uses, slotUse{ins: u, tab: tab, idx: idx})
				} else if ia, ok := u.Addr.(*ssa.IndexAddr); ok && lv.isSlotSlice(ia.X.Type()) {
					uses = append(uses, slotUse{ins: u, tab: "group", idx: ia.Index})
				}
			case *ssa.Call:
				callee := u.Call.StaticCallee()
				if callee == nil || !t.e.inScope(callee) {
					continue
				}
				s := t.e.sums[t.e.sumKey(callee, "")]
				if s == nil {
					continue
				}
				for _, rq := range s.reqs {
					if rq.valParam < len(u.Call.Args) && u.Call.Args[rq.valParam] == v {
						su := slotUse{ins: u, tab: t.root(u.Call.Args[rq.tabParam]) + rq.tabPath, flagKind: rq.flag}
						if rq.flag == "param" && rq.flagParm < len(u.Call.Args) {
							su.flagKind, su.flagVal = flagKindOf(u.Call.Args[rq.flagParm])
						}
						uses = append(uses, su)
					}
				}
			}
		}
	}
	// objects addressed as &slice[i] have no referrers of their own value besides the FieldAddr: use any
	// value with the same address expression
	walk(obj)
	if ia, ok := obj.(*ssa.IndexAddr); ok {
		for _, b := range t.fn.Blocks {
			for _, ins := range b.Instrs {
				if ia2, ok := ins.(*ssa.IndexAddr); ok && ia2 != ia && ia2.X == ia.X && ia2.Index == ia.Index {
					walk(ia2)
				}
			}
		}
	}
	if len(uses) == 0 {
		return false, "the container that holds caller-owned memory is never stored into a slot (flow not recognised)"
	}
	for _, u := range uses {
		fk, fv := u.flagKind, u.flagVal
		if fk == "" {
			// raw store: find the flag store for the same index anywhere in the function
			for _, b := range t.fn.Blocks {
				for _, ins := range b.Instrs {
					st, ok := ins.(*ssa.Store)
					if !ok {
						continue
					}
					// the flag store must be on every path through the slot store: same block, or one dominates the
					// other with nothing but straight-line code in between (a flag set in a sibling case does not count)
					if !flagStoreCovers(b, u.ins.Block()) {
						continue
					}
					if tb2, f2, idx2, ok2 := t.tableElemAddr(st.Addr); ok2 && f2 == lv.fFlags && tb2 == u.tab && idx2 == u.idx {
						fk, fv = flagKindOf(st.Val)
					}
					if ia, ok := st.Addr.(*ssa.IndexAddr); ok && u.tab == "group" && isBoolSlice(ia.X.Type()) && ia.Index == u.idx {
						fk, fv = flagKindOf(st.Val)
					}
				}
			}
		}
		switch fk {
		case "true":
			continue
		case "value":
			// (1) flag = !source.NextReturnsSafeSlice()
			if un, ok := fv.(*ssa.UnOp); ok && un.Op == token.NOT {
				if c, ok := un.X.(*ssa.Call); ok && c.Call.IsInvoke() && c.Call.Method.Name() == "NextReturnsSafeSlice" && c.Call.Value == ps.sourceOf(ti) {
					continue
				}
			}
			// (2) flag is a phi: on every false edge the payload was replaced by fresh memory first
			if ph, ok := fv.(*ssa.Phi); ok {
				allOK := true
				for i, ev := range ph.Edges {
					bv, isC := constBool(ev)
					if isC && bv {
						continue
					}
					if !isC {
						allOK = false
						continue
					}
					pred := ph.Block().Preds[i]
					if !t.freshPayloadStoreDominates(ti, ps, pred) {
						allOK = false
					}
				}
				if allOK {
					continue
				}
			}
			return false, fmt.Sprintf("slot flag stored at %s is not provably true while the container's %s is caller-owned memory", t.e.p.ipos(u.ins), ps.cell)
		default:
			return false, fmt.Sprintf("container with caller-owned %s is stored at %s with flag %q", ps.cell, t.e.p.ipos(u.ins), fk)
		}
	}
	return true, fmt.Sprintf("%d slot store(s), flag true on every path that keeps the caller's memory", len(uses))
}

// freshPayloadStoreDominates: a store of untainted memory into the same payload cell of the same
// object is in block b or dominates it.
func (t *tlFunc) freshPayloadStoreDominates(ti *taintInfo, ps payloadStore, b *ssa.BasicBlock) bool {
	for _, blk := range t.fn.Blocks {
		if blk != b && !blk.Dominates(b) {
			continue
		}
		for _, ins := range blk.Instrs {
			st, ok := ins.(*ssa.Store)
			if !ok || st == ps.st {
				continue
			}
			fa, ok := st.Addr.(*ssa.FieldAddr)
			if !ok || fa.X != ps.obj || fieldName(fa.X.Type(), fa.Field) != ps.cell {
				continue
			}
			if _, tainted := ti.vals[st.Val]; !tainted {
				return true
			}
		}
	}
	return false
}

func ruleA5(p *Prog) *RuleResult {
	res := newResult("A5", ruleDoc["A5"], 3)
	for _, lvl := range []string{"32", "64"} {
		e, err := p.TL(lvl)
		if err != nil {
			res.undecided("anchors", "-", err.Error())
			continue
		}
		name := "(*" + e.lv.pkgShort + "." + e.lv.tableName + ").cloneCopyOnWriteContainers"
		f := p.Func(name)
		if f == nil {
			res.undecided(name, "-", "anchor not found")
			continue
		}
		t := e.funcState(f)
		lv := e.lv
		okStore := false
		why := "no store of a clone into the flagged slot found"
		for _, b := range f.Blocks {
			for _, ins := range b.Instrs {
				st, ok := ins.(*ssa.Store)
				if !ok {
					continue
				}
				tab, fld, idx, ok := t.tableElemAddr(st.Addr)
				if !ok || fld != lv.fCont || tab != "P0" {
					continue
				}
				// value: fresh deep copy of the same slot
				fresh := true
				for _, a := range t.provOf(st.Val) {
					if a.k != aFresh {
						fresh = false
					}
				}
				// flag cleared in the same block for the same index
				cleared := false
				for _, y := range b.Instrs {
					if s2, ok := y.(*ssa.Store); ok {
						if tb2, f2, idx2, ok2 := t.tableElemAddr(s2.Addr); ok2 && f2 == lv.fFlags && tb2 == tab && idx2 == idx {
							if v, ok := constBool(s2.Val); ok && !v {
								cleared = true
							}
						}
					}
				}
				// index ranges over the whole table: phi(-1, i+1) compared with len of a table slice
				whole := false
				if ph, ok := idx.(*ssa.BinOp); ok {
					_ = ph
				}
				whole = indexCoversWholeTable(t, idx)
				switch {
				case !fresh:
					why = "the flagged slot is not replaced by a fresh deep copy: " + strings.Join(t.provOf(st.Val).list(), ",")
				case !cleared:
					why = "the flag of the detached slot is not cleared"
				case !whole:
					why = "the detach loop does not provably range over every slot of the table"
				default:
					okStore = true
				}
			}
		}
		if okStore {
			res.ok(name, p.pos(f.Pos()), "every flagged slot := clone(); flag := false; loop over the whole table")
		} else {
			res.bad(name, p.pos(f.Pos()), why)
		}
		if lvl == "64" {
			// the slots of the 64-bit table are 32-bit bitmaps with copy-on-write flags of their own (set by
			// FromUnsafeBytes, and kept by Clone in copy-on-write mode): every iteration of the detach loop
			// must also detach the bucket's own containers
			c := name + "|inner detach"
			var calls []ssa.Instruction
			for _, b := range f.Blocks {
				for _, ins := range b.Instrs {
					call, ok := ins.(*ssa.Call)
					if !ok || calleeName(&call.Call) != "(*roaring.Bitmap).CloneCopyOnWriteContainers" || len(call.Call.Args) == 0 {
						continue
					}
					ld, ok := call.Call.Args[0].(*ssa.UnOp)
					if !ok {
						continue
					}
					tab, fld, idx, ok := t.tableElemAddr(ld.X)
					if ok && tab == "P0" && fld == lv.fCont && indexCoversWholeTable(t, idx) {
						calls = append(calls, call)
					}
				}
			}
			switch {
			case len(calls) == 0:
				res.bad(c, p.pos(f.Pos()), "no call of the bucket's own CloneCopyOnWriteContainers on every slot: a bitmap made by FromUnsafeBytes keeps reading the caller's buffer after the detach")
			case !everyIterationPasses(calls[0].Block(), calls):
				res.bad(c, p.ipos(calls[0]), "the bucket's own CloneCopyOnWriteContainers is skipped on some iteration of the detach loop")
			default:
				res.ok(c, p.ipos(calls[0]), "every iteration calls the bucket's own CloneCopyOnWriteContainers")
			}
		}
	}
	return res
}

// everyIterationPasses: in the innermost loop around block in, no path from the loop header back to the
// header avoids every block holding one of the instructions.
func everyIterationPasses(in *ssa.BasicBlock, must []ssa.Instruction) bool {
	// loop header: a block that dominates `in` and is reachable from it
	var header *ssa.BasicBlock
	for h := in; h != nil; h = h.Idom() {
		for _, pr := range h.Preds {
			if h.Dominates(pr) && (pr == in || blockReaches(in, pr)) {
				header = h
			}
		}
		if header != nil {
			break
		}
	}
	if header == nil {
		return false
	}
	blocked := map[*ssa.BasicBlock]bool{}
	for _, m := range must {
		blocked[m.Block()] = true
	}
	if blocked[header] {
		return true
	}
	seen := map[*ssa.BasicBlock]bool{}
	var dfs func(b *ssa.BasicBlock) bool // true: the header is reached again without a blocked block
	dfs = func(b *ssa.BasicBlock) bool {
		for _, s := range b.Succs {
			if s == header {
				return true
			}
			if blocked[s] || seen[s] || !header.Dominates(s) {
				continue
			}
			seen[s] = true
			if dfs(s) {
				return true
			}
		}
		return false
	}
	return !dfs(header)
}

// indexCoversWholeTable: idx is the induction variable of `for i := range T.<slice>` (SSA: phi(-1, i+1)
// with exit test i+1 < len(slice)) or of `for i := 0; i < len(...)`.
func indexCoversWholeTable(t *tlFunc, idx ssa.Value) bool {
	bo, ok := idx.(*ssa.BinOp)
	var ph *ssa.Phi
	if ok && bo.Op == token.ADD {
		ph, _ = bo.X.(*ssa.Phi)
	} else {
		ph, _ = idx.(*ssa.Phi)
	}
	if ph == nil {
		return false
	}
	start := false
	for _, e := range ph.Edges {
		if c, ok := e.(*ssa.Const); ok && c.Value != nil {
			s := c.Value.ExactString()
			if s == "-1" || s == "0" {
				start = true
			}
		}
	}
	if !start {
		return false
	}
	// the loop condition compares against len of a slice of the table
	for _, b := range t.fn.Blocks {
		if len(b.Instrs) == 0 {
			continue
		}
		ifi, ok := b.Instrs[len(b.Instrs)-1].(*ssa.If)
		if !ok {
			continue
		}
		cmp, ok := ifi.Cond.(*ssa.BinOp)
		if !ok || cmp.Op != token.LSS {
			continue
		}
		if call, ok := cmp.Y.(*ssa.Call); ok {
			if bi, ok := call.Call.Value.(*ssa.Builtin); ok && bi.Name() == "len" {
				if _, _, ok := t.tableSlice(call.Call.Args[0]); ok {
					return true
				}
			}
		}
	}
	return false
}

// flagStoreCovers: every execution of block slot also executes block flag in the same iteration:
// flag == slot, flag dominates slot, or slot dominates flag and flag is slot's unique successor chain.
func flagStoreCovers(flag, slot *ssa.BasicBlock) bool {
	if flag == slot || flag.Dominates(slot) {
		return true
	}
	// straight-line continuation: slot -> ... -> flag through single-successor blocks
	for b := slot; len(b.Succs) == 1; {
		b = b.Succs[0]
		if b == flag {
			return true
		}
		if len(b.Preds) != 1 {
			break
		}
	}
	return false
}

// a4PairHelper: f passes caller-owned memory to a helper g that installs it as a container's payload and
// returns (container, flag); inside g the flag is true on every return on which the payload is still the
// caller's memory, and f stores exactly that pair into a slot.
// Returns (true, reason, pos) when decided positively, (false, reason, pos) for a violation, (false, "", "") when no such helper exists.
func a4PairHelper(p *Prog, e *tlEngine, f *ssa.Function, ti *taintInfo) (bool, string, string) {
	lv := e.lv
	for _, b := range f.Blocks {
		for _, ins := range b.Instrs {
			call, ok := ins.(*ssa.Call)
			if !ok {
				continue
			}
			g := call.Call.StaticCallee()
			if g == nil || g.Blocks == nil || g.Signature.Results().Len() != 2 {
				continue
			}
			if bt, ok := g.Signature.Results().At(1).Type().Underlying().(*types.Basic); !ok || bt.Kind() != types.Bool {
				continue
			}
			// a tainted argument
			gti := &taintInfo{f: g, p: p, vals: map[ssa.Value]string{}, source: map[ssa.Value]ssa.Value{}}
			for i, a := range call.Call.Args {
				if _, tainted := ti.vals[a]; tainted && i < len(g.Params) {
					gti.vals[g.Params[i]] = "parameter " + g.Params[i].Name() + " (caller-owned memory handed down by " + fname(f) + ")"
					gti.source[g.Params[i]] = g.Params[i]
				}
			}
			if len(gti.vals) == 0 {
				continue
			}
			gti.propagate()
			pay, bad := gti.sinks(lv)
			if len(bad) > 0 {
				return false, bad[0], p.ipos(call)
			}
			if len(pay) == 0 {
				continue
			}
			gt := e.funcState(g)
			// every return: result 0 is the object that received the payload, result 1 is true unless fresh memory replaced it
			for _, gb := range g.Blocks {
				ret, ok := gb.Instrs[len(gb.Instrs)-1].(*ssa.Return)
				if !ok {
					continue
				}
				for _, ps := range pay {
					if stripAssert(ret.Results[0]) != ps.obj {
						continue
					}
					fk, fv := flagKindOf(ret.Results[1])
					switch fk {
					case "true":
					case "value":
						ph, isPhi := fv.(*ssa.Phi)
						if !isPhi {
							return false, fmt.Sprintf("%s returns the container that holds the caller's memory with a flag that is not provably true", fname(g)), p.ipos(ret)
						}
						for i, ev := range ph.Edges {
							bv, isC := constBool(ev)
							if isC && bv {
								continue
							}
							if !isC || !gt.freshPayloadStoreDominates(gti, ps, ph.Block().Preds[i]) {
								return false, fmt.Sprintf("%s can return the container that still holds the caller's memory together with a false flag", fname(g)), p.ipos(ret)
							}
						}
					default:
						return false, fmt.Sprintf("%s returns the container that holds the caller's memory with flag %q", fname(g), fk), p.ipos(ret)
					}
				}
			}
			// the caller stores the pair together: some call receives Extract#0 as the container and Extract#1 as its flag
			var cVal, fVal ssa.Value
			if call.Referrers() != nil {
				for _, r := range *call.Referrers() {
					if ex, ok := r.(*ssa.Extract); ok {
						if ex.Index == 0 {
							cVal = ex
						} else if ex.Index == 1 {
							fVal = ex
						}
					}
				}
			}
			if cVal == nil || fVal == nil {
				return false, "the flag returned by " + fname(g) + " is dropped by its caller", p.ipos(call)
			}
			t := e.funcState(f)
			paired := false
			seen := map[ssa.Value]bool{}
			var walk func(v ssa.Value)
			walk = func(v ssa.Value) {
				if seen[v] || v.Referrers() == nil {
					return
				}
				seen[v] = true
				for _, r := range *v.Referrers() {
					switch u := r.(type) {
					case *ssa.MakeInterface:
						walk(u)
					case *ssa.Call:
						callee := u.Call.StaticCallee()
						if callee == nil {
							continue
						}
						sm := e.sums[e.sumKey(callee, "")]
						if sm == nil {
							continue
						}
						for _, rq := range sm.reqs {
							if rq.valParam < len(u.Call.Args) && u.Call.Args[rq.valParam] == v && rq.flag == "param" && rq.flagParm < len(u.Call.Args) && u.Call.Args[rq.flagParm] == fVal {
								paired = true
							}
						}
					}
				}
			}
			walk(cVal)
			_ = t
			if !paired {
				return false, "the container returned by " + fname(g) + " is not stored into a slot together with the flag returned with it", p.ipos(call)
			}
			return true, fmt.Sprintf("%s installs the caller's memory and answers (container, flag) with the flag true unless the payload was replaced by fresh memory; %s stores the pair together", fname(g), fname(f)), p.ipos(call)
		}
	}
	return false, "", ""
}

// a4Carries: does g hand back, as its first result, a container object whose payload is memory obtained from
// the byte source passed as parameter idx (Next called on it in g, or in a helper g passes it on to)? Returns
// the payload cells concerned and any slot-table array that received such memory.
func a4Carries(p *Prog, lv *tlLevel, g *ssa.Function, idx int, depth int) (cells []string, bad []string) {
	if g == nil || g.Blocks == nil || idx >= len(g.Params) || depth > 3 {
		return nil, nil
	}
	src := ssa.Value(g.Params[idx])
	gti := &taintInfo{f: g, p: p, vals: map[ssa.Value]string{}, source: map[ssa.Value]ssa.Value{}}
	objs := map[ssa.Value]string{} // container objects holding source memory
	for _, b := range g.Blocks {
		for _, ins := range b.Instrs {
			c, ok := ins.(*ssa.Call)
			if !ok {
				continue
			}
			if c.Call.IsInvoke() && c.Call.Method.Name() == "Next" && c.Call.Value == src {
				gti.vals[c] = "result of ByteInput.Next"
				gti.source[c] = src
				continue
			}
			if h := c.Call.StaticCallee(); h != nil && inRepo(h) {
				for i, a := range c.Call.Args {
					if a == src {
						cs, bd := a4Carries(p, lv, h, i, depth+1)
						bad = append(bad, bd...)
						if len(cs) > 0 {
							objs[firstResult(c)] = strings.Join(cs, "+")
						}
					}
				}
			}
		}
	}
	if len(gti.vals) > 0 {
		gti.propagate()
		pay, bd := gti.sinks(lv)
		bad = append(bad, bd...)
		for _, ps := range pay {
			objs[ps.obj] = ps.cell
		}
	}
	if len(objs) == 0 {
		return nil, bad
	}
	// a composite literal copied as a whole into the variable that is handed back: *nb = *complit
	for changed := true; changed; {
		changed = false
		for o, cell := range objs {
			if o.Referrers() == nil {
				continue
			}
			for _, r := range *o.Referrers() {
				u, ok := r.(*ssa.UnOp)
				if !ok || u.Op != token.MUL || u.X != o || u.Referrers() == nil {
					continue
				}
				if _, isStruct := u.Type().Underlying().(*types.Struct); !isStruct {
					continue
				}
				for _, r2 := range *u.Referrers() {
					if st, ok := r2.(*ssa.Store); ok && st.Val == ssa.Value(u) {
						if _, have := objs[st.Addr]; !have {
							objs[st.Addr] = cell
							changed = true
						}
					}
				}
			}
		}
	}
	// which of them reach the first result?
	seenCell := map[string]bool{}
	for _, b := range g.Blocks {
		r, ok := b.Instrs[len(b.Instrs)-1].(*ssa.Return)
		if !ok || len(r.Results) == 0 {
			continue
		}
		for _, v := range sliceBack(r.Results[0], func(v ssa.Value) bool { _, ok := objs[v]; return ok }) {
			if !seenCell[objs[v]] {
				seenCell[objs[v]] = true
				cells = append(cells, objs[v])
			}
		}
		if mi, ok := r.Results[0].(*ssa.MakeInterface); ok {
			if c, ok := objs[mi.X]; ok && !seenCell[c] {
				seenCell[c] = true
				cells = append(cells, c)
			}
		}
	}
	sort.Strings(cells)
	return cells, bad
}

// firstResult: the call value itself for a single result, else the extraction of result 0 (nil when unused)
func firstResult(c *ssa.Call) ssa.Value {
	if c.Call.Signature().Results().Len() <= 1 {
		return c
	}
	if c.Referrers() != nil {
		for _, r := range *c.Referrers() {
			if ex, ok := r.(*ssa.Extract); ok && ex.Index == 0 {
				return ex
			}
		}
	}
	return nil
}

// a4BuilderHelper: calls in f that pass one of f's byte sources to a helper which hands back a container
// carrying memory of that source.
func a4BuilderHelper(p *Prog, lv *tlLevel, f *ssa.Function, ti *taintInfo) (built []payloadStore, bad []string) {
	srcs := map[ssa.Value]bool{}
	for _, s := range ti.source {
		srcs[s] = true
	}
	for _, b := range f.Blocks {
		for _, ins := range b.Instrs {
			c, ok := ins.(*ssa.Call)
			if !ok {
				continue
			}
			g := c.Call.StaticCallee()
			if g == nil || !inRepo(g) {
				continue
			}
			for i, a := range c.Call.Args {
				if !srcs[a] {
					continue
				}
				cells, bd := a4Carries(p, lv, g, i, 0)
				bad = append(bad, bd...)
				if len(cells) == 0 {
					continue
				}
				if obj := firstResult(c); obj != nil {
					built = append(built, payloadStore{obj: obj, cell: strings.Join(cells, "+"), at: c, src: a})
				}
			}
		}
	}
	return built, bad
}
