package main

import (
	"fmt"
	"go/constant"
	"go/token"
	"go/types"
	"sort"

	"golang.org/x/tools/go/ssa"
)

func init() {
	register("U6", "64-bit range bounds of the 32-bit API (AddRange, RemoveRange, Flip, ... take uint64 so that a range can end at 2^32) are narrowed to 32 bits only where a dominating comparison bounds them below 2^32 — directly, or against a value that is itself bounded on every path. A bound that is clamped after the comparison that relates the two (end := min(end, 2^32) after start < end was tested) leaves start unbounded, and its truncation turns an empty range beyond the universe into a range inside it", ruleU6)
}

const two32 = int64(1) << 32

type u6Fact struct {
	k    byte // 'B': a <= 2^32   'L': a <= b  (a < b is recorded as L too)
	a, b ssa.Value
}
type u6State map[u6Fact]bool

func u6Const(v ssa.Value) bool {
	c, ok := v.(*ssa.Const)
	if !ok || c.Value == nil || c.Value.Kind() != constant.Int {
		return false
	}
	k, exact := constant.Int64Val(c.Value)
	return exact && k >= 0 && k <= two32
}

func (st u6State) bounded(v ssa.Value) bool { return u6Const(v) || st[u6Fact{'B', v, nil}] }

func (st u6State) close() {
	for changed := true; changed; {
		changed = false
		for f := range st {
			if f.k == 'L' && st.bounded(f.b) && !st[u6Fact{'B', f.a, nil}] {
				st[u6Fact{'B', f.a, nil}] = true
				changed = true
			}
		}
	}
}

// u6Edge: the facts known on the edge pred -> succ, given the facts at the end of pred.
func u6Edge(in u6State, pred, succ *ssa.BasicBlock) u6State {
	out := u6State{}
	for f := range in {
		out[f] = true
	}
	ifi, ok := pred.Instrs[len(pred.Instrs)-1].(*ssa.If)
	if !ok || pred.Succs[0] == pred.Succs[1] {
		return out
	}
	cmp, ok := ifi.Cond.(*ssa.BinOp)
	if !ok {
		return out
	}
	op := cmp.Op
	if pred.Succs[0] != succ {
		switch op {
		case token.LSS:
			op = token.GEQ
		case token.LEQ:
			op = token.GTR
		case token.GTR:
			op = token.LEQ
		case token.GEQ:
			op = token.LSS
		default:
			return out
		}
	}
	x, y := cmp.X, cmp.Y
	switch op {
	case token.GTR, token.GEQ:
		x, y = y, x // now x <= y (or x < y)
	case token.LSS, token.LEQ:
	default:
		return out
	}
	// x-1 <= K  =>  x <= K+1   (x unsigned, x >= 1 or the subtraction wrapped to a huge value, which K excludes)
	if bo, isB := x.(*ssa.BinOp); isB && bo.Op == token.SUB && isConstInt(bo.Y, 1) {
		if c, isC := y.(*ssa.Const); isC && c.Value != nil {
			if k, exact := constant.Int64Val(c.Value); exact && k+1 <= two32 {
				out[u6Fact{'B', bo.X, nil}] = true
			}
		}
	} else if u6Const(y) {
		out[u6Fact{'B', x, nil}] = true
	} else {
		out[u6Fact{'L', x, y}] = true
	}
	out.close()
	return out
}

// u6Analyse: for every block, the facts that hold at its entry on every path.
func u6Analyse(f *ssa.Function, entry u6State) map[*ssa.BasicBlock]u6State {
	if entry == nil {
		entry = u6State{}
	}
	in := map[*ssa.BasicBlock]u6State{f.Blocks[0]: entry}
	for changed := true; changed; {
		changed = false
		for _, b := range f.Blocks {
			if b == f.Blocks[0] {
				continue
			}
			var acc u6State
			var edges []u6State
			for _, pr := range b.Preds {
				ps, seen := in[pr]
				if !seen {
					edges = append(edges, nil)
					continue // not reached yet: optimistic
				}
				es := u6Edge(ps, pr, b)
				edges = append(edges, es)
				if acc == nil {
					acc = u6State{}
					for k := range es {
						acc[k] = true
					}
				} else {
					for k := range acc {
						if !es[k] {
							delete(acc, k)
						}
					}
				}
			}
			if acc == nil {
				continue
			}
			// phis: bounded if bounded on every incoming edge
			for _, ins := range b.Instrs {
				ph, ok := ins.(*ssa.Phi)
				if !ok {
					break
				}
				all := true
				for i, e := range ph.Edges {
					if edges[i] == nil {
						continue
					}
					if !edges[i].bounded(e) {
						all = false
					}
				}
				if all {
					acc[u6Fact{'B', ph, nil}] = true
				}
			}
			acc.close()
			old, had := in[b]
			if !had || len(old) != len(acc) {
				in[b] = acc
				changed = true
			} else {
				for k := range acc {
					if !old[k] {
						in[b] = acc
						changed = true
						break
					}
				}
			}
		}
	}
	return in
}

// u6Ctx: per-function facts with entry facts taken from the call sites of unexported helpers (a
// helper that narrows its parameters relies on what every caller established before the call).
type u6Ctx struct {
	p       *Prog
	memo    map[*ssa.Function]map[*ssa.BasicBlock]u6State
	busy    map[*ssa.Function]bool
	callers map[*ssa.Function][]*ssa.Call
}

func (c *u6Ctx) factsOf(f *ssa.Function) map[*ssa.BasicBlock]u6State {
	if m, ok := c.memo[f]; ok {
		return m
	}
	entry := u6State{}
	if !isExportedAPI(f) && len(c.callers[f]) > 0 && !c.busy[f] {
		c.busy[f] = true
		for i, prm := range f.Params {
			bt, ok := prm.Type().Underlying().(*types.Basic)
			if !ok || bt.Kind() != types.Uint64 {
				continue
			}
			all := true
			for _, call := range c.callers[f] {
				h := call.Parent()
				if h == nil || h.Blocks == nil || i >= len(call.Call.Args) {
					all = false
					break
				}
				if !c.factsOf(h)[call.Block()].bounded(call.Call.Args[i]) {
					all = false
					break
				}
			}
			if all {
				entry[u6Fact{'B', prm, nil}] = true
			}
		}
		delete(c.busy, f)
	}
	m := u6Analyse(f, entry)
	if !c.busy[f] {
		c.memo[f] = m
	}
	return m
}

func ruleU6(p *Prog) *RuleResult {
	res := newResult("U6", ruleDoc["U6"], 6)
	ctx := &u6Ctx{p: p, memo: map[*ssa.Function]map[*ssa.BasicBlock]u6State{}, busy: map[*ssa.Function]bool{}, callers: map[*ssa.Function][]*ssa.Call{}}
	for _, g := range p.sourceFns() {
		if g.Blocks == nil {
			continue
		}
		for _, b := range g.Blocks {
			for _, ins := range b.Instrs {
				if call, ok := ins.(*ssa.Call); ok {
					if callee := call.Call.StaticCallee(); callee != nil {
						ctx.callers[callee] = append(ctx.callers[callee], call)
					}
				}
			}
		}
	}
	fns := append([]*ssa.Function(nil), p.sourceFns()...)
	sort.Slice(fns, func(i, j int) bool { return fname(fns[i]) < fname(fns[j]) })
	for _, f := range fns {
		if f.Blocks == nil || fnPkgPath(f) != pkgPathOf("roaring") || f.Parent() != nil {
			continue
		}
		for _, prm := range f.Params {
			bt, ok := prm.Type().Underlying().(*types.Basic)
			if !ok || bt.Kind() != types.Uint64 {
				continue
			}
			// narrowing conversions of the parameter itself, or of the parameter minus one (last = end-1)
			n := 0
			var visit func(v ssa.Value, what string, bound func(at *ssa.BasicBlock) bool)
			visit = func(v ssa.Value, what string, bound func(at *ssa.BasicBlock) bool) {
				if v.Referrers() == nil {
					return
				}
				for _, r := range *v.Referrers() {
					cv, ok := r.(*ssa.Convert)
					if !ok {
						continue
					}
					ct, ok := cv.Type().Underlying().(*types.Basic)
					if !ok || ct.Info()&types.IsInteger == 0 || (p.sizeofBasic(ct) >= 8 && ct.Kind() != types.Int && ct.Kind() != types.Uint && ct.Kind() != types.Uintptr) {
						continue
					}
					n++
					c := fmt.Sprintf("%s|%s narrowed#%d", fname(f), what, n)
					if bound(cv.Block()) {
						res.ok(c, p.ipos(cv), "bounded by a dominating comparison")
					} else {
						res.bad(c, p.ipos(cv), fmt.Sprintf("%s is cut to %s without a dominating comparison that keeps it inside the 32-bit universe on every path: a value of 2^32 or more wraps to a small one (an empty range beyond the universe becomes a range inside it)", what, cv.Type()))
					}
				}
			}
			facts := ctx.factsOf(f)
			visit(prm, prm.Name(), func(at *ssa.BasicBlock) bool {
				// start < e with e <= 2^32, or start <= MaxUint32, on every path to the conversion
				return facts[at].bounded(prm)
			})
			// end-1, with end possibly re-defined by a clamp: every value derived as phi(param, const)
			ends := []ssa.Value{prm}
			if prm.Referrers() != nil {
				for _, r := range *prm.Referrers() {
					if ph, ok := r.(*ssa.Phi); ok {
						ends = append(ends, ph)
					}
				}
			}
			for _, e := range ends {
				if e.Referrers() == nil {
					continue
				}
				for _, r := range *e.Referrers() {
					bo, ok := r.(*ssa.BinOp)
					if !ok || bo.Op != token.SUB || bo.X != e || !isConstInt(bo.Y, 1) {
						continue
					}
					ev := e
					visit(bo, prm.Name()+"-1", func(at *ssa.BasicBlock) bool {
						return facts[at].bounded(ev)
					})
				}
				if e != ssa.Value(prm) {
					ev := e
					visit(e, prm.Name()+" (clamped)", func(at *ssa.BasicBlock) bool {
						return facts[at].bounded(ev)
					})
				}
			}
		}
	}
	return res
}

func (p *Prog) sizeofBasic(b *types.Basic) int64 {
	switch b.Kind() {
	case types.Int8, types.Uint8:
		return 1
	case types.Int16, types.Uint16:
		return 2
	case types.Int32, types.Uint32:
		return 4
	case types.Int, types.Uint, types.Uintptr, types.Int64, types.Uint64:
		return 8
	}
	return 8
}
