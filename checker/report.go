package main

import (
	"encoding/json"
	"fmt"
	"os"
	"path/filepath"
	"sort"
	"strings"
)

// Obligation is one concrete construct a rule examined.
type Obligation struct {
	Rule      string `json:"rule"`
	Construct string `json:"construct"` // stable: package-qualified function + construct, no line numbers
	Pos       string `json:"pos,omitempty"`
	Status    string `json:"status"` // ok | violation | undecided
	Note      string `json:"note,omitempty"`
}

// Finding is a violated (or undecidable) obligation.
type Finding struct {
	Rule      string   `json:"rule"`
	Key       string   `json:"key"` // rule|construct — the identity used by known_findings.json
	Pos       string   `json:"pos"`
	Msg       string   `json:"msg"`
	Witness   []string `json:"witness,omitempty"`
	Undecided bool     `json:"undecided,omitempty"`
}

// RuleResult is what one rule instance reports.
type RuleResult struct {
	Rule        string
	Desc        string
	Obs         []Obligation
	Findings    []Finding
	MinExpected int // the rule must enumerate at least this many obligations (liveness)
	Assumptions []string
	Extra       map[string]any
}

func newResult(rule, desc string, min int) *RuleResult {
	return &RuleResult{Rule: rule, Desc: desc, MinExpected: min, Extra: map[string]any{}}
}

func (r *RuleResult) ok(construct, pos, note string) {
	r.Obs = append(r.Obs, Obligation{Rule: r.Rule, Construct: construct, Pos: pos, Status: "ok", Note: note})
}

func (r *RuleResult) bad(construct, pos, msg string, witness ...string) {
	r.Obs = append(r.Obs, Obligation{Rule: r.Rule, Construct: construct, Pos: pos, Status: "violation", Note: msg})
	r.Findings = append(r.Findings, Finding{Rule: r.Rule, Key: r.Rule + "|" + construct, Pos: pos, Msg: msg, Witness: witness})
}

func (r *RuleResult) undecided(construct, pos, msg string) {
	r.Obs = append(r.Obs, Obligation{Rule: r.Rule, Construct: construct, Pos: pos, Status: "undecided", Note: msg})
	r.Findings = append(r.Findings, Finding{Rule: r.Rule, Key: r.Rule + "|" + construct, Pos: pos, Msg: "UNDECIDED: " + msg, Undecided: true})
}

// ---- known findings ----

type KnownEntry struct {
	Property   string   `json:"property,omitempty"`
	Properties []string `json:"properties,omitempty"`
	Key        string   `json:"key"`
	What       string   `json:"what"`
	Demo       string   `json:"demonstration,omitempty"`
	WhyNotFix  string   `json:"why_not_fixed,omitempty"`
}

type FixedEntry struct {
	Property string `json:"property"`
	Commit   string `json:"commit"`
	What     string `json:"what"`
	Key      string `json:"key,omitempty"`
	Line     string `json:"line,omitempty"`
}

type KnownFile struct {
	Comment string       `json:"comment,omitempty"`
	Known   []KnownEntry `json:"known"`
	Fixed   []FixedEntry `json:"fixed"`
}

func verifDir() string {
	if d := os.Getenv("RB_VERIF"); d != "" {
		return d
	}
	return "/verif"
}

func loadKnown() (*KnownFile, error) {
	kf := &KnownFile{}
	b, err := os.ReadFile(filepath.Join(verifDir(), "known_findings.json"))
	if err != nil {
		if os.IsNotExist(err) {
			return kf, nil
		}
		return nil, err
	}
	if err := json.Unmarshal(b, kf); err != nil {
		return nil, fmt.Errorf("known_findings.json: %w", err)
	}
	return kf, nil
}

func (k *KnownFile) lookup(prop, key string) *KnownEntry {
	for i := range k.Known {
		e := &k.Known[i]
		if e.Key != key {
			continue
		}
		if e.Property == prop || e.Property == "" && len(e.Properties) == 0 {
			return e
		}
		for _, p := range e.Properties {
			if p == prop {
				return e
			}
		}
	}
	return nil
}

// ---- evidence ----

type Evidence struct {
	PropertyID  string         `json:"property_id"`
	Tier        string         `json:"tier"`
	Seed        int            `json:"seed"`
	Level       string         `json:"level"`
	Coverage    map[string]any `json:"coverage"`
	Assumptions []string       `json:"assumptions"`
	WallS       float64        `json:"wall_s"`
	Violations  int            `json:"violations"`
}

func writeJSON(path string, v any) error {
	b, err := json.MarshalIndent(v, "", " ")
	if err != nil {
		return err
	}
	if err := os.MkdirAll(filepath.Dir(path), 0o755); err != nil {
		return err
	}
	tmp := path + ".tmp"
	if err := os.WriteFile(tmp, append(b, '\n'), 0o644); err != nil {
		return err
	}
	return os.Rename(tmp, path)
}

func sanitize(s string) string {
	var b strings.Builder
	for _, r := range s {
		switch {
		case r >= 'a' && r <= 'z', r >= 'A' && r <= 'Z', r >= '0' && r <= '9', r == '-', r == '_', r == '.':
			b.WriteRune(r)
		default:
			b.WriteByte('_')
		}
	}
	out := b.String()
	if len(out) > 120 {
		out = out[:120]
	}
	return out
}

func sortObs(obs []Obligation) {
	sort.SliceStable(obs, func(i, j int) bool {
		if obs[i].Rule != obs[j].Rule {
			return obs[i].Rule < obs[j].Rule
		}
		return obs[i].Construct < obs[j].Construct
	})
}
