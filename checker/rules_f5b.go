package main

import (
	"fmt"
	"go/token"
	"sort"
	"strings"

	"golang.org/x/tools/go/ssa"
)

func init() {
	register("F5.neg", "getIndex answers -(insertion point)-1 when the key is absent and the position when it is present: the expression -i-1 is used as an insertion index only on the path where i < 0 was established — with keys that come from outside (a decoder filing buckets 'at their sorted position') a present key turns it into a negative slice bound", ruleF5Neg)
}

// f5NegTriaged: sites of today's tree where the search result is negative by construction, confirmed by reading.
var f5NegTriaged = map[string]string{
	"roaring.Flip":   "the answer under construction holds only keys below hb (copies before the active area, then ascending hb), so getIndex(hb) on it is always negative; two sites",
	"roaring64.Flip": "same construction as the 32-bit static Flip; two sites",
}

func ruleF5Neg(p *Prog) *RuleResult {
	res := newResult("F5.neg", ruleDoc["F5.neg"], 5)
	fns := append([]*ssa.Function(nil), p.sourceFns()...)
	sort.Slice(fns, func(i, j int) bool { return fname(fns[i]) < fname(fns[j]) })
	for _, f := range fns {
		if f.Blocks == nil {
			continue
		}
		n := 0
		for _, b := range f.Blocks {
			for _, ins := range b.Instrs {
				call, ok := ins.(*ssa.Call)
				if !ok {
					continue
				}
				g := call.Call.StaticCallee()
				if g == nil || !strings.HasPrefix(g.Name(), "insertNewKeyValueAt") || len(call.Call.Args) < 2 {
					continue
				}
				// index argument of the shape -i-1 (SSA: (0 - i) - 1  or  -i - 1) with i the result of getIndex / binarySearch
				idx := call.Call.Args[1]
				src := negMinusOne(idx)
				if src == nil {
					continue
				}
				n++
				c := fmt.Sprintf("%s|insertion at -i-1#%d", fname(f), n)
				if why, ok := f5NegTriaged[fname(f)]; ok && n <= 2 {
					res.ok(c, p.ipos(call), "triaged: "+why)
					continue
				}
				if negativeAt(src, call.Block()) {
					res.ok(c, p.ipos(call), "behind a test that the search result is negative")
				} else {
					res.bad(c, p.ipos(call), "the search result is negated for use as an insertion index without a dominating test that it is negative: for a key that is already present the index is negative and the slice expression behind it panics")
				}
			}
		}
	}
	return res
}

// negMinusOne: v == -i-1 ; returns i
func negMinusOne(v ssa.Value) ssa.Value {
	bo, ok := v.(*ssa.BinOp)
	if !ok || bo.Op != token.SUB || !isConstInt(bo.Y, 1) {
		return nil
	}
	switch x := bo.X.(type) {
	case *ssa.UnOp:
		if x.Op == token.SUB {
			return x.X
		}
	case *ssa.BinOp:
		if x.Op == token.SUB && isConstInt(x.X, 0) {
			return x.Y
		}
	}
	return nil
}

// negativeAt: every path to block at passes a branch edge on which v < 0 (v >= 0 false, v < 0 true, v <= -1 ...).
func negativeAt(v ssa.Value, at *ssa.BasicBlock) bool {
	child := at
	for d := at.Idom(); d != nil; child, d = d, d.Idom() {
		ifi, ok := d.Instrs[len(d.Instrs)-1].(*ssa.If)
		if !ok || d.Succs[0] == d.Succs[1] {
			continue
		}
		cmp, ok := ifi.Cond.(*ssa.BinOp)
		if !ok || cmp.X != v {
			continue
		}
		k, isC := constIntVal(cmp.Y)
		if !isC {
			continue
		}
		var truth, known bool
		for s := 0; s < 2; s++ {
			if (d.Succs[s] == child || d.Succs[s].Dominates(at)) && len(d.Succs[s].Preds) == 1 {
				truth, known = s == 0, true
			}
		}
		if !known {
			continue
		}
		op := cmp.Op
		if !truth {
			switch op {
			case token.LSS:
				op = token.GEQ
			case token.LEQ:
				op = token.GTR
			case token.GTR:
				op = token.LEQ
			case token.GEQ:
				op = token.LSS
			case token.EQL:
				op = token.NEQ
			case token.NEQ:
				op = token.EQL
			}
		}
		switch {
		case op == token.LSS && k <= 0, op == token.LEQ && k <= -1:
			return true
		}
	}
	return false
}
