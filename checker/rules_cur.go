package main

import (
	"fmt"
	"go/token"
	"go/types"
	"sort"

	"golang.org/x/tools/go/ssa"
)

// Two-level cursors. The iterators over a whole bitmap (intIterator, intReverseIterator, manyIntIterator,
// unsetIterator and the three roaring64 wrappers) keep a position in the chunk table, the key of the current
// chunk shifted into place (hs) and an inner iterator over that chunk; an unexported reload method (init) sets
// key and inner iterator together from the position. The type is recognised by that shape, not by name: a
// struct with a pointer-receiver method without parameters or results that stores both an interface-typed
// field and an unsigned integer field of its receiver.

func init() {
	register("CUR1", "an iterator composes a value from the key of the current chunk and what the inner chunk iterator yields only when both belong to the same chunk: between reading the key field and consulting the inner iterator (in either order) no call or store reloads the cursor (init, or anything that may call it). A key read before the reload and a low half fetched after it (or the reverse) glue the elements of one chunk under the key of its neighbour", ruleCUR1)
	register("CUR2", "an iterator whose HasNext looks only at the chunk position keeps its inner iterator non-exhausted: in every method other than the reload itself, each call that moves the inner iterator is followed, on every path to the return, by a branch on what the inner iterator reports (that call's own result, or a later call on it) one side of which reloads the cursor. Without it HasNext answers true on an exhausted chunk and the next Next/PeekNext reads past its end", ruleCUR2)
	register("CUR3", "the low half of a caller-supplied value is handed to the inner chunk iterator (or stored as the position inside a chunk gap) only under an equality test between the cursor's current key and the value's high half: in a later chunk the low half alone would skip elements that are all larger than the value", ruleCUR3)
}

type curType struct {
	nt     *types.Named
	st     *types.Struct
	reload *ssa.Function
	inner  map[int]bool // interface-typed fields written by reload
	keys   map[int]bool // unsigned integer fields written by reload
	// concrete types stored into the inner-iterator fields (nil when some store is not a plain conversion
	// of a concrete value, in which case every implementation of the interface is considered)
	concrete    []types.Type
	concreteAll bool
	// methods (by receiver) that may reload
	may map[*ssa.Function]bool
	// forwarders: methods that only pass a call on to the inner iterator and hand back its answer
	fwd map[*ssa.Function]bool
	// all functions whose first parameter is *T
	methods []*ssa.Function
}

func recvNamedStruct(f *ssa.Function) (*types.Named, *types.Struct) {
	if f.Signature.Recv() == nil || len(f.Params) == 0 {
		return nil, nil
	}
	pt, ok := f.Signature.Recv().Type().(*types.Pointer)
	if !ok {
		return nil, nil
	}
	nt, ok := pt.Elem().(*types.Named)
	if !ok {
		return nil, nil
	}
	st, ok := nt.Underlying().(*types.Struct)
	if !ok {
		return nil, nil
	}
	return nt, st
}

func (p *Prog) cursorTypes() []*curType {
	fns := append([]*ssa.Function(nil), p.sourceFns()...)
	sort.Slice(fns, func(i, j int) bool { return fname(fns[i]) < fname(fns[j]) })
	byType := map[*types.Named]*curType{}
	var order []*curType
	for _, f := range fns {
		nt, st := recvNamedStruct(f)
		if nt == nil || f.Blocks == nil || f.Signature.Params().Len() != 0 || f.Signature.Results().Len() != 0 {
			continue
		}
		inner, keys := map[int]bool{}, map[int]bool{}
		// the stores of the method and of the helpers it calls on the same receiver (init split into
		// chooseChunk + bindInner)
		seenFn := map[*ssa.Function]bool{}
		var scanStores func(g *ssa.Function, d int)
		scanStores = func(g *ssa.Function, d int) {
			if g == nil || g.Blocks == nil || seenFn[g] || d > 3 {
				return
			}
			seenFn[g] = true
			for _, b := range g.Blocks {
				for _, ins := range b.Instrs {
					switch x := ins.(type) {
					case *ssa.Store:
						fa, ok := x.Addr.(*ssa.FieldAddr)
						if !ok || fa.X != ssa.Value(g.Params[0]) {
							continue
						}
						ft := st.Field(fa.Field).Type()
						if _, isI := ft.Underlying().(*types.Interface); isI {
							inner[fa.Field] = true
						} else if bt, ok := ft.Underlying().(*types.Basic); ok && bt.Info()&types.IsUnsigned != 0 {
							keys[fa.Field] = true
						}
					case ssa.CallInstruction:
						cc := x.Common()
						if h := cc.StaticCallee(); h != nil && len(cc.Args) > 0 && cc.Args[0] == ssa.Value(g.Params[0]) && len(h.Params) > 0 {
							if nt2, _ := recvNamedStruct(h); nt2 == nt {
								scanStores(h, d+1)
							}
						}
					}
				}
			}
		}
		scanStores(f, 0)
		if len(inner) == 0 || len(keys) == 0 {
			continue
		}
		if byType[nt] != nil {
			continue // first one in name order wins; a second candidate only widens the may-reload set below
		}
		ct := &curType{nt: nt, st: st, reload: f, inner: inner, keys: keys, may: map[*ssa.Function]bool{}}
		byType[nt] = ct
		order = append(order, ct)
	}
	for _, f := range fns {
		nt, _ := recvNamedStruct(f)
		if ct := byType[nt]; ct != nil && f.Blocks != nil {
			ct.methods = append(ct.methods, f)
		}
	}
	for _, ct := range order {
		ct.concreteAll = true
		for _, f := range ct.methods {
			for _, b := range f.Blocks {
				for _, ins := range b.Instrs {
					sto, ok := ins.(*ssa.Store)
					if !ok {
						continue
					}
					fa, ok := sto.Addr.(*ssa.FieldAddr)
					if !ok || fa.X != ssa.Value(f.Params[0]) || !ct.inner[fa.Field] {
						continue
					}
					switch v := sto.Val.(type) {
					case *ssa.MakeInterface:
						ct.concrete = append(ct.concrete, v.X.Type())
					case *ssa.Const:
						// nil
					default:
						ct.concreteAll = false
					}
				}
			}
		}
		direct := func(f *ssa.Function) bool {
			for _, b := range f.Blocks {
				for _, ins := range b.Instrs {
					if ct.isKillStore(f, ins) {
						return true
					}
				}
			}
			return false
		}
		for _, f := range ct.methods {
			if direct(f) {
				ct.may[f] = true
			}
		}
		for changed := true; changed; {
			changed = false
			for _, f := range ct.methods {
				if ct.may[f] {
					continue
				}
				for _, b := range f.Blocks {
					for _, ins := range b.Instrs {
						if c, ok := ins.(ssa.CallInstruction); ok {
							cc := c.Common()
							if g := cc.StaticCallee(); g != nil && ct.may[g] && len(cc.Args) > 0 && cc.Args[0] == ssa.Value(f.Params[0]) {
								ct.may[f] = true
								changed = true
							}
						}
					}
				}
			}
		}
	}
	for _, ct := range order {
		ct.fwd = map[*ssa.Function]bool{}
		for _, f := range ct.methods {
			if ct.may[f] || f == ct.reload || f.Signature.Results().Len() != 1 {
				continue
			}
			all, n := true, 0
			for _, b := range f.Blocks {
				r, ok := b.Instrs[len(b.Instrs)-1].(*ssa.Return)
				if !ok {
					continue
				}
				n++
				c, ok := r.Results[0].(*ssa.Call)
				if !ok || !ct.onInner(f, c) {
					all = false
				}
			}
			if all && n > 0 {
				ct.fwd[f] = true
			}
		}
	}
	return order
}

// innerVal: the value of an inner-iterator field of the receiver — a load of it, a phi of such loads, or a
// type assertion of one
func (ct *curType) innerVal(f *ssa.Function, v ssa.Value, seen map[ssa.Value]bool) bool {
	if seen[v] {
		return true
	}
	seen[v] = true
	switch x := v.(type) {
	case *ssa.UnOp:
		if x.Op != token.MUL {
			return false
		}
		fa, ok := x.X.(*ssa.FieldAddr)
		return ok && fa.X == ssa.Value(f.Params[0]) && ct.inner[fa.Field]
	case *ssa.Phi:
		for _, e := range x.Edges {
			if !ct.innerVal(f, e, seen) {
				return false
			}
		}
		return len(x.Edges) > 0
	case *ssa.TypeAssert:
		return ct.innerVal(f, x.X, seen)
	case *ssa.Extract:
		if ta, ok := x.Tuple.(*ssa.TypeAssert); ok && x.Index == 0 {
			return ct.innerVal(f, ta.X, seen)
		}
	}
	return false
}

// innerLoads: the loads of the inner-iterator field behind an inner value
func (ct *curType) innerLoads(v ssa.Value, out map[ssa.Instruction]bool, seen map[ssa.Value]bool) {
	if seen[v] {
		return
	}
	seen[v] = true
	switch x := v.(type) {
	case *ssa.UnOp:
		out[x] = true
	case *ssa.Phi:
		for _, e := range x.Edges {
			ct.innerLoads(e, out, seen)
		}
	case *ssa.TypeAssert:
		ct.innerLoads(x.X, out, seen)
	case *ssa.Extract:
		if ta, ok := x.Tuple.(*ssa.TypeAssert); ok {
			ct.innerLoads(ta.X, out, seen)
		}
	}
}

// onInner: c is a call on the inner iterator: an invoke on an inner value, or a method call on a concrete
// value asserted out of one
func (ct *curType) onInner(f *ssa.Function, c *ssa.Call) bool {
	if c.Call.IsInvoke() {
		return ct.innerVal(f, c.Call.Value, map[ssa.Value]bool{})
	}
	if g := c.Call.StaticCallee(); g != nil && g.Signature.Recv() != nil && len(c.Call.Args) > 0 {
		switch c.Call.Args[0].(type) {
		case *ssa.TypeAssert, *ssa.Extract:
			return ct.innerVal(f, c.Call.Args[0], map[ssa.Value]bool{})
		}
	}
	return false
}

// innerRecv: the inner value a call is made on (for a forwarder call: nil)
func (ct *curType) innerRecv(c *ssa.Call) ssa.Value {
	if c.Call.IsInvoke() {
		return c.Call.Value
	}
	if g := c.Call.StaticCallee(); g != nil && ct.fwd[g] {
		return nil
	}
	if len(c.Call.Args) > 0 {
		return c.Call.Args[0]
	}
	return nil
}

// innerName / innerArgs: method name and arguments proper of a call on the inner iterator
func (ct *curType) innerName(c *ssa.Call) string {
	if c.Call.IsInvoke() {
		return c.Call.Method.Name()
	}
	if g := c.Call.StaticCallee(); g != nil {
		return g.Name()
	}
	return "?"
}

func (ct *curType) innerArgs(c *ssa.Call) []ssa.Value {
	if c.Call.IsInvoke() {
		return c.Call.Args
	}
	if len(c.Call.Args) > 0 {
		return c.Call.Args[1:]
	}
	return nil
}

// isKillStore: ins stores a key field, an inner-iterator field or the whole receiver struct
func (ct *curType) isKillStore(f *ssa.Function, ins ssa.Instruction) bool {
	sto, ok := ins.(*ssa.Store)
	if !ok {
		return false
	}
	if sto.Addr == ssa.Value(f.Params[0]) {
		return true
	}
	fa, ok := sto.Addr.(*ssa.FieldAddr)
	return ok && fa.X == ssa.Value(f.Params[0]) && (ct.inner[fa.Field] || ct.keys[fa.Field])
}

// isKill: ins reloads the cursor (directly, or by calling a method on the same receiver that may)
func (ct *curType) isKill(f *ssa.Function, ins ssa.Instruction) bool {
	if ct.isKillStore(f, ins) {
		return true
	}
	if c, ok := ins.(ssa.CallInstruction); ok {
		cc := c.Common()
		if g := cc.StaticCallee(); g != nil && ct.may[g] && len(cc.Args) > 0 && cc.Args[0] == ssa.Value(f.Params[0]) {
			return true
		}
	}
	return false
}

func (ct *curType) keyLoad(f *ssa.Function, v ssa.Value) bool {
	u, ok := v.(*ssa.UnOp)
	if !ok || u.Op != token.MUL {
		return false
	}
	fa, ok := u.X.(*ssa.FieldAddr)
	return ok && fa.X == ssa.Value(f.Params[0]) && ct.keys[fa.Field]
}

func (ct *curType) fieldLoad(f *ssa.Function, v ssa.Value) bool {
	u, ok := v.(*ssa.UnOp)
	if !ok || u.Op != token.MUL {
		return false
	}
	fa, ok := u.X.(*ssa.FieldAddr)
	return ok && fa.X == ssa.Value(f.Params[0])
}

// innerCall: a call on the inner iterator — an invoke on an inner value, a method call on a concrete value
// asserted out of one, or a call of a forwarder method on the same receiver
func (ct *curType) innerCall(f *ssa.Function, ins ssa.Instruction) (*ssa.Call, bool) {
	c, ok := ins.(*ssa.Call)
	if !ok {
		return nil, false
	}
	if ct.onInner(f, c) {
		return c, true
	}
	if g := c.Call.StaticCallee(); g != nil && ct.fwd[g] && len(c.Call.Args) > 0 && c.Call.Args[0] == ssa.Value(f.Params[0]) {
		return c, true
	}
	return nil, false
}

// sliceBack collects, in the backward slice of v through arithmetic, conversions, phis and calls of small pure
// helpers, the values for which pick answers true.
func sliceBack(v ssa.Value, pick func(ssa.Value) bool) []ssa.Value {
	var out []ssa.Value
	seen := map[ssa.Value]bool{}
	var walk func(v ssa.Value, d int)
	walk = func(v ssa.Value, d int) {
		if v == nil || seen[v] || d > 12 {
			return
		}
		seen[v] = true
		if pick(v) {
			out = append(out, v)
			return
		}
		switch x := v.(type) {
		case *ssa.BinOp:
			walk(x.X, d+1)
			walk(x.Y, d+1)
		case *ssa.UnOp:
			if x.Op != token.MUL {
				walk(x.X, d+1)
			}
		case *ssa.Convert:
			walk(x.X, d+1)
		case *ssa.ChangeType:
			walk(x.X, d+1)
		case *ssa.Phi:
			for _, e := range x.Edges {
				walk(e, d+1)
			}
		case *ssa.Extract:
			walk(x.Tuple, d+1)
		case *ssa.Call:
			if !x.Call.IsInvoke() && x.Call.StaticCallee() != nil {
				for _, a := range x.Call.Args {
					walk(a, d+1)
				}
			}
		}
	}
	walk(v, 0)
	return out
}

type ipt struct {
	b *ssa.BasicBlock
	i int
}

func locate(ins ssa.Instruction) ipt {
	b := ins.Block()
	for i, x := range b.Instrs {
		if x == ins {
			return ipt{b, i}
		}
	}
	return ipt{b, -1}
}

// reachAvoid: is `to` reachable from the point just after `from` along a path that executes none of avoid?
func reachAvoid(from, to ssa.Instruction, avoid map[ssa.Instruction]bool) bool {
	start := locate(from)
	seen := map[*ssa.BasicBlock]bool{}
	var scan func(b *ssa.BasicBlock, i int) bool
	scan = func(b *ssa.BasicBlock, i int) bool {
		for ; i < len(b.Instrs); i++ {
			x := b.Instrs[i]
			if x == to {
				return true
			}
			if avoid[x] {
				return false
			}
		}
		for _, s := range b.Succs {
			if !seen[s] {
				seen[s] = true
				if scan(s, 0) {
					return true
				}
			}
		}
		return false
	}
	return scan(start.b, start.i+1)
}

func ruleCUR1(p *Prog) *RuleResult {
	res := newResult("CUR1", ruleDoc["CUR1"], 8)
	for _, ct := range p.cursorTypes() {
		for _, f := range ct.methods {
			var kills []ssa.Instruction
			for _, b := range f.Blocks {
				for _, ins := range b.Instrs {
					if ct.isKill(f, ins) {
						kills = append(kills, ins)
					}
				}
			}
			type pair struct{ h, l, use ssa.Instruction }
			var pairs []pair
			seenPair := map[[2]ssa.Instruction]bool{}
			addPair := func(h, l, use ssa.Instruction) {
				k := [2]ssa.Instruction{h, l}
				if !seenPair[k] {
					seenPair[k] = true
					pairs = append(pairs, pair{h, l, use})
				}
			}
			isKey := func(v ssa.Value) bool { return ct.keyLoad(f, v) }
			isInner := func(v ssa.Value) bool {
				ins, ok := v.(ssa.Instruction)
				if !ok {
					return false
				}
				_, ok = ct.innerCall(f, ins)
				return ok
			}
			for _, b := range f.Blocks {
				for _, ins := range b.Instrs {
					if c, ok := ct.innerCall(f, ins); ok {
						for _, a := range ct.innerArgs(c) {
							for _, h := range sliceBack(a, isKey) {
								addPair(h.(ssa.Instruction), c, c)
							}
						}
						continue
					}
					bo, ok := ins.(*ssa.BinOp)
					if !ok || (bo.Op != token.OR && bo.Op != token.ADD && bo.Op != token.XOR) {
						continue
					}
					hs := append(sliceBack(bo.X, isKey), sliceBack(bo.Y, isKey)...)
					ls := append(sliceBack(bo.X, isInner), sliceBack(bo.Y, isInner)...)
					for _, h := range hs {
						for _, l := range ls {
							addPair(h.(ssa.Instruction), l.(ssa.Instruction), bo)
						}
					}
				}
			}
			for n, pr := range pairs {
				fa := pr.h.(*ssa.UnOp).X.(*ssa.FieldAddr)
				c := fmt.Sprintf("%s|%s with inner %s#%d", fname(f), ct.st.Field(fa.Field).Name(), ct.innerName(pr.l.(*ssa.Call)), n+1)
				var bad ssa.Instruction
				for _, k := range kills {
					if k == pr.h || k == pr.l {
						continue
					}
					for _, o := range [][2]ssa.Instruction{{pr.h, pr.l}, {pr.l, pr.h}} {
						a, b := o[0], o[1]
						if a == pr.use {
							continue // the use itself cannot come first
						}
						av := map[ssa.Instruction]bool{a: true}
						if reachAvoid(a, k, av) && reachAvoid(k, b, av) && (b == pr.use || reachAvoid(b, pr.use, av)) {
							bad = k
						}
					}
				}
				// the inner iterator itself must be the current one: no reload between reading the field and calling it
				if bad == nil {
					if rv := ct.innerRecv(pr.l.(*ssa.Call)); rv != nil {
						loads := map[ssa.Instruction]bool{}
						ct.innerLoads(rv, loads, map[ssa.Value]bool{})
						for ld := range loads {
							for _, k := range kills {
								// a later load of the field supersedes this one: the value called is the newest
								if reachAvoid(ld, k, loads) && reachAvoid(k, pr.l, loads) {
									bad = k
								}
							}
						}
					}
				}
				if bad != nil {
					res.bad(c, p.ipos(pr.use), fmt.Sprintf("the key field read at %s and the inner-iterator call at %s are combined although the cursor may be reloaded in between at %s", p.ipos(pr.h), p.ipos(pr.l), p.ipos(bad)))
				} else {
					res.ok(c, p.ipos(pr.use), fmt.Sprintf("no reload between the two reads (%d reload points in the function)", len(kills)))
				}
			}
		}
	}
	return res
}

// mutatingIfaceMethod: does some implementation (in the repository) of the interface method store through its
// receiver, directly or through a method called on the same receiver?
func (p *Prog) mutatingIfaceMethod(it *types.Interface, m *types.Func, only []types.Type) (bool, int) {
	writes := map[*ssa.Function]int{} // 0 unknown, 1 no, 2 yes
	var w func(f *ssa.Function, d int) bool
	w = func(f *ssa.Function, d int) bool {
		if f == nil || f.Blocks == nil || len(f.Params) == 0 || d > 4 {
			return false
		}
		if s := writes[f]; s != 0 {
			return s == 2
		}
		writes[f] = 1
		recv := ssa.Value(f.Params[0])
		for _, b := range f.Blocks {
			for _, ins := range b.Instrs {
				switch x := ins.(type) {
				case *ssa.Store:
					if fa, ok := x.Addr.(*ssa.FieldAddr); ok && fa.X == recv {
						writes[f] = 2
						return true
					}
					if x.Addr == recv {
						writes[f] = 2
						return true
					}
				case ssa.CallInstruction:
					cc := x.Common()
					if g := cc.StaticCallee(); g != nil && len(cc.Args) > 0 && cc.Args[0] == recv && w(g, d+1) {
						writes[f] = 2
						return true
					}
				}
			}
		}
		return false
	}
	n := 0
	any := false
	if only != nil {
		for _, t := range only {
			sel := p.SSA.MethodSets.MethodSet(t).Lookup(m.Pkg(), m.Name())
			if sel == nil {
				continue
			}
			n++
			if w(p.SSA.MethodValue(sel), 0) {
				any = true
			}
		}
		return any, n
	}
	for _, pk := range p.Pkgs {
		sc := pk.Types.Scope()
		for _, name := range sc.Names() {
			tn, ok := sc.Lookup(name).(*types.TypeName)
			if !ok || tn.IsAlias() {
				continue
			}
			if _, isI := tn.Type().Underlying().(*types.Interface); isI {
				continue
			}
			for _, t := range []types.Type{types.NewPointer(tn.Type()), tn.Type()} {
				if !types.Implements(t, it) {
					continue
				}
				sel := p.SSA.MethodSets.MethodSet(t).Lookup(m.Pkg(), m.Name())
				if sel == nil {
					continue
				}
				f := p.SSA.MethodValue(sel)
				n++
				if w(f, 0) {
					any = true
				}
				break
			}
		}
	}
	return any, n
}

func ruleCUR2(p *Prog) *RuleResult {
	res := newResult("CUR2", ruleDoc["CUR2"], 7)
	for _, ct := range p.cursorTypes() {
		// eager types only: no bool-returning parameterless method of the type consults the inner iterator
		lazy := ""
		for _, f := range ct.methods {
			if f.Signature.Params().Len() != 0 || f.Signature.Results().Len() != 1 || !types.Identical(f.Signature.Results().At(0).Type(), types.Typ[types.Bool]) {
				continue
			}
			for _, b := range f.Blocks {
				for _, ins := range b.Instrs {
					if _, ok := ct.innerCall(f, ins); ok {
						lazy = fname(f)
					}
				}
			}
		}
		if lazy != "" {
			res.ok(tname(ct.nt)+"|exhaustion test consults the inner iterator", p.pos(ct.reload.Pos()), lazy+" skips exhausted chunks itself; nothing to keep normalised")
			continue
		}
		for _, f := range ct.methods {
			if f == ct.reload || ct.fwd[f] {
				continue
			}
			n := 0
			for _, b := range f.Blocks {
				for _, ins := range b.Instrs {
					c, ok := ct.innerCall(f, ins)
					if !ok {
						continue
					}
					mut, impls := ct.movesInner(p, f, c, 0)
					if !mut {
						continue
					}
					n++
					cn := fmt.Sprintf("%s|after inner %s#%d", fname(f), ct.innerName(c), n)
					if impls == 0 {
						res.undecided(cn, p.ipos(c), "no implementation of the inner interface found")
						continue
					}
					// the tests that normalise: an If whose condition derives from c or from an inner call, with a
					// successor from which a reload is reachable before the function returns
					norm := map[ssa.Instruction]bool{}
					for _, b2 := range f.Blocks {
						iff, ok := b2.Instrs[len(b2.Instrs)-1].(*ssa.If)
						if !ok {
							continue
						}
						src := sliceBack(iff.Cond, func(v ssa.Value) bool {
							i2, ok := v.(ssa.Instruction)
							if !ok {
								return false
							}
							_, ok = ct.innerCall(f, i2)
							return ok
						})
						if len(src) == 0 {
							continue
						}
						leads := false
						for _, s := range b2.Succs {
							for _, in2 := range s.Instrs {
								if ct.isKill(f, in2) {
									leads = true
								}
							}
						}
						if leads {
							norm[iff] = true
						}
					}
					for _, b2 := range f.Blocks {
						for _, in2 := range b2.Instrs {
							if ct.isKill(f, in2) && in2 != ssa.Instruction(c) {
								norm[in2] = true
							}
						}
					}
					// is a return reachable from c without passing a normalising point?
					escaped := false
					var where ssa.Instruction
					for _, b2 := range f.Blocks {
						if r, ok := b2.Instrs[len(b2.Instrs)-1].(*ssa.Return); ok {
							if reachAvoid(c, r, norm) {
								escaped = true
								where = r
							}
						}
					}
					if escaped {
						res.bad(cn, p.ipos(c), fmt.Sprintf("the inner iterator is moved here and the function can return at %s without testing whether the chunk is exhausted and reloading the cursor", p.ipos(where)))
					} else {
						res.ok(cn, p.ipos(c), fmt.Sprintf("every path to a return tests the inner iterator and may reload (%d implementations of the inner method examined)", impls))
					}
				}
			}
		}
	}
	return res
}

func ruleCUR3(p *Prog) *RuleResult {
	res := newResult("CUR3", ruleDoc["CUR3"], 3)
	for _, ct := range p.cursorTypes() {
		for _, f := range ct.methods {
			if len(f.Params) < 2 {
				continue
			}
			wide := map[ssa.Value]bool{}
			for _, prm := range f.Params[1:] {
				if bt, ok := prm.Type().Underlying().(*types.Basic); ok && bt.Info()&types.IsInteger != 0 && p.sizeofBasic(bt) >= 4 {
					wide[prm] = true
				}
			}
			if len(wide) == 0 {
				continue
			}
			fromParam := func(v ssa.Value) []ssa.Value {
				return sliceBack(v, func(x ssa.Value) bool { return wide[x] })
			}
			// a narrowing of a wide parameter: conversion or helper call whose result type is narrower
			narrowed := func(v ssa.Value) bool {
				bt, ok := v.Type().Underlying().(*types.Basic)
				if !ok || bt.Info()&types.IsInteger == 0 {
					return false
				}
				for _, prm := range fromParam(v) {
					if p.sizeofBasic(bt) < p.sizeofBasic(prm.Type().Underlying().(*types.Basic)) {
						return true
					}
				}
				return false
			}
			guarded := func(at ssa.Instruction) (bool, string) {
				blk := at.Block()
				for _, b := range f.Blocks {
					iff, ok := b.Instrs[len(b.Instrs)-1].(*ssa.If)
					if !ok {
						continue
					}
					bo, ok := iff.Cond.(*ssa.BinOp)
					if !ok || bo.Op != token.EQL {
						continue
					}
					t := b.Succs[0]
					if len(t.Preds) != 1 || !t.Dominates(blk) {
						continue
					}
					px, py := len(fromParam(bo.X)) > 0, len(fromParam(bo.Y)) > 0
					fl := func(v ssa.Value) bool {
						return len(sliceBack(v, func(x ssa.Value) bool { return ct.fieldLoad(f, x) })) > 0
					}
					if (px && fl(bo.Y)) || (py && fl(bo.X)) {
						return true, p.ipos(iff)
					}
				}
				return false, ""
			}
			n := 0
			for _, b := range f.Blocks {
				for _, ins := range b.Instrs {
					var what string
					if c, ok := ct.innerCall(f, ins); ok {
						for _, a := range ct.innerArgs(c) {
							if narrowed(a) {
								what = "inner " + ct.innerName(c)
							}
						}
					} else if sto, ok := ins.(*ssa.Store); ok {
						if fa, ok := sto.Addr.(*ssa.FieldAddr); ok && fa.X == ssa.Value(f.Params[0]) && narrowed(sto.Val) {
							what = "store to " + ct.st.Field(fa.Field).Name()
						}
					}
					if what == "" {
						continue
					}
					n++
					cn := fmt.Sprintf("%s|%s of the low half#%d", fname(f), what, n)
					if ok, at := guarded(ins); ok {
						res.ok(cn, p.ipos(ins), "under the key equality tested at "+at)
					} else {
						res.bad(cn, p.ipos(ins), "the low half of the argument reaches the chunk-level cursor without a dominating test that the cursor's key equals the argument's high half")
					}
				}
			}
		}
	}
	return res
}

func init() {
	register("CUR4", "where the reload of a cursor can leave the inner iterator nil without renewing the chunk key (past the last chunk, or inside a gap between chunks), the key field describes a chunk only while the inner iterator is non-nil: every read of it outside the reload is dominated by a nil test of the inner iterator or by a call on it, with no reload in between. Read in the nil state it still holds the key of the last chunk visited", ruleCUR4)
}

// pathFrom: can `to` (nil: any return) be reached from position (b,i) without executing an instruction in avoid?
func pathFrom(b *ssa.BasicBlock, i int, to ssa.Instruction, avoid map[ssa.Instruction]bool) bool {
	seen := map[*ssa.BasicBlock]bool{}
	var scan func(b *ssa.BasicBlock, i int) bool
	scan = func(b *ssa.BasicBlock, i int) bool {
		for ; i < len(b.Instrs); i++ {
			x := b.Instrs[i]
			if x == to {
				return true
			}
			if _, isRet := x.(*ssa.Return); isRet && to == nil {
				return true
			}
			if avoid[x] {
				return false
			}
		}
		for _, s := range b.Succs {
			if !seen[s] {
				seen[s] = true
				if scan(s, 0) {
					return true
				}
			}
		}
		return false
	}
	return scan(b, i)
}

func ruleCUR4(p *Prog) *RuleResult {
	res := newResult("CUR4", ruleDoc["CUR4"], 5)
	for _, ct := range p.cursorTypes() {
		f := ct.reload
		recv := ssa.Value(f.Params[0])
		var nilStores []ssa.Instruction
		keyStores := map[int]map[ssa.Instruction]bool{}
		for _, b := range f.Blocks {
			for _, ins := range b.Instrs {
				sto, ok := ins.(*ssa.Store)
				if !ok {
					continue
				}
				fa, ok := sto.Addr.(*ssa.FieldAddr)
				if !ok || fa.X != recv {
					continue
				}
				if ct.inner[fa.Field] {
					if c, ok := sto.Val.(*ssa.Const); ok && c.IsNil() {
						nilStores = append(nilStores, ins)
					}
				} else if ct.keys[fa.Field] {
					if keyStores[fa.Field] == nil {
						keyStores[fa.Field] = map[ssa.Instruction]bool{}
					}
					keyStores[fa.Field][ins] = true
				}
			}
		}
		// a helper called on the same receiver that may renew a key counts as a store of it
		for _, b := range f.Blocks {
			for _, ins := range b.Instrs {
				ci, ok := ins.(ssa.CallInstruction)
				if !ok {
					continue
				}
				cc := ci.Common()
				h := cc.StaticCallee()
				if h == nil || len(cc.Args) == 0 || cc.Args[0] != recv {
					continue
				}
				for k := range ct.keys {
					if storesField(h, k, 0) {
						if keyStores[k] == nil {
							keyStores[k] = map[ssa.Instruction]bool{}
						}
						keyStores[k][ins] = true
					}
				}
			}
		}
		var fields []int
		for k := range keyStores {
			fields = append(fields, k)
		}
		sort.Ints(fields)
		for _, k := range fields {
			name := ct.st.Field(k).Name()
			stale := false // a nil leg that does not renew the key
			for _, ns := range nilStores {
				loc := locate(ns)
				if pathFrom(f.Blocks[0], 0, ns, keyStores[k]) && pathFrom(loc.b, loc.i+1, nil, keyStores[k]) {
					stale = true
				}
			}
			inNilLeg := false // the key is (also) written in a nil leg: it means something there
			for ks := range keyStores[k] {
				loc := locate(ks)
				for _, ns := range nilStores {
					if pathFrom(loc.b, loc.i+1, ns, nil) {
						inNilLeg = true
					}
				}
			}
			if !stale || inNilLeg {
				why := "every reload that leaves the inner iterator nil also renews it, or there is no nil leg"
				if inNilLeg {
					why = "the field is written in the nil leg as well: it carries the position inside a gap"
				}
				res.ok(fmt.Sprintf("%s|%s is not chunk-only state", tname(ct.nt), name), p.pos(f.Pos()), why)
				continue
			}
			for _, g := range ct.methods {
				if g == f {
					continue
				}
				n := 0
				for _, b := range g.Blocks {
					for _, ins := range b.Instrs {
						u, ok := ins.(*ssa.UnOp)
						if !ok || u.Op != token.MUL {
							continue
						}
						fa, ok := u.X.(*ssa.FieldAddr)
						if !ok || fa.X != ssa.Value(g.Params[0]) || fa.Field != k {
							continue
						}
						n++
						cn := fmt.Sprintf("%s|read of %s#%d", fname(g), name, n)
						witness := ""
						isInnerLoad := func(v ssa.Value) bool {
							return ct.innerVal(g, v, map[ssa.Value]bool{})
						}
						noKillBetween := func(w ssa.Instruction) bool {
							for _, b2 := range g.Blocks {
								for _, k2 := range b2.Instrs {
									if ct.isKill(g, k2) && k2 != w && reachAvoid(w, k2, map[ssa.Instruction]bool{ins: true}) && reachAvoid(k2, ins, map[ssa.Instruction]bool{w: true}) {
										return false
									}
								}
							}
							return true
						}
						for _, b2 := range g.Blocks {
							// (a) nil test
							if iff, ok := b2.Instrs[len(b2.Instrs)-1].(*ssa.If); ok {
								if bo, ok := iff.Cond.(*ssa.BinOp); ok && (bo.Op == token.EQL || bo.Op == token.NEQ) {
									cx, xc := bo.X.(*ssa.Const)
									cy, yc := bo.Y.(*ssa.Const)
									if (yc && cy.IsNil() && isInnerLoad(bo.X)) || (xc && cx.IsNil() && isInnerLoad(bo.Y)) {
										t := b2.Succs[0]
										if bo.Op == token.EQL {
											t = b2.Succs[1]
										}
										if len(t.Preds) == 1 && t.Dominates(b) && noKillBetween(iff) {
											witness = "nil test at " + p.ipos(iff)
										}
									}
								}
							}
							// (b) a call on the inner iterator that dominates the read
							for j, in2 := range b2.Instrs {
								if c, ok := ct.innerCall(g, in2); ok {
									dom := (b2 == b && j < locate(ins).i) || (b2 != b && b2.Dominates(b))
									if dom && noKillBetween(c) {
										witness = "call on the inner iterator at " + p.ipos(c)
									}
								}
							}
						}
						// (c) the same block goes on to call the inner iterator, with no reload in between: the key and
						// the inner iterator were read together (inner, hs := ii.iter, ii.hs; low := inner.next())
						if witness == "" {
							past := false
							for _, in2 := range b.Instrs {
								if in2 == ins {
									past = true
									continue
								}
								if !past {
									continue
								}
								if ct.isKill(g, in2) {
									break
								}
								if c, ok := ct.innerCall(g, in2); ok {
									witness = "call on the inner iterator at " + p.ipos(c) + " in the same block"
									break
								}
							}
						}
						if witness != "" {
							res.ok(cn, p.ipos(ins), witness)
						} else {
							res.bad(cn, p.ipos(ins), fmt.Sprintf("%s is read where the inner iterator may be nil: %s leaves it unchanged on the legs that set the inner iterator to nil, so here it can still hold the key of the last chunk visited", name, fname(f)))
						}
					}
				}
			}
		}
	}
	return res
}

func init() {
	register("CUR5", "a batch iterator reads a zero answer of its inner iterator as 'this chunk is exhausted' and moves on; the answer is zero as well when the buffer handed in has no room. So the inner batch call whose result decides the reload is made only behind a test that the caller's buffer still has room (position < len(buffer)); without it a call with an empty or just-filled buffer silently skips a whole chunk", ruleCUR5)
}

func ruleCUR5(p *Prog) *RuleResult {
	res := newResult("CUR5", ruleDoc["CUR5"], 3)
	for _, ct := range p.cursorTypes() {
		for _, f := range ct.methods {
			if f == ct.reload {
				continue
			}
			n := 0
			for _, b := range f.Blocks {
				for _, ins := range b.Instrs {
					c, ok := ct.innerCall(f, ins)
					if !ok {
						continue
					}
					bt, isB := c.Type().Underlying().(*types.Basic)
					if !isB || bt.Info()&types.IsInteger == 0 {
						continue
					}
					// a slice argument cut from a slice parameter
					var buf *ssa.Parameter
					for _, a := range ct.innerArgs(c) {
						if sl, ok := a.(*ssa.Slice); ok {
							if prm, ok := sl.X.(*ssa.Parameter); ok {
								buf = prm
							}
						} else if prm, ok := a.(*ssa.Parameter); ok {
							if _, isS := prm.Type().Underlying().(*types.Slice); isS {
								buf = prm
							}
						}
					}
					if buf == nil || c.Referrers() == nil {
						continue
					}
					// is a zero result read as exhaustion? (== 0 / != 0 deciding a branch one side of which reloads)
					reads := false
					for _, r := range *c.Referrers() {
						bo, ok := r.(*ssa.BinOp)
						if !ok || (bo.Op != token.EQL && bo.Op != token.NEQ) {
							continue
						}
						if z, isC := constIntVal(bo.Y); !isC || z != 0 {
							continue
						}
						if bo.Referrers() == nil {
							continue
						}
						for _, r2 := range *bo.Referrers() {
							iff, ok := r2.(*ssa.If)
							if !ok {
								continue
							}
							for _, s := range iff.Block().Succs {
								for _, in2 := range s.Instrs {
									if ct.isKill(f, in2) {
										reads = true
									}
								}
							}
						}
					}
					if !reads {
						continue
					}
					n++
					cn := fmt.Sprintf("%s|zero answer of inner %s#%d", fname(f), ct.innerName(c), n)
					isLenBuf := func(v ssa.Value) bool {
						cl, ok := v.(*ssa.Call)
						if !ok {
							return false
						}
						bi, ok := cl.Call.Value.(*ssa.Builtin)
						return ok && bi.Name() == "len" && len(cl.Call.Args) == 1 && cl.Call.Args[0] == ssa.Value(buf)
					}
					room := ""
					for _, b2 := range f.Blocks {
						iff, ok := b2.Instrs[len(b2.Instrs)-1].(*ssa.If)
						if !ok {
							continue
						}
						bo, ok := iff.Cond.(*ssa.BinOp)
						if !ok {
							continue
						}
						var t *ssa.BasicBlock
						// len(buf[n:]) compared with zero
						isLenRest := func(v ssa.Value) bool {
							cl, ok := v.(*ssa.Call)
							if !ok {
								return false
							}
							bi, ok := cl.Call.Value.(*ssa.Builtin)
							if !ok || bi.Name() != "len" || len(cl.Call.Args) != 1 {
								return false
							}
							sl, ok := cl.Call.Args[0].(*ssa.Slice)
							return ok && sl.X == ssa.Value(buf)
						}
						isZero := func(v ssa.Value) bool { z, ok := constIntVal(v); return ok && z == 0 }
						switch {
						case (bo.Op == token.GTR || bo.Op == token.NEQ) && isLenRest(bo.X) && isZero(bo.Y), bo.Op == token.LSS && isZero(bo.X) && isLenRest(bo.Y):
							t = b2.Succs[0]
						case (bo.Op == token.EQL || bo.Op == token.LEQ) && isLenRest(bo.X) && isZero(bo.Y):
							t = b2.Succs[1]
						case bo.Op == token.LSS && isLenBuf(bo.Y), bo.Op == token.GTR && isLenBuf(bo.X), bo.Op == token.NEQ && (isLenBuf(bo.X) || isLenBuf(bo.Y)):
							t = b2.Succs[0]
						case bo.Op == token.GEQ && isLenBuf(bo.Y), bo.Op == token.LEQ && isLenBuf(bo.X), bo.Op == token.EQL && (isLenBuf(bo.X) || isLenBuf(bo.Y)):
							t = b2.Succs[1]
						}
						if t != nil && len(t.Preds) == 1 && (t == c.Block() || t.Dominates(c.Block())) {
							room = p.ipos(iff)
						}
					}
					if room != "" {
						res.ok(cn, p.ipos(c), "called only while the buffer has room (tested at "+room+")")
					} else {
						res.bad(cn, p.ipos(c), fmt.Sprintf("a zero answer moves the cursor to the next chunk, but the call is not behind a test that %s still has room: with a full or empty buffer the chunk is skipped unread", buf.Name()))
					}
				}
			}
		}
	}
	return res
}

// movesInner: does the call on the inner iterator move it — by the effect of the implementations that can be
// behind the field (the concrete types stored into it), of the concrete method for an asserted value, or of
// the calls a forwarder passes on?
func (ct *curType) movesInner(p *Prog, f *ssa.Function, c *ssa.Call, depth int) (bool, int) {
	if depth > 2 {
		return true, 1
	}
	if c.Call.IsInvoke() {
		it, _ := c.Call.Value.Type().Underlying().(*types.Interface)
		if it == nil {
			return true, 0
		}
		var only []types.Type
		if ct.concreteAll && len(ct.concrete) > 0 {
			only = ct.concrete
		}
		return p.mutatingIfaceMethod(it, c.Call.Method, only)
	}
	g := c.Call.StaticCallee()
	if g == nil {
		return true, 0
	}
	if ct.fwd[g] {
		any, n := false, 0
		for _, b := range g.Blocks {
			for _, ins := range b.Instrs {
				if c2, ok := ins.(*ssa.Call); ok && ct.onInner(g, c2) {
					m, k := ct.movesInner(p, g, c2, depth+1)
					n += k
					if m {
						any = true
					}
				}
			}
		}
		return any, n
	}
	// a method of a concrete inner iterator
	return writesOwnReceiver(g, 0), 1
}

func writesOwnReceiver(f *ssa.Function, d int) bool {
	if f == nil || f.Blocks == nil || len(f.Params) == 0 || d > 4 {
		return false
	}
	recv := ssa.Value(f.Params[0])
	for _, b := range f.Blocks {
		for _, ins := range b.Instrs {
			switch x := ins.(type) {
			case *ssa.Store:
				if fa, ok := x.Addr.(*ssa.FieldAddr); ok && fa.X == recv {
					return true
				}
				if x.Addr == recv {
					return true
				}
			case ssa.CallInstruction:
				cc := x.Common()
				if g := cc.StaticCallee(); g != nil && len(cc.Args) > 0 && cc.Args[0] == recv && writesOwnReceiver(g, d+1) {
					return true
				}
			}
		}
	}
	return false
}

// storesField: f (or a helper it calls on the same receiver) stores field k of its receiver
func storesField(f *ssa.Function, k int, d int) bool {
	if f == nil || f.Blocks == nil || len(f.Params) == 0 || d > 3 {
		return false
	}
	recv := ssa.Value(f.Params[0])
	for _, b := range f.Blocks {
		for _, ins := range b.Instrs {
			switch x := ins.(type) {
			case *ssa.Store:
				if fa, ok := x.Addr.(*ssa.FieldAddr); ok && fa.X == recv && fa.Field == k {
					return true
				}
			case ssa.CallInstruction:
				cc := x.Common()
				if g := cc.StaticCallee(); g != nil && len(cc.Args) > 0 && cc.Args[0] == recv && storesField(g, k, d+1) {
					return true
				}
			}
		}
	}
	return false
}

func init() {
	register("CUR6", "a cursor method that steps the chunk position (pos++, pos--) and then reads the key field again — in the condition of the loop that does the stepping, or later — reloads the cursor in between: the key field is only refreshed by the reload, so a loop that steps without reloading compares the key of the chunk it started from for ever and runs off the end of the table", ruleCUR6)
}

func ruleCUR6(p *Prog) *RuleResult {
	res := newResult("CUR6", ruleDoc["CUR6"], 4)
	for _, ct := range p.cursorTypes() {
		for _, f := range ct.methods {
			if f == ct.reload {
				continue
			}
			recv := ssa.Value(f.Params[0])
			var steps, keyLoads []ssa.Instruction
			kills := map[ssa.Instruction]bool{}
			for _, b := range f.Blocks {
				for _, ins := range b.Instrs {
					if ct.isKill(f, ins) {
						kills[ins] = true
					}
					switch x := ins.(type) {
					case *ssa.Store:
						fa, ok := x.Addr.(*ssa.FieldAddr)
						if !ok || fa.X != recv || ct.keys[fa.Field] || ct.inner[fa.Field] {
							continue
						}
						bo, ok := x.Val.(*ssa.BinOp)
						if !ok || (bo.Op != token.ADD && bo.Op != token.SUB) {
							continue
						}
						if ld, ok := bo.X.(*ssa.UnOp); ok && ld.Op == token.MUL {
							if fa2, ok := ld.X.(*ssa.FieldAddr); ok && fa2.X == recv && fa2.Field == fa.Field {
								if _, isC := constIntVal(bo.Y); isC {
									steps = append(steps, x)
								}
							}
						}
					case *ssa.UnOp:
						if ct.keyLoad(f, x) {
							keyLoads = append(keyLoads, x)
						}
					}
				}
			}
			for i, st := range steps {
				cn := fmt.Sprintf("%s|position stepped#%d", fname(f), i+1)
				var bad ssa.Instruction
				for _, kl := range keyLoads {
					if reachAvoid(st, kl, kills) {
						bad = kl
					}
				}
				if bad != nil {
					res.bad(cn, p.ipos(st), fmt.Sprintf("after the position is stepped here the key field is read again at %s without a reload of the cursor on the way", p.ipos(bad)))
				} else {
					res.ok(cn, p.ipos(st), fmt.Sprintf("every later read of a key field (%d in the method) lies behind a reload", len(keyLoads)))
				}
			}
		}
	}
	return res
}
