package main

import (
	"fmt"
	"sort"

	"golang.org/x/tools/go/ssa"
)

// PART1 — a worker partition walks the bitmap it counted.
//
// The BSI fan-out executors cut a column set into per-worker batches: the batch
// sizes are derived from GetCardinality() of a bitmap and the batches are filled
// by NextMany on a ManyIterator. The sizes add up to the cardinality of the
// counted bitmap, so the iterator must come from the same bitmap — otherwise the
// workers scan the first |counted| columns of some other set.
func init() {
	register("PART1", "where the buffers handed to NextMany/NextMany64 are sized from GetCardinality() of a bitmap, the many-iterator that fills them was obtained from that same bitmap (same value or same field path): the batch sizes partition the counted set, so an iterator over another bitmap of the right type makes the workers scan columns that were never asked for (or miss the ones that were)", rulePART1)
}

func rulePART1(p *Prog) *RuleResult {
	res := newResult("PART1", ruleDoc["PART1"], 3)
	fns := append([]*ssa.Function(nil), p.sourceFns()...)
	sort.Slice(fns, func(i, j int) bool { return fname(fns[i]) < fname(fns[j]) })
	callName := func(c *ssa.CallCommon) string {
		if c.IsInvoke() {
			return c.Method.Name()
		}
		if g := c.StaticCallee(); g != nil && g.Signature.Recv() != nil {
			return g.Name()
		}
		return ""
	}
	recvOf := func(c *ssa.CallCommon) ssa.Value {
		if c.IsInvoke() {
			return c.Value
		}
		if len(c.Args) > 0 {
			return c.Args[0]
		}
		return nil
	}
	for _, f := range fns {
		n := 0
		for _, b := range f.Blocks {
			for _, ins := range b.Instrs {
				c, ok := ins.(*ssa.Call)
				if !ok {
					continue
				}
				nm := callName(&c.Call)
				if nm != "NextMany" && nm != "NextMany64" {
					continue
				}
				// the iterator
				var iters []*ssa.Call
				seen := map[ssa.Value]bool{}
				var walkIt func(v ssa.Value)
				walkIt = func(v ssa.Value) {
					if v == nil || seen[v] {
						return
					}
					seen[v] = true
					switch x := v.(type) {
					case *ssa.Call:
						if callName(&x.Call) == "ManyIterator" {
							iters = append(iters, x)
						}
					case *ssa.Phi:
						for _, e := range x.Edges {
							walkIt(e)
						}
					case *ssa.MakeInterface:
						walkIt(x.X)
					case *ssa.ChangeInterface:
						walkIt(x.X)
					}
				}
				walkIt(recvOf(&c.Call))
				if len(iters) == 0 {
					continue // an iterator handed in from elsewhere: not a partition made here
				}
				// the buffer: the last non-receiver argument that is a slice
				var buf ssa.Value
				args := c.Call.Args
				if !c.Call.IsInvoke() {
					args = args[1:]
				}
				if len(args) > 0 {
					buf = args[len(args)-1]
				}
				// sizes of the buffer -> GetCardinality receivers
				var cards []*ssa.Call
				seen2 := map[ssa.Value]bool{}
				var walk func(v ssa.Value, d int)
				walk = func(v ssa.Value, d int) {
					if v == nil || seen2[v] || d > 40 {
						return
					}
					seen2[v] = true
					switch x := v.(type) {
					case *ssa.MakeSlice:
						walk(x.Len, d+1)
					case *ssa.Slice:
						// buf[:k] has k elements; buf[:] is buf; a window buf[lo:] of a larger
						// array is not a batch sized by anything followed here
						switch {
						case x.Low != nil:
						case x.High != nil:
							walk(x.High, d+1)
						default:
							walk(x.X, d+1)
						}
					case *ssa.Phi:
						for _, e := range x.Edges {
							walk(e, d+1)
						}
					case *ssa.BinOp:
						walk(x.X, d+1)
						walk(x.Y, d+1)
					case *ssa.Convert:
						walk(x.X, d+1)
					case *ssa.ChangeType:
						walk(x.X, d+1)
					case *ssa.UnOp:
						walk(x.X, d+1)
					case *ssa.Alloc:
						// a local spilled to memory: follow its stores
						if x.Referrers() != nil {
							for _, r := range *x.Referrers() {
								if st, ok := r.(*ssa.Store); ok && st.Addr == x {
									walk(st.Val, d+1)
								}
							}
						}
					case *ssa.Call:
						if callName(&x.Call) == "GetCardinality" {
							cards = append(cards, x)
						}
					}
				}
				walk(buf, 0)
				if len(cards) == 0 {
					continue // buffer of a fixed size: a plain scan, not a partition
				}
				n++
				cn := fmt.Sprintf("%s|partition#%d", fname(f), n)
				bad := false
				for _, it := range iters {
					for _, cd := range cards {
						if !sameAccessPath(recvOf(&it.Call), recvOf(&cd.Call), 0) {
							bad = true
							res.bad(cn, p.ipos(it), fmt.Sprintf("the batches are sized from GetCardinality() at %s but filled by a many-iterator over a different bitmap", p.ipos(cd)))
						}
					}
				}
				if !bad {
					res.ok(cn, p.ipos(c), "batch sizes and iterator come from the same bitmap")
				}
			}
		}
	}
	return res
}
