package main

import (
	"fmt"
	"go/token"
	"sort"
	"strings"

	"golang.org/x/tools/go/ssa"
)

func init() {
	register("EQ1", "an equality routine compares the receiver with its argument: in every method named equals/Equals/Equal, no comparison (==, !=, or a nested equals call) has both sides derived from the same operand — comparing the receiver's keys with themselves makes bitmaps with different keys equal", ruleEQ1)
}

// paramsOf: the parameters (by index) whose memory v was read from.
func paramsOf(f *ssa.Function, v ssa.Value, depth int, seen map[ssa.Value]bool, out map[int]bool) {
	if depth > 12 || seen[v] {
		return
	}
	seen[v] = true
	switch x := v.(type) {
	case *ssa.Parameter:
		for i, p := range f.Params {
			if p == x {
				out[i] = true
			}
		}
	case *ssa.UnOp:
		paramsOf(f, x.X, depth+1, seen, out)
	case *ssa.FieldAddr:
		paramsOf(f, x.X, depth+1, seen, out)
	case *ssa.Field:
		paramsOf(f, x.X, depth+1, seen, out)
	case *ssa.IndexAddr:
		paramsOf(f, x.X, depth+1, seen, out)
	case *ssa.Index:
		paramsOf(f, x.X, depth+1, seen, out)
	case *ssa.Slice:
		paramsOf(f, x.X, depth+1, seen, out)
	case *ssa.TypeAssert:
		paramsOf(f, x.X, depth+1, seen, out)
	case *ssa.Extract:
		paramsOf(f, x.Tuple, depth+1, seen, out)
	case *ssa.Next:
		paramsOf(f, x.Iter, depth+1, seen, out)
	case *ssa.Range:
		paramsOf(f, x.X, depth+1, seen, out)
	case *ssa.ChangeType:
		paramsOf(f, x.X, depth+1, seen, out)
	case *ssa.Convert:
		paramsOf(f, x.X, depth+1, seen, out)
	case *ssa.MakeInterface:
		paramsOf(f, x.X, depth+1, seen, out)
	case *ssa.Phi:
		for _, e := range x.Edges {
			paramsOf(f, e, depth+1, seen, out)
		}
	case *ssa.Call:
		// len(x), x.size(), x.getCardinality(): a scalar read off its operand
		for _, a := range x.Call.Args {
			paramsOf(f, a, depth+1, seen, out)
		}
		if x.Call.IsInvoke() {
			paramsOf(f, x.Call.Value, depth+1, seen, out)
		}
	case *ssa.Alloc:
		// a local cell: what was stored into it
		if x.Referrers() != nil {
			for _, r := range *x.Referrers() {
				if st, ok := r.(*ssa.Store); ok && st.Addr == ssa.Value(x) {
					paramsOf(f, st.Val, depth+1, seen, out)
				}
			}
		}
	}
}

func ruleEQ1(p *Prog) *RuleResult {
	res := newResult("EQ1", ruleDoc["EQ1"], 8)
	fns := append([]*ssa.Function(nil), p.sourceFns()...)
	sort.Slice(fns, func(i, j int) bool { return fname(fns[i]) < fname(fns[j]) })
	for _, f := range fns {
		if f.Blocks == nil || f.Signature.Recv() == nil || len(f.Params) != 2 || f.Parent() != nil {
			continue
		}
		ln := strings.ToLower(f.Name())
		if ln != "equals" && ln != "equal" {
			continue
		}
		n := 0
		var bad []string
		for _, b := range f.Blocks {
			for _, ins := range b.Instrs {
				var l, r ssa.Value
				switch x := ins.(type) {
				case *ssa.BinOp:
					if x.Op != token.EQL && x.Op != token.NEQ {
						continue
					}
					l, r = x.X, x.Y
				case *ssa.Call:
					cn := ""
					if x.Call.IsInvoke() {
						cn = strings.ToLower(x.Call.Method.Name())
					} else if g := x.Call.StaticCallee(); g != nil {
						cn = strings.ToLower(g.Name())
					}
					if cn != "equals" && cn != "equal" {
						continue
					}
					if x.Call.IsInvoke() {
						if len(x.Call.Args) != 1 {
							continue
						}
						l, r = x.Call.Value, x.Call.Args[0]
					} else {
						if len(x.Call.Args) != 2 {
							continue
						}
						l, r = x.Call.Args[0], x.Call.Args[1]
					}
				default:
					continue
				}
				lp, rp := map[int]bool{}, map[int]bool{}
				paramsOf(f, l, 0, map[ssa.Value]bool{}, lp)
				paramsOf(f, r, 0, map[ssa.Value]bool{}, rp)
				if len(lp) == 0 || len(rp) == 0 {
					continue // a constant, nil, a type test ...
				}
				n++
				if len(lp) == 1 && len(rp) == 1 && (lp[0] && rp[0] || lp[1] && rp[1]) {
					who := "the receiver"
					if lp[1] {
						who = "the argument"
					}
					bad = append(bad, fmt.Sprintf("%s: both sides are read from %s", p.ipos(ins), who))
				}
			}
		}
		if n == 0 {
			continue
		}
		c := fname(f) + "|compares receiver with argument"
		if len(bad) > 0 {
			res.bad(c, p.pos(f.Pos()), "a comparison inside the equality routine has the same operand on both sides: "+strings.Join(bad, "; "))
		} else {
			res.ok(c, p.pos(f.Pos()), fmt.Sprintf("%d comparison(s), each between receiver and argument", n))
		}
	}
	return res
}
