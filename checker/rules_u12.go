package main

import (
	"fmt"
	"go/token"
	"go/types"
	"sort"
	"strings"

	"golang.org/x/tools/go/ssa"
)

func init() {
	register("U12", "in the 64-bit bitmap a 64-bit quantity is cut to 32 bits (to address a bucket, or to ask a bucket for its i-th element) only where it is known to fit: it is the widening of a 32-bit value (possibly stepped inside a loop bounded by one), it was shifted or masked down, or an upper-bound comparison on it dominates the cut. An index counted down through the buckets and cut without having been compared with the bucket's cardinality selects in the wrong bucket once it reaches 2^32", ruleU12)
}

func ruleU12(p *Prog) *RuleResult {
	res := newResult("U12", ruleDoc["U12"], 8)
	fns := append([]*ssa.Function(nil), p.sourceFns()...)
	sort.Slice(fns, func(i, j int) bool { return fname(fns[i]) < fname(fns[j]) })
	kind := func(t types.Type) types.BasicKind {
		if bt, ok := t.Underlying().(*types.Basic); ok {
			return bt.Kind()
		}
		return types.Invalid
	}
	var small func(v ssa.Value, seen map[ssa.Value]bool) bool
	small = func(v ssa.Value, seen map[ssa.Value]bool) bool {
		if seen[v] {
			return true
		}
		seen[v] = true
		switch x := v.(type) {
		case *ssa.Const:
			c, ok := constIntVal(x)
			return ok && c >= 0 && c < 1<<32
		case *ssa.Convert:
			switch kind(x.X.Type()) {
			case types.Uint32, types.Uint16, types.Uint8, types.Int32, types.Int16, types.Int8:
				return true
			}
			return small(x.X, seen)
		case *ssa.BinOp:
			switch x.Op {
			case token.SHR:
				if c, ok := constIntVal(x.Y); ok && c >= 32 {
					return true
				}
			case token.AND:
				if c, ok := constIntVal(x.Y); ok && c >= 0 && c < 1<<32 {
					return true
				}
				if c, ok := constIntVal(x.X); ok && c >= 0 && c < 1<<32 {
					return true
				}
			}
		case *ssa.Phi:
			for _, e := range x.Edges {
				if bo, ok := e.(*ssa.BinOp); ok && bo.Op == token.ADD && bo.X == ssa.Value(x) {
					continue // the loop step: bounded by the loop test, checked at the cut
				}
				if !small(e, seen) {
					return false
				}
			}
			return true
		case *ssa.Call:
			if g := x.Call.StaticCallee(); g != nil && g.Signature.Results().Len() == 1 {
				switch kind(g.Signature.Results().At(0).Type()) {
				case types.Uint32, types.Uint16:
					return true
				}
			}
		}
		return false
	}
	// fits: v is known to fit 32 bits where block b is entered
	var fits func(f *ssa.Function, v ssa.Value, b *ssa.BasicBlock, depth int) (bool, string)
	fits = func(f *ssa.Function, v ssa.Value, b *ssa.BasicBlock, depth int) (bool, string) {
		stepped := false
		if ph, ok := v.(*ssa.Phi); ok {
			for _, e := range ph.Edges {
				if bo, ok := e.(*ssa.BinOp); ok && bo.Op == token.ADD && bo.X == ssa.Value(ph) {
					stepped = true
				}
			}
		}
		if small(v, map[ssa.Value]bool{}) && !stepped {
			return true, "a widened 32-bit value, or shifted / masked down"
		}
		// an upper-bound comparison dominating the place
		for _, b2 := range f.Blocks {
			iff, ok := b2.Instrs[len(b2.Instrs)-1].(*ssa.If)
			if !ok {
				continue
			}
			for _, src := range sliceBack(iff.Cond, func(x ssa.Value) bool {
				bo, ok := x.(*ssa.BinOp)
				if !ok {
					return false
				}
				switch bo.Op {
				case token.LSS, token.LEQ, token.GTR, token.GEQ:
					return bo.X == v || bo.Y == v
				}
				return false
			}) {
				bo := src.(*ssa.BinOp)
				upperOnTrue := (bo.X == v && (bo.Op == token.LSS || bo.Op == token.LEQ)) || (bo.Y == v && (bo.Op == token.GTR || bo.Op == token.GEQ))
				s := b2.Succs[0]
				if !upperOnTrue {
					s = b2.Succs[1]
				}
				if ssa.Value(bo) != iff.Cond && !upperOnTrue {
					continue // part of a && / || chain: only the true side of a conjunction keeps the bound
				}
				if len(s.Preds) == 1 && (s == b || s.Dominates(b)) {
					return true, "bounded above by the comparison at " + p.ipos(iff)
				}
			}
		}
		// a result of a helper of this package that fits on each of the helper's returns
		if ex, ok := v.(*ssa.Extract); ok && depth < 2 {
			if c, ok := ex.Tuple.(*ssa.Call); ok {
				if h := c.Call.StaticCallee(); h != nil && h.Blocks != nil && inRepo(h) {
					all, n := true, 0
					for _, hb := range h.Blocks {
						r, ok := hb.Instrs[len(hb.Instrs)-1].(*ssa.Return)
						if !ok || ex.Index >= len(r.Results) {
							continue
						}
						n++
						if ok2, _ := fits(h, r.Results[ex.Index], hb, depth+1); !ok2 {
							all = false
						}
					}
					if all && n > 0 {
						return true, fmt.Sprintf("result %d of %s, which fits 32 bits on each of its %d returns", ex.Index, fname(h), n)
					}
				}
			}
		}
		return false, ""
	}
	for _, f := range fns {
		if f.Blocks == nil || fnPkgPath(f) != pkgPathOf("roaring64") || strings.Contains(p.pos(f.Pos()), "bsi") {
			continue
		}
		n := 0
		for _, b := range f.Blocks {
			for _, ins := range b.Instrs {
				cv, ok := ins.(*ssa.Convert)
				if !ok || kind(cv.Type()) != types.Uint32 || kind(cv.X.Type()) != types.Uint64 {
					continue
				}
				n++
				cn := fmt.Sprintf("%s|%s cut to 32 bits#%d", fname(f), valueLabel(cv.X), n)
				if ok, why := fits(f, cv.X, b, 0); ok {
					res.ok(cn, p.ipos(cv), why)
				} else {
					res.bad(cn, p.ipos(cv), "a 64-bit quantity is cut to 32 bits without being a widened 32-bit value and without an upper-bound comparison on the way")
				}
			}
		}
	}
	return res
}
