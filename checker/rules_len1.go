package main

import (
	"fmt"
	"go/token"
	"sort"
	"strings"

	"golang.org/x/tools/go/ssa"
)

func init() {
	register("LEN1", "a merge loop that caches the size of a table in a local (length1 := x.size()) keeps the local in step: inside the loop, every call that inserts into or removes from that table is followed, before the next iteration, by an update of the cached length — otherwise the loop stops early (chunks never compared are appended behind) or indexes past the end", ruleLEN1)
}

func ruleLEN1(p *Prog) *RuleResult {
	res := newResult("LEN1", ruleDoc["LEN1"], 3)
	grow := func(name string) bool {
		return strings.HasPrefix(name, "insertNewKeyValueAt") || strings.HasPrefix(name, "removeAtIndex") || name == "remove" || strings.HasPrefix(name, "removeIndexRange")
	}
	for _, lvl := range []string{"32", "64"} {
		e, err := p.TL(lvl)
		if err != nil {
			res.undecided("anchors:"+lvl, "-", err.Error())
			continue
		}
		fns := append([]*ssa.Function(nil), e.fns...)
		sort.Slice(fns, func(i, j int) bool { return fname(fns[i]) < fname(fns[j]) })
		for _, f := range fns {
			if f.Blocks == nil {
				continue
			}
			t := e.funcState(f)
			// cached lengths: phis at loop headers one of whose inputs is size() of a table (possibly through phis)
			sizeOf := func(v ssa.Value) (string, bool) {
				c, ok := v.(*ssa.Call)
				if !ok {
					return "", false
				}
				g := c.Call.StaticCallee()
				if g == nil || g.Name() != "size" || len(c.Call.Args) != 1 || !e.lv.isTableRef(c.Call.Args[0].Type()) {
					return "", false
				}
				return t.root(c.Call.Args[0]), true
			}
			n := 0
			// a cached length that the loop never updates is not even a phi: size() taken before the loop and
			// compared inside it, while the loop changes the table's size and goes round again
			for _, b := range f.Blocks {
				loop := naturalLoop(b)
				if len(loop) == 0 {
					continue
				}
				for _, ob := range f.Blocks {
					if loop[ob] {
						continue
					}
					for _, oi := range ob.Instrs {
						sc, ok := oi.(*ssa.Call)
						if !ok {
							continue
						}
						tab, ok := sizeOf(sc)
						if !ok || sc.Referrers() == nil {
							continue
						}
						usedInLoop := false
						for _, r := range *sc.Referrers() {
							if bo, ok := r.(*ssa.BinOp); ok && loop[bo.Block()] {
								switch bo.Op {
								case token.LSS, token.LEQ, token.GTR, token.GEQ, token.EQL, token.NEQ:
									usedInLoop = true
								}
							}
						}
						if !usedInLoop {
							continue
						}
						for _, lb := range f.Blocks {
							if !loop[lb] {
								continue
							}
							for _, li := range lb.Instrs {
								call, ok := li.(*ssa.Call)
								if !ok {
									continue
								}
								g := call.Call.StaticCallee()
								if g == nil || !grow(g.Name()) || len(call.Call.Args) == 0 || !e.lv.isTableRef(call.Call.Args[0].Type()) || t.root(call.Call.Args[0]) != tab {
									continue
								}
								// does the loop go round again after the call?
								seen := map[*ssa.BasicBlock]bool{}
								var reach func(bb *ssa.BasicBlock) bool
								reach = func(bb *ssa.BasicBlock) bool {
									if bb == b {
										return true
									}
									if seen[bb] || !loop[bb] {
										return false
									}
									seen[bb] = true
									for _, s2 := range bb.Succs {
										if reach(s2) {
											return true
										}
									}
									return false
								}
								again := false
								for _, s2 := range lb.Succs {
									if reach(s2) {
										again = true
									}
								}
								n++
								c := fmt.Sprintf("%s|%s of %s vs length taken before the loop#%d", fname(f), g.Name(), tab, n)
								if again {
									res.bad(c, p.ipos(call), fmt.Sprintf("%s changes the size of %s inside the loop, which goes on comparing against the length taken at %s before the loop", g.Name(), tab, p.ipos(sc)))
								} else {
									res.ok(c, p.ipos(call), "the loop is left after the call")
								}
							}
						}
					}
				}
			}
			for _, b := range f.Blocks {
				for _, ins := range b.Instrs {
					ph, ok := ins.(*ssa.Phi)
					if !ok {
						break
					}
					tab := ""
					for _, ed := range ph.Edges {
						if r, ok := sizeOf(ed); ok {
							tab = r
						}
					}
					if tab == "" {
						continue
					}
					loop := naturalLoop(b)
					if len(loop) == 0 {
						continue
					}
					// size-changing calls on that table inside the loop
					for _, lb := range f.Blocks {
						if !loop[lb] {
							continue
						}
						for _, li := range lb.Instrs {
							call, ok := li.(*ssa.Call)
							if !ok {
								continue
							}
							g := call.Call.StaticCallee()
							if g == nil || !grow(g.Name()) || len(call.Call.Args) == 0 || !e.lv.isTableRef(call.Call.Args[0].Type()) || t.root(call.Call.Args[0]) != tab {
								continue
							}
							n++
							c := fmt.Sprintf("%s|%s of %s vs cached length %s#%d", fname(f), g.Name(), tab, ph.Comment, n)
							// every way from the call back to the header passes an update of the cached length
							isUpdate := func(x ssa.Instruction) bool {
								switch y := x.(type) {
								case *ssa.BinOp:
									if y.Op == token.ADD || y.Op == token.SUB {
										if _, isC := constIntVal(y.Y); isC && derivesFrom(y.X, ph, 6) {
											return true
										}
									}
								case *ssa.Call:
									if r, ok := sizeOf(y); ok && r == tab {
										return true
									}
								}
								return false
							}
							okAll := true
							after := false
							barrier := false
							for _, x := range lb.Instrs {
								if x == ssa.Instruction(call) {
									after = true
									continue
								}
								if after && isUpdate(x) {
									barrier = true
								}
							}
							if !barrier {
								seen := map[*ssa.BasicBlock]bool{}
								var reach func(bb *ssa.BasicBlock) bool // header reachable without an update
								reach = func(bb *ssa.BasicBlock) bool {
									if bb == b {
										return true
									}
									if seen[bb] || !loop[bb] {
										return false
									}
									seen[bb] = true
									for _, x := range bb.Instrs {
										if isUpdate(x) {
											return false
										}
									}
									for _, sc := range bb.Succs {
										if reach(sc) {
											return true
										}
									}
									return false
								}
								for _, sc := range lb.Succs {
									if reach(sc) {
										okAll = false
									}
								}
							}
							if okAll {
								res.ok(c, p.ipos(call), "cached length updated (or the loop is left) before the next iteration")
							} else {
								res.bad(c, p.ipos(call), fmt.Sprintf("%s changes the size of %s inside the loop, but the cached length %s reaches the next iteration unchanged", g.Name(), tab, ph.Comment))
							}
						}
					}
				}
			}
		}
	}
	return res
}

func derivesFrom(v ssa.Value, ph *ssa.Phi, d int) bool {
	if v == ssa.Value(ph) {
		return true
	}
	if d == 0 {
		return false
	}
	switch x := v.(type) {
	case *ssa.Phi:
		for _, e := range x.Edges {
			if derivesFrom(e, ph, d-1) {
				return true
			}
		}
	case *ssa.BinOp:
		return derivesFrom(x.X, ph, d-1)
	}
	return false
}
