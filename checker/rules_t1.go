package main

import (
	"fmt"
	"go/token"
	"go/types"
	"strings"

	"golang.org/x/tools/go/ssa"
)

func init() {
	register("T1", "untrusted size -> allocation: in the decoders, a length decoded from the input reaches make() only behind an upper-bound test against a small constant with an error on the failing edge (or its type already bounds it to 16 bits)", ruleT1)
}

// Decoder entry functions whose allocations are examined (closures included).
var decodeScope = []string{
	"(*roaring.roaringArray).readFrom", "(*roaring.roaringArray).frozenView",
	"(*roaring64.Bitmap).ReadFrom", "(*roaring64.Bitmap).FromUnsafeBytes",
	"(*roaring64.BSI).ReadFrom", "(*roaring64.BSI).UnmarshalBinary", "(*BitSliceIndexing.BSI).UnmarshalBinary",
}

const maxTrustedBound = 1 << 20

// decodedOrigin: v is (derived from) a multi-byte field decoded from the input; returns the decoding values.
func decodedOrigins(v ssa.Value, seen map[ssa.Value]bool, out *[]ssa.Value) {
	if seen[v] {
		return
	}
	seen[v] = true
	switch x := v.(type) {
	case *ssa.Convert:
		decodedOrigins(x.X, seen, out)
	case *ssa.BinOp:
		decodedOrigins(x.X, seen, out)
		decodedOrigins(x.Y, seen, out)
	case *ssa.Phi:
		for _, e := range x.Edges {
			decodedOrigins(e, seen, out)
		}
	case *ssa.Extract:
		decodedOrigins(x.Tuple, seen, out)
	case *ssa.Call:
		name := ""
		if x.Call.IsInvoke() {
			name = x.Call.Method.Name()
		} else if f := x.Call.StaticCallee(); f != nil {
			name = f.Name()
			if strings.HasPrefix(f.String(), "(encoding/binary.") && strings.Contains(name, "Uint") {
				*out = append(*out, x)
				return
			}
		}
		if strings.HasPrefix(name, "ReadUInt") {
			*out = append(*out, x)
		}
	case *ssa.UnOp:
		if x.Op == token.MUL {
			// element of a slice that reinterprets input bytes: its width bounds it (handled by the caller)
			if ia, ok := x.X.(*ssa.IndexAddr); ok {
				if s, ok := ia.X.Type().Underlying().(*types.Slice); ok {
					if b, ok := s.Elem().Underlying().(*types.Basic); ok && b.Info()&types.IsInteger != 0 && intWidth(b.Kind()) > 16 {
						*out = append(*out, x)
					}
				}
			}
		}
	}
}

// boundedBefore: blk is on the passing side of `X > C` (C <= maxTrustedBound) where X derives from origin.
func boundedBefore(origin ssa.Value, blk *ssa.BasicBlock) (bool, string) {
	derives := func(v ssa.Value) bool {
		var o []ssa.Value
		decodedOrigins(v, map[ssa.Value]bool{}, &o)
		for _, x := range o {
			if x == origin {
				return true
			}
		}
		return false
	}
	for d := blk; d != nil; d = d.Idom() {
		if d == blk || len(d.Instrs) == 0 {
			continue
		}
		ifi, ok := d.Instrs[len(d.Instrs)-1].(*ssa.If)
		if !ok {
			continue
		}
		bo, ok := ifi.Cond.(*ssa.BinOp)
		if !ok {
			continue
		}
		failEdge := -1
		var c int64
		if cv, isC := constIntVal(bo.Y); isC && derives(bo.X) {
			c = cv
			switch bo.Op {
			case token.GTR, token.GEQ:
				failEdge = 0
			case token.LEQ, token.LSS:
				failEdge = 1
			}
		} else if cv, isC := constIntVal(bo.X); isC && derives(bo.Y) {
			c = cv
			switch bo.Op {
			case token.LSS, token.LEQ:
				failEdge = 0
			case token.GEQ, token.GTR:
				failEdge = 1
			}
		}
		if failEdge < 0 {
			continue
		}
		if c > maxTrustedBound {
			return false, fmt.Sprintf("the only bound is %d, which still allows an allocation of gigabytes", c)
		}
		if !blockReturnsFailure(d.Succs[failEdge], 0) {
			continue
		}
		if dominatedByEdge(d, 1-failEdge, blk) {
			return true, fmt.Sprintf("bounded by %d", c)
		}
	}
	return false, "no dominating upper-bound test with an error return"
}

func ruleT1(p *Prog) *RuleResult {
	res := newResult("T1", ruleDoc["T1"], 4)
	inScope := func(f *ssa.Function) bool {
		g := f
		for g.Parent() != nil {
			g = g.Parent()
		}
		for _, s := range decodeScope {
			if fname(g) == s {
				return true
			}
		}
		return false
	}
	found := map[string]bool{}
	for _, f := range p.sourceFns() {
		if !inScope(f) {
			continue
		}
		g := f
		for g.Parent() != nil {
			g = g.Parent()
		}
		found[fname(g)] = true
		n := 0
		for _, b := range f.Blocks {
			for _, ins := range b.Instrs {
				ms, ok := ins.(*ssa.MakeSlice)
				if !ok {
					continue
				}
				n++
				c := fmt.Sprintf("%s|make#%d", fname(f), n)
				var origins []ssa.Value
				decodedOrigins(ms.Len, map[ssa.Value]bool{}, &origins)
				decodedOrigins(ms.Cap, map[ssa.Value]bool{}, &origins)
				if len(origins) == 0 {
					res.ok(c, p.ipos(ms), "size does not derive from a decoded field wider than 16 bits")
					continue
				}
				bad := ""
				note := ""
				for _, o := range origins {
					if w := intWidth(basicKind(o.Type())); w > 0 && w <= 16 {
						continue
					}
					ok, why := boundedBefore(o, b)
					if !ok {
						bad = why
					} else {
						note = why
					}
				}
				if bad != "" {
					res.bad(c, p.ipos(ms), "allocation sized by a value decoded from the input: "+bad)
				} else {
					res.ok(c, p.ipos(ms), note)
				}
			}
		}
	}
	// helpers of the decoders that allocate or reslice on their behalf (extract-method refactoring): a size that
	// comes in through a parameter is judged with the origins and the bound of the argument at the call site
	type hctx struct {
		g       *ssa.Function
		call    *ssa.Call
		origins map[int][]ssa.Value
	}
	var helpers []hctx
	for _, f := range p.sourceFns() {
		if !inScope(f) {
			continue
		}
		for _, b := range f.Blocks {
			for _, ins := range b.Instrs {
				call, ok := ins.(*ssa.Call)
				if !ok {
					continue
				}
				g := call.Call.StaticCallee()
				if g == nil || g.Blocks == nil || inScope(g) || fnPkgPath(g) != fnPkgPath(f) {
					continue
				}
				hc := hctx{g: g, call: call, origins: map[int][]ssa.Value{}}
				for ai, a := range call.Call.Args {
					var os []ssa.Value
					decodedOrigins(a, map[ssa.Value]bool{}, &os)
					if len(os) > 0 {
						hc.origins[ai] = os
					}
				}
				if len(hc.origins) > 0 {
					helpers = append(helpers, hc)
				}
			}
		}
	}
	paramsOf := func(v ssa.Value, g *ssa.Function) []int {
		var out []int
		seen := map[ssa.Value]bool{}
		var walk func(v ssa.Value)
		walk = func(v ssa.Value) {
			if v == nil || seen[v] {
				return
			}
			seen[v] = true
			switch x := v.(type) {
			case *ssa.Parameter:
				for i, prm := range g.Params {
					if prm == x {
						out = append(out, i)
					}
				}
			case *ssa.Convert:
				walk(x.X)
			case *ssa.BinOp:
				walk(x.X)
				walk(x.Y)
			case *ssa.Phi:
				for _, e := range x.Edges {
					walk(e)
				}
			}
		}
		walk(v)
		return out
	}
	for _, hc := range helpers {
		n := 0
		for _, b := range hc.g.Blocks {
			for _, ins := range b.Instrs {
				switch x := ins.(type) {
				case *ssa.MakeSlice:
					var os []ssa.Value
					for _, k := range append(paramsOf(x.Len, hc.g), paramsOf(x.Cap, hc.g)...) {
						os = append(os, hc.origins[k]...)
					}
					if len(os) == 0 {
						continue
					}
					n++
					c := fmt.Sprintf("%s|make#%d (called from %s)", fname(hc.g), n, fname(hc.call.Parent()))
					bad, note := "", ""
					for _, o := range os {
						if w := intWidth(basicKind(o.Type())); w > 0 && w <= 16 {
							continue
						}
						if ok, why := boundedBefore(o, hc.call.Block()); !ok {
							bad = why
						} else {
							note = why
						}
					}
					if bad != "" {
						res.bad(c, p.ipos(x), "allocation sized by a value decoded from the input (passed in by the caller): "+bad)
					} else {
						res.ok(c, p.ipos(x), note+" at the call site")
					}
				case *ssa.Slice:
					if x.High == nil {
						continue
					}
					fld, isField := loadedField(x.X)
					if !isField {
						continue
					}
					fromInput := false
					for _, k := range paramsOf(x.High, hc.g) {
						if len(hc.origins[k]) > 0 {
							fromInput = true
						}
					}
					if !fromInput {
						continue
					}
					n++
					c := fmt.Sprintf("%s|reslice %s#%d (called from %s)", fname(hc.g), fld.name, n, fname(hc.call.Parent()))
					if capGuard(x, fld, b) {
						res.ok(c, p.ipos(x), "guarded by cap("+fld.name+") >= the decoded length")
					} else {
						res.bad(c, p.ipos(x), "the slice "+fld.name+" is extended to a length decoded from the input without a dominating test of cap("+fld.name+") against that length")
					}
				}
			}
		}
	}
	// reslicing one of the receiver's own arrays up to a decoded length needs a capacity test on that very array
	for _, f := range p.sourceFns() {
		if !inScope(f) || len(f.Params) == 0 {
			continue
		}
		n := 0
		for _, b := range f.Blocks {
			for _, ins := range b.Instrs {
				sl, ok := ins.(*ssa.Slice)
				if !ok || sl.High == nil {
					continue
				}
				fld, isField := loadedField(sl.X)
				if !isField {
					continue
				}
				var origins []ssa.Value
				decodedOrigins(sl.High, map[ssa.Value]bool{}, &origins)
				if len(origins) == 0 {
					continue
				}
				n++
				c := fmt.Sprintf("%s|reslice %s#%d", fname(f), fld.name, n)
				if capGuard(sl, fld, b) {
					res.ok(c, p.ipos(sl), "guarded by cap("+fld.name+") >= the decoded length")
				} else {
					res.bad(c, p.ipos(sl), "the slice "+fld.name+" is extended to a length decoded from the input without a dominating test of cap("+fld.name+") against that length (a test on a sibling array does not count: their capacities grow independently)")
				}
			}
		}
	}
	for _, s := range decodeScope {
		if !found[s] {
			res.undecided(s, "-", "decoder not found")
		}
	}
	return res
}

type fieldRef struct {
	x    ssa.Value
	f    int
	name string
}

func loadedField(v ssa.Value) (fieldRef, bool) {
	u, ok := v.(*ssa.UnOp)
	if !ok || u.Op != token.MUL {
		return fieldRef{}, false
	}
	fa, ok := u.X.(*ssa.FieldAddr)
	if !ok {
		return fieldRef{}, false
	}
	return fieldRef{fa.X, fa.Field, fieldName(fa.X.Type(), fa.Field)}, true
}

func stripConv(v ssa.Value) ssa.Value {
	for {
		c, ok := v.(*ssa.Convert)
		if !ok {
			return v
		}
		v = c.X
	}
}

// capGuard: block b is dominated by the true edge of cap(<same field>) >= high (or the false edge of <).
func capGuard(sl *ssa.Slice, fld fieldRef, b *ssa.BasicBlock) bool {
	high := stripConv(sl.High)
	for d := b.Idom(); d != nil; d = d.Idom() {
		ifi, ok := d.Instrs[len(d.Instrs)-1].(*ssa.If)
		if !ok {
			continue
		}
		bo, ok := ifi.Cond.(*ssa.BinOp)
		if !ok {
			continue
		}
		isCap := func(v ssa.Value) bool {
			c, ok := v.(*ssa.Call)
			if !ok {
				return false
			}
			bi, ok := c.Call.Value.(*ssa.Builtin)
			if !ok || bi.Name() != "cap" {
				return false
			}
			g, ok := loadedField(c.Call.Args[0])
			return ok && g.x == fld.x && g.f == fld.f
		}
		trueEdge := -1
		switch {
		case bo.Op == token.GEQ && isCap(bo.X) && stripConv(bo.Y) == high:
			trueEdge = 0
		case bo.Op == token.LEQ && isCap(bo.Y) && stripConv(bo.X) == high:
			trueEdge = 0
		case bo.Op == token.LSS && isCap(bo.X) && stripConv(bo.Y) == high:
			trueEdge = 1
		case bo.Op == token.GTR && isCap(bo.Y) && stripConv(bo.X) == high:
			trueEdge = 1
		}
		if trueEdge >= 0 && dominatedByEdge(d, trueEdge, b) {
			return true
		}
	}
	return false
}
