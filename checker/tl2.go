package main

import (
	"fmt"
	"go/constant"
	"go/token"
	"go/types"
	"sort"
	"strings"

	"golang.org/x/tools/go/ssa"
)

// ---- engine driver ----

var tlCache = map[*Prog]map[string]*tlEngine{}

func (p *Prog) TL(level string) (*tlEngine, error) {
	if m := tlCache[p]; m != nil && m[level] != nil {
		return m[level], nil
	}
	l32, l64, err := p.tlLevels()
	if err != nil {
		return nil, err
	}
	lv := l32
	if level == "64" {
		lv = l64
	}
	if level == "B32" {
		// the 32-bit bit-sliced index: same table type, functions of package BitSliceIndexing,
		// 32-bit API calls summarised by the level-32 engine
		cp := *l32
		cp.name, cp.pkgShort = "B32", "BitSliceIndexing"
		lv = &cp
	}
	e := &tlEngine{p: p, lv: lv, own: p.OWN(), sums: map[string]*tlSummary{}, field: map[string]atomSet{}, chanJ: map[string]atomSet{},
		sites: map[string]*tlSite{}, ctxs: map[*ssa.Function]map[string]map[int]bool{}, localOwned: map[string]bool{}}
	if level == "64" || level == "B32" {
		b, err := p.TL("32")
		if err != nil {
			return nil, err
		}
		e.base = b
	}
	for _, f := range p.sourceFns() {
		if e.inScope(f) && !e.isKernelFn(f) {
			e.fns = append(e.fns, f)
			e.ctxs[f] = map[string]map[int]bool{"": nil}
			e.sums[e.sumKey(f, "")] = &tlSummary{pair: [2]int{-1, -1}}
		}
	}
	if len(e.fns) == 0 {
		return nil, fmt.Errorf("no functions in scope at level %s", level)
	}
	for round := 0; round < 30; round++ {
		e.curRound = round
		e.changed = false
		e.sites = map[string]*tlSite{}
		e.order = nil
		e.paramOwned = nil
		for _, f := range e.fns {
			var cs []string
			for c := range e.ctxs[f] {
				cs = append(cs, c)
			}
			sort.Strings(cs)
			for _, c := range cs {
				e.analyse(f, e.ctxs[f][c], c)
			}
		}
		if !e.changed {
			break
		}
	}
	// second phase: the result-root summaries are now stable; recompute the "may change table"
	// summaries from scratch so that entries produced while callee results were still unresolved
	// (and then kept alive by recursion) disappear — the least fixpoint is wanted.
	for _, s := range e.sums {
		s.mutTab = nil
	}
	for round := 0; round < 30; round++ {
		e.changed = false
		e.sites = map[string]*tlSite{}
		e.order = nil
		e.paramOwned = nil
		for _, f := range e.fns {
			var cs []string
			for c := range e.ctxs[f] {
				cs = append(cs, c)
			}
			sort.Strings(cs)
			for _, c := range cs {
				e.analyse(f, e.ctxs[f][c], c)
			}
		}
		if !e.changed {
			break
		}
	}
	if tlCache[p] == nil {
		tlCache[p] = map[string]*tlEngine{}
	}
	tlCache[p][level] = e
	return e, nil
}

func (e *tlEngine) inScope(f *ssa.Function) bool {
	return fnPkgPath(f) == pkgPathOf(e.lv.pkgShort)
}

// kernel functions: methods of the container kinds (level 32). Their receivers and operands are
// parameters; the write discipline inside them is the kernel level's business (A1/A6.kernel).
func (e *tlEngine) isKernelFn(f *ssa.Function) bool {
	if e.lv.name != "32" && e.lv.name != "B32" {
		return false
	}
	g := f
	for g.Parent() != nil {
		g = g.Parent()
	}
	if g.Signature.Recv() == nil {
		return false
	}
	rt := g.Signature.Recv().Type()
	for _, k := range e.lv.kindTypes {
		if types.Identical(rt, k) {
			return true
		}
		if p, ok := k.(*types.Pointer); ok && types.Identical(rt, p.Elem()) {
			return true
		}
	}
	return false
}

func (e *tlEngine) addSite(s *tlSite) {
	k := s.rule + "|" + fname(s.fn) + s.ctx + "|" + s.what
	if old, ok := e.sites[k]; ok {
		// the same construct reached twice (e.g. several callees): keep the worse verdict
		if old.status == "ok" && s.status != "ok" {
			e.sites[k] = s
		}
		return
	}
	e.sites[k] = s
	e.order = append(e.order, k)
}

func (e *tlEngine) analyse(f *ssa.Function, ctx map[int]bool, ctxS string) {
	t := &tlFunc{e: e, fn: f, ctx: ctx, ctxS: ctxS, prov: map[ssa.Value]atomSet{}, busy: map[ssa.Value]bool{}, roots: map[ssa.Value]string{}, rbusy: map[ssa.Value]bool{}}
	t.computeDead()
	t.buildGroups()
	for i := 0; i < 3; i++ {
		t.prov = map[ssa.Value]atomSet{}
		t.runFacts()
	}
	t.prov = map[ssa.Value]atomSet{}
	sum := &tlSummary{pair: [2]int{-1, -1}, done: true}
	t.sum = sum
	t.detectFlagHelpers()
	t.collectJoins()
	t.collectA2()
	t.collectA3()
	t.collectMutTab()
	t.collectF3()
	t.collectF13()
	t.extractSummary()
	k := e.sumKey(f, ctxS)
	if old := e.sums[k]; old == nil || old.sig() != sum.sig() || !old.done {
		e.changed = true
	}
	e.sums[k] = sum
}

// ---- helper-function recognition (flag accessor / setter / mark-all) ----

func (t *tlFunc) detectFlagHelpers() {
	lv := t.e.lv
	f := t.fn
	if len(f.Params) == 0 || !lv.isTableRef(f.Params[0].Type()) {
		return
	}
	var stores []*ssa.Store
	calls := 0
	for _, b := range f.Blocks {
		for _, ins := range b.Instrs {
			switch x := ins.(type) {
			case *ssa.Store:
				stores = append(stores, x)
			case *ssa.Call:
				if _, ok := x.Call.Value.(*ssa.Builtin); !ok {
					calls++
				}
			}
		}
	}
	// accessor: single return of P0.flags[P1]
	if len(f.Params) == 2 && len(stores) == 0 && calls == 0 && len(f.Blocks) == 1 {
		if r, ok := f.Blocks[0].Instrs[len(f.Blocks[0].Instrs)-1].(*ssa.Return); ok && len(r.Results) == 1 {
			if tab, idx, ok := t.flagLoad(r.Results[0]); ok && idx == ssa.Value(f.Params[1]) {
				if pi, path, ok := rootParam(tab); ok && pi == 0 {
					t.sum.flagLoad, t.sum.flagLoadTP = true, path
				}
			}
		}
	}
	if calls == 0 && len(stores) > 0 {
		allTrue, allFlags, idxParam := true, true, true
		for _, st := range stores {
			tab, fld, idx, ok := t.tableElemAddr(st.Addr)
			if !ok || fld != lv.fFlags || tab != "P0" {
				allFlags = false
				break
			}
			c, isC := st.Val.(*ssa.Const)
			if !isC || c.Value == nil || c.Value.Kind() != constant.Bool || !constant.BoolVal(c.Value) {
				allTrue = false
			}
			if len(f.Params) < 2 || idx != ssa.Value(f.Params[1]) {
				idxParam = false
			}
		}
		if allFlags && allTrue {
			if idxParam && len(f.Params) == 2 {
				t.sum.flagSet = true
			} else if len(f.Params) == 1 {
				t.sum.markAll = true
			}
		}
	}
}

// ---- global joins: struct fields and channels that carry slot values ----

func (t *tlFunc) collectJoins() {
	lv := t.e.lv
	e := t.e
	where := fname(t.fn)
	addField := func(name string, s atomSet) {
		g := globalise(s, where)
		if e.field[name] == nil {
			e.field[name] = atomSet{}
		}
		if e.field[name].addAll(g) {
			e.changed = true
		}
	}
	for _, b := range t.fn.Blocks {
		if t.dead[b] {
			continue
		}
		for _, ins := range b.Instrs {
			switch x := ins.(type) {
			case *ssa.Store:
				fa, ok := x.Addr.(*ssa.FieldAddr)
				if !ok {
					continue
				}
				pt := fa.X.Type().Underlying().(*types.Pointer)
				if lv.isTableStruct(pt.Elem()) {
					continue
				}
				vt := x.Val.Type()
				switch {
				case lv.isSlotType(vt):
					addField(fieldName(fa.X.Type(), fa.Field), t.provAtPoint(x.Val, x))
				case lv.isSlotSlice(vt):
					addField(fieldName(fa.X.Type(), fa.Field), t.elemProvAtPoint(x.Val, x))
				}
			case *ssa.Send:
				if lv.isSlotType(x.X.Type()) {
					name := tname(x.X.Type())
					g := globalise(t.provAtPoint(x.X, x), where)
					if e.chanJ[name] == nil {
						e.chanJ[name] = atomSet{}
					}
					if e.chanJ[name].addAll(g) {
						e.changed = true
					}
				}
			}
		}
	}
}

// provAtPoint: provenance of v with slot atoms upgraded to "gate" when the slot is unshared at ins.
func (t *tlFunc) provAtPoint(v ssa.Value, ins ssa.Instruction) atomSet {
	facts := t.factsAt(ins)
	out := atomSet{}
	for _, a := range t.provOf(v) {
		if t.atomOwned(a, facts) && a.k == aSlot {
			out.add(atom{k: aGate, tab: a.tab})
		} else {
			out.add(a)
		}
	}
	return out
}

func (t *tlFunc) elemProvAtPoint(s ssa.Value, ins ssa.Instruction) atomSet {
	out := atomSet{}
	for _, a := range t.elemProv(s) {
		if a.k == aSlot && isLocalRoot(a.tab) && t.e.localTableOwned(t, a.tab) {
			out.add(atom{k: aGate, tab: a.tab})
		} else {
			out.add(a)
		}
	}
	return out
}

// ---- A2 ----

func (t *tlFunc) callTargets(c *ssa.CallCommon) (callees []*ssa.Function, args []ssa.Value) {
	args = c.Args
	if _, ok := c.Value.(*ssa.Builtin); ok {
		return nil, nil
	}
	if c.IsInvoke() {
		callees = t.e.own.lookupImpls(c)
		args = append([]ssa.Value{c.Value}, c.Args...)
	} else if f := c.StaticCallee(); f != nil {
		callees = []*ssa.Function{f}
		if mc, ok := c.Value.(*ssa.MakeClosure); ok {
			args = append(append([]ssa.Value{}, c.Args...), mc.Bindings...)
		}
	}
	return
}

// sentinelGuarded: the call is a cardinality cache fill — it is reached only when the receiver's
// cached cardinality equals the lazy sentinel (DESIGN §3.2 idiom 4).
func (p *Prog) sentinelGuarded(call ssa.Instruction, recv ssa.Value) bool {
	inv := p.Const("roaring", "invalidCardinality")
	if inv == nil {
		return false
	}
	base := stripAssert(recv)
	for d := call.Block(); d != nil; d = d.Idom() {
		if len(d.Instrs) == 0 {
			continue
		}
		ifi, ok := d.Instrs[len(d.Instrs)-1].(*ssa.If)
		if !ok || d == call.Block() {
			continue
		}
		bo, ok := ifi.Cond.(*ssa.BinOp)
		if !ok || bo.Op != token.EQL {
			continue
		}
		var load ssa.Value
		var cst *ssa.Const
		if c, ok := bo.Y.(*ssa.Const); ok {
			load, cst = bo.X, c
		} else if c, ok := bo.X.(*ssa.Const); ok {
			load, cst = bo.Y, c
		}
		if cst == nil || cst.Value == nil || !constant.Compare(cst.Value, token.EQL, inv.Val()) {
			continue
		}
		u, ok := load.(*ssa.UnOp)
		if !ok || u.Op != token.MUL {
			continue
		}
		fa, ok := u.X.(*ssa.FieldAddr)
		if !ok || !strings.HasSuffix(fieldName(fa.X.Type(), fa.Field), ".cardinality") {
			continue
		}
		if stripAssert(fa.X) != base {
			continue
		}
		if dominatedByEdge(d, 0, call.Block()) {
			return true
		}
	}
	return false
}

func stripAssert(v ssa.Value) ssa.Value {
	for {
		switch x := v.(type) {
		case *ssa.TypeAssert:
			v = x.X
		case *ssa.Extract:
			if ta, ok := x.Tuple.(*ssa.TypeAssert); ok && x.Index == 0 {
				v = ta.X
			} else {
				return v
			}
		case *ssa.MakeInterface:
			v = x.X
		case *ssa.ChangeInterface:
			v = x.X
		default:
			return v
		}
	}
}

func (t *tlFunc) collectA2() {
	lv := t.e.lv
	perKey := map[string]int{}
	for _, b := range t.fn.Blocks {
		if t.dead[b] {
			continue
		}
		for _, ins := range b.Instrs {
			var c *ssa.CallCommon
			switch x := ins.(type) {
			case *ssa.Call:
				c = &x.Call
			case *ssa.Defer:
				c = &x.Call
			case *ssa.Go:
				c = &x.Call
			default:
				continue
			}
			callees, args := t.callTargets(c)
			for ai, a := range args {
				if !lv.isSlotType(a.Type()) {
					continue
				}
				var cells []string
				var wit string
				for _, f := range callees {
					if w, cs, ws := t.e.slotArgWritten(f, ai); w {
						cells = append(cells, cs...)
						wit = ws
					}
				}
				if len(cells) == 0 {
					continue
				}
				sort.Strings(cells)
				cells = uniq(cells)
				cn := calleeName(c)
				kk := cn + fmt.Sprintf("(arg%d)", ai)
				perKey[kk]++
				what := fmt.Sprintf("write-through %s#%d", kk, perKey[kk])
				site := &tlSite{rule: "A2", fn: t.fn, ctx: t.ctxS, instr: ins, what: what}
				if representationOnly[cn] {
					site.status, site.note = "ok", "representation-only operation (named exemption): the callee replaces containers by equivalent ones and never changes contents"
					t.e.addSite(site)
					continue
				}
				if len(cells) == 1 && strings.HasSuffix(cells[0], ".cardinality") && t.e.p.sentinelGuarded(ins, a) {
					site.status, site.note = "ok", "cardinality cache fill under the lazy sentinel"
					t.e.addSite(site)
					continue
				}
				facts := t.factsAt(ins)
				var bad []string
				delegated := false
				for _, at := range t.provOf(a) {
					site.atoms = append(site.atoms, at.String())
					if t.atomOwned(at, facts) {
						continue
					}
					if at.k == aParam {
						delegated = true
						continue
					}
					bad = append(bad, at.String())
				}
				sort.Strings(site.atoms)
				if len(bad) > 0 {
					sort.Strings(bad)
					site.status = "violation"
					site.note = fmt.Sprintf("%s may write the payload (%s) of a container that is not known to be exclusively owned: %s; write happens at: %s",
						cn, strings.Join(cells, ","), strings.Join(bad, ", "), wit)
				} else {
					site.status = "ok"
					if delegated {
						site.note = "receiver is a parameter: obligation moves to the callers"
					}
				}
				t.e.addSite(site)
			}
		}
	}
}

func uniq(s []string) []string {
	var out []string
	for i, x := range s {
		if i == 0 || x != s[i-1] {
			out = append(out, x)
		}
	}
	return out
}

// ---- A3 ----

type storeSite struct {
	ins      ssa.Instruction
	tab      string
	idx      ssa.Value
	atoms    atomSet
	flagKind string // "false" | "true" | "keep" | "value" | "paired:<tab>" | "none"
	flagVal  ssa.Value
	what     string
	valParam int // for req propagation: >=0 when the stored SSA value is exactly a parameter
}

func constBool(v ssa.Value) (bool, bool) {
	if c, ok := v.(*ssa.Const); ok && c.Value != nil && c.Value.Kind() == constant.Bool {
		return constant.BoolVal(c.Value), true
	}
	return false, false
}

func flagKindOf(v ssa.Value) (string, ssa.Value) {
	if b, ok := constBool(v); ok {
		if b {
			return "true", nil
		}
		return "false", nil
	}
	return "value", v
}

func (t *tlFunc) collectA3() {
	lv := t.e.lv
	per := map[string]int{}
	mk := func(kind string) string {
		per[kind]++
		return fmt.Sprintf("%s#%d", kind, per[kind])
	}
	for _, b := range t.fn.Blocks {
		if t.dead[b] {
			continue
		}
		for _, ins := range b.Instrs {
			switch x := ins.(type) {
			case *ssa.Store:
				// (s1) T.containers[i] = v
				if tab, f, idx, ok := t.tableElemAddr(x.Addr); ok && f == lv.fCont {
					s := &storeSite{ins: x, tab: tab, idx: idx, atoms: t.provOf(x.Val), flagKind: "keep", what: mk("slot-store"), valParam: t.paramIndex(x.Val)}
					for _, y := range b.Instrs {
						if st, ok := y.(*ssa.Store); ok {
							if tb2, f2, idx2, ok2 := t.tableElemAddr(st.Addr); ok2 && f2 == lv.fFlags && tb2 == tab && idx2 == idx {
								s.flagKind, s.flagVal = flagKindOf(st.Val)
							}
						}
					}
					t.judgeStore(s)
					continue
				}
				// (s2)/(s4) T.containers = <slice>
				if tab, f, ok := t.tableFieldAddr(x.Addr); ok && f == lv.fCont {
					t.sliceAssign(x, tab, mk)
				}
			case *ssa.Call:
				if bi, ok := x.Call.Value.(*ssa.Builtin); ok {
					if bi.Name() == "copy" {
						// (s3) copy(T.containers[..], src)
						if tab, f, ok := t.tableSlice(x.Call.Args[0]); ok && f == lv.fCont {
							t.bulkCopy(x, tab, x.Call.Args[1], mk("slot-copy"))
						}
					}
					continue
				}
				t.apiStore(x, &x.Call, mk)
			case *ssa.Go:
				t.apiStore(x, &x.Call, mk)
			case *ssa.Defer:
				t.apiStore(x, &x.Call, mk)
			}
		}
	}
}

func (t *tlFunc) paramIndex(v ssa.Value) int {
	v = stripAssert(v)
	if p, ok := v.(*ssa.Parameter); ok {
		for i, q := range t.fn.Params {
			if q == p {
				return i
			}
		}
	}
	return -1
}

// bulkCopy: copy(T.containers[a:], src)
func (t *tlFunc) bulkCopy(call *ssa.Call, tab string, src ssa.Value, what string) {
	lv := t.e.lv
	s := &storeSite{ins: call, tab: tab, atoms: t.elemProv(src), flagKind: "none", what: what, valParam: -1}
	if srcTab, f, ok := t.tableSlice(src); ok && f == lv.fCont {
		// look for the paired copy of the flags in the same block
		for _, y := range call.Block().Instrs {
			c2, ok := y.(*ssa.Call)
			if !ok {
				continue
			}
			if bi, ok := c2.Call.Value.(*ssa.Builtin); !ok || bi.Name() != "copy" {
				continue
			}
			dt, df, ok1 := t.tableSlice(c2.Call.Args[0])
			st, sf, ok2 := t.tableSlice(c2.Call.Args[1])
			if ok1 && ok2 && df == lv.fFlags && sf == lv.fFlags && dt == tab && st == srcTab {
				s.flagKind = "paired:" + srcTab
			}
		}
		if s.flagKind == "none" && t.markAllBoth(call, tab, srcTab) {
			s.flagKind = "markall:" + srcTab
		}
	}
	t.judgeStore(s)
}

// markAllBoth: after the copy, every flag of both tables is set (roaringArray.clone in COW mode).
func (t *tlFunc) markAllBoth(call *ssa.Call, a, b string) bool {
	seen := map[string]bool{}
	for _, blk := range t.fn.Blocks {
		if !call.Block().Dominates(blk) {
			continue
		}
		for _, y := range blk.Instrs {
			c2, ok := y.(*ssa.Call)
			if !ok {
				continue
			}
			f := c2.Call.StaticCallee()
			if f == nil || len(c2.Call.Args) != 1 {
				continue
			}
			if s := t.e.sums[t.e.sumKey(f, "")]; s != nil && s.markAll {
				seen[t.root(c2.Call.Args[0])] = true
			}
		}
	}
	return seen[a] && seen[b]
}

// sliceAssign: T.containers = S
func (t *tlFunc) sliceAssign(st *ssa.Store, tab string, mk func(string) string) {
	lv := t.e.lv
	// reslice of itself (resize) or append to itself
	if sl, ok := st.Val.(*ssa.Slice); ok {
		if tb2, f2, ok2 := t.tableSlice(sl.X); ok2 && tb2 == tab && f2 == lv.fCont {
			return
		}
	}
	flagSliceStore := func(blk *ssa.BasicBlock) *ssa.Store {
		for _, y := range blk.Instrs {
			if s2, ok := y.(*ssa.Store); ok {
				if tb2, f2, ok2 := t.tableFieldAddr(s2.Addr); ok2 && tb2 == tab && f2 == lv.fFlags {
					return s2
				}
			}
		}
		return nil
	}
	if c, ok := st.Val.(*ssa.Call); ok {
		if bi, ok := c.Call.Value.(*ssa.Builtin); ok && bi.Name() == "append" {
			if tb2, f2, ok2 := t.tableSlice(c.Call.Args[0]); ok2 && tb2 == tab && f2 == lv.fCont {
				// (s2) T.containers = append(T.containers, v)
				if len(c.Call.Args) < 2 {
					return
				}
				v := c.Call.Args[1]
				s := &storeSite{ins: st, tab: tab, flagKind: "none", what: mk("slot-append"), valParam: -1}
				// the appended operand is a slice (variadic); a single element is wrapped by SSA in a fresh array
				s.atoms = t.variadicElems(v)
				s.valParam = t.variadicParam(v)
				if fs := flagSliceStore(st.Block()); fs != nil {
					if c2, ok := fs.Val.(*ssa.Call); ok {
						if bi2, ok := c2.Call.Value.(*ssa.Builtin); ok && bi2.Name() == "append" && len(c2.Call.Args) == 2 {
							if fv := t.variadicSingle(c2.Call.Args[1]); fv != nil {
								s.flagKind, s.flagVal = flagKindOf(fv)
							}
						}
					}
				}
				t.judgeStore(s)
				return
			}
		}
	}
	// (s4) whole replacement by another slice
	g := t.find(st.Val)
	fs := flagSliceStore(st.Block())
	if fs == nil {
		for _, blk := range t.fn.Blocks {
			if s2 := flagSliceStore(blk); s2 != nil {
				fs = s2
			}
		}
	}
	var fg ssa.Value
	if fs != nil {
		fg = t.findBool(fs.Val)
	}
	// element stores into the group
	n := 0
	for _, blk := range t.fn.Blocks {
		if t.dead[blk] {
			continue
		}
		for _, ins := range blk.Instrs {
			switch x := ins.(type) {
			case *ssa.Store:
				ia, ok := x.Addr.(*ssa.IndexAddr)
				if !ok || !lv.isSlotSlice(ia.X.Type()) || t.find(ia.X) != g {
					continue
				}
				n++
				s := &storeSite{ins: x, tab: tab, idx: nil, atoms: t.provOf(x.Val), flagKind: "none", what: mk("slot-build-store"), valParam: -1}
				s.flagKind, s.flagVal = t.pairedFlagInBlock(blk, fg, ia.Index)
				t.judgeStore(s)
			case *ssa.Call:
				bi, ok := x.Call.Value.(*ssa.Builtin)
				if !ok {
					continue
				}
				switch bi.Name() {
				case "append":
					if !lv.isSlotSlice(x.Type()) || t.find(x) != g || len(x.Call.Args) < 2 {
						continue
					}
					n++
					s := &storeSite{ins: x, tab: tab, atoms: t.variadicElems(x.Call.Args[1]), flagKind: "none", what: mk("slot-build-append"), valParam: -1}
					if srcTab, f, ok := t.tableSlice(x.Call.Args[1]); ok && f == lv.fCont {
						s.flagKind = t.pairedSpread(blk, fg, srcTab)
					} else {
						s.flagKind, s.flagVal = t.pairedFlagInBlock(blk, fg, nil)
					}
					t.judgeStore(s)
				case "copy":
					if !lv.isSlotSlice(x.Call.Args[0].Type()) || t.find(x.Call.Args[0]) != g {
						continue
					}
					n++
					s := &storeSite{ins: x, tab: tab, atoms: t.elemProv(x.Call.Args[1]), flagKind: "none", what: mk("slot-build-copy"), valParam: -1}
					if srcTab, f, ok := t.tableSlice(x.Call.Args[1]); ok && f == lv.fCont {
						s.flagKind = t.pairedSpread(blk, fg, srcTab)
					}
					t.judgeStore(s)
				}
			}
		}
	}
	// other sources of the group (parameters, fields, call results)
	for _, src := range t.gsrc[g] {
		if _, ok := src.(*ssa.MakeSlice); ok {
			continue
		}
		if _, _, ok := t.tableSlice(src); ok {
			continue // handled above as spread sources
		}
		if t.find(src) != g {
			continue
		}
		s := &storeSite{ins: st, tab: tab, atoms: t.sliceSrcProv(src), flagKind: "none", what: mk("slot-build-source"), valParam: -1}
		t.judgeStore(s)
	}
	if n == 0 && len(t.gsrc[g]) == 0 {
		t.e.addSite(&tlSite{rule: "A3", fn: t.fn, ctx: t.ctxS, instr: st, what: mk("slot-table-assign"), status: "violation", note: "containers slice of " + tab + " replaced by a slice of unknown origin"})
	}
}

// findBool: group representative of a flag slice under construction.
func (t *tlFunc) findBool(v ssa.Value) ssa.Value { return t.find(v) }

// pairedFlagInBlock: the flag value appended / stored into the flags slice under construction in blk.
func (t *tlFunc) pairedFlagInBlock(blk *ssa.BasicBlock, fg ssa.Value, idx ssa.Value) (string, ssa.Value) {
	if fg == nil {
		return "none", nil
	}
	for _, y := range blk.Instrs {
		switch x := y.(type) {
		case *ssa.Call:
			if bi, ok := x.Call.Value.(*ssa.Builtin); ok && bi.Name() == "append" && len(x.Call.Args) == 2 {
				if isBoolSlice(x.Type()) && t.findBool(x) == fg {
					if fv := t.variadicSingle(x.Call.Args[1]); fv != nil {
						return flagKindOf(fv)
					}
				}
			}
		case *ssa.Store:
			if ia, ok := x.Addr.(*ssa.IndexAddr); ok && isBoolSlice(ia.X.Type()) && t.findBool(ia.X) == fg && (idx == nil || ia.Index == idx) {
				return flagKindOf(x.Val)
			}
		}
	}
	return "none", nil
}

func (t *tlFunc) pairedSpread(blk *ssa.BasicBlock, fg ssa.Value, srcTab string) string {
	lv := t.e.lv
	if fg == nil {
		return "none"
	}
	for _, y := range blk.Instrs {
		x, ok := y.(*ssa.Call)
		if !ok {
			continue
		}
		bi, ok := x.Call.Value.(*ssa.Builtin)
		if !ok || len(x.Call.Args) != 2 {
			continue
		}
		var dst, src ssa.Value
		switch bi.Name() {
		case "copy":
			dst, src = x.Call.Args[0], x.Call.Args[1]
		case "append":
			dst, src = x, x.Call.Args[1]
		default:
			continue
		}
		if !isBoolSlice(dst.Type()) || t.findBool(dst) != fg {
			continue
		}
		if st, sf, ok := t.tableSlice(src); ok && sf == lv.fFlags && st == srcTab {
			return "paired:" + srcTab
		}
	}
	return "none"
}

func isBoolSlice(t types.Type) bool {
	if s, ok := t.Underlying().(*types.Slice); ok {
		if b, ok := s.Elem().Underlying().(*types.Basic); ok {
			return b.Kind() == types.Bool
		}
	}
	return false
}

// variadicElems: provenance of the elements of the variadic operand of append.
func (t *tlFunc) variadicElems(v ssa.Value) atomSet {
	if sl, ok := v.(*ssa.Slice); ok {
		if al, ok := sl.X.(*ssa.Alloc); ok {
			// SSA: new [1]T; store elements; slice
			out := atomSet{}
			for _, r := range *al.Referrers() {
				if ia, ok := r.(*ssa.IndexAddr); ok {
					for _, rr := range *ia.Referrers() {
						if st, ok := rr.(*ssa.Store); ok {
							out.addAll(t.provOf(st.Val))
						}
					}
				}
			}
			if len(out) > 0 {
				return out
			}
		}
	}
	if c, ok := v.(*ssa.Const); ok && c.IsNil() {
		return atomSet{"nil": atom{k: aNil}}
	}
	return t.elemProv(v)
}

func (t *tlFunc) variadicSingle(v ssa.Value) ssa.Value {
	if sl, ok := v.(*ssa.Slice); ok {
		if al, ok := sl.X.(*ssa.Alloc); ok {
			var vals []ssa.Value
			for _, r := range *al.Referrers() {
				if ia, ok := r.(*ssa.IndexAddr); ok {
					for _, rr := range *ia.Referrers() {
						if st, ok := rr.(*ssa.Store); ok {
							vals = append(vals, st.Val)
						}
					}
				}
			}
			if len(vals) == 1 {
				return vals[0]
			}
		}
	}
	return nil
}

func (t *tlFunc) variadicParam(v ssa.Value) int {
	if x := t.variadicSingle(v); x != nil {
		return t.paramIndex(x)
	}
	return -1
}

// carriedWithIndex: the store writes a loop-carried container back into a loop-carried slot index, and the
// two are only ever replaced together: `idx, c = f(i)` on one branch, `c = c.op(); set(idx, c)` on the other
// (AddMany). Then the container met again in a later iteration still sits in slot idx and nowhere else.
func (t *tlFunc) carriedWithIndex(h *ssa.BasicBlock, s *storeSite) bool {
	hIdx, ok := s.idx.(*ssa.Phi)
	if !ok || hIdx.Block() != h {
		return false
	}
	// header phis of container type whose back-edge values are phis in the same join block as the index's
	for i, pr := range h.Preds {
		if !h.Dominates(pr) {
			continue
		}
		jIdx, ok := hIdx.Edges[i].(*ssa.Phi)
		if !ok {
			if hIdx.Edges[i] == ssa.Value(hIdx) {
				continue // index unchanged on this back edge
			}
			return false
		}
		for _, ins := range h.Instrs {
			hc, isPhi := ins.(*ssa.Phi)
			if !isPhi || hc == hIdx || !t.e.lv.isSlotType(hc.Type()) {
				continue
			}
			jc, ok := hc.Edges[i].(*ssa.Phi)
			if !ok || jc.Block() != jIdx.Block() {
				return false
			}
			for k := range jIdx.Edges {
				if jIdx.Edges[k] == ssa.Value(hIdx) {
					continue // index unchanged: the carried container still belongs to that slot
				}
				for _, a := range t.provOf(jc.Edges[k]) {
					if a.k == aFresh && strings.HasPrefix(a.why, "carried:") {
						return false // the index changes while the old container is kept
					}
				}
			}
		}
	}
	return true
}

// noteMove: containers leave table tab with their flags (which may be false): that is a move, sound only
// if tab is a temporary that nobody reads afterwards. A parameter-rooted source passes the obligation to
// the callers; an exported function moving out of its own parameter is a violation.
func (t *tlFunc) noteMove(tab string, bad *[]string) string {
	pi, _, ok := rootParam(tab)
	if !ok {
		return ""
	}
	if isExportedAPI(t.fn) {
		*bad = append(*bad, fmt.Sprintf("containers are moved out of %s, a table that belongs to the caller and stays in use: both tables then hold them with the source's (possibly false) flag", tab))
		return ""
	}
	for _, m := range t.sum.moves {
		if m == pi {
			return "; the source must be a temporary: obligation moves to the callers"
		}
	}
	t.sum.moves = append(t.sum.moves, pi)
	sort.Ints(t.sum.moves)
	return "; the source must be a temporary: obligation moves to the callers"
}

// apiStore: a call to a function whose summary says it stores one of its parameters into a slot.
func (t *tlFunc) apiStore(ins ssa.Instruction, c *ssa.CallCommon, mk func(string) string) {
	f := t.calleeOf(c)
	if f == nil || !t.e.inScope(f) || f.Blocks == nil {
		return
	}
	args := c.Args
	s := t.e.summary(f, boolCtxArgs(t, f, args))
	for _, k := range s.moves {
		if k >= len(args) {
			continue
		}
		src := t.root(args[k])
		site := &tlSite{rule: "A3", fn: t.fn, ctx: t.ctxS, instr: ins, what: mk("move out of table via " + fname(f))}
		if isLocalRoot(src) || strings.HasPrefix(src, "C:") {
			site.status, site.note = "ok", "source "+src+" is a temporary of this function: it is consumed"
			t.e.addSite(site)
			continue
		}
		var bad []string
		note := t.noteMove(src, &bad)
		if _, _, isParam := rootParam(src); !isParam {
			bad = append(bad, fmt.Sprintf("containers are moved out of %s with their own (possibly false) flags, and nothing shows that table is a temporary", src))
		}
		if len(bad) > 0 {
			site.status, site.note = "violation", strings.Join(bad, "; ")
		} else {
			site.status, site.note = "ok", "source "+src+note
		}
		t.e.addSite(site)
	}
	for _, rq := range s.reqs {
		if rq.tabParam >= len(args) || rq.valParam >= len(args) {
			continue
		}
		site := &storeSite{ins: ins, tab: t.root(args[rq.tabParam]) + rq.tabPath, atoms: t.provOf(args[rq.valParam]), what: mk("slot-store via " + fname(f)), valParam: t.paramIndex(args[rq.valParam])}
		if rq.idxParam >= 0 && rq.idxParam < len(args) {
			site.idx = args[rq.idxParam]
		}
		switch rq.flag {
		case "false", "true", "keep":
			site.flagKind = rq.flag
		case "param":
			if rq.flagParm < len(args) {
				site.flagKind, site.flagVal = flagKindOf(args[rq.flagParm])
			}
		default:
			site.flagKind = "none"
		}
		t.judgeStore(site)
	}
}

// ensured: the copy-on-write flag of slot (tab, idx) is true, or made true, on every path through ins.
func (t *tlFunc) ensured(tab string, idx ssa.Value, ins ssa.Instruction) bool {
	if idx == nil {
		return false
	}
	blk := ins.Block()
	for _, d := range t.fn.Blocks {
		if t.dead[d] || len(d.Instrs) == 0 {
			continue
		}
		ifi, ok := d.Instrs[len(d.Instrs)-1].(*ssa.If)
		if !ok {
			continue
		}
		c := ifi.Cond
		neg := false
		for {
			u, ok := c.(*ssa.UnOp)
			if !ok || u.Op != token.NOT {
				break
			}
			neg = !neg
			c = u.X
		}
		ft, fi, ok := t.flagLoad(c)
		if !ok || ft != tab || fi != idx {
			continue
		}
		// edge on which the flag is already true
		trueEdge := 0
		if neg {
			trueEdge = 1
		}
		if d != blk && dominatedByEdge(d, trueEdge, blk) {
			return true
		}
		// ensure-true diamond: the flag-false edge sets it
		falseSucc := d.Succs[1-trueEdge]
		sets := false
		for _, y := range falseSucc.Instrs {
			switch z := y.(type) {
			case *ssa.Call:
				if f := z.Call.StaticCallee(); f != nil && len(z.Call.Args) == 2 {
					if s := t.e.sums[t.e.sumKey(f, "")]; s != nil && s.flagSet && t.root(z.Call.Args[0]) == tab && z.Call.Args[1] == idx {
						sets = true
					}
				}
			case *ssa.Store:
				if tb2, f2, idx2, ok2 := t.tableElemAddr(z.Addr); ok2 && f2 == t.e.lv.fFlags && tb2 == tab && idx2 == idx {
					if b, ok := constBool(z.Val); ok && b {
						sets = true
					}
				}
			}
		}
		if !sets {
			continue
		}
		if d == blk {
			return true // the store precedes the diamond in the same block
		}
		if d.Dominates(blk) && blk != falseSucc {
			// after the diamond (join or later): both edges leave the flag true
			if !falseSucc.Dominates(blk) {
				return true
			}
		}
		// straight line from the store to the diamond
		cur := blk
		for i := 0; i < 4 && len(cur.Succs) == 1; i++ {
			cur = cur.Succs[0]
			if cur == d {
				return true
			}
		}
	}
	return false
}

func (t *tlFunc) flagTrueAt(s *storeSite) bool {
	switch s.flagKind {
	case "true":
		return true
	case "value":
		if v, ok := t.truth(s.flagVal, s.ins.Block()); ok && v {
			return true
		}
	}
	return false
}

func (t *tlFunc) judgeStore(s *storeSite) {
	site := &tlSite{rule: "A3", fn: t.fn, ctx: t.ctxS, instr: s.ins, what: s.what}
	facts := t.factsAt(s.ins)
	var bad, notes []string
	for _, a := range s.atoms {
		site.atoms = append(site.atoms, a.String())
		if a.k == aFresh && strings.HasPrefix(a.why, "carried:") {
			// a container built once and kept in a variable across iterations: storing it inside that loop puts
			// the same object into several slots
			var hdr int
			fmt.Sscanf(a.why, "carried:%d", &hdr)
			if hdr < len(t.fn.Blocks) {
				h := t.fn.Blocks[hdr]
				sb := s.ins.Block()
				if h.Dominates(sb) && blockReaches(sb, h) && !t.carriedWithIndex(h, s) {
					bad = append(bad, "the stored container was created in an earlier iteration of the enclosing loop and may already sit in another slot: every slot needs its own container (or both flags set)")
					continue
				}
			}
		}
		if t.atomOwned(a, facts) {
			continue
		}
		switch a.k {
		case aSlot:
			if a.tab == s.tab {
				ok := false
				switch {
				case s.flagKind == "keep" && (s.idx == a.idx || a.idx == nil && s.idx == nil):
					ok = true
				case s.flagKind == "value":
					if ft, fi, isLoad := t.flagLoad(s.flagVal); isLoad && ft == a.tab && fi == a.idx && fi != nil {
						ok = true
					}
				case s.flagKind == "paired:"+a.tab:
					ok = true
				case t.flagTrueAt(s):
					ok = true // sharing a container with oneself under a true flag is harmless
				}
				if ok {
					notes = append(notes, "moved inside its table together with its flag")
				} else {
					bad = append(bad, fmt.Sprintf("%s is moved inside its table but the flag stored with it (%s) is not its own flag", a, s.flagDesc()))
				}
				continue
			}
			// another table's container
			switch {
			case s.flagKind == "paired:"+a.tab:
				notes = append(notes, "transferred from "+a.tab+" together with its flag (bulk)"+t.noteMove(a.tab, &bad))
			case s.flagKind == "markall:"+a.tab:
				notes = append(notes, "shared with "+a.tab+"; every flag of both tables is set afterwards")
			case s.flagKind == "value" && func() bool {
				ft, fi, isLoad := t.flagLoad(s.flagVal)
				return isLoad && ft == a.tab && fi == a.idx && fi != nil
			}():
				notes = append(notes, "transferred from "+a.tab+" together with its flag"+t.noteMove(a.tab, &bad))
			case t.flagTrueAt(s) && t.ensured(a.tab, a.idx, s.ins):
				notes = append(notes, "shared with "+a.tab+": destination flag true, source flag ensured true")
			case t.flagTrueAt(s):
				bad = append(bad, fmt.Sprintf("%s is shared with the destination (flag true) but the source flag is not made true", a))
			case isLocalRoot(a.tab):
				bad = append(bad, fmt.Sprintf("%s comes from a local table whose slots are not all owned", a))
			default:
				bad = append(bad, fmt.Sprintf("%s (a container of another table) is stored with flag %s: neither cloned nor flagged on both sides", a, s.flagDesc()))
			}
		case aShared:
			ok := t.flagTrueAt(s)
			if s.flagKind == "value" {
				if ex, isEx := s.flagVal.(*ssa.Extract); isEx && ex.Tuple == ssa.Value(a.call) {
					ok = true
				}
			}
			if ok {
				notes = append(notes, "clone-or-share pair from a certified helper")
			} else {
				bad = append(bad, fmt.Sprintf("%s must be stored with the flag returned by the same helper call", a))
			}
		case aParam:
			// obligation moves to the callers (summary)
			t.addReq(s, a.param)
			notes = append(notes, fmt.Sprintf("stored value is parameter #%d: obligation moves to the callers", a.param))
		default:
			bad = append(bad, a.String())
		}
	}
	sort.Strings(site.atoms)
	if isLocalRoot(s.tab) && len(bad) > 0 || isLocalRoot(s.tab) && hasNonOwnedNote(notes) {
		k := t.fn.String() + t.ctxS + "|" + localBase(s.tab)
		if v, ok := t.e.localOwned[k]; !ok || v {
			t.e.localOwned[k] = false
			t.e.changed = true
		}
	}
	if len(bad) > 0 {
		sort.Strings(bad)
		site.status = "violation"
		site.note = "slot of " + s.tab + ": " + strings.Join(uniq(bad), "; ")
	} else {
		site.status = "ok"
		sort.Strings(notes)
		site.note = strings.Join(uniq(notes), "; ")
	}
	t.e.addSite(site)
}

func hasNonOwnedNote(notes []string) bool {
	for _, n := range notes {
		if strings.HasPrefix(n, "shared with") || strings.HasPrefix(n, "transferred") || strings.HasPrefix(n, "clone-or-share") || strings.HasPrefix(n, "stored value is parameter") {
			return true
		}
	}
	return false
}

func (s *storeSite) flagDesc() string {
	switch s.flagKind {
	case "value":
		if s.flagVal != nil {
			return "value " + s.flagVal.Name()
		}
	}
	return s.flagKind
}

func (t *tlFunc) addReq(s *storeSite, param int) {
	pi, path, ok := rootParam(s.tab)
	rq := storeReq{tabParam: pi, tabPath: path, valParam: param, idxParam: -1, flag: s.flagKind, pos: t.e.p.ipos(s.ins)}
	if !ok {
		// stored into a table that is not a parameter of this function: judged here as borrowed
		rq.tabParam = -1
	}
	if s.idx != nil {
		rq.idxParam = t.paramIndex(s.idx)
	}
	switch s.flagKind {
	case "value":
		if fp := t.paramIndex(s.flagVal); fp >= 0 {
			rq.flag, rq.flagParm = "param", fp
		} else {
			rq.flag = "other"
		}
	case "none":
		rq.flag = "other"
	}
	if rq.tabParam < 0 {
		return
	}
	for _, o := range t.sum.reqs {
		if o == rq {
			return
		}
	}
	t.sum.reqs = append(t.sum.reqs, rq)
}

// ---- which tables may change content ----

// collectMutTab records every table (by root) whose content cells (keys / containers / the
// payload of containers it owns) this function may change: raw stores and builtin copy/append on
// its slices, write-through calls whose receiver is a slot or gate result of the table, and calls
// to functions that do any of this to a table parameter. Flags (needCopyOnWrite) are book-keeping
// and are not recorded.
func (t *tlFunc) collectMutTab() {
	lv := t.e.lv
	mt := map[string]string{}
	add := func(tab, why string) {
		if isLocalRoot(tab) || t.rootLocal(tab) {
			return
		}
		if len(why) > 400 {
			why = why[:400] + " …"
		}
		if _, ok := mt[tab]; !ok {
			mt[tab] = why
		}
	}
	pos := func(i ssa.Instruction) string { return t.e.p.ipos(i) }
	for _, b := range t.fn.Blocks {
		if t.dead[b] {
			continue
		}
		for _, ins := range b.Instrs {
			switch x := ins.(type) {
			case *ssa.Store:
				if tab, f, _, ok := t.tableElemAddr(x.Addr); ok && (f == lv.fCont || f == lv.fKeys) {
					add(tab, "store @"+pos(x))
				}
				if tab, f, ok := t.tableFieldAddr(x.Addr); ok && (f == lv.fCont || f == lv.fKeys) {
					// the header of a by-value copy held in a local variable is private to this function
					if _, isLocalCopy := x.Addr.(*ssa.FieldAddr).X.(*ssa.Alloc); !isLocalCopy {
						add(tab, "store @"+pos(x))
					}
				}
				// whole-struct store *ra = ... (a store into a local variable only initialises the local copy)
				if pt, ok := x.Addr.Type().Underlying().(*types.Pointer); ok && lv.isTableStruct(pt.Elem()) {
					if _, isLocal := x.Addr.(*ssa.Alloc); !isLocal {
						add(t.root(x.Addr), "struct store @"+pos(x))
					}
				}
			case *ssa.Call, *ssa.Go, *ssa.Defer:
				var c *ssa.CallCommon
				switch y := ins.(type) {
				case *ssa.Call:
					c = &y.Call
				case *ssa.Go:
					c = &y.Call
				case *ssa.Defer:
					c = &y.Call
				}
				if bi, ok := c.Value.(*ssa.Builtin); ok {
					if bi.Name() == "copy" || bi.Name() == "clear" {
						if tab, f, ok := t.tableSlice(c.Args[0]); ok && (f == lv.fCont || f == lv.fKeys) {
							add(tab, bi.Name()+" @"+pos(ins))
						}
					}
					continue
				}
				callees, args := t.callTargets(c)
				// write-through on a container that belongs to a table
				for ai, a := range args {
					if !lv.isSlotType(a.Type()) {
						continue
					}
					writes := false
					for _, f := range callees {
						if w, _, _ := t.e.slotArgWritten(f, ai); w {
							writes = true
						}
					}
					if !writes {
						continue
					}
					for _, at := range t.provOf(a) {
						if (at.k == aSlot || at.k == aGate) && at.tab != "" {
							add(at.tab, "write-through "+calleeName(c)+" @"+pos(ins))
						}
					}
				}
				// callee summaries
				for _, f := range callees {
					if c.IsInvoke() || !inRepo(f) || f.Blocks == nil {
						continue
					}
					if !t.e.inScope(f) {
						// a function of the lower level (32-bit API): its level-32 summary tells which of its table parameters change
						if t.e.base != nil && t.e.lv.name == "B32" && t.e.base.inScope(f) {
							if s := t.e.base.sums[t.e.base.sumKey(f, "")]; s != nil {
								for tab, w := range s.mutTab {
									if mapped, ok := substRoot(tab, func(k int) (string, bool) {
										if k < len(args) {
											return t.root(args[k]), true
										}
										return "", false
									}); ok {
										add(mapped, fname(f)+" @"+pos(ins)+" -> "+w)
									}
								}
							}
						}
						continue
					}
					if t.e.isKernelFn(f) {
						continue
					}
					// correlated phi arguments (prefix / owned chosen together on each incoming edge) are split per edge
					for _, eargs := range expandPhiArgs(args) {
						s := t.e.summary(f, boolCtxArgs(t, f, eargs))
						for tab, w := range s.mutTab {
							mapped, _ := substRoot(tab, func(k int) (string, bool) {
								if k < len(eargs) {
									return t.root(eargs[k]), true
								}
								return "", false
							})
							if mc, isMC := c.Value.(*ssa.MakeClosure); isMC {
								mapped = t.mapFreeVars(mapped, f, mc.Bindings)
							}
							add(mapped, fname(f)+" @"+pos(ins)+" -> "+w)
						}
					}
				}
				// closures created here may run later: attribute their effects on captured tables now
			case *ssa.MakeClosure:
				cf := x.Fn.(*ssa.Function)
				s := t.e.summary(cf, nil)
				for tab, w := range s.mutTab {
					mapped := t.mapFreeVars(tab, cf, x.Bindings)
					if _, _, isParam := rootParam(mapped); isParam && !strings.HasPrefix(tab, "P") || !isParam {
						add(mapped, fname(cf)+" -> "+w)
					}
				}
			}
		}
	}
	t.sum.mutTab = mt
}

// ---- summary extraction ----

func (t *tlFunc) extractSummary() {
	lv := t.e.lv
	f := t.fn
	sum := t.sum
	nres := f.Signature.Results().Len()
	sum.ret = make([][]retAtom, nres)
	var rets []*ssa.Return
	for _, b := range f.Blocks {
		if t.dead[b] || len(b.Instrs) == 0 {
			continue
		}
		if r, ok := b.Instrs[len(b.Instrs)-1].(*ssa.Return); ok {
			rets = append(rets, r)
		}
	}
	// certified (container, flag) pair
	pairOK := nres == 2 && lv.isSlotType(f.Signature.Results().At(0).Type()) && types.Identical(f.Signature.Results().At(1).Type(), types.Typ[types.Bool])
	for ri := 0; ri < nres; ri++ {
		if !lv.isSlotType(f.Signature.Results().At(ri).Type()) {
			continue
		}
		seen := map[string]bool{}
		add := func(ra retAtom) {
			k := fmt.Sprint(ra)
			if !seen[k] {
				seen[k] = true
				sum.ret[ri] = append(sum.ret[ri], ra)
			}
		}
		for _, r := range rets {
			facts := t.factsAt(r)
			for _, a := range t.provOf(r.Results[ri]) {
				switch {
				case a.k == aFresh || a.k == aGate || a.k == aNil:
					add(retAtom{k: a.k})
				case a.k == aSlot && t.atomOwned(a, facts):
					add(retAtom{k: aGate})
				case a.k == aSlot || a.k == aShared:
					pi, path, ok := rootParam(a.tab)
					if !ok {
						add(retAtom{k: aUnknown, why: fmt.Sprintf("%s returned by %s", a, fname(f))})
						continue
					}
					ra := retAtom{k: aSlot, tabParam: pi, tabPath: path, idxParam: -1}
					if a.idx != nil {
						ra.idxParam = t.paramIndex(a.idx)
					}
					if pairOK && ri == 0 {
						// borrowed container returned with its flag: certified if flag result is true and the source flag is ensured
						if b, isC := constBool(r.Results[1]); isC && b && t.ensured(a.tab, a.idx, r) {
							ra.k = aShared
						}
					}
					add(ra)
				case a.k == aParam:
					add(retAtom{k: aParam, param: a.param})
				default:
					add(retAtom{k: aUnknown, why: a.why})
				}
			}
		}
		sort.Slice(sum.ret[ri], func(i, j int) bool { return fmt.Sprint(sum.ret[ri][i]) < fmt.Sprint(sum.ret[ri][j]) })
	}
	if pairOK {
		sum.pair = [2]int{0, 1}
	}
	// tables the returned pointers may denote
	sum.retTab = make([][]string, nres)
	for ri := 0; ri < nres; ri++ {
		if _, isPtr := f.Signature.Results().At(ri).Type().Underlying().(*types.Pointer); !isPtr {
			continue
		}
		set := map[string]bool{}
		for _, r := range rets {
			root := t.root(r.Results[ri])
			var parts []string
			if strings.HasPrefix(root, "phi(") {
				parts = splitPhi(root)
			} else {
				parts = []string{root}
			}
			for _, pr := range parts {
				switch {
				case pr == "nil" || pr == "phi":
				case isLocalRoot(pr) || t.rootLocal(pr):
					set["L"] = true
				default:
					set[pr] = true
				}
			}
		}
		for k := range set {
			sum.retTab[ri] = append(sum.retTab[ri], k)
		}
		sort.Strings(sum.retTab[ri])
	}
	// facts established on every return
	if len(rets) > 0 {
		var acc factSet
		for _, r := range rets {
			fs := t.factsAt(r)
			if acc == nil {
				acc = fs.clone()
			} else {
				for k := range acc {
					if !fs[k] {
						delete(acc, k)
					}
				}
			}
		}
		var ents [][3]string
		for k := range acc {
			pi, path, ok := rootParam(k.tab)
			ip := t.paramIndex(k.idx)
			if ok && ip >= 0 {
				ents = append(ents, [3]string{fmt.Sprint(pi), path, fmt.Sprint(ip)})
			}
		}
		sort.Slice(ents, func(i, j int) bool { return fmt.Sprint(ents[i]) < fmt.Sprint(ents[j]) })
		for _, en := range ents {
			var pi, ip int
			fmt.Sscan(en[0], &pi)
			fmt.Sscan(en[2], &ip)
			sum.establish = append(sum.establish, [2]int{pi, ip})
			sum.estPaths = append(sum.estPaths, en[1])
		}
	}
	sort.Slice(sum.reqs, func(i, j int) bool { return fmt.Sprint(sum.reqs[i]) < fmt.Sprint(sum.reqs[j]) })
}

// ---- reporting ----

func (e *tlEngine) report(rule string, res *RuleResult) {
	keys := append([]string{}, e.order...)
	sort.Strings(keys)
	for _, k := range keys {
		s := e.sites[k]
		if s == nil || s.rule != rule {
			continue
		}
		construct := fname(s.fn) + s.ctx + "|" + s.what
		pos := e.p.ipos(s.instr)
		if s.status == "ok" {
			note := s.note
			if len(s.atoms) > 0 {
				note = strings.TrimSpace(note + " [" + strings.Join(uniq(s.atoms), ",") + "]")
			}
			res.ok(construct, pos, note)
		} else {
			res.bad(construct, pos, s.note)
		}
	}
}

// splitPhi splits "phi(a,b,phi(c,d))" into its leaves.
func splitPhi(s string) []string {
	s = strings.TrimSuffix(strings.TrimPrefix(s, "phi("), ")")
	var out []string
	depth, start := 0, 0
	for i, r := range s {
		switch r {
		case '(':
			depth++
		case ')':
			depth--
		case ',':
			if depth == 0 {
				out = append(out, s[start:i])
				start = i + 1
			}
		}
	}
	out = append(out, s[start:])
	var flat []string
	for _, o := range out {
		if strings.HasPrefix(o, "phi(") {
			flat = append(flat, splitPhi(o)...)
		} else {
			flat = append(flat, o)
		}
	}
	return flat
}

// expandPhiArgs: when several arguments are phis of one block, the call is analysed once per
// incoming edge with each phi replaced by its value on that edge (the values are chosen together).
func expandPhiArgs(args []ssa.Value) [][]ssa.Value {
	var blk *ssa.BasicBlock
	n := 0
	for _, a := range args {
		if ph, ok := a.(*ssa.Phi); ok {
			if blk == nil {
				blk = ph.Block()
			}
			if ph.Block() == blk {
				n++
			}
		}
	}
	if n < 2 || blk == nil || len(blk.Preds) > 6 {
		return [][]ssa.Value{args}
	}
	var out [][]ssa.Value
	for k := range blk.Preds {
		e := make([]ssa.Value, len(args))
		for i, a := range args {
			e[i] = a
			if ph, ok := a.(*ssa.Phi); ok && ph.Block() == blk {
				e[i] = ph.Edges[k]
			}
		}
		out = append(out, e)
	}
	return out
}

// mapFreeVars rewrites a closure-relative root: FV<k> is the k-th binding; a binding that is the
// address of a local variable holding a pointer makes M(FV<k>) the value stored in that variable.
func (t *tlFunc) mapFreeVars(tab string, cf *ssa.Function, bindings []ssa.Value) string {
	for k := range cf.FreeVars {
		if k >= len(bindings) {
			break
		}
		tok := fmt.Sprintf("FV%d", k)
		if !strings.Contains(tab, tok) {
			continue
		}
		b := bindings[k]
		if al, ok := b.(*ssa.Alloc); ok {
			var stored []string
			for _, r := range *al.Referrers() {
				if st, ok := r.(*ssa.Store); ok && st.Addr == al {
					stored = append(stored, t.root(st.Val))
				}
			}
			if len(stored) == 1 {
				tab = strings.ReplaceAll(tab, "M("+tok+")", stored[0])
			}
		}
		tab = strings.ReplaceAll(tab, tok, t.root(b))
	}
	return tab
}
