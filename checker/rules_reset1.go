package main

import (
	"fmt"
	"go/token"
	"go/types"
	"regexp"
	"sort"

	"golang.org/x/tools/go/ssa"
)

// RESET1 — a decoder does not build on what its receiver held before.
//
// A decoder that writes elements into a slice field of its receiver (recv.F[i] = x)
// must first have given that field a length taken from the stream in the same call:
// a store of a fresh or re-sliced value into recv.F that dominates the element
// store. Otherwise the elements beyond what the stream supplies survive from the
// receiver's previous contents (a wider index read over by a narrower one keeps
// its upper planes — one of them then sits where the sign plane is expected).
func init() {
	register("RESET1", "a decoder (ReadFrom, UnmarshalBinary, From*Buffer*, FrozenView ...) that stores into an element of a slice field of its receiver, or appends to the field's own value, has, on every path to that store, assigned the field itself in the same call (a fresh slice, a re-slice with an explicit length, or the result of a call): the length of a decoded table comes from the stream, never from what the receiver held before — leftovers of the previous contents would survive behind the decoded part", ruleRESET1)
}

var decoderName = regexp.MustCompile(`^(ReadFrom|readFrom|readFromMsgpack|UnmarshalBinary|FromBuffer|FromUnsafeBytes|FromBase64|FromDense|FrozenView|frozenView|FromDenseBitSet)$`)

func ruleRESET1(p *Prog) *RuleResult {
	res := newResult("RESET1", ruleDoc["RESET1"], 3)
	fns := append([]*ssa.Function(nil), p.sourceFns()...)
	sort.Slice(fns, func(i, j int) bool { return fname(fns[i]) < fname(fns[j]) })
	for _, f := range fns {
		if f.Signature.Recv() == nil || len(f.Params) == 0 || !decoderName.MatchString(f.Name()) {
			continue
		}
		recv := f.Params[0]
		// a decoder of a stream (some parameter is an interface: io.Reader, internal.ByteInput) defines the
		// whole receiver; UnmarshalBinary([][]byte) of the two BSIs is a documented partial update (empty
		// entries keep the receiver's plane, planes are added on demand) and is held to the first clause only
		fromStream := false
		for _, prm := range f.Params[1:] {
			if _, ok := prm.Type().Underlying().(*types.Interface); ok {
				fromStream = true
			}
		}
		rooted := func(v ssa.Value) bool {
			for d := 0; d < 6; d++ {
				switch x := v.(type) {
				case *ssa.FieldAddr:
					v = x.X
				case *ssa.UnOp:
					if x.Op != token.MUL {
						return false
					}
					v = x.X
				case *ssa.Parameter:
					return x == recv
				default:
					return false
				}
			}
			return false
		}
		// field stores: recv.F = v
		type fs struct {
			st *ssa.Store
			fa *ssa.FieldAddr
		}
		var fstores []fs
		for _, b := range f.Blocks {
			for _, ins := range b.Instrs {
				if st, ok := ins.(*ssa.Store); ok {
					if fa, ok := st.Addr.(*ssa.FieldAddr); ok && rooted(fa) {
						fstores = append(fstores, fs{st, fa})
					}
				}
			}
		}
		n := 0
		for _, b := range f.Blocks {
			for _, ins := range b.Instrs {
				st, ok := ins.(*ssa.Store)
				if !ok {
					continue
				}
				var fa *ssa.FieldAddr
				kind := ""
				if ia, ok := st.Addr.(*ssa.IndexAddr); ok {
					if ld, ok := ia.X.(*ssa.UnOp); ok && ld.Op == token.MUL {
						if x, ok := ld.X.(*ssa.FieldAddr); ok && rooted(x) {
							fa, kind = x, "element store into"
						}
					}
				} else if x, ok := st.Addr.(*ssa.FieldAddr); ok && rooted(x) && fromStream {
					// recv.F = append(recv.F, ...)
					if c, ok := st.Val.(*ssa.Call); ok {
						if bi, ok := c.Call.Value.(*ssa.Builtin); ok && bi.Name() == "append" && len(c.Call.Args) > 0 {
							if ld, ok := c.Call.Args[0].(*ssa.UnOp); ok && ld.Op == token.MUL && sameAccessPath(ld.X, x, 0) {
								fa, kind = x, "append to"
							}
						}
					}
				}
				if fa == nil {
					continue
				}
				n++
				cn := fmt.Sprintf("%s|%s receiver field %s#%d", fname(f), kind, fieldName(fa.X.Type(), fa.Field), n)
				okk := false
				blocked := map[*ssa.BasicBlock]bool{}
				for _, s := range fstores {
					if !sameAccessPath(s.fa, fa, 0) || !lengthGiving(s.st.Val, fa) {
						continue
					}
					if s.st.Block() == st.Block() {
						if instrIndex(s.st) < instrIndex(st) {
							okk = true
						}
						continue
					}
					blocked[s.st.Block()] = true
				}
				// a helper called on the receiver that gives the field its length on each of its own paths
				// (ra.setLengthForRead(n)) stands for the assignment
				for _, hb := range f.Blocks {
					for _, hi := range hb.Instrs {
						c, ok := hi.(*ssa.Call)
						if !ok {
							continue
						}
						g := c.Call.StaticCallee()
						if g == nil || g.Blocks == nil || len(g.Params) == 0 || len(c.Call.Args) == 0 || c.Call.Args[0] != ssa.Value(recv) || fa.X != ssa.Value(recv) {
							continue
						}
						if !helperSizesField(g, fa.Field) {
							continue
						}
						if hb == st.Block() {
							if instrIndex(c) < instrIndex(st) {
								okk = true
							}
							continue
						}
						blocked[hb] = true
					}
				}
				if !okk {
					// must-pass-through: no path from the entry reaches the element store around every such assignment
					seen := map[*ssa.BasicBlock]bool{}
					work := []*ssa.BasicBlock{}
					if !blocked[f.Blocks[0]] {
						work = append(work, f.Blocks[0])
						seen[f.Blocks[0]] = true
					}
					reached := false
					for len(work) > 0 {
						b := work[len(work)-1]
						work = work[:len(work)-1]
						if b == st.Block() {
							reached = true
							break
						}
						for _, nb := range b.Succs {
							if !seen[nb] && !blocked[nb] {
								seen[nb] = true
								work = append(work, nb)
							}
						}
					}
					okk = !reached
				}
				if okk {
					res.ok(cn, p.ipos(st), "the field was assigned a slice with a length of this call's choosing on every path to the store")
				} else {
					res.bad(cn, p.ipos(st), "a decoder writes an element of / appends to a receiver slice without the field having been given its length in this call on every path: what the receiver held beyond the decoded part survives")
				}
			}
		}
	}
	return res
}

// lengthGiving: v is a slice whose length this call chose — made here, re-sliced with an
// explicit upper bound, or computed by a call (a helper that sizes it); an append to the
// field's own previous value keeps whatever was there and does not count.
func lengthGiving(v ssa.Value, fa *ssa.FieldAddr) bool {
	switch x := v.(type) {
	case *ssa.MakeSlice:
		return true
	case *ssa.Slice:
		return x.High != nil
	case *ssa.Call:
		if b, ok := x.Call.Value.(*ssa.Builtin); ok && b.Name() == "append" {
			return false
		}
		return true
	case *ssa.Const:
		return true // nil
	}
	return false
}

// helperSizesField: every path from g's entry to a return passes a length-giving store to field fld of g's receiver
func helperSizesField(g *ssa.Function, fld int) bool {
	recv := g.Params[0]
	blocked := map[*ssa.BasicBlock]bool{}
	for _, b := range g.Blocks {
		for _, ins := range b.Instrs {
			if st, ok := ins.(*ssa.Store); ok {
				if fa, ok := st.Addr.(*ssa.FieldAddr); ok && fa.X == ssa.Value(recv) && fa.Field == fld && lengthGiving(st.Val, fa) {
					blocked[b] = true
				}
			}
		}
	}
	if len(blocked) == 0 {
		return false
	}
	seen := map[*ssa.BasicBlock]bool{g.Blocks[0]: true}
	work := []*ssa.BasicBlock{g.Blocks[0]}
	for len(work) > 0 {
		b := work[len(work)-1]
		work = work[:len(work)-1]
		if blocked[b] {
			continue
		}
		if _, ok := b.Instrs[len(b.Instrs)-1].(*ssa.Return); ok {
			return false
		}
		for _, s := range b.Succs {
			if !seen[s] {
				seen[s] = true
				work = append(work, s)
			}
		}
	}
	return true
}
