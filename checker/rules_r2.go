package main

import (
	"fmt"
	"go/token"
	"go/types"
	"sort"

	"golang.org/x/tools/go/ssa"
)

func init() {
	register("R2", "a reusable iterator is rewound by Initialize: every cursor field of the iterator — an integer field that one of its methods steps (f++, f--, f += k) — is assigned on every path through Initialize. A cursor left where the previous traversal stopped makes the second use of the documented, exported iterator types skip or repeat chunks", ruleR2)
}

func ruleR2(p *Prog) *RuleResult {
	res := newResult("R2", ruleDoc["R2"], 7)
	fns := append([]*ssa.Function(nil), p.sourceFns()...)
	sort.Slice(fns, func(i, j int) bool { return fname(fns[i]) < fname(fns[j]) })
	recvStruct := func(f *ssa.Function) (*types.Named, *types.Struct) {
		if f.Signature.Recv() == nil {
			return nil, nil
		}
		pt, ok := f.Signature.Recv().Type().(*types.Pointer)
		if !ok {
			return nil, nil
		}
		nt, ok := pt.Elem().(*types.Named)
		if !ok {
			return nil, nil
		}
		st, ok := nt.Underlying().(*types.Struct)
		if !ok {
			return nil, nil
		}
		return nt, st
	}
	// stepped fields per receiver type
	stepped := map[*types.Named]map[int]string{}
	for _, f := range fns {
		nt, _ := recvStruct(f)
		if nt == nil || f.Blocks == nil {
			continue
		}
		for _, b := range f.Blocks {
			for _, ins := range b.Instrs {
				st, ok := ins.(*ssa.Store)
				if !ok {
					continue
				}
				fa, ok := st.Addr.(*ssa.FieldAddr)
				if !ok || fa.X != ssa.Value(f.Params[0]) {
					continue
				}
				bo, ok := st.Val.(*ssa.BinOp)
				if !ok || (bo.Op != token.ADD && bo.Op != token.SUB) {
					continue
				}
				ld, ok := bo.X.(*ssa.UnOp)
				if !ok {
					continue
				}
				fa2, ok := ld.X.(*ssa.FieldAddr)
				if !ok || fa2.X != fa.X || fa2.Field != fa.Field {
					continue
				}
				if _, isC := constIntVal(bo.Y); !isC {
					continue
				}
				if stepped[nt] == nil {
					stepped[nt] = map[int]string{}
				}
				stepped[nt][fa.Field] = fname(f)
			}
		}
	}
	// must-assign on every path to a return: a store in a block dominating every return block, or a
	// call (dominating every return) of a method on the same receiver that must-assigns
	var mustAssign func(f *ssa.Function, field int, depth int) bool
	mustAssign = func(f *ssa.Function, field int, depth int) bool {
		if f.Blocks == nil || depth > 3 {
			return false
		}
		var rets []*ssa.BasicBlock
		for _, b := range f.Blocks {
			if _, ok := b.Instrs[len(b.Instrs)-1].(*ssa.Return); ok {
				rets = append(rets, b)
			}
		}
		domAll := func(b *ssa.BasicBlock) bool {
			for _, r := range rets {
				if !b.Dominates(r) {
					return false
				}
			}
			return len(rets) > 0
		}
		for _, b := range f.Blocks {
			if !domAll(b) {
				continue
			}
			for _, ins := range b.Instrs {
				switch x := ins.(type) {
				case *ssa.Store:
					if fa, ok := x.Addr.(*ssa.FieldAddr); ok && fa.X == ssa.Value(f.Params[0]) && fa.Field == field {
						return true
					}
					// whole struct assignment *ii = T{...}
					if x.Addr == ssa.Value(f.Params[0]) {
						return true
					}
				case *ssa.Call:
					if g := x.Call.StaticCallee(); g != nil && len(x.Call.Args) > 0 && x.Call.Args[0] == ssa.Value(f.Params[0]) && g.Signature.Recv() != nil && mustAssign(g, field, depth+1) {
						return true
					}
				}
			}
		}
		return false
	}
	for _, f := range fns {
		if f.Name() != "Initialize" || f.Blocks == nil {
			continue
		}
		nt, st := recvStruct(f)
		if nt == nil {
			continue
		}
		var fields []int
		for k := range stepped[nt] {
			fields = append(fields, k)
		}
		sort.Ints(fields)
		if len(fields) == 0 {
			res.ok(fname(f)+"|no stepped cursor field", p.pos(f.Pos()), "nothing to rewind")
			continue
		}
		// the cursor fields that the set-up code started by Initialize consults (init() positions the
		// iterator from pos / containerIndex / nextKey); a stepped field that set-up only writes is
		// derived state, re-established by it
		loaded := map[int]bool{}
		var scan func(g *ssa.Function, depth int)
		scan = func(g *ssa.Function, depth int) {
			if g.Blocks == nil || depth > 2 {
				return
			}
			for _, b := range g.Blocks {
				for _, ins := range b.Instrs {
					switch x := ins.(type) {
					case *ssa.UnOp:
						if fa, ok := x.X.(*ssa.FieldAddr); ok && fa.X == ssa.Value(g.Params[0]) && g != f {
							loaded[fa.Field] = true
						}
					case *ssa.Call:
						if h := x.Call.StaticCallee(); h != nil && h.Signature.Recv() != nil && len(x.Call.Args) > 0 && x.Call.Args[0] == ssa.Value(g.Params[0]) {
							scan(h, depth+1)
						}
					}
				}
			}
		}
		scan(f, 0)
		for _, k := range fields {
			if !loaded[k] {
				res.ok(fmt.Sprintf("%s|%s is derived state", fname(f), st.Field(k).Name()), p.pos(f.Pos()), "the set-up code only writes it")
				continue
			}
			c := fmt.Sprintf("%s|rewinds %s", fname(f), st.Field(k).Name())
			if mustAssign(f, k, 0) {
				res.ok(c, p.pos(f.Pos()), "assigned on every path (stepped by "+stepped[nt][k]+")")
			} else {
				res.bad(c, p.pos(f.Pos()), fmt.Sprintf("the cursor field %s (stepped by %s) is not assigned on every path through Initialize: a second Initialize of a used iterator starts where the previous traversal stopped", st.Field(k).Name(), stepped[nt][k]))
			}
		}
	}
	// embedded cursors: a set-up function that re-aims an embedded sub-iterator (ii.runIter, ii.shortIter ...)
	// either overwrites it as a whole or assigns every field of it that its own methods step
	for _, f := range fns {
		nt, st := recvStruct(f)
		if nt == nil || f.Blocks == nil || len(stepped[nt]) == 0 {
			continue // only types that are cursors themselves
		}
		type acc struct {
			whole  bool
			fields map[int]bool
			pos    ssa.Instruction
		}
		emb := map[int]*acc{}
		for _, b := range f.Blocks {
			for _, ins := range b.Instrs {
				sto, ok := ins.(*ssa.Store)
				if !ok {
					continue
				}
				fa, ok := sto.Addr.(*ssa.FieldAddr)
				if !ok {
					continue
				}
				// whole: &recv.E <- struct
				if fa.X == ssa.Value(f.Params[0]) {
					if ent, ok := st.Field(fa.Field).Type().(*types.Named); ok && len(stepped[ent]) > 0 {
						a := emb[fa.Field]
						if a == nil {
							a = &acc{fields: map[int]bool{}, pos: sto}
							emb[fa.Field] = a
						}
						a.whole = true
					}
					continue
				}
				// field of an embedded cursor: &(&recv.E).f <- v
				if outer, ok := fa.X.(*ssa.FieldAddr); ok && outer.X == ssa.Value(f.Params[0]) {
					if ent, ok := st.Field(outer.Field).Type().(*types.Named); ok && len(stepped[ent]) > 0 {
						a := emb[outer.Field]
						if a == nil {
							a = &acc{fields: map[int]bool{}, pos: sto}
							emb[outer.Field] = a
						}
						a.fields[fa.Field] = true
					}
				}
			}
		}
		var ks []int
		for k := range emb {
			ks = append(ks, k)
		}
		sort.Ints(ks)
		for _, k := range ks {
			a := emb[k]
			if a.whole && len(a.fields) == 0 {
				res.ok(fmt.Sprintf("%s|re-aims %s", fname(f), st.Field(k).Name()), p.ipos(a.pos), "overwritten as a whole")
				continue
			}
			// does this function only step the embedded cursor (x.E.f++ in Next)? then it is not a set-up
			ent := st.Field(k).Type().(*types.Named)
			est := ent.Underlying().(*types.Struct)
			setsNonStepped := false
			for fi := range a.fields {
				if _, isStep := stepped[ent][fi]; !isStep {
					setsNonStepped = true
				}
			}
			if !setsNonStepped && !a.whole {
				continue
			}
			var missing []string
			for fi := range stepped[ent] {
				if !a.fields[fi] && !a.whole {
					missing = append(missing, est.Field(fi).Name())
				}
			}
			sort.Strings(missing)
			c := fmt.Sprintf("%s|re-aims %s", fname(f), st.Field(k).Name())
			if len(missing) > 0 {
				res.bad(c, p.ipos(a.pos), fmt.Sprintf("the embedded cursor %s is pointed at a new container field by field, but its stepped field(s) %v keep the position reached in the previous container", st.Field(k).Name(), missing))
			} else {
				res.ok(c, p.ipos(a.pos), "every stepped field assigned")
			}
		}
	}
	return res
}
