package main

import (
	"fmt"
	"go/constant"
	"go/token"
	"go/types"
	"sort"
	"strings"

	"golang.org/x/tools/go/ssa"
)

func init() {
	register("L1", "format constants equal the published specifications (RoaringFormatSpec, CRoaring frozen layout), and the readers accept exactly up to 65536 containers", ruleL1)
	register("L2", "offset-header predicate: size prediction, writer and reader agree with the spec 'offsets present iff no-run cookie or at least 4 containers' on the whole truth table RUN x N in [0,8]", ruleL2)
	register("L5", "payload sizes agree four ways per kind: predicted size == bytes written == offset-header increment == bytes the reader consumes", ruleL5)
	register("L6", "byte order: every multi-byte field of the formats is little-endian (the only big-endian use is the endianness probe of the frozen reader)", ruleL6)
	register("L7", "BoundSerializedSizeInBytes uses the documented constants (65536 values per chunk, 8 bytes + 1 bit of header per chunk, 2 bytes per value)", ruleL7)
}

// Spec constants, with their source.
var specConstants = []struct {
	pkg, name string
	val       int64
	src       string
}{
	{"roaring", "serialCookie", 12347, "RoaringFormatSpec: cookie of streams that may contain run containers"},
	{"roaring", "serialCookieNoRunContainer", 12346, "RoaringFormatSpec: cookie of streams without run containers"},
	{"roaring", "noOffsetThreshold", 4, "RoaringFormatSpec: offset header omitted only with the run cookie and fewer than 4 containers"},
	{"roaring", "arrayDefaultMaxSize", 4096, "RoaringFormatSpec: array containers hold at most 4096 values"},
	{"roaring", "maxCapacity", 65536, "RoaringFormatSpec: 2^16 values per chunk"},
	{"roaring", "frozenCookie", 13766, "CRoaring roaring.c FROZEN_COOKIE"},
	{"roaring", "invalidCardinality", -1, "sentinel of the lazy kernels"},
	{"roaring", "MaxUint16", 65535, ""},
	{"roaring", "baseRc16Size", 2, "RoaringFormatSpec: run container = uint16 count ..."},
	{"roaring", "perIntervalRc16Size", 4, "... followed by (start, length-1) pairs of uint16"},
}

func ruleL1(p *Prog) *RuleResult {
	res := newResult("L1", ruleDoc["L1"], 10)
	for _, sc := range specConstants {
		c := p.Const(sc.pkg, sc.name)
		key := sc.pkg + "." + sc.name
		if c == nil {
			res.undecided(key, "-", "constant not found")
			continue
		}
		v, ok := constant.Int64Val(constant.ToInt(c.Val()))
		if !ok || v != sc.val {
			res.bad(key, p.pos(c.Pos()), fmt.Sprintf("%s = %s, the specification says %d (%s)", key, c.Val().ExactString(), sc.val, sc.src))
		} else {
			res.ok(key, p.pos(c.Pos()), fmt.Sprintf("= %d", sc.val))
		}
	}
	// readers accept exactly N <= 65536 containers
	for _, fn := range []string{"(*roaring.roaringArray).readFrom", "(*roaring.roaringArray).frozenView"} {
		f := p.Func(fn)
		if f == nil {
			res.undecided(fn+"|container count", "-", "anchor not found")
			continue
		}
		found, exact := false, false
		for _, g := range append([]*ssa.Function{f}, forwardedCheckers(f)...) {
			g := g
			forEachBinOp(g, func(bo *ssa.BinOp) bool {
				if c, ok := constIntVal(bo.Y); ok && (c == 65536 || c == 65535 || c == 65537) && (bo.Op == token.GTR || bo.Op == token.GEQ) && failsOn(g, bo, true) {
					found = true
					if (bo.Op == token.GTR && c == 65536) || (bo.Op == token.GEQ && c == 65537) {
						exact = true
					}
				}
				return false
			})
		}
		switch {
		case !found:
			res.bad(fn+"|container count", p.pos(f.Pos()), "no test rejecting more than 65536 containers")
		case !exact:
			res.bad(fn+"|container count", p.pos(f.Pos()), "the reader rejects a stream with exactly 65536 containers, which the writers can produce")
		default:
			res.ok(fn+"|container count", p.pos(f.Pos()), "rejects N > 65536, accepts N = 65536")
		}
	}
	// frozen header: 15-bit cookie, count above it
	for _, fn := range []string{"(*roaring.roaringArray).frozenView", "(*roaring.Bitmap).FreezeTo", "(*roaring.Bitmap).WriteFrozenTo"} {
		f := p.Func(fn)
		if f == nil {
			res.undecided(fn+"|header", "-", "anchor not found")
			continue
		}
		shift15, mask := false, false
		forEachBinOp(f, func(bo *ssa.BinOp) bool {
			if (bo.Op == token.SHL || bo.Op == token.SHR) && isConstInt(bo.Y, 15) {
				shift15 = true
			}
			if bo.Op == token.AND && (isConstInt(bo.Y, 0x7fff) || isConstInt(bo.X, 0x7fff)) {
				mask = true
			}
			return false
		})
		isReader := strings.Contains(fn, "frozenView")
		if shift15 && (mask || !isReader) {
			res.ok(fn+"|header", p.pos(f.Pos()), "15-bit cookie, container count shifted by 15")
		} else {
			res.bad(fn+"|header", p.pos(f.Pos()), "the frozen header is not cookie (15 bits) | count << 15")
		}
	}
	// 64-bit framing: 8-byte count, 4-byte key
	for _, fr := range []struct {
		fn   string
		want map[string]int
	}{
		{"(*roaring64.Bitmap).WriteTo", map[string]int{"PutUint64": 1, "PutUint32": 1}},
		{"(*roaring64.Bitmap).ReadFrom", map[string]int{"Uint64": 1, "Uint32": 1}},
		{"(*roaring64.Bitmap).FromUnsafeBytes", map[string]int{"Uint64": 1, "Uint32": 1}},
	} {
		f := p.Func(fr.fn)
		if f == nil {
			res.undecided(fr.fn+"|framing", "-", "anchor not found")
			continue
		}
		got := map[string]int{}
		// the framing reads/writes may sit in a helper of the entry point (one per bucket): follow static
		// same-package callees two levels deep, each function counted once
		seenFn := map[*ssa.Function]bool{}
		var count func(h *ssa.Function, depth int)
		count = func(h *ssa.Function, depth int) {
			if seenFn[h] || depth > 2 {
				return
			}
			seenFn[h] = true
			for _, b := range h.Blocks {
				for _, ins := range b.Instrs {
					if c, ok := ins.(*ssa.Call); ok {
						callee := c.Call.StaticCallee()
						if callee == nil {
							continue
						}
						if strings.HasPrefix(callee.String(), "(encoding/binary.littleEndian)") {
							got[callee.Name()]++
						} else if callee.Blocks != nil && fnPkgPath(callee) == fnPkgPath(f) && callee.Signature.Recv() == nil {
							count(callee, depth+1)
						}
					}
				}
			}
		}
		count(f, 0)
		okAll := true
		for k, n := range fr.want {
			if got[k] != n {
				okAll = false
			}
		}
		if okAll && len(got) == len(fr.want) {
			res.ok(fr.fn+"|framing", p.pos(f.Pos()), "8-byte bucket count, 4-byte key, little-endian")
		} else {
			res.bad(fr.fn+"|framing", p.pos(f.Pos()), fmt.Sprintf("64-bit framing fields are %v, the extension spec says one 8-byte count and one 4-byte key per bucket", got))
		}
	}
	// text form: both directions use the same base64 alphabet
	for _, pkg := range []string{"roaring", "roaring64"} {
		c := pkg + ".ToBase64/FromBase64|alphabet"
		enc := func(fn string) (string, bool) {
			f := p.Func(fn)
			if f == nil {
				return "", false
			}
			name := ""
			for _, b := range f.Blocks {
				for _, ins := range b.Instrs {
					for _, op := range ins.Operands(nil) {
						if g, ok := (*op).(*ssa.Global); ok && g.Pkg != nil && g.Pkg.Pkg.Path() == "encoding/base64" {
							if name != "" && name != g.Name() {
								return name + "+" + g.Name(), true
							}
							name = g.Name()
						}
					}
				}
			}
			return name, name != ""
		}
		w, ok1 := enc("(*" + pkg + ".Bitmap).ToBase64")
		r, ok2 := enc("(*" + pkg + ".Bitmap).FromBase64")
		switch {
		case !ok1 || !ok2:
			res.undecided(c, "-", "ToBase64/FromBase64 do not reference an encoding/base64 alphabet directly")
		case w == r:
			res.ok(c, p.pos(p.Func("(*"+pkg+".Bitmap).FromBase64").Pos()), "both use base64."+w)
		default:
			res.bad(c, p.pos(p.Func("(*"+pkg+".Bitmap).FromBase64").Pos()), fmt.Sprintf("ToBase64 encodes with base64.%s, FromBase64 decodes with base64.%s: text containing '+' or '/' is rejected or misread", w, r))
		}
	}
	// 64-bit size predictor: 8 + Σ (4 + inner size)
	if f := p.Func("(*roaring64.roaringArray64).serializedSizeInBytes"); f == nil {
		res.undecided("(*roaring64.roaringArray64).serializedSizeInBytes|framing", "-", "anchor not found")
	} else {
		c := "(*roaring64.roaringArray64).serializedSizeInBytes|framing"
		init, perBucket, inner, okShape := int64(-1), int64(0), 0, false
		for _, b := range f.Blocks {
			r, ok := b.Instrs[len(b.Instrs)-1].(*ssa.Return)
			if !ok || len(r.Results) != 1 {
				continue
			}
			ph, ok := r.Results[0].(*ssa.Phi)
			if !ok || len(ph.Edges) != 2 {
				continue
			}
			okShape = true
			for _, e := range ph.Edges {
				if k, isC := constIntVal(e); isC {
					init = k
					continue
				}
				// flatten the sum added per iteration
				var leaves func(v ssa.Value, d int)
				leaves = func(v ssa.Value, d int) {
					if d > 6 {
						okShape = false
						return
					}
					switch x := v.(type) {
					case *ssa.BinOp:
						if x.Op != token.ADD {
							okShape = false
							return
						}
						leaves(x.X, d+1)
						leaves(x.Y, d+1)
					case *ssa.Const:
						if k, ok := constIntVal(x); ok {
							perBucket += k
						}
					case *ssa.Phi:
						if x != ph {
							okShape = false
						}
					case *ssa.Call:
						if g := x.Call.StaticCallee(); g != nil && fname(g) == "(*roaring.Bitmap).GetSerializedSizeInBytes" {
							inner++
						} else {
							okShape = false
						}
					default:
						okShape = false
					}
				}
				leaves(e, 0)
			}
		}
		if okShape && init == 8 && perBucket == 4 && inner == 1 {
			res.ok(c, p.pos(f.Pos()), "8 + per bucket (4 + inner GetSerializedSizeInBytes)")
		} else if !okShape {
			res.undecided(c, p.pos(f.Pos()), "the predictor is not a single accumulation loop over the buckets")
		} else {
			res.bad(c, p.pos(f.Pos()), fmt.Sprintf("predicts %d + per bucket (%d + %d inner sizes); the writer emits an 8-byte count and a 4-byte key before each inner bitmap", init, perBucket, inner))
		}
	}
	return res
}

func ruleL6(p *Prog) *RuleResult {
	res := newResult("L6", ruleDoc["L6"], 10)
	n := 0
	for _, f := range p.sourceFns() {
		k := 0
		for _, b := range f.Blocks {
			for _, ins := range b.Instrs {
				c, ok := ins.(*ssa.Call)
				if !ok {
					continue
				}
				callee := c.Call.StaticCallee()
				if callee == nil {
					continue
				}
				s := callee.String()
				switch {
				case strings.HasPrefix(s, "(encoding/binary.littleEndian)"):
					n++
					k++
					res.ok(fmt.Sprintf("%s|%s#%d", fname(f), callee.Name(), k), p.ipos(c), "little-endian")
				case strings.HasPrefix(s, "(encoding/binary.bigEndian)"):
					k++
					g := f
					for g.Parent() != nil {
						g = g.Parent()
					}
					if fname(g) == "(*roaring.roaringArray).frozenView" {
						res.ok(fmt.Sprintf("%s|%s#%d", fname(f), callee.Name(), k), p.ipos(c), "endianness probe of the frozen reader")
					} else {
						res.bad(fmt.Sprintf("%s|%s#%d", fname(f), callee.Name(), k), p.ipos(c), "a format field is read/written big-endian")
					}
				case s == "encoding/binary.Read" || s == "encoding/binary.Write":
					k++
					ord := c.Call.Args[1]
					if mi, ok := ord.(*ssa.MakeInterface); ok {
						ord = mi.X
					}
					okLE := false
					if u, ok := ord.(*ssa.UnOp); ok {
						if g, ok := u.X.(*ssa.Global); ok && g.Name() == "LittleEndian" {
							okLE = true
						}
					}
					if okLE {
						res.ok(fmt.Sprintf("%s|%s#%d", fname(f), callee.Name(), k), p.ipos(c), "little-endian")
					} else {
						res.bad(fmt.Sprintf("%s|%s#%d", fname(f), callee.Name(), k), p.ipos(c), "binary.Read/Write not with binary.LittleEndian")
					}
				}
			}
		}
	}
	return res
}

func ruleL7(p *Prog) *RuleResult {
	res := newResult("L7", ruleDoc["L7"], 1)
	f := p.Func("roaring.BoundSerializedSizeInBytes")
	if f == nil {
		res.undecided("roaring.BoundSerializedSizeInBytes", "-", "anchor not found")
		return res
	}
	consts := map[int64]bool{}
	muls := map[int64]bool{}
	callsArray := false
	for _, b := range f.Blocks {
		for _, ins := range b.Instrs {
			switch x := ins.(type) {
			case *ssa.BinOp:
				for _, o := range []ssa.Value{x.X, x.Y} {
					if c, ok := constIntVal(o); ok {
						consts[c] = true
						if x.Op == token.MUL {
							muls[c] = true
						}
					}
				}
			case *ssa.Call:
				if callee := x.Call.StaticCallee(); callee != nil && callee.Name() == "arrayContainerSizeInBytes" {
					callsArray = true
				}
			}
		}
	}
	var missing []string
	for _, c := range []int64{65535, 65536, 7, 4} {
		if !consts[c] {
			missing = append(missing, fmt.Sprint(c))
		}
	}
	if !muls[8] {
		missing = append(missing, "8*containers")
	}
	// 2 bytes per value: through the size helper of the array kind, or as 2*cardinality in 64 bits
	twoPerValue := callsArray
	for _, b := range f.Blocks {
		for _, ins := range b.Instrs {
			if x, ok := ins.(*ssa.BinOp); ok && x.Op == token.MUL && len(f.Params) > 0 {
				if (isConstInt(x.X, 2) && x.Y == ssa.Value(f.Params[0])) || (isConstInt(x.Y, 2) && x.X == ssa.Value(f.Params[0])) {
					twoPerValue = true
				}
			}
		}
	}
	if !twoPerValue {
		missing = append(missing, "2 bytes per value (arrayContainerSizeInBytes or 2*cardinality)")
	}
	// arrayContainerSizeInBytes(card) == 2*card
	if g := p.Func("roaring.arrayContainerSizeInBytes"); g != nil {
		e := &linEnv{p: p, vals: map[ssa.Value]lin{}, lens: map[ssa.Value]lin{}}
		if r := singleReturn(g); r == nil || !e.eval(r.Results[0]).equal(linSym("p:"+g.Params[0].Name()).scale(2)) {
			missing = append(missing, "arrayContainerSizeInBytes(card) = 2*card")
		}
	}
	if len(missing) > 0 {
		res.bad("roaring.BoundSerializedSizeInBytes", p.pos(f.Pos()), "documented constants missing from the bound: "+strings.Join(missing, ", "))
	} else {
		res.ok("roaring.BoundSerializedSizeInBytes", p.pos(f.Pos()), "ceil(universe/65536) chunks, 8 bytes + ceil(n/8) header, 2 bytes per value")
	}
	return res
}

// ---- L2 ----

// funcOrCallee returns f itself if pred(f) holds, otherwise the first function called from f (statically,
// same package, up to two calls deep) for which it holds: the code an anchor names may have been moved into
// a helper by an extract-function refactoring.
func funcOrCallee(f *ssa.Function, pred func(*ssa.Function) bool) *ssa.Function {
	if f == nil {
		return nil
	}
	if pred(f) {
		return f
	}
	seen := map[*ssa.Function]bool{f: true}
	level := []*ssa.Function{f}
	for depth := 0; depth < 2; depth++ {
		var next []*ssa.Function
		for _, h := range level {
			for _, b := range h.Blocks {
				for _, ins := range b.Instrs {
					if c, ok := ins.(*ssa.Call); ok {
						if g := c.Call.StaticCallee(); g != nil && g.Blocks != nil && !seen[g] && fnPkgPath(g) == fnPkgPath(f) {
							seen[g] = true
							if pred(g) {
								return g
							}
							next = append(next, g)
						}
					}
				}
			}
		}
		level = next
	}
	return nil
}

// truthTable evaluates, for RUN in {false,true} and N in 0..8, whether block target is reachable
// from the entry of f when branches on RUN-like and N-like conditions are decided and every other
// branch is free.
type l2site struct {
	fn     string
	isRun  func(v ssa.Value) (known bool, negated bool) // v is (a negation of) the RUN condition
	isN    func(v ssa.Value) bool                       // v is the container count
	target func(f *ssa.Function) []*ssa.BasicBlock
}

func evalCond(cond ssa.Value, s *l2site, run bool, n int64) (val bool, known bool) {
	neg := false
	for {
		u, ok := cond.(*ssa.UnOp)
		if !ok || u.Op != token.NOT {
			break
		}
		neg = !neg
		cond = u.X
	}
	if k, ng := s.isRun(cond); k {
		return (run != ng) != neg, true
	}
	if bo, ok := cond.(*ssa.BinOp); ok {
		var c int64
		var op token.Token
		if cv, isC := constIntVal(bo.Y); isC && s.isN(bo.X) {
			c, op = cv, bo.Op
		} else if cv, isC := constIntVal(bo.X); isC && s.isN(bo.Y) {
			c, op = cv, flipOp(bo.Op)
		} else {
			return false, false
		}
		var r bool
		switch op {
		case token.LSS:
			r = n < c
		case token.LEQ:
			r = n <= c
		case token.GTR:
			r = n > c
		case token.GEQ:
			r = n >= c
		case token.EQL:
			r = n == c
		case token.NEQ:
			r = n != c
		default:
			return false, false
		}
		return r != neg, true
	}
	return false, false
}

func reachableUnder(f *ssa.Function, s *l2site, run bool, n int64, targets []*ssa.BasicBlock) bool {
	tgt := map[*ssa.BasicBlock]bool{}
	for _, t := range targets {
		tgt[t] = true
	}
	seen := map[*ssa.BasicBlock]bool{}
	w := []*ssa.BasicBlock{f.Blocks[0]}
	for len(w) > 0 {
		b := w[len(w)-1]
		w = w[:len(w)-1]
		if seen[b] {
			continue
		}
		seen[b] = true
		if tgt[b] {
			return true
		}
		if len(b.Instrs) > 0 {
			if ifi, ok := b.Instrs[len(b.Instrs)-1].(*ssa.If); ok {
				if v, known := evalCond(ifi.Cond, s, run, n); known {
					if v {
						w = append(w, b.Succs[0])
					} else {
						w = append(w, b.Succs[1])
					}
					continue
				}
			}
		}
		w = append(w, b.Succs...)
	}
	return false
}

func ruleL2(p *Prog) *RuleResult {
	res := newResult("L2", ruleDoc["L2"], 3)
	thr := p.Const("roaring", "noOffsetThreshold")
	if thr == nil {
		res.undecided("noOffsetThreshold", "-", "constant not found")
		return res
	}
	isHasRunCall := func(v ssa.Value) bool {
		if prm, ok := v.(*ssa.Parameter); ok {
			// the predicate may be passed in: func headerSize(n uint64, hasRun bool)
			b, isB := prm.Type().Underlying().(*types.Basic)
			return isB && b.Kind() == types.Bool
		}
		c, ok := v.(*ssa.Call)
		if !ok {
			return false
		}
		callee := c.Call.StaticCallee()
		return callee != nil && callee.Name() == "hasRunCompression"
	}
	isKeysLen := func(v ssa.Value) bool {
		for i := 0; i < 3; i++ {
			if cv, ok := v.(*ssa.Convert); ok {
				v = cv.X
				continue
			}
			break
		}
		if prm, ok := v.(*ssa.Parameter); ok {
			b, isB := prm.Type().Underlying().(*types.Basic)
			return isB && b.Info()&types.IsInteger != 0
		}
		return lenOfField(v, "roaringArray.keys")
	}
	coef8 := func(l lin) bool {
		if !l.ok {
			return false
		}
		for sym, c := range l.t {
			if c == 8 && (sym == "len(roaringArray.keys)" || strings.HasPrefix(sym, "p:")) {
				return true
			}
		}
		return false
	}
	headerTargets := func(f *ssa.Function) []*ssa.BasicBlock {
		var out []*ssa.BasicBlock
		for _, b := range f.Blocks {
			if r, ok := b.Instrs[len(b.Instrs)-1].(*ssa.Return); ok && len(r.Results) == 1 {
				e := &linEnv{p: p, vals: map[ssa.Value]lin{}, lens: map[ssa.Value]lin{}}
				if coef8(e.eval(r.Results[0])) {
					out = append(out, b)
				}
			}
		}
		return out
	}
	sites := []*l2site{
		{
			fn: "(*roaring.roaringArray).headerSize",
			isRun: func(v ssa.Value) (bool, bool) {
				return isHasRunCall(v), false
			},
			isN: isKeysLen,
			// offsets present <=> the returned size has coefficient 8 on N
			target: headerTargets,
		},
		{
			fn: "(*roaring.roaringArray).writeTo",
			isRun: func(v ssa.Value) (bool, bool) {
				return isHasRunCall(v), false
			},
			isN: isKeysLen,
			// offsets present <=> the loop that stores startOffset with PutUint32 is entered
			target: func(f *ssa.Function) []*ssa.BasicBlock {
				var out []*ssa.BasicBlock
				for _, b := range f.Blocks {
					for _, ins := range b.Instrs {
						if c, ok := ins.(*ssa.Call); ok {
							if v, ok := uint32Emitted(c); ok {
								// the value written is the running offset (a phi converted to uint32), not a constant cookie
								if cv, ok := v.(*ssa.Convert); ok {
									v = cv.X
								}
								if _, isPhi := v.(*ssa.Phi); isPhi {
									out = append(out, b)
								}
							}
						}
					}
				}
				return out
			},
		},
		{
			fn: "(*roaring.roaringArray).readFrom",
			// RUN <=> isRunBitmap != nil  (the run-flag bitmap is read only under the run cookie)
			isRun: func(v ssa.Value) (bool, bool) {
				bo, ok := v.(*ssa.BinOp)
				if !ok || (bo.Op != token.EQL && bo.Op != token.NEQ) {
					return false, false
				}
				var other ssa.Value
				if isNilConst(bo.Y) {
					other = bo.X
				} else if isNilConst(bo.X) {
					other = bo.Y
				} else {
					return false, false
				}
				for _, ph := range phisThroughCall(other) {
					if isRunFlagPhi(ph) {
						return true, bo.Op == token.EQL
					}
				}
				if runFlagField(other) {
					return true, bo.Op == token.EQL
				}
				return false, false
			},
			isN: func(v ssa.Value) bool {
				for i := 0; i < 3; i++ {
					if cv, ok := v.(*ssa.Convert); ok {
						v = cv.X
						continue
					}
					break
				}
				for _, ph := range phisThroughCall(v) {
					if isDecodedCountPhi(ph) {
						return true
					}
				}
				return decodedCountField(v)
			},
			target: func(f *ssa.Function) []*ssa.BasicBlock {
				var out []*ssa.BasicBlock
				for _, b := range f.Blocks {
					for _, ins := range b.Instrs {
						if c, ok := ins.(*ssa.Call); ok && c.Call.IsInvoke() && c.Call.Method.Name() == "SkipBytes" {
							out = append(out, b)
						}
					}
				}
				return out
			},
		},
	}
	k, _ := constant.Int64Val(thr.Val())
	_ = k
	for _, s := range sites {
		f := p.Func(s.fn)
		if f == nil && strings.HasSuffix(s.fn, ".headerSize") {
			// renamed or turned into a plain function: the size predictor of the header is whatever function
			// serializedSizeInBytes / writeTo call whose result is 8 bytes per container on one path
			for _, from := range []string{"(*roaring.roaringArray).serializedSizeInBytes", "(*roaring.roaringArray).writeTo"} {
				if g := funcOrCallee(p.Func(from), func(h *ssa.Function) bool { return len(headerTargets(h)) > 0 && fname(h) != from }); g != nil {
					f = g
					break
				}
			}
		}
		if f == nil {
			res.undecided(s.fn, "-", "anchor not found")
			continue
		}
		if g := funcOrCallee(f, func(h *ssa.Function) bool { return len(s.target(h)) > 0 }); g != nil {
			f = g
		}
		targets := s.target(f)
		if len(targets) == 0 {
			res.undecided(s.fn, p.pos(f.Pos()), "the code that handles the offset header was not recognised")
			continue
		}
		// the truth table below explores both sides of every condition it cannot evaluate: if neither the run
		// predicate nor the count is recognised in any condition, every case would come out "present"
		recRun, recN := false, false
		for _, b := range f.Blocks {
			if ifi, ok := b.Instrs[len(b.Instrs)-1].(*ssa.If); ok {
				sliceBack(ifi.Cond, func(v ssa.Value) bool {
					if isR, _ := s.isRun(v); isR {
						recRun = true
					}
					if bo, ok := v.(*ssa.BinOp); ok && (s.isN(bo.X) || s.isN(bo.Y)) {
						recN = true
					}
					return false
				})
			}
		}
		if !recRun || !recN {
			res.undecided(s.fn, p.pos(f.Pos()), fmt.Sprintf("the offset-header predicate was not recognised in %s (run flag recognised: %v, container count recognised: %v)", fname(f), recRun, recN))
			continue
		}
		var diffs []string
		for _, run := range []bool{false, true} {
			for n := int64(1); n <= 8; n++ {
				want := !run || n >= 4 // RoaringFormatSpec
				got := reachableUnder(f, s, run, n, targets)
				if got != want {
					diffs = append(diffs, fmt.Sprintf("RUN=%v N=%d: offsets %s, spec says %s", run, n, presentWord(got), presentWord(want)))
				}
			}
		}
		if len(diffs) > 0 {
			sort.Strings(diffs)
			res.bad(s.fn, p.pos(f.Pos()), "offset-header predicate differs from the specification: "+strings.Join(diffs, "; "))
		} else {
			res.ok(s.fn, p.pos(f.Pos()), "offsets present iff !RUN || N >= 4 (16 cases)")
		}
	}
	// the run-flag bitmap of the reader is non-nil only under the run cookie
	if f := funcOrCallee(p.Func("(*roaring.roaringArray).readFrom"), func(g *ssa.Function) bool {
		for _, b := range g.Blocks {
			for _, ins := range b.Instrs {
				if ph, ok := ins.(*ssa.Phi); ok && isRunFlagPhi(ph) {
					return true
				}
			}
		}
		return false
	}); f != nil {
		okTie := false
		for _, b := range f.Blocks {
			for _, ins := range b.Instrs {
				ph, ok := ins.(*ssa.Phi)
				if !ok || !isRunFlagPhi(ph) {
					continue
				}
				okTie = true
				for i, e := range ph.Edges {
					if isNilConst(e) {
						continue
					}
					if _, isPhi := e.(*ssa.Phi); isPhi {
						continue
					}
					// a non-nil value must arrive from a block dominated by cookie&0xFFFF == serialCookie
					pred := ph.Block().Preds[i]
					dom := false
					for d := pred; d != nil; d = d.Idom() {
						if len(d.Instrs) == 0 {
							continue
						}
						if ifi, ok := d.Instrs[len(d.Instrs)-1].(*ssa.If); ok {
							if bo, ok := ifi.Cond.(*ssa.BinOp); ok && bo.Op == token.EQL && isNamedConst(p, bo.Y, "roaring", "serialCookie") && dominatedByEdge(d, 0, pred) {
								dom = true
							}
							if bo, ok := ifi.Cond.(*ssa.BinOp); ok && bo.Op == token.EQL && isNamedConst(p, bo.Y, "roaring", "serialCookie") && d.Succs[0] == pred {
								dom = true
							}
						}
					}
					if !dom {
						okTie = false
					}
				}
			}
		}
		if okTie {
			res.ok("(*roaring.roaringArray).readFrom|run flag bitmap", p.pos(f.Pos()), "read only under the run cookie")
		} else {
			res.bad("(*roaring.roaringArray).readFrom|run flag bitmap", p.pos(f.Pos()), "the reader's run-flag bitmap is not tied to the run cookie")
		}
	}
	return res
}

// isRunFlagPhi: a []byte-valued phi one of whose incoming values is nil and another the result of a Next()
// read (the reader's run-flag bitmap, whatever the variable is called).
func isRunFlagPhi(ph *ssa.Phi) bool {
	sl, ok := ph.Type().Underlying().(*types.Slice)
	if !ok {
		return false
	}
	if b, ok := sl.Elem().Underlying().(*types.Basic); !ok || b.Kind() != types.Uint8 {
		return false
	}
	hasNil, hasRead := false, false
	var walk func(v ssa.Value, d int)
	walk = func(v ssa.Value, d int) {
		if d > 4 {
			return
		}
		switch x := v.(type) {
		case *ssa.Const:
			if x.IsNil() {
				hasNil = true
			}
		case *ssa.Phi:
			if x != ph || d == 0 {
				for _, e := range x.Edges {
					if e != ssa.Value(ph) {
						walk(e, d+1)
					}
				}
			}
		case *ssa.Extract:
			if c, ok := x.Tuple.(*ssa.Call); ok && c.Call.IsInvoke() && c.Call.Method.Name() == "Next" {
				hasRead = true
			}
		}
	}
	walk(ph, 0)
	return hasNil && hasRead
}

// isDecodedCountPhi: an integer phi that joins the two ways the reader obtains the container count
// (cookie>>16 + 1 under the run cookie, ReadUInt32 otherwise).
func isDecodedCountPhi(ph *ssa.Phi) bool {
	b, ok := ph.Type().Underlying().(*types.Basic)
	if !ok || b.Info()&types.IsInteger == 0 {
		return false
	}
	hasRead, hasShift := false, false
	var walk func(v ssa.Value, d int)
	walk = func(v ssa.Value, d int) {
		if d > 5 {
			return
		}
		switch x := v.(type) {
		case *ssa.Phi:
			for _, e := range x.Edges {
				if e != ssa.Value(ph) {
					walk(e, d+1)
				}
			}
		case *ssa.Convert:
			walk(x.X, d+1)
		case *ssa.BinOp:
			if x.Op == token.SHR {
				hasShift = true
			}
			walk(x.X, d+1)
			walk(x.Y, d+1)
		case *ssa.Extract:
			if c, ok := x.Tuple.(*ssa.Call); ok && c.Call.IsInvoke() && c.Call.Method.Name() == "ReadUInt32" {
				hasRead = true
			}
		}
	}
	walk(ph, 0)
	return hasRead && hasShift
}

// fieldStoreSources: v is a load of a field of a local struct variable (a named result such as hdr.isRunBitmap):
// the values stored into that field anywhere in the function. The variable starts out zeroed.
func fieldStoreSources(v ssa.Value) ([]ssa.Value, bool) {
	u, ok := v.(*ssa.UnOp)
	if !ok || u.Op != token.MUL {
		return nil, false
	}
	fa, ok := u.X.(*ssa.FieldAddr)
	if !ok {
		return nil, false
	}
	al, ok := fa.X.(*ssa.Alloc)
	if !ok {
		return nil, false
	}
	var out []ssa.Value
	for _, b := range al.Parent().Blocks {
		for _, ins := range b.Instrs {
			if st, ok := ins.(*ssa.Store); ok {
				if fa2, ok := st.Addr.(*ssa.FieldAddr); ok && fa2.X == ssa.Value(al) && fa2.Field == fa.Field {
					out = append(out, st.Val)
				}
			}
		}
	}
	return out, len(out) > 0
}

// runFlagField: a field of a zero-initialised local struct that receives the result of Next on one path only
func runFlagField(v ssa.Value) bool {
	srcs, ok := fieldStoreSources(v)
	if !ok {
		return false
	}
	for _, s := range srcs {
		if ex, ok := s.(*ssa.Extract); ok {
			if c, ok := ex.Tuple.(*ssa.Call); ok && c.Call.IsInvoke() && c.Call.Method.Name() == "Next" {
				return true
			}
		}
	}
	return false
}

// decodedCountField: a field that receives cookie>>16 + 1 on one path and the result of ReadUInt32 on another
func decodedCountField(v ssa.Value) bool {
	srcs, ok := fieldStoreSources(v)
	if !ok {
		return false
	}
	hasRead, hasShift := false, false
	var walk func(v ssa.Value, d int)
	walk = func(v ssa.Value, d int) {
		if d > 5 {
			return
		}
		switch x := v.(type) {
		case *ssa.Convert:
			walk(x.X, d+1)
		case *ssa.BinOp:
			if x.Op == token.SHR {
				hasShift = true
			}
			walk(x.X, d+1)
			walk(x.Y, d+1)
		case *ssa.Extract:
			if c, ok := x.Tuple.(*ssa.Call); ok && c.Call.IsInvoke() && c.Call.Method.Name() == "ReadUInt32" {
				hasRead = true
			}
		}
	}
	for _, s := range srcs {
		walk(s, 0)
	}
	return hasRead && hasShift
}

func presentWord(b bool) string {
	if b {
		return "present"
	}
	return "absent"
}

// ---- L5 ----

func ruleL5(p *Prog) *RuleResult {
	res := newResult("L5", ruleDoc["L5"], 8)
	env := func() *linEnv { return &linEnv{p: p, vals: map[ssa.Value]lin{}, lens: map[ssa.Value]lin{}} }
	type kind struct {
		name, typ, lenSym string
	}
	kinds := []kind{
		{"array", "arrayContainer", "len(arrayContainer.content)"},
		{"bitmap", "bitmapContainer", "len(bitmapContainer.bitmap)"},
		{"run", "runContainer16", "len(runContainer16.iv)"},
	}
	predicted := map[string]lin{}
	written := map[string]lin{}
	for _, k := range kinds {
		// predicted
		if f := p.Func("(*roaring." + k.typ + ").serializedSizeInBytes"); f != nil {
			if r := singleReturn(f); r != nil {
				predicted[k.name] = env().eval(r.Results[0])
			}
		}
		// written: sum of lengths passed to Write
		if f := p.Func("(*roaring." + k.typ + ").writeTo"); f != nil {
			sum := linConst(0)
			n := 0
			for _, b := range f.Blocks {
				for _, ins := range b.Instrs {
					if c, ok := ins.(*ssa.Call); ok && c.Call.IsInvoke() && c.Call.Method.Name() == "Write" {
						sum = sum.add(env().lenOf(c.Call.Args[0]), 1)
						n++
					}
				}
			}
			if n > 0 {
				written[k.name] = sum
			}
		}
		c := "payload " + k.name + "|predicted == written"
		pr, wr := predicted[k.name], written[k.name]
		switch {
		case !pr.ok || !wr.ok:
			res.undecided(c, "-", fmt.Sprintf("cannot evaluate sizes (predicted %s, written %s)", pr, wr))
		case pr.equal(wr):
			res.ok(c, "-", pr.String())
		default:
			res.bad(c, "-", fmt.Sprintf("serializedSizeInBytes() = %s but writeTo writes %s bytes", pr, wr))
		}
	}
	// expected shapes against the specification
	for _, ex := range []struct {
		kind string
		want lin
	}{
		{"array", linSym("len(arrayContainer.content)").scale(2)},
		{"bitmap", linSym("len(bitmapContainer.bitmap)").scale(8)},
		{"run", linSym("len(runContainer16.iv)").scale(4).add(linConst(2), 1)},
	} {
		c := "payload " + ex.kind + "|spec"
		if predicted[ex.kind].equal(ex.want) {
			res.ok(c, "-", ex.want.String())
		} else {
			res.bad(c, "-", fmt.Sprintf("predicted size %s, the format says %s", predicted[ex.kind], ex.want))
		}
	}
	// getSizeInBytesFromCardinality: card > 4096 -> 8192, else 2*card
	if f := p.Func("roaring.getSizeInBytesFromCardinality"); f == nil {
		res.undecided("getSizeInBytesFromCardinality", "-", "anchor not found")
	} else {
		okShape := false
		for _, b := range f.Blocks {
			ifi, ok := b.Instrs[len(b.Instrs)-1].(*ssa.If)
			if !ok {
				continue
			}
			bo, ok := ifi.Cond.(*ssa.BinOp)
			if !ok || bo.Op != token.GTR || bo.X != ssa.Value(f.Params[0]) || !isNamedConst(p, bo.Y, "roaring", "arrayDefaultMaxSize") {
				continue
			}
			rt, okT := b.Succs[0].Instrs[len(b.Succs[0].Instrs)-1].(*ssa.Return)
			rf, okF := b.Succs[1].Instrs[len(b.Succs[1].Instrs)-1].(*ssa.Return)
			if okT && okF {
				lt, lf := env().eval(rt.Results[0]), env().eval(rf.Results[0])
				if c, isC := lt.isConst(); isC && c == 8192 && lf.equal(linSym("p:"+f.Params[0].Name()).scale(2)) {
					okShape = true
				}
			}
		}
		if okShape {
			res.ok("getSizeInBytesFromCardinality", p.pos(f.Pos()), "card > 4096 -> 8192 bytes, else 2*card")
		} else {
			res.bad("getSizeInBytesFromCardinality", p.pos(f.Pos()), "not the piecewise size (card > 4096 ? 8192 : 2*card) the offset header relies on")
		}
	}
	// offset increments in roaringArray.writeTo
	findOff := func(f *ssa.Function) *ssa.Phi {
		var off *ssa.Phi
		for _, b := range f.Blocks {
			for _, ins := range b.Instrs {
				if c, ok := ins.(*ssa.Call); ok {
					if v, ok := uint32Emitted(c); ok {
						if cv, ok := v.(*ssa.Convert); ok {
							v = cv.X
						}
						if ph, ok := v.(*ssa.Phi); ok {
							off = ph
						}
					}
				}
			}
		}
		return off
	}
	if f := funcOrCallee(p.Func("(*roaring.roaringArray).writeTo"), func(h *ssa.Function) bool { return findOff(h) != nil }); f == nil {
		res.undecided("(*roaring.roaringArray).writeTo|offsets", "-", "the running offset of the offset header was not found in writeTo or its helpers")
	} else {
		// find the phi of the running offset: the value passed (converted) to PutUint32 inside a loop
		var off *ssa.Phi
		for _, b := range f.Blocks {
			for _, ins := range b.Instrs {
				if c, ok := ins.(*ssa.Call); ok {
					if v, ok := uint32Emitted(c); ok {
						if cv, ok := v.(*ssa.Convert); ok {
							v = cv.X
						}
						if ph, ok := v.(*ssa.Phi); ok {
							off = ph
						}
					}
				}
			}
		}
		if off == nil {
			res.undecided("(*roaring.roaringArray).writeTo|offsets", p.pos(f.Pos()), "running offset not recognised")
		} else {
			// increments: off' = off + X on the back edges (possibly through a phi joining the type-switch arms)
			var incs []struct {
				x   ssa.Value
				blk *ssa.BasicBlock
			}
			var collect func(v ssa.Value, depth int)
			collect = func(v ssa.Value, depth int) {
				if depth > 4 {
					return
				}
				switch x := v.(type) {
				case *ssa.BinOp:
					if x.Op == token.ADD && x.X == ssa.Value(off) {
						incs = append(incs, struct {
							x   ssa.Value
							blk *ssa.BasicBlock
						}{x.Y, x.Block()})
					}
				case *ssa.Phi:
					if x != off {
						for _, e := range x.Edges {
							collect(e, depth+1)
						}
					}
				}
			}
			for _, e := range off.Edges {
				collect(e, 0)
			}
			runPtr := types.NewPointer(p.Type("roaring", "runContainer16"))
			sawRun, sawDefault := false, false
			for _, inc := range incs {
				// is this arm under a successful type test for *runContainer16?
				underRun := false
				for d := inc.blk; d != nil; d = d.Idom() {
					if len(d.Instrs) == 0 {
						continue
					}
					if ifi, ok := d.Instrs[len(d.Instrs)-1].(*ssa.If); ok {
						if ex, ok := ifi.Cond.(*ssa.Extract); ok && ex.Index == 1 {
							if ta, ok := ex.Tuple.(*ssa.TypeAssert); ok && types.Identical(ta.AssertedType, runPtr) && (dominatedByEdge(d, 0, inc.blk) || d.Succs[0] == inc.blk) {
								underRun = true
							}
						}
					}
				}
				l := env().eval(inc.x)
				if underRun {
					sawRun = true
					c := "(*roaring.roaringArray).writeTo|offset increment run"
					if l.equal(predicted["run"]) {
						res.ok(c, p.pos(f.Pos()), l.String())
					} else {
						res.bad(c, p.pos(f.Pos()), fmt.Sprintf("the offset header advances by %s for a run container, whose payload is %s bytes", l, predicted["run"]))
					}
				} else {
					sawDefault = true
					c := "(*roaring.roaringArray).writeTo|offset increment array/bitmap"
					okCall := false
					if cv, ok := inc.x.(*ssa.Convert); ok {
						if call, ok := cv.X.(*ssa.Call); ok {
							if callee := call.Call.StaticCallee(); callee != nil && callee.Name() == "getSizeInBytesFromCardinality" && len(call.Call.Args) == 1 {
								if _, ok := callOn(call.Call.Args[0], "getCardinality"); ok {
									okCall = true
								}
							}
						}
					}
					if okCall {
						res.ok(c, p.pos(f.Pos()), "getSizeInBytesFromCardinality(c.getCardinality())")
					} else {
						res.bad(c, p.pos(f.Pos()), "the offset header does not advance by the payload size of the array/bitmap container ("+l.String()+")")
					}
				}
			}
			if !sawRun {
				res.bad("(*roaring.roaringArray).writeTo|offset increment run", p.pos(f.Pos()), "the offset header has no separate increment for run containers: getSizeInBytesFromCardinality does not apply to them, so every offset after a run container is wrong")
			}
			if !sawDefault {
				res.bad("(*roaring.roaringArray).writeTo|offset increment array/bitmap", p.pos(f.Pos()), "no offset increment for array/bitmap containers")
			}
		}
	}
	// reader consumption per kind
	if f := p.Func("(*roaring.roaringArray).readFrom"); f == nil {
		res.undecided("(*roaring.roaringArray).readFrom|consumed", "-", "anchor not found")
	} else {
		got := map[string]string{}
		// the decoder and the helpers it hands its byte source to (a payload branch moved into a function of its own)
		decoders := []*ssa.Function{f}
		inSet := map[*ssa.Function]bool{f: true}
		for k := 0; k < len(decoders) && k < 12; k++ {
			for _, b := range decoders[k].Blocks {
				for _, ins := range b.Instrs {
					c, ok := ins.(*ssa.Call)
					if !ok {
						continue
					}
					g := c.Call.StaticCallee()
					if g == nil || g.Blocks == nil || inSet[g] || !inRepo(g) {
						continue
					}
					for _, a := range c.Call.Args {
						if _, isI := a.Type().Underlying().(*types.Interface); isI && len(f.Params) > 1 && types.Identical(a.Type(), f.Params[1].Type()) {
							inSet[g] = true
							decoders = append(decoders, g)
							break
						}
					}
				}
			}
		}
		var nextCalls []*ssa.Call
		for _, d := range decoders {
			for _, b := range d.Blocks {
				for _, ins := range b.Instrs {
					if c, ok := ins.(*ssa.Call); ok && c.Call.IsInvoke() && c.Call.Method.Name() == "Next" {
						nextCalls = append(nextCalls, c)
					}
				}
			}
		}
		for range []int{0} {
			for _, c := range nextCalls {
				arg := c.Call.Args[0]
				e := env()
				e.opaque = func(call *ssa.Call) (lin, bool) {
					if call.Call.IsInvoke() && call.Call.Method.Name() == "ReadUInt16" {
						return linSym("nruns"), true
					}
					return lin{}, false
				}
				if d := c.Parent(); d != f {
					// inside a helper the element count arrives as a parameter: not a quantity of its own
					for _, prm := range d.Params {
						e.vals[prm] = lin{}
					}
				}
				l := e.eval(arg)
				// which payload cell receives the bytes?
				cell := ""
				seen := map[ssa.Value]bool{}
				var follow func(v ssa.Value, depth int)
				follow = func(v ssa.Value, depth int) {
					if depth > 5 || seen[v] || v.Referrers() == nil {
						return
					}
					seen[v] = true
					for _, r := range *v.Referrers() {
						switch x := r.(type) {
						case *ssa.Extract:
							if x.Index == 0 {
								follow(x, depth+1)
							}
						case *ssa.Call:
							follow(x, depth+1)
						case *ssa.Store:
							if fa, ok := x.Addr.(*ssa.FieldAddr); ok && x.Val == v {
								cell = fieldName(fa.X.Type(), fa.Field)
							}
						}
					}
				}
				follow(c, 0)
				if cell != "" {
					got[cell] = l.String()
					if !l.ok {
						got[cell] = describeReaderSize(arg)
					}
				}
			}
		}
		want := map[string]string{
			"arrayContainer.content": "2*card",
			"bitmapContainer.bitmap": "8192",
			"runContainer16.iv":      "4*nruns",
		}
		for cell, w := range want {
			c := "(*roaring.roaringArray).readFrom|consumed " + cell
			g, ok := got[cell]
			switch {
			case !ok:
				res.undecided(c, p.pos(f.Pos()), "payload read not recognised")
			case g == w:
				res.ok(c, p.pos(f.Pos()), g+" bytes")
			default:
				res.bad(c, p.pos(f.Pos()), fmt.Sprintf("the reader consumes %s bytes for this payload, the writer emits %s", g, w))
			}
		}
	}
	return res
}

// describeReaderSize renders card*2 where card is int(field)+1.
func describeReaderSize(v ssa.Value) string {
	if bo, ok := v.(*ssa.BinOp); ok && bo.Op == token.MUL {
		if c, ok := constIntVal(bo.Y); ok {
			return fmt.Sprintf("%d*card", c)
		}
		if c, ok := constIntVal(bo.X); ok {
			return fmt.Sprintf("%d*card", c)
		}
	}
	return "?"
}

// phisThroughCall: v itself if it is a phi; for the k-th result of a static call to a function of the
// repository, the phis among the k-th results of that function's returns (a decoding step moved into a
// helper that hands back several values).
func phisThroughCall(v ssa.Value) []*ssa.Phi {
	if ph, ok := v.(*ssa.Phi); ok {
		return []*ssa.Phi{ph}
	}
	ex, ok := v.(*ssa.Extract)
	if !ok {
		return nil
	}
	call, ok := ex.Tuple.(*ssa.Call)
	if !ok {
		return nil
	}
	g := call.Call.StaticCallee()
	if g == nil || g.Blocks == nil {
		return nil
	}
	var out []*ssa.Phi
	for _, b := range g.Blocks {
		if r, ok := b.Instrs[len(b.Instrs)-1].(*ssa.Return); ok && ex.Index < len(r.Results) {
			if ph, ok := r.Results[ex.Index].(*ssa.Phi); ok {
				out = append(out, ph)
			}
		}
	}
	return out
}

// uint32Emitted: the value a call writes as a little-endian 32-bit field — PutUint32(buf, v) into a pre-sized
// slice, or AppendUint32(dst, v) onto a growing one
func uint32Emitted(c *ssa.Call) (ssa.Value, bool) {
	callee := c.Call.StaticCallee()
	if callee == nil {
		return nil, false
	}
	switch {
	case callee.Name() == "PutUint32" && len(c.Call.Args) == 3:
		return c.Call.Args[2], true
	case callee.Name() == "AppendUint32" && len(c.Call.Args) == 3:
		return c.Call.Args[2], true
	}
	return nil, false
}
