package main

import (
	"fmt"
	"go/token"
	"go/types"
	"sort"

	"golang.org/x/tools/go/ssa"
)

func init() {
	register("U9", "a bit test on a signed value is written != 0 (or on the unsigned conversion): 'v & mask > 0' is false for the sign bit, whose mask is the most negative number — plane 63 of a negative value would never be set", ruleU9)
}

func ruleU9(p *Prog) *RuleResult {
	res := newResult("U9", ruleDoc["U9"], 5)
	fns := append([]*ssa.Function(nil), p.sourceFns()...)
	sort.Slice(fns, func(i, j int) bool { return fname(fns[i]) < fname(fns[j]) })
	for _, f := range fns {
		if f.Blocks == nil {
			continue
		}
		n, m := 0, 0
		for _, b := range f.Blocks {
			for _, ins := range b.Instrs {
				cmp, ok := ins.(*ssa.BinOp)
				if !ok || (cmp.Op != token.GTR && cmp.Op != token.LSS && cmp.Op != token.NEQ && cmp.Op != token.EQL) {
					continue
				}
				and, ok := cmp.X.(*ssa.BinOp)
				if !ok || and.Op != token.AND || !isConstInt(cmp.Y, 0) {
					continue
				}
				// a single-bit mask shifted by a variable amount
				sh, ok := stripConv(and.Y).(*ssa.BinOp)
				if !ok {
					sh, ok = stripConv(and.X).(*ssa.BinOp)
				}
				if !ok || sh.Op != token.SHL || !isConstInt(stripConv(sh.X), 1) {
					continue
				}
				if _, isC := constIntVal(sh.Y); isC {
					continue
				}
				bt, ok := and.Type().Underlying().(*types.Basic)
				if !ok {
					continue
				}
				signed := bt.Info()&types.IsUnsigned == 0
				if signed && cmp.Op == token.GTR {
					n++
					res.bad(fmt.Sprintf("%s|signed bit test > 0#%d", fname(f), n), p.ipos(cmp), "the value is and-ed with 1<<i in a signed type and the result compared > 0: for the top bit the mask is negative and so is the result, the test fails for exactly the negative values")
				} else {
					m++
					res.ok(fmt.Sprintf("%s|bit test#%d", fname(f), m), p.ipos(cmp), "unsigned, or compared with != 0")
				}
			}
		}
	}
	return res
}
