package main

import (
	"fmt"
	"go/token"
	"go/types"
	"sort"
	"strings"

	"golang.org/x/tools/go/ssa"
)

func init() {
	register("UNS2", "a byte slice is viewed as a slice of wider elements only when it is not empty: the pointer behind an empty slice may point into (or just past) an allocation shorter than one element, and converting it to *T breaks the unsafe.Pointer rules — a program built with -race (checkptr) aborts in Freeze / FrozenView of the empty bitmap", ruleUNS2)
}

func ruleUNS2(p *Prog) *RuleResult {
	res := newResult("UNS2", ruleDoc["UNS2"], 3)
	fns := append([]*ssa.Function(nil), p.sourceFns()...)
	sort.Slice(fns, func(i, j int) bool { return fname(fns[i]) < fname(fns[j]) })
	sizes := types.SizesFor("gc", "amd64")
	for _, f := range fns {
		if f.Blocks == nil || strings.HasPrefix(f.Name(), "smat") {
			continue
		}
		n := 0
		for _, b := range f.Blocks {
			for _, ins := range b.Instrs {
				cv, ok := ins.(*ssa.Convert)
				if !ok {
					continue
				}
				if bt, ok := cv.X.Type().Underlying().(*types.Basic); !ok || bt.Kind() != types.UnsafePointer {
					continue
				}
				pt, ok := cv.Type().Underlying().(*types.Pointer)
				if !ok {
					continue
				}
				// source: unsafe.Pointer(unsafe.SliceData(s)) with a narrower element
				c1, ok := cv.X.(*ssa.Convert)
				if !ok {
					continue
				}
				call, ok := c1.X.(*ssa.Call)
				if !ok {
					continue
				}
				bi, ok := call.Call.Value.(*ssa.Builtin)
				if !ok || bi.Name() != "SliceData" || len(call.Call.Args) != 1 {
					continue
				}
				src := call.Call.Args[0]
				st, ok := src.Type().Underlying().(*types.Slice)
				if !ok || sizes.Sizeof(st.Elem()) >= sizes.Sizeof(pt.Elem()) {
					continue
				}
				n++
				c := fmt.Sprintf("%s|view as *%s#%d", fname(f), typeShort(pt.Elem()), n)
				if nonEmptyAt(src, cv.Block()) {
					res.ok(c, p.ipos(cv), "reached only with a non-empty slice")
				} else {
					res.bad(c, p.ipos(cv), fmt.Sprintf("the data pointer of a possibly empty %s is converted to *%s: behind an empty slice there may be fewer than %d bytes (Freeze of the empty bitmap hands in a slice of its 4-byte buffer), which the unsafe.Pointer rules forbid and checkptr (-race builds) turns into a fatal error", typeShort(src.Type()), typeShort(pt.Elem()), sizes.Sizeof(pt.Elem())))
				}
			}
		}
	}
	return res
}

// nonEmptyAt: every path to block at passes a branch edge on which len(s) != 0 (len(s) == 0 false,
// len(s) > 0 / >= k true, ...).
func nonEmptyAt(s ssa.Value, at *ssa.BasicBlock) bool {
	isLen := func(v ssa.Value) bool {
		c, ok := v.(*ssa.Call)
		if !ok {
			return false
		}
		bi, ok := c.Call.Value.(*ssa.Builtin)
		return ok && bi.Name() == "len" && len(c.Call.Args) == 1 && c.Call.Args[0] == s
	}
	child := at
	for d := at.Idom(); d != nil; child, d = d, d.Idom() {
		ifi, ok := d.Instrs[len(d.Instrs)-1].(*ssa.If)
		if !ok || d.Succs[0] == d.Succs[1] {
			continue
		}
		cmp, ok := ifi.Cond.(*ssa.BinOp)
		if !ok {
			continue
		}
		var truth, known bool
		for k := 0; k < 2; k++ {
			if (d.Succs[k] == child || d.Succs[k].Dominates(at)) && len(d.Succs[k].Preds) == 1 {
				truth, known = k == 0, true
			}
		}
		if !known {
			continue
		}
		op := cmp.Op
		x, y := cmp.X, cmp.Y
		if !isLen(x) && isLen(y) {
			x, y = y, x
			switch op {
			case token.LSS:
				op = token.GTR
			case token.GTR:
				op = token.LSS
			case token.LEQ:
				op = token.GEQ
			case token.GEQ:
				op = token.LEQ
			}
		}
		if !isLen(x) {
			continue
		}
		k, isC := constIntVal(y)
		if !isC {
			continue
		}
		if !truth {
			switch op {
			case token.EQL:
				op = token.NEQ
			case token.NEQ:
				op = token.EQL
			case token.LSS:
				op = token.GEQ
			case token.LEQ:
				op = token.GTR
			case token.GTR:
				op = token.LEQ
			case token.GEQ:
				op = token.LSS
			}
		}
		switch {
		case op == token.NEQ && k == 0, op == token.GTR && k >= 0, op == token.GEQ && k >= 1, op == token.EQL && k >= 1:
			return true
		}
	}
	return false
}
