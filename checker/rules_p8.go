package main

import (
	"fmt"
	"go/types"
	"sort"

	"golang.org/x/tools/go/ssa"
)

// P8 — a batch handed to a goroutine is not refilled while the goroutine reads it.
//
// The fan-out executors start one goroutine per loop round and hand it a batch of
// column ids. The loop refills "the batch" for the next worker right away, so each
// round must allocate its own: a buffer made before the loop, refilled inside it
// (passed to a call in the loop) and handed to `go` in the same loop is overwritten
// under the feet of the workers already running.
func init() {
	register("P8", "a slice handed to a goroutine that is started inside a loop (argument or captured variable of the go statement) is not (a re-slice of) a buffer made before that loop which the same loop also passes to an ordinary call — the refill for the next worker: every round allocates the batch it hands out, because the workers of the earlier rounds are still reading theirs", ruleP8)
}

func ruleP8(p *Prog) *RuleResult {
	res := newResult("P8", ruleDoc["P8"], 3)
	fns := append([]*ssa.Function(nil), p.sourceFns()...)
	sort.Slice(fns, func(i, j int) bool { return fname(fns[i]) < fname(fns[j]) })
	// bases of a slice value: the MakeSlice instructions it may be (a re-slice of)
	bases := func(v ssa.Value) []*ssa.MakeSlice {
		var out []*ssa.MakeSlice
		seen := map[ssa.Value]bool{}
		var walk func(v ssa.Value)
		walk = func(v ssa.Value) {
			if v == nil || seen[v] {
				return
			}
			seen[v] = true
			switch x := v.(type) {
			case *ssa.MakeSlice:
				out = append(out, x)
			case *ssa.Slice:
				walk(x.X)
			case *ssa.Phi:
				for _, e := range x.Edges {
					walk(e)
				}
			case *ssa.ChangeType:
				walk(x.X)
			}
		}
		walk(v)
		return out
	}
	isSlice := func(v ssa.Value) bool {
		_, ok := v.Type().Underlying().(*types.Slice)
		return ok
	}
	for _, f := range fns {
		n := 0
		for _, b := range f.Blocks {
			for _, ins := range b.Instrs {
				g, ok := ins.(*ssa.Go)
				if !ok {
					continue
				}
				loop := innermostLoop(b)
				if loop == nil {
					continue
				}
				var handed []ssa.Value
				for _, a := range g.Call.Args {
					if isSlice(a) {
						handed = append(handed, a)
					}
				}
				if mc, ok := g.Call.Value.(*ssa.MakeClosure); ok {
					for _, bd := range mc.Bindings {
						if isSlice(bd) {
							handed = append(handed, bd)
						}
					}
				}
				for _, h := range handed {
					n++
					cn := fmt.Sprintf("%s|slice handed to go#%d", fname(f), n)
					bad := false
					for _, ms := range bases(h) {
						if loop[ms.Block()] {
							continue // made in this round
						}
						// made before the loop: is it also passed to an ordinary call inside the loop?
						for _, lb := range f.Blocks {
							if !loop[lb] {
								continue
							}
							for _, li := range lb.Instrs {
								c, ok := li.(*ssa.Call)
								if !ok {
									continue
								}
								for _, a := range c.Call.Args {
									if !isSlice(a) {
										continue
									}
									for _, ms2 := range bases(a) {
										if ms2 == ms && !bad {
											bad = true
											res.bad(cn, p.ipos(g), fmt.Sprintf("the buffer made at %s, before the loop, is refilled by the call at %s in every round and handed to a goroutine in the same round: workers started earlier are still reading it", p.ipos(ms), p.ipos(c)))
										}
									}
								}
							}
						}
					}
					if !bad {
						res.ok(cn, p.ipos(g), "made in the round that hands it out, or not refilled inside the loop")
					}
				}
			}
		}
	}
	return res
}
