package main

import (
	"fmt"
	"go/token"
	"go/types"
	"strings"

	"golang.org/x/tools/go/ssa"
)

func init() {
	register("F2", "lazy -> repair: (a) every function that writes the words of a bitmap container also writes (updates, recomputes or invalidates) its cached cardinality on every path that follows the write; (b) every value produced by a lazy union reaches a return / channel / field only after repairAfterLazy", ruleF2)
}

// mustPassThrough: every path from instruction index idx of block from to a function exit
// (Return or Panic excluded) contains a block of S (or an instruction of S in `from` after idx).
func mustPassThrough(from *ssa.BasicBlock, S map[*ssa.BasicBlock]bool, target func(b *ssa.BasicBlock) bool) bool {
	seen := map[*ssa.BasicBlock]bool{}
	var w []*ssa.BasicBlock
	for _, s := range from.Succs {
		w = append(w, s)
	}
	if target(from) && len(from.Succs) == 0 {
		return false
	}
	for len(w) > 0 {
		b := w[len(w)-1]
		w = w[:len(w)-1]
		if seen[b] || S[b] {
			continue
		}
		seen[b] = true
		if target(b) {
			return false
		}
		w = append(w, b.Succs...)
	}
	return true
}

func isReturnBlock(b *ssa.BasicBlock) bool {
	if len(b.Instrs) == 0 {
		return false
	}
	_, ok := b.Instrs[len(b.Instrs)-1].(*ssa.Return)
	return ok
}

func ruleF2(p *Prog) *RuleResult {
	res := newResult("F2", ruleDoc["F2"], 20)
	own := p.OWN()
	bct := p.Type("roaring", "bitmapContainer")
	if bct == nil {
		res.undecided("bitmapContainer", "-", "type not found")
		return res
	}
	bcPtr := types.NewPointer(bct)

	// ---- (a) cardinality coherence ----
	// unsettled: unexported builders that return the bitmap container they filled with its cardinality still
	// to be settled (one result of type *bitmapContainer, the container itself returned on every path). The
	// obligation travels with the result: each call of such a builder counts as a write of the words of the
	// value it returns, in the caller.
	unsettled := map[*ssa.Function]bool{}
	var analyzeA func(f *ssa.Function, report bool) bool
	analyzeA = func(f *ssa.Function, report bool) (grew bool) {
		if fnPkgPath(f) != modPath {
			return false
		}
		type ev struct {
			ins ssa.Instruction
			x   ssa.Value
		}
		var wb, wc []ev
		baseOfBitmapSlice := func(v ssa.Value) ssa.Value {
			for i := 0; i < 4; i++ {
				switch y := v.(type) {
				case *ssa.Slice:
					v = y.X
					continue
				case *ssa.UnOp:
					if y.Op == token.MUL {
						if fa, ok := y.X.(*ssa.FieldAddr); ok && strings.HasSuffix(fieldName(fa.X.Type(), fa.Field), "bitmapContainer.bitmap") {
							return fa.X
						}
					}
				}
				break
			}
			return nil
		}
		for _, b := range f.Blocks {
			for _, ins := range b.Instrs {
				switch x := ins.(type) {
				case *ssa.Store:
					if ia, ok := x.Addr.(*ssa.IndexAddr); ok {
						if base := baseOfBitmapSlice(ia.X); base != nil {
							wb = append(wb, ev{x, base})
						}
					}
					if fa, ok := x.Addr.(*ssa.FieldAddr); ok && strings.HasSuffix(fieldName(fa.X.Type(), fa.Field), "bitmapContainer.cardinality") {
						wc = append(wc, ev{x, fa.X})
					}
					// whole-struct store *bc = ...
					if pt, ok := x.Addr.Type().Underlying().(*types.Pointer); ok && types.Identical(pt.Elem(), bct) {
						wc = append(wc, ev{x, x.Addr})
					}
				case *ssa.Call:
					if bi, ok := x.Call.Value.(*ssa.Builtin); ok {
						if bi.Name() == "copy" || bi.Name() == "clear" {
							if base := baseOfBitmapSlice(x.Call.Args[0]); base != nil {
								wb = append(wb, ev{x, base})
							}
						}
						continue
					}
					if c := x.Call.StaticCallee(); c != nil && unsettled[c] {
						wb = append(wb, ev{x, x})
					}
					var callees []*ssa.Function
					args := x.Call.Args
					if x.Call.IsInvoke() {
						callees = own.lookupImpls(&x.Call)
						args = append([]ssa.Value{x.Call.Value}, args...)
					} else if c := x.Call.StaticCallee(); c != nil {
						callees = append(callees, c)
					}
					for ai, a := range args {
						// a bitmap container passed to a callee that writes it
						if types.Identical(a.Type(), bcPtr) {
							wBit, wCard := false, false
							for _, c := range callees {
								if s := own.Sum(c); s != nil {
									if e := s.mut[ai]; e != nil {
										if _, ok := e.cells["bitmapContainer.bitmap"]; ok {
											wBit = true
										}
										if _, ok := e.cells["bitmapContainer.cardinality"]; ok {
											wCard = true
										}
									}
								}
							}
							if wBit && !wCard {
								wb = append(wb, ev{x, a})
							}
							if wCard {
								wc = append(wc, ev{x, a})
							}
						}
						// the word slice passed to a helper that writes it
						if base := baseOfBitmapSlice(a); base != nil {
							for _, c := range callees {
								if s := own.Sum(c); s != nil {
									if e := s.mut[ai]; e != nil && e.shallow {
										wb = append(wb, ev{x, base})
									}
								} else if c.Blocks == nil {
									// assembly / external: writes only parameters named as outputs (see OWN.external)
								}
							}
						}
					}
				}
			}
		}
		if len(wb) == 0 {
			return false
		}
		perX := map[ssa.Value]int{}
		for _, w := range wb {
			x := stripAssert(w.x)
			perX[x]++
		}
		done := map[ssa.Value]bool{}
		for _, w := range wb {
			x := stripAssert(w.x)
			if done[x] {
				continue // one obligation per (function, container value)
			}
			done[x] = true
			c := fmt.Sprintf("%s|cardinality of %s", fname(f), valueLabel(x))
			// collect all writes of this container and all cardinality writes of it
			S := map[*ssa.BasicBlock]bool{}
			var cardIns []ssa.Instruction
			for _, cw := range wc {
				if stripAssert(cw.x) == x {
					S[cw.ins.Block()] = true
					cardIns = append(cardIns, cw.ins)
				}
			}
			bad := ""
			for _, w2 := range wb {
				if stripAssert(w2.x) != x {
					continue
				}
				blk := w2.ins.Block()
				okHere := false
				// same block
				if S[blk] {
					okHere = true
				}
				// a cardinality write on every path that follows
				if !okHere && mustPassThrough(blk, S, isReturnBlock) && !isReturnBlock(blk) {
					okHere = true
				}
				// or a cardinality update that dominates the write (update-then-write idiom)
				if !okHere {
					for _, ci := range cardIns {
						if ci.Block().Dominates(blk) {
							okHere = true
						}
					}
				}
				if !okHere {
					bad = fmt.Sprintf("the words of the bitmap container are written at %s but on some path to a return its cached cardinality is neither updated nor invalidated", p.ipos(w2.ins))
				}
			}
			if bad != "" {
				// handed to the caller unsettled?
				hand := f.Signature.Results().Len() == 1 && types.Identical(f.Signature.Results().At(0).Type(), bcPtr) && !token.IsExported(f.Name()) && f.Parent() == nil
				nret := 0
				for _, b := range f.Blocks {
					if r, ok := b.Instrs[len(b.Instrs)-1].(*ssa.Return); ok {
						nret++
						if len(r.Results) != 1 || stripAssert(r.Results[0]) != x {
							hand = false
						}
					}
				}
				if hand && nret > 0 {
					if !unsettled[f] {
						unsettled[f] = true
						grew = true
					}
					if report {
						res.ok(c, p.pos(f.Pos()), "an unexported builder that returns this container on every path: the cardinality is the caller's to settle, and each call site is checked as a write of the words of its result")
					}
					continue
				}
			}
			if !report {
				continue
			}
			if bad != "" {
				res.bad(c, p.pos(f.Pos()), bad)
			} else {
				res.ok(c, p.pos(f.Pos()), fmt.Sprintf("%d word write(s), cardinality written on every following path", perX[x]))
			}
		}
		return grew
	}
	for iter := 0; iter < 4; iter++ {
		grew := false
		for _, f := range p.sourceFns() {
			if analyzeA(f, false) {
				grew = true
			}
		}
		if !grew {
			break
		}
	}
	for _, f := range p.sourceFns() {
		analyzeA(f, true)
	}

	// ---- (b) lazy values are repaired before they escape ----
	lazyProducers := map[string]bool{
		"roaring.lazyOR": true, "(*roaring.Bitmap).lazyOR": true, "roaring.lazyOrOnRange": true, "roaring.lazyIOrOnRange": true,
	}
	isLazyCall := func(c *ssa.CallCommon) bool {
		if c.IsInvoke() {
			return c.Method.Name() == "lazyOR" || c.Method.Name() == "lazyIOR"
		}
		if f := c.StaticCallee(); f != nil {
			if lazyProducers[fname(f)] {
				return true
			}
			if f.Signature.Recv() != nil && (f.Name() == "lazyOR" || f.Name() == "lazyIOR") && fnPkgPath(f) == modPath {
				return true
			}
		}
		return false
	}
	isRepairCall := func(c *ssa.CallCommon) bool {
		f := c.StaticCallee()
		return f != nil && f.Name() == "repairAfterLazy" && fnPkgPath(f) == modPath
	}
	for _, name := range []string{"roaring.repairAfterLazy", "(*roaring.Bitmap).repairAfterLazy", "roaring.lazyOR", "(*roaring.Bitmap).lazyOR"} {
		if p.Func(name) == nil {
			res.undecided("anchor:"+name, "-", "anchor not found")
		}
	}
	for _, f := range p.sourceFns() {
		if fnPkgPath(f) != modPath {
			continue
		}
		g := f
		for g.Parent() != nil {
			g = g.Parent()
		}
		// lazy functions themselves hand their unrepaired result to their caller by design
		if lazyProducers[fname(g)] || strings.HasPrefix(g.Name(), "lazy") || g.Name() == "repairAfterLazy" {
			continue
		}
		if g.Signature.Recv() != nil && isKindType(p, g.Signature.Recv().Type()) {
			continue
		}
		var lazyCalls []*ssa.Call
		repairBlocks := map[*ssa.BasicBlock]bool{}
		for _, b := range f.Blocks {
			for _, ins := range b.Instrs {
				if c, ok := ins.(*ssa.Call); ok {
					if isLazyCall(&c.Call) {
						lazyCalls = append(lazyCalls, c)
					}
					if isRepairCall(&c.Call) {
						repairBlocks[b] = true
					}
				}
			}
		}
		for i, lc := range lazyCalls {
			c := fmt.Sprintf("%s|lazy result#%d (%s)", fname(f), i+1, calleeName(&lc.Call))
			// escapes: returns, sends, and (for goroutine bodies) the end of the loop iteration that sends
			escapes := func(b *ssa.BasicBlock) bool {
				for _, ins := range b.Instrs {
					switch x := ins.(type) {
					case *ssa.Return:
						if len(x.Results) > 0 {
							return true
						}
					case *ssa.Send:
						return true
					}
				}
				return false
			}
			if len(repairBlocks) == 0 {
				res.bad(c, p.ipos(lc), "a lazy union result is produced here but this function never calls repairAfterLazy")
				continue
			}
			// a repair in the same block after the lazy call
			sameBlockRepair := false
			after := false
			for _, ins := range lc.Block().Instrs {
				if ins == ssa.Instruction(lc) {
					after = true
					continue
				}
				if c2, ok := ins.(*ssa.Call); ok && after && isRepairCall(&c2.Call) {
					sameBlockRepair = true
				}
			}
			// table form: `for i, c := range ra.containers { ra.containers[i] = repairAfterLazy(c) }` repairs
			// every container; with zero containers there is nothing to repair, so the loop may be skipped
			loopRepair := false
			for rb := range repairBlocks {
				for _, ins := range rb.Instrs {
					c2, ok := ins.(*ssa.Call)
					if !ok || !isRepairCall(&c2.Call) || len(c2.Call.Args) != 1 {
						continue
					}
					idx, ok := elemLoad(c2.Call.Args[0], "roaringArray.containers")
					if !ok || !inductionOver(f, idx, "roaringArray.containers", "-1", "0") {
						continue
					}
					// result stored back into the same slot
					stored := false
					if c2.Referrers() != nil {
						for _, r := range *c2.Referrers() {
							if st, ok := r.(*ssa.Store); ok {
								if ia, ok := st.Addr.(*ssa.IndexAddr); ok && ia.Index == idx {
									if _, ok := loadOfField(ia.X, "roaringArray.containers"); ok {
										stored = true
									}
								}
							}
						}
					}
					hdr := idx
					if bo, ok := hdr.(*ssa.BinOp); ok {
						hdr = bo.X
					}
					ph, isPhi := hdr.(*ssa.Phi)
					if !stored || !isPhi {
						continue
					}
					all := true
					for _, b := range f.Blocks {
						if escapes(b) && !ph.Block().Dominates(b) {
							all = false
						}
					}
					if all {
						loopRepair = true
					}
				}
			}
			if loopRepair {
				res.ok(c, p.ipos(lc), "every container of the lazy table is repaired in a loop that precedes the send")
			} else if sameBlockRepair || mustPassThrough(lc.Block(), repairBlocks, escapes) {
				res.ok(c, p.ipos(lc), "repairAfterLazy on every path to a return / send")
			} else {
				res.bad(c, p.ipos(lc), "a path from this lazy union to a return or channel send does not pass through repairAfterLazy")
			}
		}
	}
	return res
}

func valueLabel(v ssa.Value) string {
	switch x := v.(type) {
	case *ssa.Parameter:
		return "parameter " + x.Name()
	case *ssa.Alloc:
		if x.Comment != "" {
			return "local " + x.Comment
		}
	case *ssa.Call:
		return "result of " + calleeName(&x.Call)
	}
	return "value"
}
