package main

import (
	"fmt"
	"go/token"
	"go/types"
	"regexp"
	"sort"

	"golang.org/x/tools/go/ssa"
)

func init() {
	register("U10", "a 16-bit sum or difference is not an operand of an order comparison (<, <=, >, >=): at 65535 / 0 it wraps and the comparison answers for the wrong number (v > last()+1 is true for every v once last() is 65535). Accepted structurally: start+length of one and the same interval16 value, which is its last element and at most 65535 by the type's invariant; two triaged sites compare key±1 with a neighbouring key that is strictly larger / smaller", ruleU10)
}

func ruleU10(p *Prog) *RuleResult {
	res := newResult("U10", ruleDoc["U10"], 3)
	seen := map[string]int{}
	fns := append([]*ssa.Function(nil), p.sourceFns()...)
	sort.Slice(fns, func(i, j int) bool { return fname(fns[i]) < fname(fns[j]) })
	for _, f := range fns {
		n := 0
		for _, b := range f.Blocks {
			for _, ins := range b.Instrs {
				bo, ok := ins.(*ssa.BinOp)
				if !ok || (bo.Op != token.ADD && bo.Op != token.SUB) {
					continue
				}
				bt, ok := bo.Type().Underlying().(*types.Basic)
				if !ok || (bt.Kind() != types.Uint16) {
					continue
				}
				if _, isC := bo.X.(*ssa.Const); isC {
					if _, isC2 := bo.Y.(*ssa.Const); isC2 {
						continue
					}
				}
				if bo.Referrers() == nil {
					continue
				}
				compared := false
				var cmpAt *ssa.BinOp
				for _, r := range *bo.Referrers() {
					if cmp, ok := r.(*ssa.BinOp); ok {
						switch cmp.Op {
						case token.LSS, token.GTR, token.LEQ, token.GEQ:
							compared = true
							cmpAt = cmp
						}
					}
				}
				if !compared {
					continue
				}
				n++
				shape := p.exprShape(bo.Pos())
				cn := fmt.Sprintf("%s|%s#%d", fname(f), shape, n)
				// start + length of one interval
				if bo.Op == token.ADD && sameIntervalFields(bo.X, bo.Y) {
					res.ok(cn, p.ipos(bo), "start + length of one interval16: its last element")
					continue
				}
				// a field of a struct that holds the key counts as the key: <keyedChunk>.(uint16) + 1 is <uint16> + 1
				key := fname(f) + "|" + reducedShape(shape)
				seen[key]++
				if t, ok := u10Allowed[key]; ok && seen[key] <= t.n {
					res.ok(cn, p.ipos(bo), "triaged: "+t.why)
					continue
				}
				res.bad(cn, p.ipos(bo), fmt.Sprintf("the 16-bit %s is compared as it is (%s): it wraps at the edge of the chunk/key space", bo.Op, p.exprText(cmpAt.Pos())))
			}
		}
	}
	return res
}

var u10Allowed = map[string]struct {
	n   int
	why string
}{
	"(*roaring.Bitmap).NextAbsentValue|<uint16> + 1":     {1, "containerKey < nextContainerKey (keys strictly increase), so containerKey+1 <= 65535"},
	"(*roaring.Bitmap).PreviousAbsentValue|<uint16> - 1": {1, "nextContainerKey < containerKey (walking down a strictly increasing key list), so containerKey >= 1"},
}

// sameIntervalFields: x and y are two different fields of the same struct value (value or through the same address)
func sameIntervalFields(x, y ssa.Value) bool {
	fx, okx := u10FieldOf(x)
	fy, oky := u10FieldOf(y)
	return okx && oky && fx.field != fy.field && sameAccessPath(fx.base, fy.base, 0) && fx.styp == fy.styp
}

type u10Field struct {
	base  ssa.Value
	field int
	styp  string
}

func u10FieldOf(v ssa.Value) (u10Field, bool) {
	switch x := v.(type) {
	case *ssa.Field:
		return u10Field{x.X, x.Field, x.X.Type().String()}, true
	case *ssa.UnOp:
		if x.Op == token.MUL {
			if fa, ok := x.X.(*ssa.FieldAddr); ok {
				return u10Field{fa.X, fa.Field, fa.X.Type().String()}, true
			}
		}
	}
	return u10Field{}, false
}

var fieldOfShape = regexp.MustCompile(`<[^<>]*>\.\(([^()]*)\)`)

// reducedShape folds "<T>.(U)" (a field of type U of a value of type T) into "<U>"
func reducedShape(s string) string {
	for i := 0; i < 4; i++ {
		t := fieldOfShape.ReplaceAllString(s, "<$1>")
		if t == s {
			break
		}
		s = t
	}
	return s
}
