package main

import (
	"go/constant"
	"go/token"
	"go/types"

	"golang.org/x/tools/go/ssa"
)

// A tiny concrete evaluator for integer/boolean SSA: enough to run a small pure helper (a classification
// function: ifs, comparisons, constants) on given arguments, and to evaluate a branch condition in which
// the free integer leaves are given one value and the free boolean leaves another.

type cval struct {
	isBool bool
	i      int64
	b      bool
}

type concreteEnv struct {
	bind     map[ssa.Value]cval // values given to particular SSA values (the quantity the table is drawn over)
	intFree  bool               // whether unbound integer leaves take freeInt (else the evaluation fails)
	freeInt  int64              // value of integer leaves that are not constants
	freeBool bool               // value of boolean leaves that are not constants
	steps    int
}

func (e *concreteEnv) constVal(c *ssa.Const) (cval, bool) {
	if c.Value == nil {
		return cval{}, false
	}
	switch c.Value.Kind() {
	case constant.Bool:
		return cval{isBool: true, b: constant.BoolVal(c.Value)}, true
	case constant.Int:
		v, ok := constant.Int64Val(c.Value)
		return cval{i: v}, ok
	}
	return cval{}, false
}

func binop(op token.Token, x, y cval) (cval, bool) {
	if x.isBool != y.isBool {
		return cval{}, false
	}
	if x.isBool {
		switch op {
		case token.EQL:
			return cval{isBool: true, b: x.b == y.b}, true
		case token.NEQ:
			return cval{isBool: true, b: x.b != y.b}, true
		case token.AND:
			return cval{isBool: true, b: x.b && y.b}, true
		case token.OR:
			return cval{isBool: true, b: x.b || y.b}, true
		}
		return cval{}, false
	}
	bv := func(b bool) (cval, bool) { return cval{isBool: true, b: b}, true }
	switch op {
	case token.ADD:
		return cval{i: x.i + y.i}, true
	case token.SUB:
		return cval{i: x.i - y.i}, true
	case token.MUL:
		return cval{i: x.i * y.i}, true
	case token.QUO:
		if y.i == 0 {
			return cval{}, false
		}
		return cval{i: x.i / y.i}, true
	case token.SHL:
		return cval{i: x.i << uint(y.i)}, true
	case token.SHR:
		return cval{i: x.i >> uint(y.i)}, true
	case token.AND:
		return cval{i: x.i & y.i}, true
	case token.OR:
		return cval{i: x.i | y.i}, true
	case token.EQL:
		return bv(x.i == y.i)
	case token.NEQ:
		return bv(x.i != y.i)
	case token.LSS:
		return bv(x.i < y.i)
	case token.LEQ:
		return bv(x.i <= y.i)
	case token.GTR:
		return bv(x.i > y.i)
	case token.GEQ:
		return bv(x.i >= y.i)
	}
	return cval{}, false
}

// evalExpr evaluates v as an expression over free leaves (no control flow of the enclosing function is followed).
func (e *concreteEnv) evalExpr(v ssa.Value, depth int) (cval, bool) {
	if depth > 12 {
		return cval{}, false
	}
	if bv, ok := e.bind[v]; ok {
		return bv, true
	}
	switch x := v.(type) {
	case *ssa.Const:
		return e.constVal(x)
	case *ssa.BinOp:
		a, ok1 := e.evalExpr(x.X, depth+1)
		b, ok2 := e.evalExpr(x.Y, depth+1)
		if !ok1 || !ok2 {
			return cval{}, false
		}
		return binop(x.Op, a, b)
	case *ssa.UnOp:
		if x.Op == token.NOT {
			a, ok := e.evalExpr(x.X, depth+1)
			if !ok || !a.isBool {
				return cval{}, false
			}
			return cval{isBool: true, b: !a.b}, true
		}
	case *ssa.Convert:
		return e.evalExpr(x.X, depth+1)
	case *ssa.ChangeType:
		return e.evalExpr(x.X, depth+1)
	case *ssa.Call:
		g := x.Call.StaticCallee()
		if g == nil || x.Call.IsInvoke() || g.Blocks == nil || !inRepo(g) {
			break
		}
		var args []cval
		for _, a := range x.Call.Args {
			av, ok := e.evalExpr(a, depth+1)
			if !ok {
				return cval{}, false
			}
			args = append(args, av)
		}
		return e.evalFunc(g, args)
	}
	// a free leaf
	if bt, ok := v.Type().Underlying().(*types.Basic); ok {
		if bt.Info()&types.IsBoolean != 0 {
			return cval{isBool: true, b: e.freeBool}, true
		}
		if bt.Info()&types.IsInteger != 0 && e.intFree {
			return cval{i: e.freeInt}, true
		}
	}
	return cval{}, false
}

// evalFunc runs g on concrete arguments; only integer/boolean code without memory is supported.
func (e *concreteEnv) evalFunc(g *ssa.Function, args []cval) (cval, bool) {
	if len(args) != len(g.Params) || len(g.Blocks) == 0 {
		return cval{}, false
	}
	vals := map[ssa.Value]cval{}
	for i, prm := range g.Params {
		vals[prm] = args[i]
	}
	var get func(v ssa.Value) (cval, bool)
	get = func(v ssa.Value) (cval, bool) {
		if c, ok := v.(*ssa.Const); ok {
			return e.constVal(c)
		}
		cv, ok := vals[v]
		return cv, ok
	}
	b := g.Blocks[0]
	var prev *ssa.BasicBlock
	for {
		cur := b
		moved := false
		for _, ins := range cur.Instrs {
			e.steps++
			if e.steps > 2000 {
				return cval{}, false
			}
			switch x := ins.(type) {
			case *ssa.Phi:
				for k, p := range cur.Preds {
					if p == prev {
						v, ok := get(x.Edges[k])
						if !ok {
							return cval{}, false
						}
						vals[x] = v
					}
				}
			case *ssa.BinOp:
				a, ok1 := get(x.X)
				c, ok2 := get(x.Y)
				if !ok1 || !ok2 {
					return cval{}, false
				}
				r, ok := binop(x.Op, a, c)
				if !ok {
					return cval{}, false
				}
				vals[x] = r
			case *ssa.UnOp:
				a, ok := get(x.X)
				if !ok || x.Op != token.NOT || !a.isBool {
					return cval{}, false
				}
				vals[x] = cval{isBool: true, b: !a.b}
			case *ssa.Convert:
				a, ok := get(x.X)
				if !ok {
					return cval{}, false
				}
				vals[x] = a
			case *ssa.ChangeType:
				a, ok := get(x.X)
				if !ok {
					return cval{}, false
				}
				vals[x] = a
			case *ssa.Call:
				h := x.Call.StaticCallee()
				if h == nil || x.Call.IsInvoke() || h.Blocks == nil || !inRepo(h) {
					return cval{}, false
				}
				var as []cval
				for _, a := range x.Call.Args {
					av, ok := get(a)
					if !ok {
						return cval{}, false
					}
					as = append(as, av)
				}
				r, ok := e.evalFunc(h, as)
				if !ok {
					return cval{}, false
				}
				vals[x] = r
			case *ssa.If:
				c, ok := get(x.Cond)
				if !ok || !c.isBool {
					return cval{}, false
				}
				prev = cur
				moved = true
				if c.b {
					b = cur.Succs[0]
				} else {
					b = cur.Succs[1]
				}
			case *ssa.Jump:
				prev = cur
				moved = true
				b = cur.Succs[0]
			case *ssa.Return:
				if len(x.Results) != 1 {
					return cval{}, false
				}
				return get(x.Results[0])
			case *ssa.DebugRef:
			default:
				return cval{}, false
			}
		}
		if !moved {
			return cval{}, false
		}
	}
}
