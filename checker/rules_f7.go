package main

import (
	"fmt"
	"go/token"
	"go/types"

	"golang.org/x/tools/go/ssa"
)

func init() {
	register("F7", "consumer stop is honoured: the bool result of every callback invocation (cb / yield, directly or through a helper that takes the callback) is examined, and once it says stop no path invokes the callback again", ruleF7)
}

func isStopFunc(t types.Type) bool {
	sig, ok := t.Underlying().(*types.Signature)
	if !ok || sig.Results().Len() != 1 {
		return false
	}
	b, ok := sig.Results().At(0).Type().Underlying().(*types.Basic)
	return ok && b.Kind() == types.Bool
}

func ruleF7(p *Prog) *RuleResult {
	res := newResult("F7", ruleDoc["F7"], 8)
	for _, f := range p.sourceFns() {
		// callback values of this function: parameters and captured variables of stop-func type, and
		// local closures that themselves invoke a callback
		cbs := map[ssa.Value]bool{}
		for _, prm := range f.Params {
			if isStopFunc(prm.Type()) {
				cbs[prm] = true
			}
		}
		for _, fv := range f.FreeVars {
			if isStopFunc(fv.Type()) {
				cbs[fv] = true
			}
			// captured by reference: *func
			if pt, ok := fv.Type().Underlying().(*types.Pointer); ok && isStopFunc(pt.Elem()) {
				cbs[fv] = true
			}
		}
		if len(cbs) == 0 {
			continue
		}
		invokesCB := func(g *ssa.Function) bool {
			for _, b := range g.Blocks {
				for _, ins := range b.Instrs {
					if c, ok := ins.(*ssa.Call); ok && c.Call.StaticCallee() == nil && !c.Call.IsInvoke() {
						if _, isB := c.Call.Value.(*ssa.Builtin); !isB && isStopFunc(c.Call.Value.Type()) {
							return true
						}
					}
				}
			}
			return false
		}
		for _, b := range f.Blocks {
			for _, ins := range b.Instrs {
				if mc, ok := ins.(*ssa.MakeClosure); ok && isStopFunc(mc.Type()) && invokesCB(mc.Fn.(*ssa.Function)) {
					cbs[mc] = true
				}
			}
		}
		// local variables (captured by closures, hence kept in memory) that hold a callback
		for changed := true; changed; {
			changed = false
			for _, b := range f.Blocks {
				for _, ins := range b.Instrs {
					if st, ok := ins.(*ssa.Store); ok {
						if al, ok := st.Addr.(*ssa.Alloc); ok && cbs[st.Val] && !cbs[al] {
							cbs[al] = true
							changed = true
						}
					}
				}
			}
		}
		cbName := func(v ssa.Value) string {
			if u, ok := v.(*ssa.UnOp); ok {
				v = u.X
			}
			switch x := v.(type) {
			case *ssa.Alloc:
				return x.Comment
			case *ssa.MakeClosure:
				return "closure"
			}
			return v.Name()
		}
		isCB := func(v ssa.Value) bool {
			if cbs[v] {
				return true
			}
			if u, ok := v.(*ssa.UnOp); ok && u.Op == token.MUL && cbs[u.X] {
				return true
			}
			return false
		}
		// callback call sites
		type cbCall struct {
			call *ssa.Call
			desc string
		}
		var calls []cbCall
		for _, b := range f.Blocks {
			for _, ins := range b.Instrs {
				c, ok := ins.(*ssa.Call)
				if !ok {
					continue
				}
				if isCB(c.Call.Value) {
					calls = append(calls, cbCall{c, "callback " + cbName(c.Call.Value)})
					continue
				}
				if mc, ok := c.Call.Value.(*ssa.MakeClosure); ok && cbs[mc] {
					calls = append(calls, cbCall{c, "closure " + mc.Fn.Name()})
					continue
				}
				// helper that takes the callback and reports "continue?" as a bool
				if isStopFunc(types.NewSignatureType(nil, nil, nil, nil, c.Call.Signature().Results(), false)) {
					for _, a := range c.Call.Args {
						if isCB(a) {
							calls = append(calls, cbCall{c, "helper " + calleeName(&c.Call)})
							break
						}
					}
				}
			}
		}
		if len(calls) == 0 {
			continue
		}
		callBlocks := map[*ssa.BasicBlock]bool{}
		for _, c := range calls {
			callBlocks[c.call.Block()] = true
		}
		reaches := func(from *ssa.BasicBlock) bool {
			seen := map[*ssa.BasicBlock]bool{}
			var w []*ssa.BasicBlock
			w = append(w, from)
			for len(w) > 0 {
				b := w[len(w)-1]
				w = w[:len(w)-1]
				if seen[b] {
					continue
				}
				seen[b] = true
				if callBlocks[b] {
					return true
				}
				w = append(w, b.Succs...)
			}
			return false
		}
		per := map[string]int{}
		for _, cc := range calls {
			per[cc.desc]++
			construct := fmt.Sprintf("%s|%s#%d", fname(f), cc.desc, per[cc.desc])
			pos := p.ipos(cc.call)
			// how is the result used?
			var ifs []*ssa.If
			var negs []bool
			forwarded := false
			var walk func(v ssa.Value, neg bool)
			walk = func(v ssa.Value, neg bool) {
				if v.Referrers() == nil {
					return
				}
				for _, r := range *v.Referrers() {
					switch x := r.(type) {
					case *ssa.If:
						ifs = append(ifs, x)
						negs = append(negs, neg)
					case *ssa.UnOp:
						if x.Op == token.NOT {
							walk(x, !neg)
						} else {
							forwarded = true
						}
					case *ssa.DebugRef:
					default:
						forwarded = true
					}
				}
			}
			walk(cc.call, false)
			switch {
			case len(ifs) == 0 && !forwarded:
				// ignored result: only acceptable when nothing can invoke the callback afterwards
				after := false
				blk := cc.call.Block()
				seenSelf := false
				for _, ins := range blk.Instrs {
					if ins == ssa.Instruction(cc.call) {
						seenSelf = true
						continue
					}
					if seenSelf {
						if c2, ok := ins.(*ssa.Call); ok {
							for _, o := range calls {
								if o.call == c2 {
									after = true
								}
							}
						}
					}
				}
				for _, s := range blk.Succs {
					if reaches(s) {
						after = true
					}
				}
				if after {
					res.bad(construct, pos, "the consumer's answer is ignored and the callback may be invoked again afterwards")
				} else {
					res.ok(construct, pos, "result ignored, but nothing is produced afterwards")
				}
			case len(ifs) == 0:
				res.ok(construct, pos, "answer forwarded to the caller")
			default:
				bad := ""
				for i, ifi := range ifs {
					stop := ifi.Block().Succs[1] // result false = stop
					if negs[i] {
						stop = ifi.Block().Succs[0]
					}
					if reaches(stop) {
						bad = fmt.Sprintf("after the consumer asked to stop (branch at %s) the callback can be invoked again", p.ipos(ifi))
					}
				}
				if bad != "" {
					res.bad(construct, pos, bad)
				} else {
					res.ok(construct, pos, "stop edge leaves the producer")
				}
			}
		}
	}
	return res
}
