package main

import (
	"fmt"
	"go/ast"
	"go/types"
	"sort"
	"strings"
)

func init() {
	register("F1", "every type switch over a roaring.container handles all three kinds (or has a default); partial switches only where frozen in the model", ruleF1)
}

// Partial type switches over container that are correct because the remaining kinds need no action
// there. Confirmed by reading; keyed by function and the exact set of handled kinds.
var partialKindSwitches = map[string]string{
	"roaring.repairAfterLazy":                   "bitmapContainer",               // only bitmap containers carry the lazy sentinel
	"(*roaring.Bitmap).repairAfterLazy":         "bitmapContainer",               // idem
	"roaring.toBitmapContainer":                 "arrayContainer,runContainer16", // a bitmap container is returned as is
	"(*roaring.roaringArray).writeTo":           "runContainer16",                // run-flag bitmap: only runs set a bit (offset loop has a default)
	"(*roaring.roaringArray).hasRunCompression": "runContainer16",
}

type typeSwitchInfo struct {
	fn      string
	pos     string
	kinds   []string
	deflt   bool
	operand string
}

// enclosingFuncName maps an AST position to the package-qualified function name used by fname().
func (p *Prog) astFuncName(pkgPath string, fd *ast.FuncDecl) string {
	pk := "roaring"
	if pkgPath != modPath {
		pk = strings.TrimPrefix(pkgPath, modPath+"/")
	}
	if fd.Recv == nil || len(fd.Recv.List) == 0 {
		return pk + "." + fd.Name.Name
	}
	t := fd.Recv.List[0].Type
	ptr := false
	if st, ok := t.(*ast.StarExpr); ok {
		ptr = true
		t = st.X
	}
	name := ""
	switch x := t.(type) {
	case *ast.Ident:
		name = x.Name
	case *ast.IndexExpr:
		if id, ok := x.X.(*ast.Ident); ok {
			name = id.Name
		}
	}
	if ptr {
		return "(*" + pk + "." + name + ")." + fd.Name.Name
	}
	return "(" + pk + "." + name + ")." + fd.Name.Name
}

func (p *Prog) containerTypeSwitches() ([]typeSwitchInfo, error) {
	ct := p.Type("roaring", "container")
	if ct == nil {
		return nil, fmt.Errorf("roaring.container not found")
	}
	var out []typeSwitchInfo
	for _, pk := range p.Pkgs {
		for _, file := range pk.Syntax {
			for _, d := range file.Decls {
				fd, ok := d.(*ast.FuncDecl)
				if !ok || fd.Body == nil {
					continue
				}
				fn := p.astFuncName(pk.PkgPath, fd)
				ast.Inspect(fd.Body, func(n ast.Node) bool {
					ts, ok := n.(*ast.TypeSwitchStmt)
					if !ok {
						return true
					}
					var x ast.Expr
					switch a := ts.Assign.(type) {
					case *ast.AssignStmt:
						x = a.Rhs[0].(*ast.TypeAssertExpr).X
					case *ast.ExprStmt:
						x = a.X.(*ast.TypeAssertExpr).X
					}
					tv, ok := pk.TypesInfo.Types[x]
					if !ok || !types.Identical(tv.Type, ct) {
						return true
					}
					info := typeSwitchInfo{fn: fn, pos: p.pos(ts.Pos()), operand: types.ExprString(x)}
					for _, cc := range ts.Body.List {
						cl := cc.(*ast.CaseClause)
						if cl.List == nil {
							info.deflt = true
						}
						for _, e := range cl.List {
							if t, ok := pk.TypesInfo.Types[e]; ok {
								s := tname(t.Type)
								s = strings.TrimPrefix(s, "*")
								s = strings.TrimPrefix(s, "roaring.")
								info.kinds = append(info.kinds, s)
							}
						}
					}
					sort.Strings(info.kinds)
					out = append(out, info)
					return true
				})
			}
		}
	}
	return out, nil
}

func ruleF1(p *Prog) *RuleResult {
	res := newResult("F1", ruleDoc["F1"], 40)
	_, impls := p.containerImpls()
	var all []string
	for _, k := range impls {
		all = append(all, strings.TrimPrefix(strings.TrimPrefix(tname(k), "*"), "roaring."))
	}
	sort.Strings(all)
	if len(all) != 3 {
		res.undecided("kinds", "-", fmt.Sprintf("expected 3 container kinds, found %v", all))
	}
	sw, err := p.containerTypeSwitches()
	if err != nil {
		res.undecided("anchors", "-", err.Error())
		return res
	}
	perFn := map[string]int{}
	for _, s := range sw {
		perFn[s.fn]++
		c := fmt.Sprintf("%s|switch#%d(%s)", s.fn, perFn[s.fn], s.operand)
		have := map[string]bool{}
		for _, k := range s.kinds {
			have[k] = true
		}
		var missing []string
		for _, k := range all {
			if !have[k] {
				missing = append(missing, k)
			}
		}
		switch {
		case len(missing) == 0 || s.deflt:
			res.ok(c, s.pos, strings.Join(s.kinds, ","))
		case partialKindSwitches[s.fn] == strings.Join(s.kinds, ","):
			res.ok(c, s.pos, "partial switch frozen in the model: "+strings.Join(s.kinds, ","))
		case len(s.kinds) == 1 && partialKindSwitches[s.fn] == "":
			// `switch x.(type) { case *T: ... }` with a single case is the type-test idiom (the same as
			// `if _, ok := x.(*T); ok`), not a dispatch over the kinds; a function that is in the table
			// above must still match its entry, so a dispatch that loses cases is not excused by this
			res.ok(c, s.pos, "single-case type test on "+s.kinds[0])
		default:
			res.bad(c, s.pos, fmt.Sprintf("type switch over a container handles only %v; %v would fall through", s.kinds, missing))
		}
	}
	return res
}
