package main

import (
	"fmt"
	"go/types"
	"sort"
	"strings"

	"golang.org/x/tools/go/ssa"
)

func init() {
	register("A1.kernel", "container kernels never write their operands; non-in-place kernels never write their receiver (OWN Mut summaries, all 3 kinds)", ruleA1Kernel)
	register("A6.kernel", "non-in-place kernels return fresh containers; in-place kernels return the receiver or a fresh container, never the argument (OWN Ret summaries)", ruleA6Kernel)
}

// kindMethods returns, per container kind, all its source methods, and the set of interface method names.
func kindMethods(p *Prog) (ifaceNames map[string]bool, perKind map[string][]*ssa.Function, err error) {
	iface, impls := p.containerImpls()
	if iface == nil || len(impls) == 0 {
		return nil, nil, fmt.Errorf("cannot resolve roaring.container or its implementers")
	}
	ifaceNames = map[string]bool{}
	for i := 0; i < iface.NumMethods(); i++ {
		ifaceNames[iface.Method(i).Name()] = true
	}
	perKind = map[string][]*ssa.Function{}
	for _, k := range impls {
		elem := k
		if pt, ok := k.(*types.Pointer); ok {
			elem = pt.Elem()
		}
		perKind[tname(k)] = p.Methods(elem)
	}
	return
}

func cellList(e *eff, pred func(string) bool) []string {
	var cs []string
	for c := range e.cells {
		if pred == nil || pred(c) {
			if c == "" {
				c = "<raw memory>"
			}
			cs = append(cs, c)
		}
	}
	sort.Strings(cs)
	return cs
}

func firstWitness(e *eff, pred func(string) bool) []string {
	var keys []string
	for c := range e.cells {
		if pred == nil || pred(c) {
			keys = append(keys, c)
		}
	}
	sort.Strings(keys)
	if len(keys) == 0 {
		return nil
	}
	return strings.Split(e.cells[keys[0]], " -> ")
}

func ruleA1Kernel(p *Prog) *RuleResult {
	res := newResult("A1.kernel", ruleDoc["A1.kernel"], 150)
	ifaceNames, perKind, err := kindMethods(p)
	if err != nil {
		res.undecided("anchors", "-", err.Error())
		return res
	}
	if len(perKind) != 3 {
		res.undecided("kinds", "-", fmt.Sprintf("expected 3 container kinds, found %d", len(perKind)))
	}
	for name := range inplaceContainerMethods {
		if !ifaceNames[name] {
			res.undecided("model:inplace:"+name, "-", "in-place method named in the model is not a method of roaring.container")
		}
	}
	own := p.OWN()
	var kinds []string
	for k := range perKind {
		kinds = append(kinds, k)
	}
	sort.Strings(kinds)
	for _, k := range kinds {
		for _, f := range perKind[k] {
			sum := own.Sum(f)
			if sum == nil || f.Blocks == nil {
				continue
			}
			// operands
			for i := 1; i < len(f.Params); i++ {
				if !isContainerish(p, f.Params[i].Type()) {
					continue
				}
				c := fmt.Sprintf("%s|operand:%s", fname(f), f.Params[i].Name())
				if e := sum.mut[i]; e != nil && len(e.cells) > 0 && !ifaceNames[f.Name()] && outParamOnly(p, f, i) {
					// a private helper that fills a container its caller has just created (extract-function
					// refactoring of a kernel): the parameter is a result buffer, not an operand
					res.ok(c, p.pos(f.Pos()), "result buffer: every caller passes a container it created itself")
				} else if e != nil && len(e.cells) > 0 {
					res.bad(c, p.pos(f.Pos()), fmt.Sprintf("kernel may write its operand %s (cells %v)", f.Params[i].Name(), cellList(e, nil)), firstWitness(e, nil)...)
				} else {
					res.ok(c, p.pos(f.Pos()), "")
				}
			}
			// receiver of read-only interface methods
			if ifaceNames[f.Name()] && !inplaceContainerMethods[f.Name()] {
				c := fmt.Sprintf("%s|receiver", fname(f))
				if e := sum.mut[0]; e != nil && len(cellList(e, isContentCell)) > 0 {
					res.bad(c, p.pos(f.Pos()), fmt.Sprintf("read-only kernel may write its receiver's payload (cells %v)", cellList(e, isContentCell)), firstWitness(e, isContentCell)...)
				} else {
					res.ok(c, p.pos(f.Pos()), "")
				}
			}
		}
	}
	res.Assumptions = append(res.Assumptions, "NE pruning: kernels are only applied to non-empty containers (rules F3 / V2 cover the producer and validator side)")
	return res
}

// Interface methods that may return their receiver although they are not in-place: a pure change
// of representation ("c = c.toEfficientContainer()").
var selfOrFreshMethods = map[string]bool{"toEfficientContainer": true}

func ruleA6Kernel(p *Prog) *RuleResult {
	res := newResult("A6.kernel", ruleDoc["A6.kernel"], 60)
	ifaceNames, perKind, err := kindMethods(p)
	if err != nil {
		res.undecided("anchors", "-", err.Error())
		return res
	}
	own := p.OWN()
	var kinds []string
	for k := range perKind {
		kinds = append(kinds, k)
	}
	sort.Strings(kinds)
	for _, k := range kinds {
		for _, f := range perKind[k] {
			if !ifaceNames[f.Name()] || f.Blocks == nil {
				continue
			}
			sum := own.Sum(f)
			rt := f.Signature.Results()
			for r := 0; r < rt.Len(); r++ {
				if !isContainerish(p, rt.At(r).Type()) {
					continue
				}
				ri := sum.ret[r]
				c := fmt.Sprintf("%s|result%d", fname(f), r)
				var probs []string
				argAlias := false
				for _, k := range ikeys(ri.is) {
					if k != 0 {
						probs = append(probs, "may return its operand "+paramName(f, k)+" itself")
						argAlias = true
					}
				}
				for _, k := range ikeys(ri.isDeep) {
					probs = append(probs, "may return memory loaded from "+paramName(f, k))
				}
				for _, k := range ikeys(ri.reach) {
					if k != 0 || !(inplaceContainerMethods[f.Name()] || selfOrFreshMethods[f.Name()]) {
						probs = append(probs, "result shares memory with "+paramName(f, k))
					}
				}
				if ri.global {
					probs = append(probs, "may return a package-level object")
				}
				if ri.is[0] && !inplaceContainerMethods[f.Name()] && !selfOrFreshMethods[f.Name()] {
					probs = append(probs, "non-in-place kernel may return its receiver")
				}
				_ = argAlias
				if len(probs) > 0 {
					res.bad(c, p.pos(f.Pos()), strings.Join(probs, "; "))
				} else {
					res.ok(c, p.pos(f.Pos()), fmt.Sprintf("fresh=%v recv=%v", ri.fresh, ri.is[0]))
				}
			}
		}
	}
	res.Assumptions = append(res.Assumptions, "NE pruning: kernels are only applied to non-empty containers (rules F3 / V2 cover the producer and validator side)")
	return res
}

// outParamOnly: f is called at least once and every call passes, for parameter i, a value that the calling
// function allocated itself (a composite literal, new, or the result of a constructor-like call that the
// effect summaries know to be fresh) — never one of the caller's own parameters or something loaded from them.
func outParamOnly(p *Prog, f *ssa.Function, i int) bool {
	own := p.OWN()
	calls := 0
	for _, g := range p.sourceFns() {
		for _, b := range g.Blocks {
			for _, ins := range b.Instrs {
				c, ok := ins.(*ssa.Call)
				if !ok || c.Call.StaticCallee() != f || i >= len(c.Call.Args) {
					continue
				}
				calls++
				if !locallyCreated(own, c.Call.Args[i], 0) {
					return false
				}
			}
		}
	}
	return calls > 0
}

func locallyCreated(own *ownEngine, v ssa.Value, depth int) bool {
	if depth > 5 {
		return false
	}
	switch x := v.(type) {
	case *ssa.Alloc:
		return true
	case *ssa.Call:
		if g := x.Call.StaticCallee(); g != nil {
			if sum := own.Sum(g); sum != nil && len(sum.ret) > 0 {
				r := sum.ret[0]
				return r.fresh && len(r.is) == 0 && len(r.isDeep) == 0 && !r.global
			}
		}
	case *ssa.Phi:
		for _, e := range x.Edges {
			if c, ok := e.(*ssa.Const); ok && c.IsNil() {
				continue
			}
			if !locallyCreated(own, e, depth+1) {
				return false
			}
		}
		return true
	case *ssa.MakeInterface:
		return locallyCreated(own, x.X, depth+1)
	case *ssa.ChangeType:
		return locallyCreated(own, x.X, depth+1)
	}
	return false
}
