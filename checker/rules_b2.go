package main

import (
	"fmt"
	"go/token"
	"go/types"
	"strings"

	"golang.org/x/tools/go/ssa"
)

func init() {
	register("B2", "byte accounting of writers: in every function that returns a byte count, the returned count depends on the count of every write it performs (count-less binary.Write is matched by a constant equal to the written type's size)", ruleB2)
	register("B3", "FreezeTo checks the destination size before writing: the test len(buf) < serialSize with an error return dominates every write into buf, and the success path returns that same serialSize", ruleB3)
}

func isCountErrSig(sig *types.Signature) bool {
	if sig.Results().Len() != 2 || !isErrorType(sig.Results().At(1).Type()) {
		return false
	}
	b, ok := sig.Results().At(0).Type().Underlying().(*types.Basic)
	return ok && b.Info()&types.IsInteger != 0
}

func hasWriterParam(sig *types.Signature, args []ssa.Value) bool {
	for _, a := range args {
		if n, ok := a.Type().(*types.Named); ok && n.Obj().Pkg() != nil && n.Obj().Pkg().Path() == "io" && n.Obj().Name() == "Writer" {
			return true
		}
	}
	return false
}

// flowsToReturnCount: does v reach the count operand (result 0) of some Return of f through
// arithmetic, conversions, phis and named-result variables?
func flowsToReturnCount(f *ssa.Function, v ssa.Value) bool {
	seen := map[ssa.Value]bool{}
	var walk func(x ssa.Value) bool
	walk = func(x ssa.Value) bool {
		if seen[x] || x.Referrers() == nil {
			return false
		}
		seen[x] = true
		for _, r := range *x.Referrers() {
			switch u := r.(type) {
			case *ssa.Return:
				if len(u.Results) > 0 && u.Results[0] == x {
					return true
				}
			case *ssa.BinOp:
				if (u.Op == token.ADD || u.Op == token.SUB) && walk(u) {
					return true
				}
			case *ssa.Convert:
				if walk(u) {
					return true
				}
			case *ssa.Phi:
				if walk(u) {
					return true
				}
			case *ssa.Extract:
				if u.Index == 0 && walk(u) {
					return true
				}
			case *ssa.Store:
				if u.Val == x {
					if al, ok := u.Addr.(*ssa.Alloc); ok {
						for _, r2 := range *al.Referrers() {
							if ld, ok := r2.(*ssa.UnOp); ok && ld.Op == token.MUL && walk(ld) {
								return true
							}
						}
					}
				}
			}
		}
		return false
	}
	return walk(v)
}

func ruleB2(p *Prog) *RuleResult {
	res := newResult("B2", ruleDoc["B2"], 10)
	for _, f := range p.sourceFns() {
		if !isCountErrSig(f.Signature) {
			continue
		}
		per := map[string]int{}
		for _, b := range f.Blocks {
			for _, ins := range b.Instrs {
				call, ok := ins.(*ssa.Call)
				if !ok {
					continue
				}
				cn := calleeName(&call.Call)
				sig := call.Call.Signature()
				args := call.Call.Args
				if call.Call.IsInvoke() {
					args = append([]ssa.Value{call.Call.Value}, args...)
				}
				switch {
				case isCountErrSig(sig) && (hasWriterParam(sig, args) || (call.Call.IsInvoke() && call.Call.Method.Name() == "Write")):
					per[cn]++
					c := fmt.Sprintf("%s|count of %s#%d", fname(f), cn, per[cn])
					if flowsToReturnCount(f, call) {
						res.ok(c, p.ipos(call), "count reaches the returned count")
					} else {
						res.bad(c, p.ipos(call), fmt.Sprintf("the byte count returned by %s does not contribute to the count this function returns", cn))
					}
				case cn == "encoding/binary.Write" && len(call.Call.Args) == 3:
					per[cn]++
					c := fmt.Sprintf("%s|count of %s#%d", fname(f), cn, per[cn])
					// the written value's size must be added as a constant
					var dt types.Type
					if mi, ok := call.Call.Args[2].(*ssa.MakeInterface); ok {
						dt = mi.X.Type()
					}
					size := int64(-1)
					if dt != nil {
						if bt, ok := dt.Underlying().(*types.Basic); ok {
							size = int64(intWidth(bt.Kind()) / 8)
						}
					}
					if size <= 0 {
						res.ok(c, p.ipos(call), "variable-size binary.Write: count not decidable here (portable build only)")
						continue
					}
					found := false
					for _, b2 := range f.Blocks {
						for _, i2 := range b2.Instrs {
							if bo, ok := i2.(*ssa.BinOp); ok && bo.Op == token.ADD {
								if cv, ok := constIntVal(bo.Y); ok && cv == size && call.Block().Dominates(b2) && flowsToReturnCount(f, bo) {
									found = true
								}
							}
						}
					}
					if found {
						res.ok(c, p.ipos(call), fmt.Sprintf("+%d after the count-less write", size))
					} else {
						res.bad(c, p.ipos(call), fmt.Sprintf("binary.Write of a %d-byte value is not accounted for in the returned count", size))
					}
				}
			}
		}
	}
	return res
}

func ruleB3(p *Prog) *RuleResult {
	res := newResult("B3", ruleDoc["B3"], 3)
	f := p.Func("(*roaring.Bitmap).FreezeTo")
	if f == nil {
		res.undecided("(*roaring.Bitmap).FreezeTo", "-", "anchor not found")
		return res
	}
	var buf *ssa.Parameter
	for _, prm := range f.Params {
		if _, ok := prm.Type().Underlying().(*types.Slice); ok {
			buf = prm
		}
	}
	if buf == nil {
		res.undecided("(*roaring.Bitmap).FreezeTo|buf", p.pos(f.Pos()), "no slice parameter")
		return res
	}
	// guard: len(buf) < S  -> return error
	var guard *ssa.If
	var size ssa.Value
	for _, b := range f.Blocks {
		if len(b.Instrs) == 0 {
			continue
		}
		ifi, ok := b.Instrs[len(b.Instrs)-1].(*ssa.If)
		if !ok {
			continue
		}
		bo, ok := ifi.Cond.(*ssa.BinOp)
		if !ok || bo.Op != token.LSS {
			continue
		}
		lc, ok := bo.X.(*ssa.Call)
		if !ok {
			continue
		}
		if bi, ok := lc.Call.Value.(*ssa.Builtin); !ok || bi.Name() != "len" || lc.Call.Args[0] != ssa.Value(buf) {
			continue
		}
		if blockReturnsFailure(b.Succs[0], 0) {
			guard, size = ifi, bo.Y
		}
	}
	c := "(*roaring.Bitmap).FreezeTo"
	if guard == nil {
		res.bad(c+"|guard", p.pos(f.Pos()), "no test len(buf) < serialSize that returns an error")
		return res
	}
	res.ok(c+"|guard", p.ipos(guard), "len(buf) < serialSize returns an error")
	// every write into memory derived from buf is on the passing side
	own := p.OWN()
	derived := map[ssa.Value]bool{buf: true}
	for changed := true; changed; {
		changed = false
		for _, b := range f.Blocks {
			for _, ins := range b.Instrs {
				v, ok := ins.(ssa.Value)
				if !ok || derived[v] {
					continue
				}
				switch x := ins.(type) {
				case *ssa.Slice:
					if derived[x.X] {
						derived[x] = true
						changed = true
					}
				case *ssa.Phi:
					for _, e := range x.Edges {
						if derived[e] {
							derived[x] = true
							changed = true
						}
					}
				case *ssa.Call:
					if callee := x.Call.StaticCallee(); callee != nil {
						if s := own.Sum(callee); s != nil && len(s.ret) > 0 {
							for k := range s.ret[0].is {
								if k < len(x.Call.Args) && derived[x.Call.Args[k]] {
									derived[x] = true
									changed = true
								}
							}
						}
					}
				}
			}
		}
	}
	n, bad := 0, 0
	check := func(ins ssa.Instruction, what string) {
		n++
		if !dominatedByEdge(guard.Block(), 1, ins.Block()) {
			bad++
			res.bad(fmt.Sprintf("%s|write#%d", c, n), p.ipos(ins), what+" into the caller's buffer is not dominated by the size check")
		}
	}
	for _, b := range f.Blocks {
		for _, ins := range b.Instrs {
			switch x := ins.(type) {
			case *ssa.Store:
				if ia, ok := x.Addr.(*ssa.IndexAddr); ok && derived[ia.X] {
					check(x, "element store")
				}
			case *ssa.Call:
				if bi, ok := x.Call.Value.(*ssa.Builtin); ok {
					if bi.Name() == "copy" && derived[x.Call.Args[0]] {
						check(x, "copy")
					}
					continue
				}
				if callee := x.Call.StaticCallee(); callee != nil && strings.Contains(callee.String(), ").PutUint") && len(x.Call.Args) > 1 && derived[x.Call.Args[1]] {
					check(x, "PutUint")
				}
			}
		}
	}
	if bad == 0 {
		if n == 0 {
			res.undecided(c+"|writes", p.pos(f.Pos()), "no write into buf recognised")
		} else {
			res.ok(c+"|writes", p.pos(f.Pos()), fmt.Sprintf("%d writes into buf, all behind the size check", n))
		}
	}
	// success returns the checked size
	okRet := false
	for _, b := range f.Blocks {
		if r, ok := b.Instrs[len(b.Instrs)-1].(*ssa.Return); ok && len(r.Results) == 2 && isNilConst(r.Results[1]) {
			if r.Results[0] == size {
				okRet = true
			} else {
				okRet = false
				res.bad(c+"|count", p.ipos(r), "the success path does not return the size that was checked against len(buf)")
			}
		}
	}
	if okRet {
		res.ok(c+"|count", p.pos(f.Pos()), "returns the checked serialSize")
	}
	return res
}
