package main

import (
	"fmt"
	"sort"

	"golang.org/x/tools/go/ssa"
)

func init() {
	register("R4", "the three arrays of a slot table belong to that table alone: an array field of one table (keys, containers, needCopyOnWrite) is never assigned an array, or a re-slice of an array, of another table. Containers can be shared between tables under the copy-on-write flags; the arrays that hold them are shifted and overwritten in place with no such protection, so a clone that borrows its source's key array is corrupted by the first insertion or removal on either side", ruleR4)
}

func ruleR4(p *Prog) *RuleResult {
	res := newResult("R4", ruleDoc["R4"], 10)
	for _, lvl := range []string{"32", "64"} {
		e, err := p.TL(lvl)
		if err != nil {
			res.undecided("anchors:"+lvl, "-", err.Error())
			continue
		}
		fns := append([]*ssa.Function(nil), e.fns...)
		sort.Slice(fns, func(i, j int) bool { return fname(fns[i]) < fname(fns[j]) })
		for _, f := range fns {
			if f.Blocks == nil {
				continue
			}
			t := e.funcState(f)
			n := 0
			for _, b := range f.Blocks {
				for _, ins := range b.Instrs {
					st, ok := ins.(*ssa.Store)
					if !ok {
						continue
					}
					tab, fld, ok := t.tableFieldAddr(st.Addr)
					if !ok {
						continue
					}
					if fld != e.lv.fKeys && fld != e.lv.fCont && fld != e.lv.fFlags {
						continue
					}
					n++
					cn := fmt.Sprintf("%s|array %d of a table assigned#%d", fname(f), fld, n)
					// where does the value come from?
					v := st.Val
					for {
						if sl, ok := v.(*ssa.Slice); ok {
							v = sl.X
							continue
						}
						break
					}
					if stab, sfld, ok := t.tableSlice(v); ok && stab != tab {
						res.bad(cn, p.ipos(st), fmt.Sprintf("the array is taken from another table (%s, array %d): the two tables now shift and overwrite one array", stab, sfld))
					} else {
						res.ok(cn, p.ipos(st), "its own array re-sliced, or a new one")
					}
				}
			}
		}
	}
	return res
}
