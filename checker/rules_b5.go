package main

import (
	"fmt"
	"go/constant"
	"go/token"
	"go/types"
	"strings"

	"golang.org/x/tools/go/ssa"
)

func init() {
	register("B5", "bounded reads: every slice/advance of ByteBuffer is dominated by the exact test needed > len(buf)-off with an error on the failing edge; the stream adapter reads only through io.ReadAtLeast/ReadFull with min = len(buf) and accounts every byte; no bare Read on an io.Reader", ruleB5)
}

// fieldLoadOfRecv: v is a load of recv.<name>.
func fieldLoadOf(v ssa.Value, recv ssa.Value, name string) bool {
	u, ok := v.(*ssa.UnOp)
	if !ok || u.Op != token.MUL {
		return false
	}
	fa, ok := u.X.(*ssa.FieldAddr)
	if !ok || fa.X != recv {
		return false
	}
	st := fa.X.Type().Underlying().(*types.Pointer).Elem().Underlying().(*types.Struct)
	return fieldRole(st, fa.Field) == name
}

// fieldRole names a field of the byte-buffer struct by what it is, not by how it is spelled: "buf" is the
// only []byte field, "off" the only integer field (the read offset). With more than one candidate the
// declared names decide.
func fieldRole(st *types.Struct, idx int) string {
	nBytes, nInt := 0, 0
	for i := 0; i < st.NumFields(); i++ {
		switch t := st.Field(i).Type().Underlying().(type) {
		case *types.Slice:
			if b, ok := t.Elem().Underlying().(*types.Basic); ok && b.Kind() == types.Uint8 {
				nBytes++
			}
		case *types.Basic:
			if t.Info()&types.IsInteger != 0 {
				nInt++
			}
		}
	}
	switch t := st.Field(idx).Type().Underlying().(type) {
	case *types.Slice:
		if b, ok := t.Elem().Underlying().(*types.Basic); ok && b.Kind() == types.Uint8 && nBytes == 1 {
			return "buf"
		}
	case *types.Basic:
		if t.Info()&types.IsInteger != 0 && nInt == 1 {
			return "off"
		}
	}
	return st.Field(idx).Name()
}

// available: v == len(recv.buf) - recv.off
func isAvailable(v ssa.Value, recv ssa.Value) bool {
	// `b.remaining()` — a one-line accessor on the same receiver that returns len(buf)-off
	if call, ok := v.(*ssa.Call); ok {
		if g := call.Call.StaticCallee(); g != nil && len(g.Blocks) == 1 && g.Signature.Recv() != nil && len(call.Call.Args) == 1 && call.Call.Args[0] == recv {
			if r, ok := g.Blocks[0].Instrs[len(g.Blocks[0].Instrs)-1].(*ssa.Return); ok && len(r.Results) == 1 {
				return isAvailable(r.Results[0], g.Params[0])
			}
		}
		return false
	}
	bo, ok := v.(*ssa.BinOp)
	if !ok || bo.Op != token.SUB {
		return false
	}
	c, ok := bo.X.(*ssa.Call)
	if !ok {
		return false
	}
	if b, ok := c.Call.Value.(*ssa.Builtin); !ok || b.Name() != "len" || !fieldLoadOf(c.Call.Args[0], recv, "buf") {
		return false
	}
	return fieldLoadOf(bo.Y, recv, "off")
}

func sameAmount(a, b ssa.Value) bool {
	if a == b {
		return true
	}
	ca, oka := constIntVal(a)
	cb, okb := constIntVal(b)
	return oka && okb && ca == cb
}

// guardedBy: block blk is on the passing side of a test `needed > available` (or an equivalent form)
// whose failing edge returns a non-nil error.
func guardedBy(recv ssa.Value, needed ssa.Value, blk *ssa.BasicBlock) (bool, string) {
	for d := blk; d != nil; d = d.Idom() {
		if len(d.Instrs) == 0 {
			continue
		}
		ifi, ok := d.Instrs[len(d.Instrs)-1].(*ssa.If)
		if !ok {
			continue
		}
		bo, ok := ifi.Cond.(*ssa.BinOp)
		if !ok {
			continue
		}
		failEdge := -1
		switch {
		case bo.Op == token.GTR && isAvailable(bo.Y, recv) && sameAmount(bo.X, needed): // needed > available
			failEdge = 0
		case bo.Op == token.LSS && isAvailable(bo.X, recv) && sameAmount(bo.Y, needed): // available < needed
			failEdge = 0
		case bo.Op == token.LEQ && isAvailable(bo.Y, recv) && sameAmount(bo.X, needed): // needed <= available
			failEdge = 1
		case bo.Op == token.GEQ && isAvailable(bo.X, recv) && sameAmount(bo.Y, needed): // available >= needed
			failEdge = 1
		}
		if failEdge < 0 {
			continue
		}
		if !blockReturnsFailure(d.Succs[failEdge], 0) {
			return false, "the failing edge of the bounds test does not return an error"
		}
		if d == blk || !dominatedByEdge(d, 1-failEdge, blk) {
			// the event is in the same block as the test (before it) or not on the passing side
			if d == blk {
				continue
			}
			return false, "the read is not on the passing side of the bounds test"
		}
		return true, ""
	}
	return false, "no dominating test of the form needed > len(buf)-off"
}

func ruleB5(p *Prog) *RuleResult {
	res := newResult("B5", ruleDoc["B5"], 8)
	bb := p.Type("internal", "ByteBuffer")
	ad := p.Type("internal", "ByteInputAdapter")
	if bb == nil || ad == nil {
		res.undecided("anchors", "-", "internal.ByteBuffer / ByteInputAdapter not found")
		return res
	}
	// (a) ByteBuffer: every advance of off and every slice of buf at off
	for _, f := range p.Methods(bb) {
		if f.Blocks == nil || len(f.Params) == 0 {
			continue
		}
		recv := ssa.Value(f.Params[0])
		n := 0
		for _, b := range f.Blocks {
			for _, ins := range b.Instrs {
				switch x := ins.(type) {
				case *ssa.Store:
					fa, ok := x.Addr.(*ssa.FieldAddr)
					if !ok || fa.X != recv {
						continue
					}
					st := fa.X.Type().Underlying().(*types.Pointer).Elem().Underlying().(*types.Struct)
					if fieldRole(st, fa.Field) != "off" {
						continue
					}
					add, ok := x.Val.(*ssa.BinOp)
					if !ok || add.Op != token.ADD || !fieldLoadOf(add.X, recv, "off") {
						if c, isC := x.Val.(*ssa.Const); isC && c.Value != nil && c.Value.ExactString() == "0" {
							continue // Reset
						}
						res.bad(fmt.Sprintf("%s|advance#%d", fname(f), n+1), p.ipos(x), "offset updated in an unrecognised form")
						n++
						continue
					}
					n++
					c := fmt.Sprintf("%s|advance#%d", fname(f), n)
					if ok, why := guardedBy(recv, add.Y, b); ok {
						res.ok(c, p.ipos(x), "advance guarded by needed > len(buf)-off")
					} else {
						res.bad(c, p.ipos(x), why)
					}
				case *ssa.Call:
					// fixed-width decode of buf[off:]: the width must equal the guarded amount
					callee := x.Call.StaticCallee()
					if callee == nil || !strings.HasPrefix(callee.String(), "(encoding/binary.") {
						continue
					}
					width := int64(0)
					switch {
					case strings.HasSuffix(callee.Name(), "Uint16"):
						width = 2
					case strings.HasSuffix(callee.Name(), "Uint32"):
						width = 4
					case strings.HasSuffix(callee.Name(), "Uint64"):
						width = 8
					}
					if width == 0 {
						continue
					}
					n++
					c := fmt.Sprintf("%s|decode%d#%d", fname(f), width*8, n)
					if ok, why := guardedBy(recv, ssa.NewConst(constantInt(width), types.Typ[types.Int]), b); ok {
						res.ok(c, p.ipos(x), fmt.Sprintf("%d-byte decode guarded by %d > len(buf)-off", width, width))
					} else {
						res.bad(c, p.ipos(x), fmt.Sprintf("%d-byte decode: %s", width, why))
					}
				case *ssa.Slice:
					if !fieldLoadOf(x.X, recv, "buf") || x.Low == nil || !fieldLoadOf(x.Low, recv, "off") || x.High == nil {
						continue
					}
					// buf[off:off+n]
					hi, ok := x.High.(*ssa.BinOp)
					if !ok || hi.Op != token.ADD || !fieldLoadOf(hi.X, recv, "off") {
						res.bad(fmt.Sprintf("%s|slice#%d", fname(f), n+1), p.ipos(x), "upper bound of the slice is not off+n")
						n++
						continue
					}
					n++
					c := fmt.Sprintf("%s|slice#%d", fname(f), n)
					if ok, why := guardedBy(recv, hi.Y, b); ok {
						res.ok(c, p.ipos(x), "slice guarded by n > len(buf)-off")
					} else {
						res.bad(c, p.ipos(x), why)
					}
				}
			}
		}
	}
	// (b) the stream adapter: reads of the underlying reader
	for _, f := range p.Methods(ad) {
		if f.Blocks == nil || len(f.Params) == 0 {
			continue
		}
		recv := ssa.Value(f.Params[0])
		n := 0
		for _, b := range f.Blocks {
			for _, ins := range b.Instrs {
				call, ok := ins.(*ssa.Call)
				if !ok {
					continue
				}
				usesR := false
				for _, a := range call.Call.Args {
					if fieldLoadOf(a, recv, "r") {
						usesR = true
					}
				}
				if call.Call.IsInvoke() && fieldLoadOf(call.Call.Value, recv, "r") {
					usesR = true
				}
				if !usesR {
					continue
				}
				n++
				c := fmt.Sprintf("%s|read#%d", fname(f), n)
				callee := call.Call.StaticCallee()
				form := ""
				if callee != nil {
					switch callee.String() {
					case "io.ReadFull":
						form = "io.ReadFull"
					case "io.ReadAtLeast":
						if len(call.Call.Args) == 3 {
							if lc, ok := call.Call.Args[2].(*ssa.Call); ok {
								if bi, ok := lc.Call.Value.(*ssa.Builtin); ok && bi.Name() == "len" && lc.Call.Args[0] == call.Call.Args[1] {
									form = "io.ReadAtLeast(min=len(buf))"
								}
							}
						}
					}
				}
				if form == "" {
					res.bad(c, p.ipos(call), "the underlying reader is not read through io.ReadFull / io.ReadAtLeast(r, buf, len(buf)): a short read would be accepted")
					continue
				}
				// the byte count is added to readBytes
				counted := false
				if refs := call.Referrers(); refs != nil {
					for _, r := range *refs {
						ex, ok := r.(*ssa.Extract)
						if !ok || ex.Index != 0 || ex.Referrers() == nil {
							continue
						}
						for _, r2 := range *ex.Referrers() {
							add, ok := r2.(*ssa.BinOp)
							if !ok || add.Op != token.ADD || add.Referrers() == nil {
								continue
							}
							for _, r3 := range *add.Referrers() {
								if st, ok := r3.(*ssa.Store); ok {
									if fa, ok := st.Addr.(*ssa.FieldAddr); ok && fa.X == recv {
										// the byte counter: the field that the adapter's GetReadBytes reports (by role, not by name)
										if fa.Field == readCounterField(p, f) {
											counted = true
										}
									}
								}
							}
						}
					}
				}
				if counted {
					res.ok(c, p.ipos(call), form+", count added to readBytes")
				} else {
					res.bad(c, p.ipos(call), "bytes read from the underlying reader are not added to readBytes (GetReadBytes / returned counts become wrong)")
				}
			}
		}
	}
	// (c) no bare Read on an io.Reader value
	ioReader := types.NewInterfaceType(nil, nil)
	_ = ioReader
	cnt := 0
	for _, f := range p.sourceFns() {
		k := 0
		for _, b := range f.Blocks {
			for _, ins := range b.Instrs {
				call, ok := ins.(*ssa.Call)
				if !ok || !call.Call.IsInvoke() || call.Call.Method.Name() != "Read" {
					continue
				}
				if sig, ok := call.Call.Method.Type().(*types.Signature); !ok || sig.Params().Len() != 1 || sig.Results().Len() != 2 {
					continue
				}
				k++
				cnt++
				res.bad(fmt.Sprintf("%s|bare Read#%d", fname(f), k), p.ipos(call), "Read on an io.Reader may return fewer bytes than requested without an error; use io.ReadFull")
			}
		}
	}
	// positive control for (c): the decoders do read from io.Reader values through io.ReadFull / ReadAtLeast
	full := 0
	for _, f := range p.sourceFns() {
		for _, b := range f.Blocks {
			for _, ins := range b.Instrs {
				if call, ok := ins.(*ssa.Call); ok {
					if callee := call.Call.StaticCallee(); callee != nil && (callee.String() == "io.ReadFull" || callee.String() == "io.ReadAtLeast") {
						full++
						res.ok(fmt.Sprintf("%s|%s#%d", fname(f), callee.Name(), full), p.ipos(call), "full read")
					}
				}
			}
		}
	}
	if full == 0 {
		res.undecided("io.ReadFull", "-", "no io.ReadFull / io.ReadAtLeast call found: the decoders' read discipline moved")
	}
	return res
}

func constantInt(n int64) constant.Value { return constant.MakeInt64(n) }

// readCounterField: the field of f's receiver type that its GetReadBytes method returns (-1 if none).
func readCounterField(p *Prog, f *ssa.Function) int {
	if f.Signature.Recv() == nil {
		return -1
	}
	for _, g := range p.sourceFns() {
		if g.Name() != "GetReadBytes" || g.Signature.Recv() == nil || g.Blocks == nil || !types.Identical(g.Signature.Recv().Type(), f.Signature.Recv().Type()) {
			continue
		}
		for _, b := range g.Blocks {
			ret, ok := b.Instrs[len(b.Instrs)-1].(*ssa.Return)
			if !ok || len(ret.Results) != 1 {
				continue
			}
			v := ret.Results[0]
			for {
				if cv, ok := v.(*ssa.Convert); ok {
					v = cv.X
					continue
				}
				break
			}
			if ld, ok := v.(*ssa.UnOp); ok {
				if fa, ok := ld.X.(*ssa.FieldAddr); ok && fa.X == ssa.Value(g.Params[0]) {
					return fa.Field
				}
			}
		}
	}
	return -1
}
