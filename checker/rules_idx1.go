package main

import (
	"fmt"
	"sort"
	"strings"

	"golang.org/x/tools/go/ssa"
)

func init() {
	register("IDX1", "a cursor walks one table: in the merge loops that advance one position per operand (pos1 over the receiver's chunks, pos2 over the argument's), a position variable that is advanced and bounds-checked against one table is not used to index the other operand's table", ruleIDX1)
}

func ruleIDX1(p *Prog) *RuleResult {
	res := newResult("IDX1", ruleDoc["IDX1"], 10)
	fns := append([]*ssa.Function(nil), p.sourceFns()...)
	sort.Slice(fns, func(i, j int) bool { return fname(fns[i]) < fname(fns[j]) })
	for _, lvl := range []string{"32", "64"} {
		e, err := p.TL(lvl)
		if err != nil {
			res.undecided("anchors:"+lvl, "-", err.Error())
			continue
		}
		// summaries: an int parameter of a table-level helper that the helper uses (itself, or as the start of a
		// loop variable) as a position in exactly one of its table parameters — mergeBulk(other, dst, left, right):
		// left walks the receiver, right walks other
		paramTab := map[*ssa.Function]map[int]int{}
		for _, f := range e.fns {
			if f.Blocks == nil {
				continue
			}
			t := e.funcState(f)
			seenTab := map[int]map[int]bool{}
			for _, b := range f.Blocks {
				for _, ins := range b.Instrs {
					call, ok := ins.(*ssa.Call)
					if !ok {
						continue
					}
					g := call.Call.StaticCallee()
					if g == nil || len(call.Call.Args) < 2 || !e.lv.isTableRef(call.Call.Args[0].Type()) {
						continue
					}
					pos, tabArg := 1, 0
					switch {
					case strings.Contains(g.Name(), "AtIndex"), g.Name() == "needsCopyOnWrite":
					case g.Name() == "advanceUntil" && len(call.Call.Args) >= 3:
						pos = 2
					case (strings.HasPrefix(g.Name(), "appendCopy") || strings.HasPrefix(g.Name(), "appendWithoutCopy")) && len(call.Call.Args) >= 3:
						pos, tabArg = 2, 1
					default:
						continue
					}
					root := t.root(call.Call.Args[tabArg])
					ti := -1
					for k, prm := range f.Params {
						if e.lv.isTableRef(prm.Type()) && t.root(prm) == root {
							ti = k
						}
					}
					if ti < 0 {
						continue
					}
					idx := call.Call.Args[pos]
					for {
						if bo, ok := idx.(*ssa.BinOp); ok {
							if _, isC := constIntVal(bo.Y); isC {
								idx = bo.X
								continue
							}
						}
						break
					}
					var prms []ssa.Value
					if ph, ok := idx.(*ssa.Phi); ok {
						prms = append(prms, ph.Edges...)
					} else {
						prms = append(prms, idx)
					}
					for _, v := range prms {
						for qi, prm := range f.Params {
							if ssa.Value(prm) == v {
								if seenTab[qi] == nil {
									seenTab[qi] = map[int]bool{}
								}
								seenTab[qi][ti] = true
							}
						}
					}
				}
			}
			for qi, tabs := range seenTab {
				if len(tabs) == 1 {
					for ti := range tabs {
						if paramTab[f] == nil {
							paramTab[f] = map[int]int{}
						}
						paramTab[f][qi] = ti
					}
				}
			}
		}
		for _, f := range e.fns {
			if f.Blocks == nil {
				continue
			}
			t := e.funcState(f)
			// cursor -> table roots it indexes, via table accessor calls (table, index, ...)
			use := map[ssa.Value]map[string]ssa.Instruction{}
			// positions handed to a helper that walks one of its table parameters with them
			for _, b := range f.Blocks {
				for _, ins := range b.Instrs {
					call, ok := ins.(*ssa.Call)
					if !ok {
						continue
					}
					g := call.Call.StaticCallee()
					if g == nil || paramTab[g] == nil {
						continue
					}
					for qi, ti := range paramTab[g] {
						if qi >= len(call.Call.Args) || ti >= len(call.Call.Args) {
							continue
						}
						root := t.root(call.Call.Args[ti])
						idx := call.Call.Args[qi]
						for {
							if bo, ok := idx.(*ssa.BinOp); ok {
								if _, isC := constIntVal(bo.Y); isC {
									idx = bo.X
									continue
								}
							}
							break
						}
						if _, isPhi := idx.(*ssa.Phi); !isPhi {
							continue
						}
						if use[idx] == nil {
							use[idx] = map[string]ssa.Instruction{}
						}
						if _, seen := use[idx][root]; !seen {
							use[idx][root] = call
						}
					}
				}
			}
			for _, b := range f.Blocks {
				for _, ins := range b.Instrs {
					call, ok := ins.(*ssa.Call)
					if !ok {
						continue
					}
					g := call.Call.StaticCallee()
					if g == nil || len(call.Call.Args) < 2 || !e.lv.isTableRef(call.Call.Args[0].Type()) {
						continue
					}
					pos, tabArg := 1, 0
					switch {
					case strings.Contains(g.Name(), "AtIndex"), g.Name() == "needsCopyOnWrite":
					case g.Name() == "advanceUntil" && len(call.Call.Args) >= 3:
						pos = 2 // advanceUntil(key, pos): the search starts behind position pos of that table
					case (strings.HasPrefix(g.Name(), "appendCopy") || strings.HasPrefix(g.Name(), "appendWithoutCopy")) && len(call.Call.Args) >= 3:
						// dst.appendCopy(src, idx) / dst.appendCopyMany(src, begin, end): the positions index the SOURCE table
						pos, tabArg = 2, 1
					default:
						continue
					}
					root := t.root(call.Call.Args[tabArg])
					idx := call.Call.Args[pos]
					// the cursor variable: strip +k
					for {
						if bo, ok := idx.(*ssa.BinOp); ok {
							if _, isC := constIntVal(bo.Y); isC {
								idx = bo.X
								continue
							}
						}
						break
					}
					if _, isPhi := idx.(*ssa.Phi); !isPhi {
						continue
					}
					if use[idx] == nil {
						use[idx] = map[string]ssa.Instruction{}
					}
					if _, seen := use[idx][root]; !seen {
						use[idx][root] = call
					}
				}
			}
			var curs []ssa.Value
			for c := range use {
				curs = append(curs, c)
			}
			sort.Slice(curs, func(i, j int) bool { return curs[i].Pos() < curs[j].Pos() })
			for i, c := range curs {
				var roots []string
				for r := range use[c] {
					roots = append(roots, r)
				}
				sort.Strings(roots)
				cn := fmt.Sprintf("%s|cursor %s#%d", fname(f), c.(*ssa.Phi).Comment, i+1)
				if len(roots) > 1 {
					res.bad(cn, p.ipos(use[c][roots[1]]), "the position variable indexes more than one table: "+strings.Join(roots, ", "))
				} else {
					res.ok(cn, p.ipos(c.(*ssa.Phi)), "indexes "+roots[0]+" only")
				}
			}
		}
	}
	return res
}
