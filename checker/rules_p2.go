package main

import (
	"fmt"
	"sort"
	"strings"

	"golang.org/x/tools/go/ssa"
)

func init() {
	register("P2", "workers do not assign shared variables: a function literal started with `go` never assigns (=, +=, ++) a variable captured from the enclosing function, unless the assignment is made under a mutex held by that literal — results travel over channels, through sync/atomic, or into distinct elements of a shared slice", ruleP2)
}

func ruleP2(p *Prog) *RuleResult {
	res := newResult("P2", ruleDoc["P2"], 8)
	var fns []*ssa.Function
	fns = append(fns, p.sourceFns()...)
	sort.Slice(fns, func(i, j int) bool { return fname(fns[i]) < fname(fns[j]) })
	for _, f := range fns {
		if strings.HasPrefix(f.Name(), "smat") {
			continue
		}
		n := 0
		for _, b := range f.Blocks {
			for _, ins := range b.Instrs {
				g, ok := ins.(*ssa.Go)
				if !ok {
					continue
				}
				mc, ok := g.Call.Value.(*ssa.MakeClosure)
				var cl *ssa.Function
				if ok {
					cl = mc.Fn.(*ssa.Function)
				} else if ld, isLd := g.Call.Value.(*ssa.UnOp); isLd {
					// go worker() where worker := func(){...} lives in a cell
					if al, isAl := ld.X.(*ssa.Alloc); isAl {
						for _, r := range *al.Referrers() {
							if st, isSt := r.(*ssa.Store); isSt && st.Addr == al {
								if m2, isMc := st.Val.(*ssa.MakeClosure); isMc {
									cl = m2.Fn.(*ssa.Function)
								}
							}
						}
					}
				}
				if cl == nil {
					continue
				}
				n++
				c := fmt.Sprintf("%s|go %s#%d", fname(f), cl.Name(), n)
				var bad ssa.Instruction
				what := ""
				locks := false
				var scan func(h *ssa.Function, depth int)
				scan = func(h *ssa.Function, depth int) {
					if depth > 2 {
						return
					}
					for _, hb := range h.Blocks {
						for _, hi := range hb.Instrs {
							switch x := hi.(type) {
							case *ssa.Call:
								if callee := x.Call.StaticCallee(); callee != nil && (strings.HasSuffix(callee.String(), ".Lock") && strings.Contains(callee.String(), "sync.")) {
									locks = true
								}
							case *ssa.Store:
								if fv, ok := x.Addr.(*ssa.FreeVar); ok && bad == nil {
									// the closure's own definition cell (recursive closures) is not data
									if _, isFn := x.Val.(*ssa.MakeClosure); isFn {
										continue
									}
									bad, what = x, fv.Name()
								}
							case *ssa.MakeClosure:
								// nested literal called synchronously inside the worker
								scan(x.Fn.(*ssa.Function), depth+1)
							}
						}
					}
				}
				scan(cl, 0)
				switch {
				case bad == nil:
					res.ok(c, p.ipos(g), "assigns no captured variable")
				case locks:
					res.ok(c, p.ipos(g), "assigns captured variable "+what+" while holding a mutex")
				default:
					res.bad(c, p.ipos(bad), fmt.Sprintf("the goroutine assigns %s, a variable of the enclosing function that every worker (and the coordinator) shares, without synchronisation: concurrent updates are lost", what))
				}
			}
		}
	}
	return res
}
