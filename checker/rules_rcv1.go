package main

import (
	"fmt"
	"go/token"
	"go/types"
	"sort"

	"golang.org/x/tools/go/ssa"
)

func init() {
	register("RCV1", "an in-place container operation hands back the container that now holds the result — the receiver, or a new container when the result needed another representation (iaddReturnMinimized, iremoveReturnMinimized, iand, ior, ixor, iandNot, iaddRange, iremoveRange, inot, lazyIOR ...: by the effect summaries, every container-returning method that writes its receiver and may return something else). Where the caller keeps that result, the old receiver value is consulted no more: no later call on it or with it, no store of it, no return of it. Reading the cardinality or emptiness of the old receiver answers for a container that is no longer in the bitmap", ruleRCV1)
}

func ruleRCV1(p *Prog) *RuleResult {
	res := newResult("RCV1", ruleDoc["RCV1"], 40)
	own := p.OWN()
	iface, _ := p.containerImpls()
	if iface == nil {
		res.undecided("anchors", "-", "container interface not found")
		return res
	}
	ct := p.Type("roaring", "container")
	isContainerish := func(t types.Type) bool {
		if types.Identical(t, ct) {
			return true
		}
		return types.Implements(t, iface)
	}
	// replacing(f): f writes its receiver and may return a container other than the receiver
	replacing := func(f *ssa.Function) bool {
		s := own.Sum(f)
		if s == nil || len(s.ret) != 1 || s.mut[0] == nil {
			return false
		}
		return s.ret[0].fresh || s.ret[0].global || len(s.ret[0].is) > 1 || (len(s.ret[0].is) == 1 && !s.ret[0].is[0])
	}
	fns := append([]*ssa.Function(nil), p.sourceFns()...)
	sort.Slice(fns, func(i, j int) bool { return fname(fns[i]) < fname(fns[j]) })
	for _, f := range fns {
		if f.Blocks == nil {
			continue
		}
		n := 0
		for _, b := range f.Blocks {
			for _, ins := range b.Instrs {
				c, ok := ins.(*ssa.Call)
				if !ok || c.Call.Signature().Results().Len() != 1 || !isContainerish(c.Call.Signature().Results().At(0).Type()) {
					continue
				}
				var recv ssa.Value
				var name string
				rep := false
				if c.Call.IsInvoke() {
					if !types.Identical(c.Call.Value.Type(), ct) {
						continue
					}
					recv = c.Call.Value
					name = c.Call.Method.Name()
					for _, g := range own.lookupImpls(&c.Call) {
						if replacing(g) {
							rep = true
						}
					}
				} else {
					g := c.Call.StaticCallee()
					if g == nil || g.Signature.Recv() == nil || len(c.Call.Args) == 0 || !isContainerish(g.Signature.Recv().Type()) {
						continue
					}
					recv = c.Call.Args[0]
					name = g.Name()
					rep = replacing(g)
				}
				if !rep {
					continue
				}
				// the receiver seen through conversions to and from the interface
				alias := map[ssa.Value]bool{recv: true}
				switch x := recv.(type) {
				case *ssa.MakeInterface:
					alias[x.X] = true
				case *ssa.TypeAssert:
					alias[x.X] = true
				}
				n++
				cn := fmt.Sprintf("%s|receiver of %s#%d", fname(f), name, n)
				if c.Referrers() == nil || len(*c.Referrers()) == 0 {
					// the caller keeps the receiver and drops the result: it relies on the operation having
					// completed in the receiver (true of the bitmap kernels, which convert only on the way out)
					res.ok(cn, p.ipos(c), "the result is dropped: the caller goes on with the receiver, not with a second container")
					continue
				}
				def, _ := recv.(ssa.Instruction)
				avoid := map[ssa.Instruction]bool{}
				if def != nil {
					avoid[def] = true
				}
				var bad ssa.Instruction
				for _, b2 := range f.Blocks {
					for _, in2 := range b2.Instrs {
						if in2 == ins {
							continue
						}
						uses := false
						switch x := in2.(type) {
						case *ssa.Call:
							if x.Call.IsInvoke() && alias[x.Call.Value] {
								uses = true
							}
							for _, a := range x.Call.Args {
								if alias[a] {
									uses = true
								}
							}
						case *ssa.Store:
							uses = alias[x.Val]
						case *ssa.Return:
							for _, r := range x.Results {
								if alias[r] {
									uses = true
								}
							}
						case *ssa.Phi:
							// the old value flowing on: only when the phi is not the loop variable that the result
							// of the call also feeds
							for _, e := range x.Edges {
								if alias[e] {
									feeds := false
									for _, e2 := range x.Edges {
										if e2 == ssa.Value(c) {
											feeds = true
										}
									}
									if !feeds {
										uses = true
									}
								}
							}
						case *ssa.BinOp:
							if x.Op == token.EQL || x.Op == token.NEQ {
								uses = false
							}
						}
						if uses && reachAvoid(ins, in2, avoid) {
							bad = in2
						}
					}
				}
				if bad != nil {
					res.bad(cn, p.ipos(c), fmt.Sprintf("%s may hand back a different container; the old receiver is used again at %s", name, p.ipos(bad)))
				} else {
					res.ok(cn, p.ipos(c), "the old receiver is not consulted after the call")
				}
			}
		}
	}
	return res
}
