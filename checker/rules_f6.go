package main

import (
	"fmt"
	"go/token"
	"go/types"

	"golang.org/x/tools/go/ssa"
)

func init() {
	register("F6", "no typed nil inside a container interface: a pointer that may be nil is converted to roaring.container only behind a non-nil test", ruleF6)
}

func mayBeNilPtr(v ssa.Value, depth int) bool {
	if depth > 5 {
		return false
	}
	switch x := v.(type) {
	case *ssa.Const:
		return x.IsNil()
	case *ssa.Phi:
		for _, e := range x.Edges {
			if mayBeNilPtr(e, depth+1) {
				return true
			}
		}
	}
	return false
}

func nonNilAt(v ssa.Value, b *ssa.BasicBlock) bool {
	if v.Referrers() == nil {
		return false
	}
	for _, r := range *v.Referrers() {
		bo, ok := r.(*ssa.BinOp)
		if !ok || (bo.Op != token.EQL && bo.Op != token.NEQ) || !(isNilConst(bo.X) || isNilConst(bo.Y)) || bo.Referrers() == nil {
			continue
		}
		for _, rr := range *bo.Referrers() {
			ifi, ok := rr.(*ssa.If)
			if !ok {
				continue
			}
			edge := 0 // non-nil edge
			if bo.Op == token.EQL {
				edge = 1
			}
			if dominatedByEdge(ifi.Block(), edge, b) {
				return true
			}
		}
	}
	return false
}

// nonNilOnEveryEdge: v is a phi each of whose incoming values is a fresh allocation, or a value that
// arrives from a predecessor on which it was tested non-nil (the `if x == nil { x = new() }` idiom).
func nonNilOnEveryEdge(v ssa.Value, depth int) bool {
	ph, ok := v.(*ssa.Phi)
	if !ok || depth > 4 {
		return false
	}
	for i, e := range ph.Edges {
		pred := ph.Block().Preds[i]
		switch x := e.(type) {
		case *ssa.Alloc:
			continue
		case *ssa.Call:
			_ = x
			continue // constructors return fresh objects (A6 checks freshness where it matters)
		}
		if isNilConst(e) {
			return false
		}
		if nonNilAt(e, pred) || nonNilAtEdge(e, pred, ph.Block()) || nonNilOnEveryEdge(e, depth+1) {
			continue
		}
		return false
	}
	return true
}

// nonNilAtEdge: pred ends with the nil test of v and the edge pred->succ is its non-nil edge.
func nonNilAtEdge(v ssa.Value, pred, succ *ssa.BasicBlock) bool {
	if len(pred.Instrs) == 0 {
		return false
	}
	ifi, ok := pred.Instrs[len(pred.Instrs)-1].(*ssa.If)
	if !ok {
		return false
	}
	bo, ok := ifi.Cond.(*ssa.BinOp)
	if !ok || (bo.X != v && bo.Y != v) || !(isNilConst(bo.X) || isNilConst(bo.Y)) {
		return false
	}
	edge := 0
	if bo.Op == token.EQL {
		edge = 1
	}
	return pred.Succs[edge] == succ && pred.Succs[1-edge] != succ
}

// Conversions that rely on a value-level invariant, confirmed by reading.
var f6Allowed = map[string]string{
	"(*roaring.arrayContainer).addOffset|maybe-nil conversion#1": "reached only when low == nil; the container is non-empty, so at least one half was allocated and high != nil",
}

func ruleF6(p *Prog) *RuleResult {
	res := newResult("F6", ruleDoc["F6"], 3)
	ct := p.Type("roaring", "container")
	if ct == nil {
		res.undecided("container", "-", "type not found")
		return res
	}
	for _, f := range p.sourceFns() {
		if fnPkgPath(f) != modPath {
			continue
		}
		n := 0
		for _, b := range f.Blocks {
			for _, ins := range b.Instrs {
				mi, ok := ins.(*ssa.MakeInterface)
				if !ok || !types.Identical(mi.Type(), ct) {
					continue
				}
				if _, isPtr := mi.X.Type().Underlying().(*types.Pointer); !isPtr || !mayBeNilPtr(mi.X, 0) {
					continue
				}
				n++
				c := fmt.Sprintf("%s|maybe-nil conversion#%d", fname(f), n)
				if why, ok := f6Allowed[c]; ok {
					res.ok(c, p.ipos(mi), "allowed: "+why)
				} else if nonNilAt(mi.X, b) || nonNilOnEveryEdge(mi.X, 0) {
					res.ok(c, p.ipos(mi), "behind a non-nil test")
				} else {
					res.bad(c, p.ipos(mi), "a pointer that may be nil is wrapped in the container interface: the result compares != nil and is dereferenced later")
				}
			}
		}
	}
	// positive control: the addOffset splitters exist and return (container, container)
	for _, name := range []string{"(*roaring.arrayContainer).addOffset", "(*roaring.bitmapContainer).addOffset", "(*roaring.runContainer16).addOffset"} {
		if f := p.Func(name); f == nil {
			res.undecided(name, "-", "anchor not found")
		} else {
			// every nil result is the untyped nil
			okNil := true
			for _, b := range f.Blocks {
				if r, ok := b.Instrs[len(b.Instrs)-1].(*ssa.Return); ok {
					for _, v := range r.Results {
						if mi, ok := v.(*ssa.MakeInterface); ok && isNilConst(mi.X) {
							okNil = false
						}
					}
				}
			}
			if okNil {
				res.ok(name+"|nil results", p.pos(f.Pos()), "nil halves are returned as untyped nil")
			} else {
				res.bad(name+"|nil results", p.pos(f.Pos()), "a typed nil pointer is returned inside the container interface")
			}
		}
	}
	return res
}
