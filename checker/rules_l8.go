package main

import (
	"fmt"
	"sort"
	"strings"

	"golang.org/x/tools/go/ssa"
)

func init() {
	register("L8", "the portable format lets a writer cut a run anywhere (adjacent runs are legal), while every run kernel of this library (equals, invert, ...) assumes maximal runs: a portable decoder adopts a run list taken from its input only after looking at it (merging, or rejecting, split runs) — a list that is stored without a single read cannot have been normalised", ruleL8)
}

func ruleL8(p *Prog) *RuleResult {
	res := newResult("L8", ruleDoc["L8"], 1)
	var fns []*ssa.Function
	for _, f := range p.sourceFns() {
		if fnPkgPath(f) != pkgPathOf("roaring") || f.Blocks == nil {
			continue
		}
		// portable decoders read from the byte-input abstraction
		takesInput := false
		for _, prm := range f.Params {
			if strings.HasSuffix(typeShort(prm.Type()), "internal.ByteInput") {
				takesInput = true
			}
		}
		if takesInput {
			fns = append(fns, f)
		}
	}
	sort.Slice(fns, func(i, j int) bool { return fname(fns[i]) < fname(fns[j]) })
	// a decoding step moved into a helper still belongs to the decoder that hands it the input: obligations are
	// named after the outermost input-taking function that (transitively) calls the one holding the store
	isDec := map[*ssa.Function]bool{}
	for _, f := range fns {
		isDec[f] = true
	}
	callers := map[*ssa.Function][]*ssa.Function{}
	for _, f := range fns {
		for _, b := range f.Blocks {
			for _, ins := range b.Instrs {
				if c, ok := ins.(ssa.CallInstruction); ok {
					if g := c.Common().StaticCallee(); g != nil && isDec[g] && g != f {
						callers[g] = append(callers[g], f)
					}
				}
			}
		}
	}
	rootOf := func(f *ssa.Function) *ssa.Function {
		seen := map[*ssa.Function]bool{}
		for !seen[f] {
			seen[f] = true
			cs := callers[f]
			if len(cs) == 0 {
				break
			}
			sort.Slice(cs, func(i, j int) bool { return fname(cs[i]) < fname(cs[j]) })
			f = cs[0]
		}
		return f
	}
	perRoot := map[*ssa.Function]int{}
	for _, f := range fns {
		root := rootOf(f)
		for _, b := range f.Blocks {
			for _, ins := range b.Instrs {
				call, ok := ins.(*ssa.Call)
				if !ok || !strings.HasSuffix(calleeName(&call.Call), "byteSliceAsInterval16Slice") {
					continue
				}
				perRoot[root]++
				c := fmt.Sprintf("%s|run list taken from the input#%d", fname(root), perRoot[root])
				looked := ""
				seen := map[ssa.Value]bool{}
				var walk func(v ssa.Value, d int)
				walk = func(v ssa.Value, d int) {
					if d > 8 || seen[v] || v.Referrers() == nil || looked != "" {
						return
					}
					seen[v] = true
					for _, r := range *v.Referrers() {
						switch x := r.(type) {
						case *ssa.IndexAddr, *ssa.Range, *ssa.Lookup:
							looked = "its elements are read at " + p.ipos(r)
						case *ssa.Call:
							name := calleeName(&x.Call)
							if name == "len" || name == "cap" {
								continue
							}
							looked = "it is handed to " + name + " at " + p.ipos(r)
						case *ssa.Phi:
							walk(x, d+1)
						case *ssa.Slice:
							walk(x, d+1)
						case *ssa.MakeInterface:
							walk(x, d+1)
						case *ssa.ChangeType:
							walk(x, d+1)
						case *ssa.FieldAddr:
							// &nb.iv of a local container: loads of the field
							walk(x, d+1)
						case *ssa.UnOp:
							walk(x, d+1)
						case *ssa.Store:
							if x.Val != v {
								continue
							}
							// stored into a field of a local object, or a local cell: follow the object
							switch a := x.Addr.(type) {
							case *ssa.FieldAddr:
								if al, ok := a.X.(*ssa.Alloc); ok {
									walk(al, d+1)
								}
							case *ssa.Alloc:
								walk(a, d+1)
							}
						}
					}
				}
				walk(call, 0)
				if looked != "" {
					res.ok(c, p.ipos(call), looked)
				} else {
					res.bad(c, p.ipos(call), "the run list is stored into a container without a single read of its elements: runs that another implementation wrote split in two (0..4, 5..9) stay split, the bitmap is not Equal to the same set built here, and invert panics on the empty gap")
				}
			}
		}
	}
	return res
}
