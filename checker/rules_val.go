package main

import (
	"fmt"
	"go/constant"
	"go/token"
	"go/types"
	"strings"

	"golang.org/x/tools/go/ssa"
)

func init() {
	register("V1", "validator wiring: Bitmap.Validate (32/64) runs the table validator, which checks key order, the three lengths, and calls the per-kind validator on every container", ruleV1)
	register("V2", "validator conjuncts: every clause the property lists is present in the per-kind validators as a comparison whose failing edge returns an error, evaluated over every element", ruleV2)
}

// ---- small SSA recognisers ----

func loadOfField(v ssa.Value, suffix string) (base ssa.Value, ok bool) {
	if cv, isC := v.(*ssa.Convert); isC {
		v = cv.X
	}
	// a parameter of an unexported function that every caller fills with that field (a method turned
	// into a function of the data it used to read from its receiver)
	if prm, isP := v.(*ssa.Parameter); isP {
		f := prm.Parent()
		if f == nil || isExportedAPI(f) {
			return nil, false
		}
		idx := -1
		for i, q := range f.Params {
			if q == prm {
				idx = i
			}
		}
		sites := staticCallSites(f)
		if idx < 0 || len(sites) == 0 {
			return nil, false
		}
		var base ssa.Value
		for _, c := range sites {
			if idx >= len(c.Args) {
				return nil, false
			}
			b, ok := loadOfField(c.Args[idx], suffix)
			if !ok {
				return nil, false
			}
			base = b
		}
		return base, true
	}
	u, isU := v.(*ssa.UnOp)
	if !isU || u.Op != token.MUL {
		return nil, false
	}
	fa, isF := u.X.(*ssa.FieldAddr)
	if !isF || !strings.HasSuffix(fieldName(fa.X.Type(), fa.Field), suffix) {
		return nil, false
	}
	return fa.X, true
}

var callSiteCache = map[*ssa.Program]map[*ssa.Function][]*ssa.CallCommon{}

// staticCallSites: all static call sites of f in its program (cached per program).
func staticCallSites(f *ssa.Function) []*ssa.CallCommon {
	prog := f.Prog
	m, ok := callSiteCache[prog]
	if !ok {
		m = map[*ssa.Function][]*ssa.CallCommon{}
		for _, pkg := range prog.AllPackages() {
			for _, mem := range pkg.Members {
				g, ok := mem.(*ssa.Function)
				if !ok {
					continue
				}
				collectCallSites(g, m)
			}
			// methods
			for _, mem := range pkg.Members {
				if t, ok := mem.(*ssa.Type); ok {
					for _, tt := range []types.Type{t.Type(), types.NewPointer(t.Type())} {
						ms := prog.MethodSets.MethodSet(tt)
						for i := 0; i < ms.Len(); i++ {
							if g := prog.MethodValue(ms.At(i)); g != nil {
								collectCallSites(g, m)
							}
						}
					}
				}
			}
		}
		callSiteCache[prog] = m
	}
	return m[f]
}

func collectCallSites(g *ssa.Function, m map[*ssa.Function][]*ssa.CallCommon) {
	if g.Blocks == nil {
		return
	}
	var walk func(h *ssa.Function)
	seen := map[*ssa.Function]bool{}
	walk = func(h *ssa.Function) {
		if seen[h] {
			return
		}
		seen[h] = true
		for _, b := range h.Blocks {
			for _, ins := range b.Instrs {
				if ci, ok := ins.(ssa.CallInstruction); ok {
					if callee := ci.Common().StaticCallee(); callee != nil {
						m[callee] = append(m[callee], ci.Common())
					}
				}
			}
		}
		for _, an := range h.AnonFuncs {
			walk(an)
		}
	}
	walk(g)
}

func fieldOfValue(v ssa.Value, suffix string) (base ssa.Value, ok bool) {
	if cv, isC := v.(*ssa.Convert); isC {
		v = cv.X
	}
	if f, isF := v.(*ssa.Field); isF && strings.HasSuffix(fieldName(f.X.Type(), f.Field), suffix) {
		return f.X, true
	}
	return loadOfField(v, suffix)
}

func lenOfField(v ssa.Value, suffix string) bool {
	if cv, isC := v.(*ssa.Convert); isC {
		v = cv.X
	}
	c, ok := v.(*ssa.Call)
	if !ok {
		return false
	}
	b, ok := c.Call.Value.(*ssa.Builtin)
	if !ok || b.Name() != "len" {
		return false
	}
	_, ok = loadOfField(c.Call.Args[0], suffix)
	return ok
}

func isNamedConst(p *Prog, v ssa.Value, pkg, name string) bool {
	c := p.Const(pkg, name)
	cv, ok := v.(*ssa.Const)
	if c == nil || !ok || cv.Value == nil {
		return false
	}
	if cv.Value.Kind() != constant.Int || c.Val().Kind() != constant.Int {
		return false
	}
	return constant.Compare(cv.Value, token.EQL, c.Val())
}

// failsOn: the edge (true if onTrue) of the If consuming cond leads to a return of a non-nil error / false.
func failsOn(f *ssa.Function, cond ssa.Value, onTrue bool) bool {
	if cond.Referrers() == nil {
		return false
	}
	for _, r := range *cond.Referrers() {
		switch x := r.(type) {
		case *ssa.UnOp:
			if x.Op == token.NOT && failsOn(f, x, !onTrue) {
				return true
			}
		case *ssa.If:
			k := 0
			if !onTrue {
				k = 1
			}
			if blockReturnsFailure(x.Block().Succs[k], 0) {
				return true
			}
		}
	}
	return false
}

func blockReturnsFailure(b *ssa.BasicBlock, depth int) bool {
	if depth > 3 || len(b.Instrs) == 0 {
		return false
	}
	switch x := b.Instrs[len(b.Instrs)-1].(type) {
	case *ssa.Return:
		for _, r := range x.Results {
			if isErrorType(r.Type()) {
				return !isNilConst(r)
			}
			if bv, ok := constBool(r); ok {
				return !bv
			}
		}
	case *ssa.Jump:
		return blockReturnsFailure(b.Succs[0], depth+1)
	case *ssa.Panic:
		return true
	}
	return false
}

// inductionOver: idx is a loop induction variable phi(start, idx+1) whose loop runs while idx (or idx+1) < len(<field>).
func inductionOver(f *ssa.Function, idx ssa.Value, lenSuffix string, starts ...string) bool {
	if bo, ok := idx.(*ssa.BinOp); ok && bo.Op == token.ADD {
		idx = bo.X
	}
	if cv, ok := idx.(*ssa.Convert); ok {
		idx = cv.X
	}
	ph, ok := idx.(*ssa.Phi)
	if !ok {
		return false
	}
	startOK := false
	for _, e := range ph.Edges {
		if c, ok := e.(*ssa.Const); ok && c.Value != nil {
			for _, s := range starts {
				if c.Value.ExactString() == s {
					startOK = true
				}
			}
		}
	}
	if !startOK {
		return false
	}
	// a loop condition in the function compares (idx | idx+1) < len(field)
	for _, b := range f.Blocks {
		if len(b.Instrs) == 0 {
			continue
		}
		ifi, ok := b.Instrs[len(b.Instrs)-1].(*ssa.If)
		if !ok {
			continue
		}
		cmp, ok := ifi.Cond.(*ssa.BinOp)
		if !ok || cmp.Op != token.LSS {
			continue
		}
		lhs := cmp.X
		if bo, ok := lhs.(*ssa.BinOp); ok && bo.Op == token.ADD {
			lhs = bo.X
		}
		if lhs != ssa.Value(ph) {
			continue
		}
		if lenOfField(cmp.Y, lenSuffix) {
			return true
		}
		// len hoisted before the loop: `n := len(x)` is the same SSA value
		if c, ok := cmp.Y.(*ssa.Call); ok {
			if bi, ok := c.Call.Value.(*ssa.Builtin); ok && bi.Name() == "len" {
				if _, ok := loadOfField(c.Call.Args[0], lenSuffix); ok {
					return true
				}
			}
		}
	}
	return false
}

// elemLoad: v is <field>[idx] loaded in f; returns idx.
func elemLoad(v ssa.Value, fieldSuffix string) (ssa.Value, bool) {
	u, ok := v.(*ssa.UnOp)
	if !ok || u.Op != token.MUL {
		return nil, false
	}
	ia, ok := u.X.(*ssa.IndexAddr)
	if !ok {
		return nil, false
	}
	if _, ok := loadOfField(ia.X, fieldSuffix); !ok {
		return nil, false
	}
	return ia.Index, true
}

// resolveLocal: a local variable with a single store denotes the stored value.
func resolveLocal(v ssa.Value) ssa.Value {
	al, ok := v.(*ssa.Alloc)
	if !ok || al.Referrers() == nil {
		return v
	}
	var stored ssa.Value
	n := 0
	for _, r := range *al.Referrers() {
		if st, ok := r.(*ssa.Store); ok && st.Addr == al {
			stored = st.Val
			n++
		}
	}
	if n == 1 {
		return stored
	}
	return v
}

type conjunct struct {
	fn    string
	name  string
	check func(p *Prog, f *ssa.Function) (bool, string)
}

func forEachBinOp(f *ssa.Function, fn func(bo *ssa.BinOp) bool) bool {
	for _, b := range f.Blocks {
		for _, ins := range b.Instrs {
			if bo, ok := ins.(*ssa.BinOp); ok {
				if fn(bo) {
					return true
				}
			}
		}
	}
	return false
}

// sortedConjunct: `prev >= next` over all adjacent pairs of <field>, failing edge returns failure.
func sortedConjunct(fieldSuffix string) func(p *Prog, f *ssa.Function) (bool, string) {
	return func(p *Prog, f *ssa.Function) (bool, string) {
		found := forEachBinOp(f, func(bo *ssa.BinOp) bool {
			var next ssa.Value
			onTrue := true
			switch bo.Op {
			case token.GEQ: // prev >= next
				next = bo.Y
			case token.LEQ: // next <= prev
				next = bo.X
			case token.LSS: // prev < next, failing on false
				next, onTrue = bo.Y, false
			case token.GTR: // next > prev, failing on false
				next, onTrue = bo.X, false
			default:
				return false
			}
			idx, ok := elemLoad(next, fieldSuffix)
			if !ok || !inductionOver(f, idx, fieldSuffix, "1") {
				return false
			}
			return failsOn(f, bo, onTrue)
		})
		if found {
			return true, "strictly increasing over every adjacent pair"
		}
		return false, "no comparison previous >= next over all adjacent elements of " + fieldSuffix + " with a failing edge"
	}
}

func cmpConjunct(desc string, pred func(p *Prog, bo *ssa.BinOp) (match bool, failOnTrue bool)) func(p *Prog, f *ssa.Function) (bool, string) {
	return func(p *Prog, f *ssa.Function) (bool, string) {
		found := forEachBinOp(f, func(bo *ssa.BinOp) bool {
			m, onTrue := pred(p, bo)
			return m && failsOn(f, bo, onTrue)
		})
		if found {
			return true, desc
		}
		return false, "missing conjunct: " + desc
	}
}

func callOn(v ssa.Value, method string) (recv ssa.Value, ok bool) {
	if cv, isC := v.(*ssa.Convert); isC {
		v = cv.X
	}
	c, isCall := v.(*ssa.Call)
	if !isCall {
		return nil, false
	}
	if c.Call.IsInvoke() {
		if c.Call.Method.Name() == method {
			return c.Call.Value, true
		}
		return nil, false
	}
	if f := c.Call.StaticCallee(); f != nil && f.Name() == method && len(c.Call.Args) > 0 {
		return c.Call.Args[0], true
	}
	return nil, false
}

// every element validated: a call to `validate`/`Validate` on <field>[i] inside a loop over the whole field, error returned.
func everyElementValidated(fieldSuffix, method string) func(p *Prog, f *ssa.Function) (bool, string) {
	return func(p *Prog, f *ssa.Function) (bool, string) {
		for _, b := range f.Blocks {
			for _, ins := range b.Instrs {
				c, ok := ins.(*ssa.Call)
				if !ok {
					continue
				}
				recv, ok := callOn(c, method)
				if !ok {
					continue
				}
				idx, ok := elemLoad(recv, fieldSuffix)
				if !ok || !inductionOver(f, idx, fieldSuffix, "-1", "0") {
					continue
				}
				// error tested and returned
				u := p.usesOfErr(c, map[ssa.Value]bool{})
				for _, nb := range u.nonNilBlk {
					if blockReturnsFailure(nb, 0) {
						return true, method + "() called on every element, error returned"
					}
				}
			}
		}
		return false, "the per-element " + method + "() is not called on every element of " + fieldSuffix + " with its error returned"
	}
}

var validatorConjuncts = []conjunct{
	// key order (32 and 64)
	{"(*roaring.roaringArray).checkKeysSorted", "keys strictly increasing", sortedConjunct("roaringArray.keys")},
	{"(*roaring64.roaringArray64).checkKeysSorted", "keys strictly increasing", sortedConjunct("roaringArray64.keys")},
	// array
	{"(*roaring.arrayContainer).validate", "non-empty", cmpConjunct("cardinality <= 0 rejected", func(p *Prog, bo *ssa.BinOp) (bool, bool) {
		if _, ok := callOn(bo.X, "getCardinality"); ok && isZeroConst(bo.Y) && (bo.Op == token.LEQ || bo.Op == token.EQL) {
			return true, true
		}
		if lenOfField(bo.X, "arrayContainer.content") && isZeroConst(bo.Y) && (bo.Op == token.LEQ || bo.Op == token.EQL) {
			return true, true
		}
		return false, false
	})},
	{"(*roaring.arrayContainer).validate", "at most 4096", cmpConjunct("cardinality > arrayDefaultMaxSize rejected", func(p *Prog, bo *ssa.BinOp) (bool, bool) {
		_, isCard := callOn(bo.X, "getCardinality")
		if (isCard || lenOfField(bo.X, "arrayContainer.content")) && isNamedConst(p, bo.Y, "roaring", "arrayDefaultMaxSize") && bo.Op == token.GTR {
			return true, true
		}
		return false, false
	})},
	{"(*roaring.arrayContainer).validate", "strictly increasing", sortedConjunct("arrayContainer.content")},
	// bitmap
	{"(*roaring.bitmapContainer).validate", "more than 4096 (lower threshold)", cmpConjunct("cardinality below the array threshold rejected", func(p *Prog, bo *ssa.BinOp) (bool, bool) {
		if _, ok := loadOfField(bo.X, "bitmapContainer.cardinality"); ok && isNamedConst(p, bo.Y, "roaring", "arrayDefaultMaxSize") && (bo.Op == token.LSS || bo.Op == token.LEQ) {
			return true, true
		}
		return false, false
	})},
	{"(*roaring.bitmapContainer).validate", "cached cardinality exact", cmpConjunct("cardinality != popcount(bitmap) rejected", func(p *Prog, bo *ssa.BinOp) (bool, bool) {
		if bo.Op != token.NEQ {
			return false, false
		}
		_, l := loadOfField(bo.X, "bitmapContainer.cardinality")
		_, r := loadOfField(bo.Y, "bitmapContainer.cardinality")
		other := bo.Y
		if r {
			other = bo.X
		}
		if !l && !r {
			return false, false
		}
		// the other side is popcount of the whole bitmap slice
		if cv, ok := other.(*ssa.Convert); ok {
			other = cv.X
		}
		if c, ok := other.(*ssa.Call); ok && len(c.Call.Args) == 1 {
			if _, ok := loadOfField(c.Call.Args[0], "bitmapContainer.bitmap"); ok {
				return true, true
			}
		}
		return false, false
	})},
	{"(*roaring.bitmapContainer).validate", "at most 65536", cmpConjunct("cardinality > maxCapacity rejected", func(p *Prog, bo *ssa.BinOp) (bool, bool) {
		if _, ok := loadOfField(bo.X, "bitmapContainer.cardinality"); ok && isNamedConst(p, bo.Y, "roaring", "maxCapacity") && bo.Op == token.GTR {
			return true, true
		}
		return false, false
	})},
	// run
	{"(*roaring.runContainer16).validate", "non-empty", cmpConjunct("cardinality == 0 rejected", func(p *Prog, bo *ssa.BinOp) (bool, bool) {
		if _, ok := callOn(bo.X, "getCardinality"); ok && isZeroConst(bo.Y) && (bo.Op == token.EQL || bo.Op == token.LEQ) {
			return true, true
		}
		if lenOfField(bo.X, "runContainer16.iv") && isZeroConst(bo.Y) && bo.Op == token.EQL {
			return true, true
		}
		return false, false
	})},
	{"(*roaring.runContainer16).validate", "every run within 0..65535 (no wrap)", func(p *Prog, f *ssa.Function) (bool, string) {
		// int(iv.start)+int(iv.length) > MaxUint16 on the interval rc.iv[i] for every i
		found := forEachBinOp(f, func(bo *ssa.BinOp) bool {
			if bo.Op != token.GTR && bo.Op != token.GEQ {
				return false
			}
			sum, ok := bo.X.(*ssa.BinOp)
			if !ok || sum.Op != token.ADD {
				return false
			}
			if intWidth(basicKind(sum.Type())) <= 16 {
				return false // must be computed after widening
			}
			if c, ok := bo.Y.(*ssa.Const); !ok || c.Value == nil || (c.Value.ExactString() != "65535" && c.Value.ExactString() != "65536") {
				return false
			}
			bs, okS := fieldOfValue(sum.X, "interval16.start")
			bl, okL := fieldOfValue(sum.Y, "interval16.length")
			if !okS || !okL {
				bs, okS = fieldOfValue(sum.Y, "interval16.start")
				bl, okL = fieldOfValue(sum.X, "interval16.length")
			}
			if !okS || !okL || bs != bl {
				return false
			}
			// the interval is rc.iv[i] with i ranging over all intervals
			idx, ok := elemLoad(resolveLocal(bs), "runContainer16.iv")
			if !ok || !inductionOver(f, idx, "runContainer16.iv", "-1", "0") {
				return false
			}
			return failsOn(f, bo, true)
		})
		if found {
			return true, "start+length bounded by 65535 for every interval"
		}
		return false, "no non-wrapping bound on start+length evaluated for every interval of the run container"
	}},
	{"(*roaring.runContainer16).validate", "sorted", cmpConjunct("outer.start >= inner.start rejected", func(p *Prog, bo *ssa.BinOp) (bool, bool) {
		_, l := fieldOfValue(bo.X, "interval16.start")
		_, r := fieldOfValue(bo.Y, "interval16.start")
		if l && r && (bo.Op == token.GEQ || bo.Op == token.GTR) {
			return true, true
		}
		return false, false
	})},
	{"(*roaring.runContainer16).validate", "non-overlapping and non-adjacent", func(p *Prog, f *ssa.Function) (bool, string) {
		for _, b := range f.Blocks {
			for _, ins := range b.Instrs {
				c, ok := ins.(*ssa.Call)
				if !ok {
					continue
				}
				callee := c.Call.StaticCallee()
				if callee == nil || !strings.Contains(strings.ToLower(callee.Name()), "noncontiguousdisjoint") {
					continue
				}
				u := p.usesOfErr(c, map[ssa.Value]bool{})
				for _, nb := range u.nonNilBlk {
					if blockReturnsFailure(nb, 0) {
						return true, "overlap/adjacency test between every pair, error returned"
					}
				}
				// or returned as it is: return isNonContiguousDisjoint(outer, inner)
				if c.Referrers() != nil {
					for _, r := range *c.Referrers() {
						if ret, ok := r.(*ssa.Return); ok {
							for _, rv := range ret.Results {
								if rv == ssa.Value(c) {
									return true, "overlap/adjacency test between every pair, its verdict returned as it is"
								}
							}
						}
					}
				}
			}
		}
		return false, "no overlap/adjacency test between intervals with its error returned"
	}},
	{"(*roaring.runContainer16).validate", "efficient (run is the cheapest form)", cmpConjunct("run size >= bitmap or array size rejected", func(p *Prog, bo *ssa.BinOp) (bool, bool) {
		if bo.Op != token.GEQ {
			return false, false
		}
		cx, okx := bo.X.(*ssa.Call)
		cy, oky := bo.Y.(*ssa.Call)
		if okx && oky {
			fx, fy := cx.Call.StaticCallee(), cy.Call.StaticCallee()
			if fx != nil && fy != nil && strings.Contains(fx.Name(), "runContainer16SerializedSizeInBytes") && (strings.Contains(fy.Name(), "bitmapContainerSizeInBytes") || strings.Contains(fy.Name(), "arrayContainerSizeInBytes")) {
				return true, true
			}
		}
		return false, false
	})},
}

func ruleV2(p *Prog) *RuleResult {
	res := newResult("V2", ruleDoc["V2"], 12)
	for _, cj := range validatorConjuncts {
		f := p.Func(cj.fn)
		if f == nil {
			f = p.funcAsFree(cj.fn)
		}
		c := cj.fn + "|" + cj.name
		if f == nil {
			res.undecided(c, "-", "validator not found")
			continue
		}
		ok, why := cj.check(p, f)
		if !ok {
			// the conjunct may have been moved into a helper whose verdict the validator returns
			for _, g := range forwardedCheckers(f) {
				if ok2, why2 := cj.check(p, g); ok2 {
					ok, why = true, why2+" (in "+fname(g)+", whose error the validator returns)"
					break
				}
			}
		}
		if ok {
			res.ok(c, p.pos(f.Pos()), why)
		} else {
			res.bad(c, p.pos(f.Pos()), why)
		}
	}
	// the bitmap validator's lower threshold must agree with the writer (rule L3): validator-accept(bitmap) ⊆ (4096, 65536]
	if f := p.Func("(*roaring.bitmapContainer).validate"); f != nil {
		strict := forEachBinOp(f, func(bo *ssa.BinOp) bool {
			_, ok := loadOfField(bo.X, "bitmapContainer.cardinality")
			return ok && isNamedConst(p, bo.Y, "roaring", "arrayDefaultMaxSize") && bo.Op == token.LEQ && failsOn(f, bo, true)
		})
		c := "(*roaring.bitmapContainer).validate|rejects cardinality == 4096"
		if strict {
			res.ok(c, p.pos(f.Pos()), "validator-accept(bitmap) = (4096, 65536]")
		} else {
			res.bad(c, p.pos(f.Pos()), "the validator accepts a bitmap container of cardinality exactly 4096, which the portable writer refuses to write (validator-accept ⊄ writer-accept)")
		}
	}
	return res
}

func ruleV1(p *Prog) *RuleResult {
	res := newResult("V1", ruleDoc["V1"], 8)
	type tv struct {
		bitmapValidate, tableValidate, keysField, contField, flagsField, elemValidate, sorted string
	}
	for _, v := range []tv{
		{"(*roaring.Bitmap).Validate", "(*roaring.roaringArray).validate", "roaringArray.keys", "roaringArray.containers", "roaringArray.needCopyOnWrite", "validate", "checkKeysSorted"},
		{"(*roaring64.Bitmap).Validate", "(*roaring64.roaringArray64).validate", "roaringArray64.keys", "roaringArray64.containers", "roaringArray64.needCopyOnWrite", "Validate", "checkKeysSorted"},
	} {
		bf, tf := p.Func(v.bitmapValidate), p.Func(v.tableValidate)
		if bf == nil || tf == nil {
			res.undecided(v.bitmapValidate, "-", "anchor not found")
			continue
		}
		// Bitmap.Validate returns the table validator's verdict
		ok := false
		for _, b := range bf.Blocks {
			if r, isR := b.Instrs[len(b.Instrs)-1].(*ssa.Return); isR && len(r.Results) == 1 {
				if c, isC := r.Results[0].(*ssa.Call); isC && c.Call.StaticCallee() == tf {
					ok = true
				}
			}
		}
		if ok {
			res.ok(v.bitmapValidate+"|delegates", p.pos(bf.Pos()), "")
		} else {
			res.bad(v.bitmapValidate+"|delegates", p.pos(bf.Pos()), "Validate does not return the verdict of "+v.tableValidate)
		}
		chk := func(name string, fn func(p *Prog, f *ssa.Function) (bool, string)) {
			ok, why := fn(p, tf)
			if ok {
				res.ok(v.tableValidate+"|"+name, p.pos(tf.Pos()), why)
			} else {
				res.bad(v.tableValidate+"|"+name, p.pos(tf.Pos()), why)
			}
		}
		chk("key order", func(p *Prog, f *ssa.Function) (bool, string) {
			for _, b := range f.Blocks {
				for _, ins := range b.Instrs {
					if c, isC := ins.(*ssa.Call); isC {
						if callee := c.Call.StaticCallee(); callee != nil && callee.Name() == v.sorted && failsOn(f, c, false) {
							return true, "unsorted keys rejected"
						}
					}
				}
			}
			return false, "the key-order check is not called or its failure is not returned"
		})
		chk("len(keys) == len(containers)", cmpConjunct("length mismatch rejected", func(p *Prog, bo *ssa.BinOp) (bool, bool) {
			if bo.Op == token.NEQ && ((lenOfField(bo.X, v.keysField) && lenOfField(bo.Y, v.contField)) || (lenOfField(bo.Y, v.keysField) && lenOfField(bo.X, v.contField))) {
				return true, true
			}
			return false, false
		}))
		chk("len(keys) == len(needCopyOnWrite)", cmpConjunct("length mismatch rejected", func(p *Prog, bo *ssa.BinOp) (bool, bool) {
			a := lenOfField(bo.X, v.flagsField) || lenOfField(bo.Y, v.flagsField)
			b := lenOfField(bo.X, v.keysField) || lenOfField(bo.Y, v.keysField) || lenOfField(bo.X, v.contField) || lenOfField(bo.Y, v.contField)
			if bo.Op == token.NEQ && a && b {
				return true, true
			}
			return false, false
		}))
		chk("every container validated", everyElementValidated(v.contField, v.elemValidate))
		if strings.Contains(v.tableValidate, "64") {
			chk("empty bucket rejected", func(p *Prog, f *ssa.Function) (bool, string) {
				for _, b := range f.Blocks {
					for _, ins := range b.Instrs {
						if c, isC := ins.(*ssa.Call); isC {
							if recv, ok := callOn(c, "IsEmpty"); ok {
								if idx, ok := elemLoad(recv, v.contField); ok && inductionOver(f, idx, v.contField, "-1", "0") && failsOn(f, c, true) {
									return true, "IsEmpty() on every bucket rejected"
								}
							}
						}
					}
				}
				return false, "an empty bucket is not rejected"
			})
		}
	}
	_ = fmt.Sprint
	return res
}

// forwardedCheckers: same-package functions called by f whose error result f returns (tail call, or the
// usual `if err := g(...); err != nil { return err }`), up to two calls deep.
func forwardedCheckers(f *ssa.Function) []*ssa.Function {
	var out []*ssa.Function
	seen := map[*ssa.Function]bool{f: true}
	var visit func(h *ssa.Function, depth int)
	visit = func(h *ssa.Function, depth int) {
		if depth > 2 {
			return
		}
		for _, b := range h.Blocks {
			for _, ins := range b.Instrs {
				c, ok := ins.(*ssa.Call)
				if !ok {
					continue
				}
				g := c.Call.StaticCallee()
				if g == nil || g.Blocks == nil || seen[g] || fnPkgPath(g) != fnPkgPath(f) || errResultIndex(g.Signature) < 0 {
					continue
				}
				returned := false
				var follow func(v ssa.Value, d int)
				follow = func(v ssa.Value, d int) {
					if d > 3 || v.Referrers() == nil {
						return
					}
					for _, r := range *v.Referrers() {
						switch x := r.(type) {
						case *ssa.Return:
							returned = true
						case *ssa.Extract:
							follow(x, d+1)
						case *ssa.Phi:
							follow(x, d+1)
						}
					}
				}
				follow(c, 0)
				if returned {
					seen[g] = true
					out = append(out, g)
					visit(g, depth+1)
				}
			}
		}
	}
	visit(f, 0)
	return out
}

// funcAsFree: a method named "(*pkg.T).name" that was turned into the free function pkg.name (taking the
// data it used to read from its receiver as a parameter).
func (p *Prog) funcAsFree(method string) *ssa.Function {
	i := strings.LastIndex(method, ").")
	j := strings.Index(method, ".")
	if i < 0 || j < 0 || !strings.HasPrefix(method, "(*") {
		return nil
	}
	return p.Func(method[2:j] + "." + method[i+2:])
}
