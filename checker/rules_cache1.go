package main

import (
	"fmt"
	"go/token"
	"go/types"
	"sort"

	"golang.org/x/tools/go/ssa"
)

func init() {
	register("CACHE1", "a merge loop that carries the element under its cursor in a local next to the cursor (v := a[pos]; for ... { ... pos++; v = a[pos] ... }) keeps the two in step: on every way round the loop on which the cursor has moved, the local has been reloaded from the same slice at the new position, and on every way on which the local changed so did the cursor. A cursor that jumps (a galloping search) while the local still holds the element of the old position compares and counts the wrong element", ruleCACHE1)
}

func ruleCACHE1(p *Prog) *RuleResult {
	res := newResult("CACHE1", ruleDoc["CACHE1"], 10)
	own := p.OWN()
	fns := append([]*ssa.Function(nil), p.sourceFns()...)
	sort.Slice(fns, func(i, j int) bool { return fname(fns[i]) < fname(fns[j]) })
	loadAt := func(v ssa.Value) (base ssa.Value, idx ssa.Value, ok bool) {
		for {
			if cv, isCv := v.(*ssa.Convert); isCv {
				v = cv.X
				continue
			}
			break
		}
		// a positional accessor of a table counts as an element load: t.getKeyAtIndex(i)
		if c, isC := v.(*ssa.Call); isC {
			if g := c.Call.StaticCallee(); g != nil && g.Signature.Recv() != nil && len(c.Call.Args) == 2 && isPositionalAccessor(g) {
				return c.Call.Args[0], c.Call.Args[1], true
			}
			// what a chunk answers, where the chunk was fetched from a table by key or position in the same
			// expression: t.getContainer(k).previousAbsentValue(q) is "loaded at k"
			var recv ssa.Value
			if c.Call.IsInvoke() {
				recv = c.Call.Value
			} else if g := c.Call.StaticCallee(); g != nil && g.Signature.Recv() != nil && len(c.Call.Args) > 0 {
				recv = c.Call.Args[0]
			}
			if rc, isRC := recv.(*ssa.Call); isRC {
				if g := rc.Call.StaticCallee(); g != nil && g.Signature.Recv() != nil && len(rc.Call.Args) == 2 && g.Signature.Results().Len() == 1 {
					if _, isI := g.Signature.Results().At(0).Type().Underlying().(*types.Interface); isI {
						return rc.Call.Args[0], rc.Call.Args[1], true
					}
				}
			}
			return nil, nil, false
		}
		u, isU := v.(*ssa.UnOp)
		if !isU || u.Op != token.MUL {
			return nil, nil, false
		}
		ia, isIA := u.X.(*ssa.IndexAddr)
		if !isIA {
			return nil, nil, false
		}
		return ia.X, ia.Index, true
	}
	for _, f := range fns {
		if f.Blocks == nil {
			continue
		}
		n := 0
		for _, h := range f.Blocks {
			loop := naturalLoop(h)
			if len(loop) == 0 {
				continue
			}
			var phis []*ssa.Phi
			for _, ins := range h.Instrs {
				ph, ok := ins.(*ssa.Phi)
				if !ok {
					break
				}
				phis = append(phis, ph)
			}
			for _, vphi := range phis {
				for _, pphi := range phis {
					if vphi == pphi {
						continue
					}
					// seed: some edge on which v = base[pos] for the cursor's value on the same edge
					var base ssa.Value
					for k := range vphi.Edges {
						if b, idx, ok := loadAt(vphi.Edges[k]); ok && idx == pphi.Edges[k] {
							if _, isConst := idx.(*ssa.Const); !isConst {
								base = b
							}
						}
					}
					if base == nil {
						continue
					}
					// the cursor really is a cursor: it moves inside the loop
					moves := false
					for k, e := range pphi.Edges {
						if loop[h.Preds[k]] && e != ssa.Value(pphi) {
							moves = true
						}
					}
					if !moves {
						continue
					}
					// a pure cache: everything that flows into the local is an element load (or the local itself);
					// a local that is also computed on (w &= w-1) is a working copy of the element, not a cache
					pure := true
					seenV := map[ssa.Value]bool{}
					var leaves func(v ssa.Value)
					leaves = func(v ssa.Value) {
						if seenV[v] {
							return
						}
						seenV[v] = true
						if ph, ok := v.(*ssa.Phi); ok {
							for _, e := range ph.Edges {
								leaves(e)
							}
							return
						}
						if _, isConst := v.(*ssa.Const); isConst {
							return // the zero value the local was declared with
						}
						if _, _, ok := loadAt(v); !ok {
							pure = false
						}
					}
					leaves(vphi)
					if !pure {
						continue
					}
					n++
					cn := fmt.Sprintf("%s|%s beside cursor %s#%d", fname(f), vphi.Comment, pphi.Comment, n)
					var where string
					otherRelation := false
					var coherent func(v, pos ssa.Value, seen map[[2]ssa.Value]bool) bool
					coherent = func(v, pos ssa.Value, seen map[[2]ssa.Value]bool) bool {
						if v == ssa.Value(vphi) && pos == ssa.Value(pphi) {
							return true
						}
						if b, idx, ok := loadAt(v); ok && sameIndex(idx, pos) && sameAccessPath(b, base, 0) {
							return true
						}
						// the table was shifted under the cursor: an insertion at the cursor followed by pos++
						// leaves the same element under it
						if bo, ok := pos.(*ssa.BinOp); ok && bo.Op == token.ADD {
							if c, isC := constIntVal(bo.Y); isC && c == 1 {
								for _, in2 := range bo.Block().Instrs {
									if call, ok := in2.(*ssa.Call); ok {
										if g := call.Call.StaticCallee(); g != nil && len(call.Call.Args) > 0 && sameAccessPath(call.Call.Args[0], base, 0) && !isPositionalAccessor(g) {
											if sm := own.Sum(g); sm != nil && sm.mut[0] != nil {
												return coherent(v, bo.X, seen)
											}
										}
									}
								}
							}
						}
						k := [2]ssa.Value{v, pos}
						if seen[k] {
							return true
						}
						seen[k] = true
						vp, ok1 := v.(*ssa.Phi)
						pp, ok2 := pos.(*ssa.Phi)
						if ok1 && ok2 && vp.Block() == pp.Block() {
							for i := range vp.Edges {
								if !coherent(vp.Edges[i], pp.Edges[i], seen) {
									return false
								}
							}
							return true
						}
						// one of them merged in a block where the other did not change
						if ok1 && !ok2 {
							for i := range vp.Edges {
								if !coherent(vp.Edges[i], pos, seen) {
									return false
								}
							}
							return true
						}
						if ok2 && !ok1 {
							for i := range pp.Edges {
								if !coherent(v, pp.Edges[i], seen) {
									return false
								}
							}
							return true
						}
						if where == "" {
							if ins, ok := pos.(ssa.Instruction); ok {
								where = p.ipos(ins)
							}
						}
						return false
					}
					bad := false
					// the local loaded, on some edge of the header itself, from another place than the cursor's position:
					// some other relation (the previous element, an element of a second slice), not a cache
					for k := range vphi.Edges {
						if b, idx, isLoad := loadAt(vphi.Edges[k]); isLoad && !(sameIndex(idx, pphi.Edges[k]) && sameAccessPath(b, base, 0)) {
							// loaded from the same table at the cursor's *previous* value, on an edge on which the
							// cursor moves: that is the stale read this rule is about, not another relation
							if sameAccessPath(b, base, 0) && idx == ssa.Value(pphi) && pphi.Edges[k] != ssa.Value(pphi) {
								continue
							}
							otherRelation = true
						}
					}
					for k := range vphi.Edges {
						if !coherent(vphi.Edges[k], pphi.Edges[k], map[[2]ssa.Value]bool{}) {
							bad = true
						}
					}
					if otherRelation {
						res.ok(cn, p.ipos(vphi), "the local is also loaded from another place than the cursor's position: not a cache of the cursor")
					} else if bad {
						res.bad(cn, p.ipos(vphi), fmt.Sprintf("on some way round the loop the cursor %s takes a new value (%s) while %s is not reloaded from the slice at that position (or the reverse)", pphi.Comment, where, vphi.Comment))
					} else {
						res.ok(cn, p.ipos(vphi), "reloaded at the cursor's new position on every way round the loop")
					}
				}
			}
		}
	}
	return res
}

func sameIndex(a, b ssa.Value) bool {
	if a == b {
		return true
	}
	ca, ok1 := constIntVal(a)
	cb, ok2 := constIntVal(b)
	return ok1 && ok2 && ca == cb
}

// isPositionalAccessor: a method (receiver, int) -> element whose body returns the receiver's slice field
// indexed by the parameter
func isPositionalAccessor(g *ssa.Function) bool {
	if g.Blocks == nil || len(g.Params) != 2 || g.Signature.Results().Len() != 1 {
		return false
	}
	for _, b := range g.Blocks {
		r, ok := b.Instrs[len(b.Instrs)-1].(*ssa.Return)
		if !ok {
			continue
		}
		u, ok := r.Results[0].(*ssa.UnOp)
		if !ok || u.Op != token.MUL {
			return false
		}
		ia, ok := u.X.(*ssa.IndexAddr)
		if !ok || ia.Index != ssa.Value(g.Params[1]) {
			return false
		}
	}
	return true
}
