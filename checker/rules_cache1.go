package main

import (
	"fmt"
	"go/token"
	"sort"

	"golang.org/x/tools/go/ssa"
)

func init() {
	register("CACHE1", "a merge loop that carries the element under its cursor in a local next to the cursor (v := a[pos]; for ... { ... pos++; v = a[pos] ... }) keeps the two in step: on every way round the loop on which the cursor has moved, the local has been reloaded from the same slice at the new position, and on every way on which the local changed so did the cursor. A cursor that jumps (a galloping search) while the local still holds the element of the old position compares and counts the wrong element", ruleCACHE1)
}

func ruleCACHE1(p *Prog) *RuleResult {
	res := newResult("CACHE1", ruleDoc["CACHE1"], 10)
	fns := append([]*ssa.Function(nil), p.sourceFns()...)
	sort.Slice(fns, func(i, j int) bool { return fname(fns[i]) < fname(fns[j]) })
	loadAt := func(v ssa.Value) (base ssa.Value, idx ssa.Value, ok bool) {
		u, isU := v.(*ssa.UnOp)
		if !isU || u.Op != token.MUL {
			return nil, nil, false
		}
		ia, isIA := u.X.(*ssa.IndexAddr)
		if !isIA {
			return nil, nil, false
		}
		return ia.X, ia.Index, true
	}
	for _, f := range fns {
		if f.Blocks == nil {
			continue
		}
		n := 0
		for _, h := range f.Blocks {
			loop := naturalLoop(h)
			if len(loop) == 0 {
				continue
			}
			var phis []*ssa.Phi
			for _, ins := range h.Instrs {
				ph, ok := ins.(*ssa.Phi)
				if !ok {
					break
				}
				phis = append(phis, ph)
			}
			for _, vphi := range phis {
				for _, pphi := range phis {
					if vphi == pphi {
						continue
					}
					// seed: some edge on which v = base[pos] for the cursor's value on the same edge
					var base ssa.Value
					for k := range vphi.Edges {
						if b, idx, ok := loadAt(vphi.Edges[k]); ok && idx == pphi.Edges[k] {
							base = b
						}
					}
					if base == nil {
						continue
					}
					// the cursor really is a cursor: it moves inside the loop
					moves := false
					for k, e := range pphi.Edges {
						if loop[h.Preds[k]] && e != ssa.Value(pphi) {
							moves = true
						}
					}
					if !moves {
						continue
					}
					// a pure cache: everything that flows into the local is an element load (or the local itself);
					// a local that is also computed on (w &= w-1) is a working copy of the element, not a cache
					pure := true
					seenV := map[ssa.Value]bool{}
					var leaves func(v ssa.Value)
					leaves = func(v ssa.Value) {
						if seenV[v] {
							return
						}
						seenV[v] = true
						if ph, ok := v.(*ssa.Phi); ok {
							for _, e := range ph.Edges {
								leaves(e)
							}
							return
						}
						if _, _, ok := loadAt(v); !ok {
							pure = false
						}
					}
					leaves(vphi)
					if !pure {
						continue
					}
					n++
					cn := fmt.Sprintf("%s|%s beside cursor %s#%d", fname(f), vphi.Comment, pphi.Comment, n)
					var where string
					var coherent func(v, pos ssa.Value, seen map[[2]ssa.Value]bool) bool
					coherent = func(v, pos ssa.Value, seen map[[2]ssa.Value]bool) bool {
						if v == ssa.Value(vphi) && pos == ssa.Value(pphi) {
							return true
						}
						if b, idx, ok := loadAt(v); ok && idx == pos && sameAccessPath(b, base, 0) {
							return true
						}
						k := [2]ssa.Value{v, pos}
						if seen[k] {
							return true
						}
						seen[k] = true
						vp, ok1 := v.(*ssa.Phi)
						pp, ok2 := pos.(*ssa.Phi)
						if ok1 && ok2 && vp.Block() == pp.Block() {
							for i := range vp.Edges {
								if !coherent(vp.Edges[i], pp.Edges[i], seen) {
									return false
								}
							}
							return true
						}
						// one of them merged in a block where the other did not change
						if ok1 && !ok2 {
							for i := range vp.Edges {
								if !coherent(vp.Edges[i], pos, seen) {
									return false
								}
							}
							return true
						}
						if ok2 && !ok1 {
							for i := range pp.Edges {
								if !coherent(v, pp.Edges[i], seen) {
									return false
								}
							}
							return true
						}
						if where == "" {
							if ins, ok := pos.(ssa.Instruction); ok {
								where = p.ipos(ins)
							}
						}
						return false
					}
					bad := false
					for k := range vphi.Edges {
						if !loop[h.Preds[k]] {
							continue // entry edges: the initial load is the caller's business (seeded above or not)
						}
						if !coherent(vphi.Edges[k], pphi.Edges[k], map[[2]ssa.Value]bool{}) {
							bad = true
						}
					}
					if bad {
						res.bad(cn, p.ipos(vphi), fmt.Sprintf("on some way round the loop the cursor %s takes a new value (%s) while %s is not reloaded from the slice at that position (or the reverse)", pphi.Comment, where, vphi.Comment))
					} else {
						res.ok(cn, p.ipos(vphi), "reloaded at the cursor's new position on every way round the loop")
					}
				}
			}
		}
	}
	return res
}
