package main

import (
	"fmt"
	"go/ast"
	"go/token"
	"go/types"
	"os"
	"sort"
	"strings"

	"golang.org/x/tools/go/packages"
	"golang.org/x/tools/go/ssa"
	"golang.org/x/tools/go/ssa/ssautil"
)

const modPath = "github.com/RoaringBitmap/roaring/v2"

// BuildConfig names one build configuration of /repo that is analysed.
type BuildConfig struct {
	Name   string
	GOARCH string
	Tags   string
}

var (
	cfgAmd64     = BuildConfig{Name: "linux/amd64", GOARCH: "amd64"}
	cfgArm64     = BuildConfig{Name: "linux/arm64", GOARCH: "arm64"}
	cfg386       = BuildConfig{Name: "linux/386", GOARCH: "386"}
	cfgAppengine = BuildConfig{Name: "linux/amd64+appengine", GOARCH: "amd64", Tags: "appengine"}
)

// Prog is the loaded, type-checked, SSA-built program for one configuration.
type Prog struct {
	Cfg     BuildConfig
	RepoDir string
	Fset    *token.FileSet
	Pkgs    []*packages.Package // repo packages only (sorted by path)
	ByPath  map[string]*packages.Package
	SSA     *ssa.Program
	SSAPkg  map[string]*ssa.Package
	AllFns  map[*ssa.Function]bool
	RepoFns []*ssa.Function // functions with bodies (or declared bodiless) whose package is in the repo, sorted
	fnDecl  map[*ssa.Function]*ast.FuncDecl

	own *ownEngine // lazily built
}

func repoDir() string {
	if d := os.Getenv("RB_REPO"); d != "" {
		return d
	}
	return "/repo"
}

func loadEnv(cfg BuildConfig) []string {
	env := []string{}
	for _, e := range os.Environ() {
		k := e
		if i := strings.IndexByte(e, '='); i >= 0 {
			k = e[:i]
		}
		switch k {
		case "GOFLAGS", "GOPROXY", "GOSUMDB", "GOTOOLCHAIN", "GOWORK", "GOARCH", "GOOS", "PATH", "CGO_ENABLED":
			continue
		}
		env = append(env, e)
	}
	path := os.Getenv("PATH")
	env = append(env,
		"GOFLAGS=-mod=mod", "GOPROXY=off", "GOSUMDB=off", "GOTOOLCHAIN=local", "GOWORK=off",
		"GOOS=linux", "GOARCH="+cfg.GOARCH, "CGO_ENABLED=0",
		"PATH=/opt/veriftools/go1.26.8/bin:"+path)
	return env
}

// Load type-checks and builds SSA for /repo ./... under cfg. overlay maps
// absolute file names to replacement contents (used by the self-test seeds only).
func Load(cfg BuildConfig, overlay map[string][]byte) (*Prog, error) {
	dir := repoDir()
	pc := &packages.Config{
		Mode:    packages.LoadAllSyntax,
		Dir:     dir,
		Env:     loadEnv(cfg),
		Overlay: overlay,
		Tests:   false,
	}
	if cfg.Tags != "" {
		pc.BuildFlags = []string{"-tags=" + cfg.Tags}
	}
	pkgs, err := packages.Load(pc, "./...")
	if err != nil {
		return nil, fmt.Errorf("packages.Load: %w", err)
	}
	var errs []string
	packages.Visit(pkgs, nil, func(p *packages.Package) {
		for _, e := range p.Errors {
			errs = append(errs, e.Error())
		}
	})
	if len(errs) > 0 {
		sort.Strings(errs)
		if len(errs) > 8 {
			errs = errs[:8]
		}
		return nil, fmt.Errorf("type-check/load errors (%s): %s", cfg.Name, strings.Join(errs, "; "))
	}
	p := &Prog{Cfg: cfg, RepoDir: dir, ByPath: map[string]*packages.Package{}, SSAPkg: map[string]*ssa.Package{}, fnDecl: map[*ssa.Function]*ast.FuncDecl{}}
	for _, pk := range pkgs {
		if strings.HasPrefix(pk.PkgPath, modPath) {
			p.Pkgs = append(p.Pkgs, pk)
			p.ByPath[pk.PkgPath] = pk
			p.Fset = pk.Fset
		}
	}
	if len(p.Pkgs) == 0 {
		return nil, fmt.Errorf("no packages of %s loaded from %s", modPath, dir)
	}
	sort.Slice(p.Pkgs, func(i, j int) bool { return p.Pkgs[i].PkgPath < p.Pkgs[j].PkgPath })
	prog, _ := ssautil.AllPackages(pkgs, ssa.InstantiateGenerics)
	prog.Build()
	p.SSA = prog
	for _, sp := range prog.AllPackages() {
		if strings.HasPrefix(sp.Pkg.Path(), modPath) {
			p.SSAPkg[sp.Pkg.Path()] = sp
		}
	}
	p.AllFns = ssautil.AllFunctions(prog)
	for f := range p.AllFns {
		if inRepo(f) {
			p.RepoFns = append(p.RepoFns, f)
		}
	}
	sort.Slice(p.RepoFns, func(i, j int) bool { return p.RepoFns[i].String() < p.RepoFns[j].String() })
	return p, nil
}

func fnPkgPath(f *ssa.Function) string {
	if f.Pkg != nil {
		return f.Pkg.Pkg.Path()
	}
	if f.Parent() != nil {
		return fnPkgPath(f.Parent())
	}
	if o := f.Origin(); o != nil && o != f {
		return fnPkgPath(o)
	}
	if f.Object() != nil && f.Object().Pkg() != nil {
		return f.Object().Pkg().Path()
	}
	return ""
}

func inRepo(f *ssa.Function) bool { return strings.HasPrefix(fnPkgPath(f), modPath) }

// short name: package-relative qualified name, stable across line moves.
func fname(f *ssa.Function) string {
	if f == nil {
		return "<nil>"
	}
	s := f.String()
	s = strings.ReplaceAll(s, modPath+"/", "")
	s = strings.ReplaceAll(s, modPath, "roaring")
	return s
}

func tname(t types.Type) string {
	s := types.TypeString(t, func(p *types.Package) string {
		if p.Path() == modPath {
			return "roaring"
		}
		return strings.TrimPrefix(p.Path(), modPath+"/")
	})
	return s
}

func (p *Prog) pos(ps token.Pos) string {
	if !ps.IsValid() {
		return "-"
	}
	po := p.Fset.Position(ps)
	return fmt.Sprintf("%s:%d", strings.TrimPrefix(po.Filename, p.RepoDir+"/"), po.Line)
}

func (p *Prog) ipos(i ssa.Instruction) string {
	if i == nil {
		return "-"
	}
	if i.Pos().IsValid() {
		return p.pos(i.Pos())
	}
	// fall back: some instructions have NoPos; use the nearest positioned one in the block
	if b := i.Block(); b != nil {
		for _, j := range b.Instrs {
			if j.Pos().IsValid() {
				return p.pos(j.Pos())
			}
		}
		if f := b.Parent(); f != nil {
			return p.pos(f.Pos())
		}
	}
	return "-"
}

// Func resolves "pkg.Name" or "pkg.(*T).Name" / "pkg.(T).Name" (pkg relative to the module:
// "roaring", "roaring64", "BitSliceIndexing", "internal").
func (p *Prog) Func(q string) *ssa.Function {
	for _, f := range p.RepoFns {
		if fname(f) == q {
			return f
		}
	}
	return nil
}

func pkgPathOf(short string) string {
	if short == "roaring" {
		return modPath
	}
	return modPath + "/" + short
}

func (p *Prog) Type(pkgShort, name string) types.Type {
	pk := p.ByPath[pkgPathOf(pkgShort)]
	if pk == nil {
		return nil
	}
	o := pk.Types.Scope().Lookup(name)
	if o == nil {
		return nil
	}
	return o.Type()
}

func (p *Prog) Const(pkgShort, name string) *types.Const {
	pk := p.ByPath[pkgPathOf(pkgShort)]
	if pk == nil {
		return nil
	}
	c, _ := pk.Types.Scope().Lookup(name).(*types.Const)
	return c
}

// Methods returns the SSA functions of all methods (pointer and value receiver) of named type T.
func (p *Prog) Methods(t types.Type) []*ssa.Function {
	var out []*ssa.Function
	seen := map[*ssa.Function]bool{}
	for _, tt := range []types.Type{t, types.NewPointer(t)} {
		ms := p.SSA.MethodSets.MethodSet(tt)
		for i := 0; i < ms.Len(); i++ {
			f := p.SSA.MethodValue(ms.At(i))
			if f != nil && f.Synthetic == "" && !seen[f] {
				seen[f] = true
				out = append(out, f)
			}
		}
	}
	sort.Slice(out, func(i, j int) bool { return out[i].String() < out[j].String() })
	return out
}

// Decl returns the syntax of a source function.
func (p *Prog) Decl(f *ssa.Function) *ast.FuncDecl {
	if d, ok := p.fnDecl[f]; ok {
		return d
	}
	var d *ast.FuncDecl
	if fd, ok := f.Syntax().(*ast.FuncDecl); ok {
		d = fd
	}
	p.fnDecl[f] = d
	return d
}

// PkgOfFunc returns the packages.Package that declares f.
func (p *Prog) PkgOfFunc(f *ssa.Function) *packages.Package { return p.ByPath[fnPkgPath(f)] }

// containerImpls returns the concrete named types (pointer form) implementing roaring.container.
func (p *Prog) containerImpls() (iface *types.Interface, impls []types.Type) {
	ct := p.Type("roaring", "container")
	if ct == nil {
		return nil, nil
	}
	iface, _ = ct.Underlying().(*types.Interface)
	if iface == nil {
		return nil, nil
	}
	pk := p.ByPath[modPath]
	names := pk.Types.Scope().Names()
	for _, n := range names {
		tn, ok := pk.Types.Scope().Lookup(n).(*types.TypeName)
		if !ok || tn.IsAlias() {
			continue
		}
		if _, isI := tn.Type().Underlying().(*types.Interface); isI {
			continue
		}
		pt := types.NewPointer(tn.Type())
		if types.Implements(pt, iface) {
			impls = append(impls, pt)
		} else if types.Implements(tn.Type(), iface) {
			impls = append(impls, tn.Type())
		}
	}
	return iface, impls
}
