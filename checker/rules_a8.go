package main

import (
	"fmt"
	"go/types"
	"sort"
	"strings"

	"golang.org/x/tools/go/ssa"
)

func init() {
	register("A8", "copying entry points keep no reference to caller memory: an exported function that takes a slice of scalars either is one of the documented zero-copy constructors or leaves no pointer into that slice in its receiver or results", ruleA8)
}

// zeroCopyAPI: exported functions documented to keep the caller's slice (the bitmap is a view of it).
var zeroCopyAPI = map[string]string{
	"(*roaring.Bitmap).FromBuffer":        "documented: the bitmap is backed by buf",
	"(*roaring.Bitmap).FromUnsafeBytes":   "documented: the bitmap is backed by data",
	"(*roaring.Bitmap).FrozenView":        "documented: a view of buf",
	"(*roaring.Bitmap).MustFrozenView":    "documented: a view of buf",
	"(*roaring.Bitmap).FromDense":         "documented: with doCopy=false the bitmap may be backed by the words",
	"roaring.FromDense":                   "documented: with doCopy=false the bitmap may be backed by the words",
	"(*roaring64.Bitmap).FromUnsafeBytes": "documented: the bitmap is backed by data",
}

func scalarSlice(t types.Type) bool {
	s, ok := t.Underlying().(*types.Slice)
	if !ok {
		return false
	}
	b, ok := s.Elem().Underlying().(*types.Basic)
	return ok && b.Info()&(types.IsInteger|types.IsUnsigned) != 0
}

func ruleA8(p *Prog) *RuleResult {
	res := newResult("A8", ruleDoc["A8"], 15)
	own := p.OWN()
	seenZero := map[string]bool{}
	var fns []*ssa.Function
	for _, f := range p.sourceFns() {
		if isExportedAPI(f) && !strings.Contains(fnPkgPath(f), "/internal") {
			fns = append(fns, f)
		}
	}
	sort.Slice(fns, func(i, j int) bool { return fname(fns[i]) < fname(fns[j]) })
	for _, f := range fns {
		sum := own.Sum(f)
		for k, prm := range f.Params {
			if !scalarSlice(prm.Type()) {
				continue
			}
			if f.Signature.Variadic() && k == len(f.Params)-1 {
				// a variadic list is still the caller's slice when passed as xs...
			}
			c := fmt.Sprintf("%s|param:%s", fname(f), prm.Name())
			if sum == nil {
				res.undecided(c, p.pos(f.Pos()), "no ownership summary")
				continue
			}
			var keeps []string
			for l := range sum.links {
				if l[1] == k && l[0] != k {
					keeps = append(keeps, "reachable from "+paramName(f, l[0])+" after the call")
				}
			}
			for i, r := range sum.ret {
				if r.is[k] || r.isDeep[k] || r.reach[k] {
					keeps = append(keeps, fmt.Sprintf("result %d holds a pointer into it", i))
				}
			}
			sort.Strings(keeps)
			if why, ok := zeroCopyAPI[fname(f)]; ok {
				seenZero[fname(f)] = true
				res.ok(c, p.pos(f.Pos()), "zero-copy by contract ("+why+")")
				continue
			}
			// results that are themselves scalar slices handed back to the caller (append-style APIs) are the caller's own memory
			if len(keeps) > 0 && appendStyle(f, k, sum) {
				res.ok(c, p.pos(f.Pos()), "returns the caller's own slice (append-style)")
				continue
			}
			if len(keeps) > 0 {
				res.bad(c, p.pos(f.Pos()), "the caller's slice stays referenced after the call ("+strings.Join(keeps, "; ")+"): reusing the buffer changes the bitmap; only the documented zero-copy constructors may do this")
			} else {
				res.ok(c, p.pos(f.Pos()), "no reference kept")
			}
		}
	}
	for name := range zeroCopyAPI {
		if !seenZero[name] && p.Func(name) != nil {
			// present but without a scalar slice parameter: the table is stale
			res.undecided(name+"|zero-copy table", "-", "listed as zero-copy but has no scalar-slice parameter")
		}
	}
	return res
}

// appendStyle: the only thing kept is a result of the same slice type (ManyIterator.NextMany(buf), ToArray-into, WriteDenseTo(buf) ...).
func appendStyle(f *ssa.Function, k int, sum *summary) bool {
	for l := range sum.links {
		if l[1] == k && l[0] != k {
			return false
		}
	}
	rs := f.Signature.Results()
	for i, r := range sum.ret {
		if r.is[k] || r.isDeep[k] || r.reach[k] {
			if !types.Identical(rs.At(i).Type(), f.Params[k].Type()) {
				return false
			}
		}
	}
	return true
}
