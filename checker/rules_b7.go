package main

import (
	"fmt"
	"sort"
	"strings"

	"golang.org/x/tools/go/ssa"
)

func init() {
	register("B7", "decoders consume exactly their own bytes: no library function puts a read-ahead wrapper (bufio.NewReader, io.ReadAll, ioutil.ReadAll) around an io.Reader it was given — whatever such a wrapper buffers beyond the bitmap is lost to the caller, who may have more data on the same stream", ruleB7)
}

func ruleB7(p *Prog) *RuleResult {
	res := newResult("B7", ruleDoc["B7"], 5)
	var fns []*ssa.Function
	fns = append(fns, p.sourceFns()...)
	sort.Slice(fns, func(i, j int) bool { return fname(fns[i]) < fname(fns[j]) })
	readAhead := func(name string) bool {
		return strings.HasPrefix(name, "bufio.NewReader") || name == "io.ReadAll" || name == "io/ioutil.ReadAll" || strings.HasPrefix(name, "bufio.NewScanner")
	}
	for _, f := range fns {
		if strings.HasPrefix(f.Name(), "smat") {
			continue
		}
		top := f
		for top.Parent() != nil {
			top = top.Parent()
		}
		// reader parameters of this function
		for _, prm := range f.Params {
			if typeShort(prm.Type()) != "io.Reader" {
				continue
			}
			c := fmt.Sprintf("%s|stream %s", fname(f), prm.Name())
			var bad ssa.Instruction
			seen := map[ssa.Value]bool{}
			var walk func(v ssa.Value, d int)
			walk = func(v ssa.Value, d int) {
				if d > 6 || seen[v] || v.Referrers() == nil {
					return
				}
				seen[v] = true
				for _, r := range *v.Referrers() {
					switch x := r.(type) {
					case *ssa.Phi:
						walk(x, d+1)
					case *ssa.ChangeInterface:
						walk(x, d+1)
					case *ssa.MakeInterface:
						walk(x, d+1)
					case *ssa.Store:
						if al, ok := x.Addr.(*ssa.Alloc); ok && x.Val == v {
							for _, rr := range *al.Referrers() {
								if ld, ok := rr.(*ssa.UnOp); ok {
									walk(ld, d+1)
								}
							}
						}
					case *ssa.Call:
						if g := x.Call.StaticCallee(); g != nil && readAhead(g.String()) && bad == nil {
							bad = x
						}
					}
				}
			}
			walk(prm, 0)
			if bad != nil {
				res.bad(c, p.ipos(bad), "the caller's stream is wrapped in a reader that reads ahead ("+calleeName(&bad.(*ssa.Call).Call)+"): bytes after the bitmap are swallowed")
			} else {
				res.ok(c, p.pos(f.Pos()), "read directly (or through the exact-length adapter)")
			}
		}
	}
	// ... nor is the reader it was given asked for another way in (io.Seeker, io.ReaderAt, io.WriterTo ...):
	// a decoder that steps over bytes with Seek works on regular files and fails on pipes, and whatever
	// wraps the reader (a hash, a counter, a limit) is bypassed
	for _, f := range fns {
		if f.Blocks == nil || strings.HasPrefix(f.Name(), "smat") {
			continue
		}
		n := 0
		for _, b := range f.Blocks {
			for _, ins := range b.Instrs {
				ta, ok := ins.(*ssa.TypeAssert)
				if !ok || typeShort(ta.X.Type()) != "io.Reader" {
					continue
				}
				at := typeShort(ta.AssertedType)
				switch at {
				case "io.Seeker", "io.ReadSeeker", "io.ReaderAt", "io.WriterTo", "io.ByteScanner", "io.RuneScanner":
					n++
					res.bad(fmt.Sprintf("%s|reader asserted to %s#%d", fname(f), at, n), p.ipos(ta), "the io.Reader handed to the decoder is asked for "+at+": bytes are then skipped or taken without passing through Read (fails on pipes, bypasses wrapping readers, and the caller's position no longer matches the count returned)")
				}
			}
		}
	}
	return res
}
