package main

import (
	"fmt"
	"go/token"
	"go/types"
	"sort"

	"golang.org/x/tools/go/ssa"
)

// WB1 — a cursor field cached in a local is written back on every way out.
//
// The batch iterators keep their position (word index, remaining bits of the current
// word, run index, offset in the run) in fields, copy them into locals for the loop and
// store the locals back before they return. A return that is reached after the local
// moved, without the store, leaves the field with what the previous call left there:
// the next call resumes from a stale word or position.
func init() {
	register("WB1", "a method that copies a field of its receiver into a local, moves the local (the local is a phi of the loaded value and values computed in the method) and stores it back, stores it back on every path from each such move to a return: a way out that skips the write-back leaves the field as the previous call left it and the next call resumes from stale state", ruleWB1)
}

func ruleWB1(p *Prog) *RuleResult {
	res := newResult("WB1", ruleDoc["WB1"], 2)
	fns := append([]*ssa.Function(nil), p.sourceFns()...)
	sort.Slice(fns, func(i, j int) bool { return fname(fns[i]) < fname(fns[j]) })
	for _, f := range fns {
		if len(f.Params) == 0 || f.Blocks == nil {
			continue
		}
		// the cursor: the receiver, or (a helper shared by twin methods) any pointer-to-struct parameter
		for _, recv := range f.Params {
			if pt, ok := recv.Type().Underlying().(*types.Pointer); !ok {
				continue
			} else if _, ok := pt.Elem().Underlying().(*types.Struct); !ok {
				continue
			}
			wb1Cursor(p, res, f, recv)
		}
	}
	return res
}

func wb1Cursor(p *Prog, res *RuleResult, f *ssa.Function, recv *ssa.Parameter) {
	{
		// stores to direct fields of the receiver, grouped by field
		byField := map[int][]*ssa.Store{}
		var fields []int
		for _, b := range f.Blocks {
			for _, ins := range b.Instrs {
				if st, ok := ins.(*ssa.Store); ok {
					if fa, ok := st.Addr.(*ssa.FieldAddr); ok && fa.X == ssa.Value(recv) {
						if _, seen := byField[fa.Field]; !seen {
							fields = append(fields, fa.Field)
						}
						byField[fa.Field] = append(byField[fa.Field], st)
					}
				}
			}
		}
		sort.Ints(fields)
		for _, fld := range fields {
			stores := byField[fld]
			// the web of the local: phis reachable backwards from the stored values, and their leaves
			seen := map[ssa.Value]bool{}
			var leaves []ssa.Value
			hasPhi := false
			var walk func(v ssa.Value)
			walk = func(v ssa.Value) {
				if v == nil || seen[v] {
					return
				}
				seen[v] = true
				if ph, ok := v.(*ssa.Phi); ok {
					hasPhi = true
					for _, e := range ph.Edges {
						walk(e)
					}
					return
				}
				leaves = append(leaves, v)
			}
			for _, st := range stores {
				walk(st.Val)
			}
			if !hasPhi {
				continue
			}
			// the pattern: one leaf is the load of this very field
			isLoad := func(v ssa.Value) bool {
				u, ok := v.(*ssa.UnOp)
				if !ok || u.Op != token.MUL {
					return false
				}
				fa, ok := u.X.(*ssa.FieldAddr)
				return ok && fa.X == ssa.Value(recv) && fa.Field == fld
			}
			cached := false
			for _, l := range leaves {
				if isLoad(l) {
					cached = true
				}
			}
			if !cached {
				continue
			}
			blocked := map[*ssa.BasicBlock][]*ssa.Store{}
			for _, st := range stores {
				blocked[st.Block()] = append(blocked[st.Block()], st)
			}
			name := fieldName(recv.Type(), fld)
			n := 0
			for _, l := range leaves {
				m, ok := l.(ssa.Instruction)
				if !ok || isLoad(l) {
					continue // constants and parameters have no position of their own; the load is not a move
				}
				n++
				cn := fmt.Sprintf("%s|write-back of %s after move#%d", fname(f), name, n)
				// is a Return reachable from m without a store to the field?
				mb := m.Block()
				escaped := ssa.Instruction(nil)
				storedAfter := false
				for _, st := range blocked[mb] {
					if instrIndex(st) > instrIndex(m) {
						storedAfter = true
					}
				}
				if !storedAfter {
					seenB := map[*ssa.BasicBlock]bool{}
					var work []*ssa.BasicBlock
					if r, ok := mb.Instrs[len(mb.Instrs)-1].(*ssa.Return); ok {
						escaped = r
					}
					for _, s := range mb.Succs {
						if !seenB[s] {
							seenB[s] = true
							work = append(work, s)
						}
					}
					for len(work) > 0 && escaped == nil {
						b := work[len(work)-1]
						work = work[:len(work)-1]
						if len(blocked[b]) > 0 {
							continue // every store in a block precedes its terminator
						}
						if r, ok := b.Instrs[len(b.Instrs)-1].(*ssa.Return); ok {
							escaped = r
							break
						}
						for _, s := range b.Succs {
							if !seenB[s] {
								seenB[s] = true
								work = append(work, s)
							}
						}
					}
				}
				if escaped != nil {
					res.bad(cn, p.ipos(m), fmt.Sprintf("the local copy of %s is moved here and the return at %s is reachable without the store that writes it back", name, p.ipos(escaped)))
				} else {
					res.ok(cn, p.ipos(m), "every path to a return stores the local back")
				}
			}
		}
	}
}
