package main

import (
	"fmt"
	"go/token"
	"go/types"
	"sort"

	"golang.org/x/tools/go/ssa"
)

func init() {
	register("IX0", "an exported function that reads a fixed position of a slice handed in by the caller (dat[0], the first bitmap of a variadic list) does so only behind a test of the slice's length: an empty — not just a nil — slice is a legal argument", ruleIX0)
}

func ruleIX0(p *Prog) *RuleResult {
	res := newResult("IX0", ruleDoc["IX0"], 5)
	fns := append([]*ssa.Function(nil), p.sourceFns()...)
	sort.Slice(fns, func(i, j int) bool { return fname(fns[i]) < fname(fns[j]) })
	for _, f := range fns {
		if f.Blocks == nil || f.Parent() != nil || !token.IsExported(f.Name()) {
			continue
		}
		if r := f.Signature.Recv(); r != nil {
			t := r.Type()
			if pt, ok := t.(*types.Pointer); ok {
				t = pt.Elem()
			}
			if nt, ok := t.(*types.Named); ok && !token.IsExported(nt.Obj().Name()) {
				continue
			}
		}
		n := 0
		for _, prm := range f.Params {
			if _, ok := prm.Type().Underlying().(*types.Slice); !ok {
				continue
			}
			isLen := func(v ssa.Value) bool {
				c, ok := v.(*ssa.Call)
				if !ok {
					return false
				}
				bi, ok := c.Call.Value.(*ssa.Builtin)
				return ok && bi.Name() == "len" && len(c.Call.Args) == 1 && c.Call.Args[0] == ssa.Value(prm)
			}
			for _, b := range f.Blocks {
				for _, ins := range b.Instrs {
					var idx ssa.Value
					switch x := ins.(type) {
					case *ssa.IndexAddr:
						if x.X == ssa.Value(prm) {
							idx = x.Index
						}
					case *ssa.Slice:
						// dat[1:] needs len >= 1 as well
						if x.X == ssa.Value(prm) && x.Low != nil {
							idx = x.Low
						}
					}
					if idx == nil {
						continue
					}
					if _, isC := constIntVal(idx); !isC {
						continue
					}
					n++
					cn := fmt.Sprintf("%s|fixed position of %s#%d", fname(f), prm.Name(), n)
					guarded := ""
					for _, b2 := range f.Blocks {
						iff, ok := b2.Instrs[len(b2.Instrs)-1].(*ssa.If)
						if !ok || b2 == b || !b2.Dominates(b) {
							continue
						}
						if len(sliceBack(iff.Cond, isLen)) > 0 {
							guarded = p.ipos(iff)
						}
						// or a test on the answer of a helper that was given the slice and looks at its length
						if len(sliceBack(iff.Cond, func(v ssa.Value) bool {
							c, ok := v.(*ssa.Call)
							if !ok || c.Call.IsInvoke() {
								return false
							}
							h := c.Call.StaticCallee()
							if h == nil || h.Blocks == nil || !inRepo(h) {
								return false
							}
							for i, a := range c.Call.Args {
								if a == ssa.Value(prm) && i < len(h.Params) && looksAtLen(h, h.Params[i]) {
									return true
								}
							}
							return false
						})) > 0 {
							guarded = p.ipos(iff) + " (through a helper that tests the length)"
						}
					}
					// a range loop over the slice establishes the length as well
					if guarded == "" {
						for _, b2 := range f.Blocks {
							if b2 == b || !b2.Dominates(b) {
								continue
							}
							for _, in2 := range b2.Instrs {
								if bo, ok := in2.(*ssa.BinOp); ok && (isLen(bo.X) || isLen(bo.Y)) {
									guarded = p.ipos(bo)
								}
							}
						}
					}
					if guarded != "" {
						res.ok(cn, p.ipos(ins), "behind the length test at "+guarded)
					} else {
						res.bad(cn, p.ipos(ins), fmt.Sprintf("no test of len(%s) dominates the access: an empty non-nil slice panics here", prm.Name()))
					}
				}
			}
		}
	}
	return res
}

// looksAtLen: h compares len(q) with something
func looksAtLen(h *ssa.Function, q *ssa.Parameter) bool {
	for _, b := range h.Blocks {
		for _, ins := range b.Instrs {
			bo, ok := ins.(*ssa.BinOp)
			if !ok {
				continue
			}
			switch bo.Op {
			case token.EQL, token.NEQ, token.LSS, token.LEQ, token.GTR, token.GEQ:
			default:
				continue
			}
			for _, o := range []ssa.Value{bo.X, bo.Y} {
				if c, ok := o.(*ssa.Call); ok {
					if bi, ok := c.Call.Value.(*ssa.Builtin); ok && bi.Name() == "len" && len(c.Call.Args) == 1 && c.Call.Args[0] == ssa.Value(q) {
						return true
					}
				}
			}
		}
	}
	return false
}
