package main

import (
	"fmt"
	"go/token"
	"go/types"
	"strings"

	"golang.org/x/tools/go/ssa"
)

func init() {
	register("PT2", "pooled memory is not used once it is back in the pool: after sync.Pool.Put(x) no element of x's memory is read or written on a path that does not obtain a new value first, and a function whose Put is deferred (or precedes the return) returns nothing derived from the pooled object", rulePT2)
}

type memKey struct {
	x ssa.Value
	f int
}

// memBase strips slicing and interface wrapping: the value whose backing store v shares.
func memBase(v ssa.Value) ssa.Value {
	for i := 0; i < 10; i++ {
		switch x := v.(type) {
		case *ssa.MakeInterface:
			v = x.X
		case *ssa.ChangeType:
			v = x.X
		case *ssa.ChangeInterface:
			v = x.X
		case *ssa.Slice:
			v = x.X
		case *ssa.TypeAssert:
			v = x.X
		default:
			return v
		}
	}
	return v
}

// baseKey identifies re-evaluations of the same field expression (input.containers read twice).
func baseKey(v ssa.Value) (memKey, bool) {
	switch x := v.(type) {
	case *ssa.Field:
		return memKey{x.X, x.Field}, true
	case *ssa.UnOp:
		if x.Op == token.MUL {
			if fa, ok := x.X.(*ssa.FieldAddr); ok {
				return memKey{fa.X, fa.Field}, true
			}
		}
	}
	return memKey{}, false
}

func isPoolCall(c *ssa.CallCommon, method string) bool {
	f := c.StaticCallee()
	return f != nil && f.String() == "(*sync.Pool)."+method
}

func rulePT2(p *Prog) *RuleResult {
	res := newResult("PT2", ruleDoc["PT2"], 3)
	for _, f := range p.sourceFns() {
		nput := 0
		for _, b := range f.Blocks {
			for ii, ins := range b.Instrs {
				var cc *ssa.CallCommon
				deferred := false
				switch x := ins.(type) {
				case *ssa.Call:
					cc = &x.Call
				case *ssa.Defer:
					cc, deferred = &x.Call, true
				default:
					continue
				}
				if !isPoolCall(cc, "Put") || len(cc.Args) < 2 {
					continue
				}
				nput++
				c := fmt.Sprintf("%s|Pool.Put#%d", fname(f), nput)
				// the value handed back must be of the one type the pool's users assert on Get
				if g, ok := cc.Args[0].(*ssa.Global); ok {
					want := poolElemType(p, g)
					got := putStaticType(cc.Args[1])
					if want != nil && (got == nil || !types.Identical(want, got)) {
						gs := "a value whose dynamic type is not fixed (an interface that may hold something else)"
						if got != nil {
							gs = typeShort(got)
						}
						res.bad(c+"|type", p.ipos(ins), fmt.Sprintf("pool %s hands out %s (every Get asserts that type) but receives %s here: the next Get panics on its type assertion", g.Name(), typeShort(want), gs))
						continue
					}
				}
				base := memBase(cc.Args[1])
				same := func(v ssa.Value) bool {
					bv := memBase(v)
					if bv == base {
						return true
					}
					k1, ok1 := baseKey(base)
					k2, ok2 := baseKey(bv)
					return ok1 && ok2 && k1 == k2
				}
				// ---- (b) returns must not derive from the pooled object when the Put runs before/at return
				if deferred || putBeforeReturnOnly(b, ii) {
					if w := returnsDerived(f, base, same); w != "" {
						res.bad(c, p.ipos(ins), "the function returns "+w+" although the object goes back to the pool when it returns: the next user of the pool overwrites the caller's result")
						continue
					}
				}
				if deferred {
					res.ok(c, p.ipos(ins), "deferred; nothing derived from the pooled object is returned")
					continue
				}
				// ---- (a) no use after Put in the same instance
				defBlk := defBlockOf(base)
				var bad ssa.Instruction
				visit := func(blk *ssa.BasicBlock, from int) {
					for _, u := range blk.Instrs[from:] {
						if bad != nil {
							return
						}
						if usesMemory(u, same) || usesObject(u, same) {
							bad = u
						}
					}
				}
				visit(b, ii+1)
				seen := map[*ssa.BasicBlock]bool{b: true}
				work := append([]*ssa.BasicBlock{}, b.Succs...)
				for len(work) > 0 && bad == nil {
					n := work[len(work)-1]
					work = work[:len(work)-1]
					if seen[n] || n == defBlk {
						continue // a new value is obtained there
					}
					seen[n] = true
					visit(n, 0)
					work = append(work, n.Succs...)
				}
				if bad != nil {
					res.bad(c, p.ipos(ins), fmt.Sprintf("memory handed to the pool here is still used at %s: another goroutine may already have taken it from the pool and be overwriting it", p.ipos(bad)))
				} else {
					res.ok(c, p.ipos(ins), "no use of the pooled memory after Put until a new value is obtained")
				}
			}
		}
	}
	return res
}

func defBlockOf(v ssa.Value) *ssa.BasicBlock {
	if k, ok := baseKey(v); ok {
		v = k.x
	}
	for i := 0; i < 6; i++ {
		switch x := v.(type) {
		case *ssa.Extract:
			v = x.Tuple
			continue
		case *ssa.UnOp:
			if x.Op == token.MUL {
				if al, ok := x.X.(*ssa.Alloc); ok {
					// a spilled variable: its (single) store site defines the instance
					for _, r := range *al.Referrers() {
						if st, ok := r.(*ssa.Store); ok && st.Addr == al {
							return st.Block()
						}
					}
				}
			}
		}
		break
	}
	if ins, ok := v.(ssa.Instruction); ok {
		return ins.Block()
	}
	return nil
}

// usesMemory: u reads or writes an element of (or passes on) memory for which same() holds.
func usesMemory(u ssa.Instruction, same func(ssa.Value) bool) bool {
	switch x := u.(type) {
	case *ssa.IndexAddr:
		return same(x.X)
	case *ssa.Index:
		return same(x.X)
	case *ssa.Range:
		return same(x.X)
	case *ssa.Call:
		if isPoolCall(&x.Call, "Put") {
			return false
		}
		if bi, ok := x.Call.Value.(*ssa.Builtin); ok && (bi.Name() == "len" || bi.Name() == "cap") {
			return false
		}
		for _, a := range x.Call.Args {
			if _, isSlice := a.Type().Underlying().(*types.Slice); isSlice && same(a) {
				return true
			}
		}
	case *ssa.Send:
		return same(x.X)
	}
	return false
}

// usesObject: u calls a method on, or passes on, the pooled object itself (a pointer or an interface holding it).
func usesObject(u ssa.Instruction, same func(ssa.Value) bool) bool {
	var cc *ssa.CallCommon
	switch x := u.(type) {
	case *ssa.Call:
		cc = &x.Call
	case *ssa.Go:
		cc = &x.Call
	case *ssa.Defer:
		cc = &x.Call
	default:
		return false
	}
	if isPoolCall(cc, "Put") {
		return false
	}
	if cc.IsInvoke() && hasPointers(cc.Value.Type()) && same(cc.Value) {
		return true
	}
	for _, a := range cc.Args {
		if _, isPtr := a.Type().Underlying().(*types.Pointer); isPtr && same(a) {
			return true
		}
		if _, isIface := a.Type().Underlying().(*types.Interface); isIface && same(a) {
			return true
		}
	}
	return false
}

// putBeforeReturnOnly: the Put at (b, ii) is followed only by a return (no further work).
func putBeforeReturnOnly(b *ssa.BasicBlock, ii int) bool {
	for _, ins := range b.Instrs[ii+1:] {
		switch ins.(type) {
		case *ssa.Return:
			return true
		case *ssa.DebugRef:
			continue
		default:
			return false
		}
	}
	return false
}

// returnsDerived: some returned value is computed from the pooled object (a method result such as
// buf.Bytes(), a field, a slice of it).
func returnsDerived(f *ssa.Function, base ssa.Value, same func(ssa.Value) bool) string {
	derived := map[ssa.Value]bool{}
	var walk func(v ssa.Value, d int)
	walk = func(v ssa.Value, d int) {
		if derived[v] || d > 8 {
			return
		}
		derived[v] = true
		if v.Referrers() == nil {
			return
		}
		for _, r := range *v.Referrers() {
			switch x := r.(type) {
			case *ssa.Slice, *ssa.MakeInterface, *ssa.ChangeType, *ssa.TypeAssert, *ssa.Phi, *ssa.FieldAddr, *ssa.IndexAddr, *ssa.Field:
				walk(x.(ssa.Value), d+1)
			case *ssa.UnOp:
				if x.Op == token.MUL && hasPointers(x.Type()) {
					walk(x, d+1)
				}
			case *ssa.Store:
				if x.Val == v {
					if al, ok := x.Addr.(*ssa.Alloc); ok {
						walk(al, d+1)
					}
				}
			case *ssa.Call:
				// a method of the pooled object's (foreign) type that returns memory: buf.Bytes(), buf.Next(n)
				if len(x.Call.Args) > 0 && x.Call.Args[0] == v && hasPointers(x.Type()) {
					if g := x.Call.StaticCallee(); g != nil && !strings.HasPrefix(fnPkgPath(g), modPath) && !isErrorType(x.Type()) {
						walk(x, d+1)
					}
				}
			}
		}
	}
	walk(base, 0)
	for _, b := range f.Blocks {
		if r, ok := b.Instrs[len(b.Instrs)-1].(*ssa.Return); ok {
			for _, rv := range r.Results {
				if derived[rv] && hasPointers(rv.Type()) && !isErrorType(rv.Type()) {
					return "memory of the pooled object (" + rv.Name() + ")"
				}
			}
		}
	}
	return ""
}

// poolElemType: the concrete type that Get sites of global pool g assert (they all agree in this repository).
func poolElemType(p *Prog, g *ssa.Global) types.Type {
	var t types.Type
	for _, f := range p.sourceFns() {
		for _, b := range f.Blocks {
			for _, ins := range b.Instrs {
				c, ok := ins.(*ssa.Call)
				if !ok || !isPoolCall(&c.Call, "Get") || len(c.Call.Args) == 0 || c.Call.Args[0] != ssa.Value(g) || c.Referrers() == nil {
					continue
				}
				for _, r := range *c.Referrers() {
					if ta, ok := r.(*ssa.TypeAssert); ok {
						t = ta.AssertedType
					}
				}
			}
		}
	}
	return t
}

// putStaticType: the concrete type of the value converted to interface{} for Put, nil if it is not fixed.
func putStaticType(v ssa.Value) types.Type {
	switch x := v.(type) {
	case *ssa.MakeInterface:
		return x.X.Type()
	case *ssa.ChangeInterface:
		// an interface value passed on: fixed only if it was itself made from one concrete type
		return putStaticType(x.X)
	case *ssa.Phi:
		var t types.Type
		for _, e := range x.Edges {
			et := putStaticType(e)
			if et == nil || (t != nil && !types.Identical(t, et)) {
				return nil
			}
			t = et
		}
		return t
	}
	return nil
}
