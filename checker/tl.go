package main

// Engine TL (DESIGN §3.2 "table level"): ownership typestate of containers that live in slot
// tables (roaringArray for the 32-bit bitmap, roaringArray64 for the 64-bit one).
//
// For every SSA value of slot type (container / *roaring.Bitmap bucket) the engine computes a set
// of provenance atoms, and for every program point a set of must-facts "(table, index) is
// unshared" (the copy-on-write flag of that slot is known to be false and its container is
// exclusively owned by that table). Two families of sites are then judged:
//
//   A2  write gate: the receiver/argument of every call that may write a container's payload
//       must be owned (fresh, obtained from a gate, or a slot that is unshared at that point);
//   A3  hand-off:   every store of a container into a slot must store an owned container, or move a
//       container inside its own table together with its flag, or share a borrowed container with
//       the destination flag true and the source flag ensured true (clone-or-share helpers).

import (
	"fmt"
	"go/constant"
	"go/token"
	"go/types"
	"sort"
	"strings"

	"golang.org/x/tools/go/ssa"
)

type tlLevel struct {
	name       string // "32" | "64"
	pkgShort   string // package analysed at this level
	tableName  string // roaringArray | roaringArray64
	tableType  *types.Named
	fCont      int
	fFlags     int
	fKeys      int
	slotIface  types.Type // container interface (level 32) or nil
	slotPtr    types.Type // *roaring.Bitmap (level 64) or nil
	kindTypes  []types.Type
	cellCont   string
	cellFlags  string
	cellKeys   string
	contentSet map[string]bool // payload cells whose write through a slot value is an A2 site
}

type atomKind int

const (
	aFresh atomKind = iota
	aGate
	aSlot
	aShared
	aParam
	aUnknown
	aNil
)

type atom struct {
	k     atomKind
	tab   string
	idx   ssa.Value
	param int
	call  *ssa.Call // aShared: the certified pair-returning call
	why   string
}

func (a atom) key() string {
	return fmt.Sprintf("%d|%s|%p|%d|%p|%s", a.k, a.tab, a.idx, a.param, a.call, a.why)
}

func (a atom) String() string {
	switch a.k {
	case aFresh:
		return "fresh"
	case aGate:
		return "gate"
	case aSlot:
		i := "*"
		if a.idx != nil {
			i = a.idx.Name()
		}
		return fmt.Sprintf("slot(%s[%s])", a.tab, i)
	case aShared:
		return fmt.Sprintf("shared-handoff(%s)", a.tab)
	case aParam:
		return fmt.Sprintf("param#%d", a.param)
	case aNil:
		return "nil"
	}
	return "unknown(" + a.why + ")"
}

type atomSet map[string]atom

func (s atomSet) add(a atom) bool {
	k := a.key()
	if _, ok := s[k]; ok {
		return false
	}
	s[k] = a
	return true
}
func (s atomSet) addAll(o atomSet) bool {
	ch := false
	for _, a := range o {
		if s.add(a) {
			ch = true
		}
	}
	return ch
}
func (s atomSet) list() []string {
	var out []string
	for _, a := range s {
		out = append(out, a.String())
	}
	sort.Strings(out)
	return out
}

type factKey struct {
	tab string
	idx ssa.Value
}
type factSet map[factKey]bool

func (f factSet) clone() factSet {
	o := factSet{}
	for k := range f {
		o[k] = true
	}
	return o
}
func (f factSet) killTab(t string) {
	for k := range f {
		if k.tab == t || t == "" {
			delete(f, k)
		}
	}
}

// ---- summaries ----

type retAtom struct {
	k        atomKind
	tabParam int    // aSlot/aShared: table is rooted at this parameter ...
	tabPath  string // ... followed by this field path
	idxParam int    // -1 if the index is not a parameter
	param    int
	why      string
}

type storeReq struct {
	tabParam int
	tabPath  string
	valParam int
	idxParam int    // -1 unknown
	flag     string // "false" | "true" | "keep" | "param" | "other"
	flagParm int
	pos      string
	via      string
}

type tlSummary struct {
	ret         [][]retAtom // per result index
	pair        [2]int      // certified (value, flag) result pair or {-1,-1}
	establish   [][2]int    // (table param [path empty], idx param) unshared on every return
	estPaths    []string    // table path per establish entry
	reqs        []storeReq
	flagLoad    bool // returns P0.flags[P1]
	flagLoadTP  string
	flagSet     bool              // sets P0.flags[P1] = true
	markAll     bool              // sets every flag of P0 true
	retTab      [][]string        // per result: roots ("P<k>..." or "L" for a table local to the callee) the returned pointer may denote
	mutTab      map[string]string // table roots (parameter- or freevar-rooted, or unknown) whose content this function may change -> witness
	moves       []int             // parameters whose table gives containers away together with their flags: callers must pass a temporary
	mayEmptyRet bool              // a possibly empty kernel result is returned untested: the callers have to test it
	done        bool
}

func (s *tlSummary) sig() string {
	var mt []string
	for k := range s.mutTab {
		mt = append(mt, k)
	}
	sort.Strings(mt)
	return fmt.Sprintf("%v|%v|%v|%v|%v|%v|%v|%v|%v|%v|%v|%v", s.ret, s.pair, s.establish, s.estPaths, s.reqs, s.flagLoad, s.flagSet, s.markAll, mt, s.retTab, s.moves, s.mayEmptyRet)
}

// ---- sites ----

type tlSite struct {
	rule   string // A2 | A3
	fn     *ssa.Function
	ctx    string
	instr  ssa.Instruction
	what   string // construct description (stable)
	status string // ok | violation
	note   string
	atoms  []string
}

type tlEngine struct {
	p          *Prog
	lv         *tlLevel
	own        *ownEngine
	fns        []*ssa.Function
	sums       map[string]*tlSummary // key: fn string + ctx
	field      map[string]atomSet    // global join per struct field "Type.field" (owned-ness only)
	chanJ      map[string]atomSet
	sites      map[string]*tlSite
	order      []string
	ctxs       map[*ssa.Function]map[string]map[int]bool
	changed    bool
	localOwned map[string]bool // "fn|tab" -> slots of this local table are all owned (optimistic fixpoint)
	paramOwned map[string]bool // "fn#k" -> parameter k of fn always receives a table its caller built and owns
	curRound   int
	base       *tlEngine // level 64: the level-32 engine, whose verdicts summarise the 32-bit API used on buckets
}

// slotArgWritten: may callee f change the content of the slot value passed as argument ai?
// At level 64 a bucket is a *roaring.Bitmap and the callee a 32-bit API function: the answer is the
// level-32 summary "f may change the content of the table of its parameter ai" (exact where the
// region engine over-approximates).
func (e *tlEngine) slotArgWritten(f *ssa.Function, ai int) (bool, []string, string) {
	if e.base != nil && fnPkgPath(f) == modPath {
		s := e.base.sums[e.base.sumKey(f, "")]
		if s != nil && s.done {
			prefix := fmt.Sprintf("P%d", ai)
			for tab, w := range s.mutTab {
				if tab == prefix || strings.HasPrefix(tab, prefix+".") {
					return true, []string{"content of " + tab}, w
				}
			}
			return false, nil, ""
		}
	}
	os := e.own.Sum(f)
	if os == nil {
		return false, nil, ""
	}
	var cells []string
	wit := ""
	if ef := os.mut[ai]; ef != nil {
		for cell, w := range ef.cells {
			if e.lv.contentSet[cell] {
				cells = append(cells, cell)
				wit = w
			}
		}
	}
	sort.Strings(cells)
	return len(cells) > 0, cells, wit
}

func (p *Prog) tlLevels() (l32, l64 *tlLevel, err error) {
	mk := func(name, pkg, table string) (*tlLevel, error) {
		t := p.Type(pkg, table)
		if t == nil {
			return nil, fmt.Errorf("type %s.%s not found", pkg, table)
		}
		named, _ := t.(*types.Named)
		st, _ := t.Underlying().(*types.Struct)
		if named == nil || st == nil {
			return nil, fmt.Errorf("%s.%s is not a struct", pkg, table)
		}
		lv := &tlLevel{name: name, pkgShort: pkg, tableName: table, tableType: named, fCont: -1, fFlags: -1, fKeys: -1}
		for i := 0; i < st.NumFields(); i++ {
			switch st.Field(i).Name() {
			case "containers":
				lv.fCont = i
			case "needCopyOnWrite":
				lv.fFlags = i
			case "keys":
				lv.fKeys = i
			}
		}
		if lv.fCont < 0 || lv.fFlags < 0 || lv.fKeys < 0 {
			return nil, fmt.Errorf("%s.%s lacks containers/needCopyOnWrite/keys", pkg, table)
		}
		pre := ""
		if pkg != "roaring" {
			pre = pkg + "."
		}
		lv.cellCont, lv.cellFlags, lv.cellKeys = pre+table+".containers", pre+table+".needCopyOnWrite", pre+table+".keys"
		return lv, nil
	}
	l32, err = mk("32", "roaring", "roaringArray")
	if err != nil {
		return
	}
	l32.slotIface = p.Type("roaring", "container")
	_, l32.kindTypes = p.containerImpls()
	l32.contentSet = kindContentCells
	l64, err = mk("64", "roaring64", "roaringArray64")
	if err != nil {
		return
	}
	bm := p.Type("roaring", "Bitmap")
	if bm == nil {
		return nil, nil, fmt.Errorf("roaring.Bitmap not found")
	}
	l64.slotPtr = types.NewPointer(bm)
	l64.contentSet = map[string]bool{}
	for c := range kindContentCells {
		l64.contentSet[c] = true
	}
	for _, c := range []string{"roaringArray.keys", "roaringArray.containers", "roaringArray.copyOnWrite", "Bitmap.highlowcontainer"} {
		l64.contentSet[c] = true
	}
	return
}

func (lv *tlLevel) isSlotType(t types.Type) bool {
	if lv.slotIface != nil {
		if types.Identical(t, lv.slotIface) {
			return true
		}
		for _, k := range lv.kindTypes {
			if types.Identical(t, k) {
				return true
			}
		}
		return false
	}
	return types.Identical(t, lv.slotPtr)
}

func (lv *tlLevel) isSlotSlice(t types.Type) bool {
	if s, ok := t.Underlying().(*types.Slice); ok {
		return lv.isSlotType(s.Elem())
	}
	return false
}

func (lv *tlLevel) isTableStruct(t types.Type) bool {
	return types.Identical(t, lv.tableType)
}

func (lv *tlLevel) isTableRef(t types.Type) bool {
	if lv.isTableStruct(t) {
		return true
	}
	if p, ok := t.Underlying().(*types.Pointer); ok {
		return lv.isTableStruct(p.Elem())
	}
	return false
}

// ---- per-function state ----

type tlFunc struct {
	e          *tlEngine
	fn         *ssa.Function
	ctx        map[int]bool
	ctxS       string
	dead       map[*ssa.BasicBlock]bool
	deadE      map[*ssa.BasicBlock]int // block -> index of its pruned successor edge (bool-constant context)
	in         map[*ssa.BasicBlock]factSet
	out        map[*ssa.BasicBlock]factSet // facts at block end (before edge gens)
	prov       map[ssa.Value]atomSet
	busy       map[ssa.Value]bool
	provHits   map[ssa.Value]bool    // values met while busy during the current provOf evaluation
	provApprox map[ssa.Value]atomSet // current approximation of cycle heads
	roots      map[ssa.Value]string
	rbusy      map[ssa.Value]bool
	grp        map[ssa.Value]ssa.Value // union-find over slot-slice values
	gstore     map[ssa.Value][]ssa.Value
	gsrc       map[ssa.Value][]ssa.Value
	sum        *tlSummary
	hstores    map[string][]string
}

func ctxString(ctx map[int]bool) string {
	if len(ctx) == 0 {
		return ""
	}
	var ks []int
	for k := range ctx {
		ks = append(ks, k)
	}
	sort.Ints(ks)
	var sb strings.Builder
	for _, k := range ks {
		fmt.Fprintf(&sb, "[p%d=%v]", k, ctx[k])
	}
	return sb.String()
}

func (e *tlEngine) sumKey(f *ssa.Function, ctx string) string { return f.String() + ctx }

func (e *tlEngine) summary(f *ssa.Function, ctx map[int]bool) *tlSummary {
	cs := ctxString(ctx)
	k := e.sumKey(f, cs)
	if s, ok := e.sums[k]; ok {
		return s
	}
	// register a new context; it is analysed in the next round
	s := &tlSummary{pair: [2]int{-1, -1}}
	e.sums[k] = s
	if e.ctxs[f] == nil {
		e.ctxs[f] = map[string]map[int]bool{}
	}
	if _, ok := e.ctxs[f][cs]; !ok {
		e.ctxs[f][cs] = ctx
		e.changed = true
	}
	return s
}

// boolConstArgs: constant bool arguments of a call, by parameter index of the callee.
func boolConstArgs(callee *ssa.Function, args []ssa.Value) map[int]bool {
	return boolCtxArgs(nil, callee, args)
}

// boolCtxArgs also propagates the caller's own context: a bool parameter whose value is fixed in
// the current context is as good as a constant (matchInt64Trie passes its `owned` on to
// bsi64PlaneChild).
func boolCtxArgs(t *tlFunc, callee *ssa.Function, args []ssa.Value) map[int]bool {
	var ctx map[int]bool
	for i, a := range args {
		if i >= len(callee.Params) {
			break
		}
		if c, ok := a.(*ssa.Const); ok && c.Value != nil && c.Value.Kind() == constant.Bool {
			if ctx == nil {
				ctx = map[int]bool{}
			}
			ctx[i] = constant.BoolVal(c.Value)
			continue
		}
		if t != nil {
			if p, ok := a.(*ssa.Parameter); ok {
				for k, q := range t.fn.Params {
					if q == p {
						if bv, ok := t.ctx[k]; ok {
							if ctx == nil {
								ctx = map[int]bool{}
							}
							ctx[i] = bv
						}
					}
				}
			}
		}
	}
	return ctx
}

// ---- table roots ----

func (t *tlFunc) root(v ssa.Value) string {
	if r, ok := t.roots[v]; ok {
		return r
	}
	if t.rbusy[v] {
		return "phi"
	}
	t.rbusy[v] = true
	r := t.root1(v)
	delete(t.rbusy, v)
	// a result that still mentions the recursion placeholder is only valid inside the enclosing phi
	if r != "phi" && !strings.Contains(r, "(phi,") && !strings.Contains(r, ",phi,") && !strings.Contains(r, ",phi)") && !strings.Contains(r, "(phi)") && !strings.HasPrefix(r, "phi.") && !strings.Contains(r, "M(phi") {
		t.roots[v] = r
	}
	return r
}

func (t *tlFunc) root1(v ssa.Value) string {
	switch x := v.(type) {
	case *ssa.Const:
		if x.IsNil() {
			return "nil"
		}
	case *ssa.Parameter:
		for i, p := range t.fn.Params {
			if p == x {
				return fmt.Sprintf("P%d", i)
			}
		}
	case *ssa.FreeVar:
		for i, p := range t.fn.FreeVars {
			if p == x {
				return fmt.Sprintf("FV%d", i)
			}
		}
	case *ssa.FieldAddr:
		st := x.X.Type().Underlying().(*types.Pointer).Elem().Underlying().(*types.Struct)
		return t.root(x.X) + "." + st.Field(x.Field).Name()
	case *ssa.Field:
		st := x.X.Type().Underlying().(*types.Struct)
		return t.root(x.X) + "." + st.Field(x.Field).Name()
	case *ssa.IndexAddr:
		return t.root(x.X) + "[]"
	case *ssa.Slice:
		return t.root(x.X)
	case *ssa.UnOp:
		if x.Op == token.MUL {
			// load of a struct value (by-value copy shares the arrays) keeps the root; a pointer
			// loaded from memory denotes whatever was stored there
			if _, isPtr := x.Type().Underlying().(*types.Pointer); isPtr {
				if al, ok := x.X.(*ssa.Alloc); ok {
					return t.allocRoot(al)
				}
				return "M(" + t.root(x.X) + ")"
			}
			if al, ok := x.X.(*ssa.Alloc); ok {
				return t.allocRoot(al)
			}
			return t.root(x.X)
		}
	case *ssa.Alloc:
		return t.allocRoot(x)
	case *ssa.Call:
		return t.callRoot(x, 0)
	case *ssa.Extract:
		if c, ok := x.Tuple.(*ssa.Call); ok {
			return t.callRoot(c, x.Index)
		}
		return fmt.Sprintf("%s#%d", t.root(x.Tuple), x.Index)
	case *ssa.Phi:
		// leaves of the phi web (phis of phis are flattened; loop-carried self references vanish)
		var rs []string
		seen := map[string]bool{}
		visited := map[*ssa.Phi]bool{}
		var leaves func(ph *ssa.Phi)
		leaves = func(ph *ssa.Phi) {
			if visited[ph] {
				return
			}
			visited[ph] = true
			for i, e := range ph.Edges {
				if t.predEdgeDead(ph.Block().Preds[i], ph.Block()) {
					continue
				}
				if p2, ok := e.(*ssa.Phi); ok {
					leaves(p2)
					continue
				}
				r := t.root(e)
				for _, part := range splitPhiTop(r) {
					if part != "phi" && !seen[part] {
						seen[part] = true
						rs = append(rs, part)
					}
				}
			}
		}
		leaves(x)
		sort.Strings(rs)
		if len(rs) == 1 {
			return rs[0]
		}
		if len(rs) == 0 {
			return "phi"
		}
		return "phi(" + strings.Join(rs, ",") + ")"
	case *ssa.MakeInterface:
		return t.root(x.X)
	case *ssa.ChangeType:
		return t.root(x.X)
	case *ssa.Convert:
		return t.root(x.X)
	case *ssa.TypeAssert:
		return t.root(x.X)
	case *ssa.Global:
		return "G:" + x.Name()
	}
	return fmt.Sprintf("?%s", v.Name())
}

// callRoot: the table(s) result #ri of a call may denote.
func (t *tlFunc) callRoot(x *ssa.Call, ri int) string {
	if f := x.Call.StaticCallee(); f != nil {
		// table-level summary of the callee (context-sensitive)
		if t.e.inScope(f) && f.Blocks != nil && !t.e.isKernelFn(f) {
			if s := t.e.sums[t.e.sumKey(f, ctxString(boolCtxArgs(t, f, x.Call.Args)))]; s != nil && s.done && ri < len(s.retTab) && len(s.retTab[ri]) > 0 {
				var rs []string
				seen := map[string]bool{}
				ok := true
				for _, r := range s.retTab[ri] {
					var m string
					if r == "L" {
						m = fmt.Sprintf("L:call%d", instrIndex(x))
					} else if r == "nil" {
						continue
					} else if strings.HasPrefix(r, "C:call") {
						continue // a call not yet resolved inside the callee (recursion): covered by its other entries at the fixpoint
					} else if _, _, isP := rootParam(strings.TrimPrefix(strings.TrimPrefix(r, "M("), "phi(")); isP || strings.Contains(r, "(P") || strings.Contains(r, ",P") {
						mm, good := substRoot(r, func(k int) (string, bool) {
							if k < len(x.Call.Args) {
								return t.root(x.Call.Args[k]), true
							}
							return "", false
						})
						if good {
							m = mm
						} else {
							ok = false
						}
					} else {
						ok = false
					}
					if !seen[m] {
						seen[m] = true
						rs = append(rs, m)
					}
				}
				if ok && len(rs) > 0 {
					sort.Strings(rs)
					if len(rs) == 1 {
						return rs[0]
					}
					return "phi(" + strings.Join(rs, ",") + ")"
				}
			}
		}
		if s := t.e.own.Sum(f); s != nil && ri < len(s.ret) {
			r := s.ret[ri]
			if r.fresh && len(r.is) == 0 && len(r.isDeep) == 0 && !r.global {
				return fmt.Sprintf("L:call%d", instrIndex(x))
			}
			if !r.fresh && len(r.is) == 1 && len(r.isDeep) == 0 && !r.global {
				for k := range r.is {
					args := x.Call.Args
					if k < len(args) {
						return t.root(args[k])
					}
				}
			}
		}
	}
	return fmt.Sprintf("C:call%d<%s>", instrIndex(x), calleeName(&x.Call))
}

func instrIndex(i ssa.Instruction) int {
	b := i.Block()
	n := 0
	for _, bb := range b.Parent().Blocks {
		if bb == b {
			break
		}
		n += len(bb.Instrs)
	}
	for j, x := range b.Instrs {
		if x == i {
			return n + j
		}
	}
	return n
}

// allocRoot: a local variable. A by-value parameter that was spilled (single store of a Parameter)
// denotes the caller's table; a variable holding the address of / a copy of another table is that table.
func (t *tlFunc) allocRoot(al *ssa.Alloc) string {
	var stores []*ssa.Store
	for _, r := range *al.Referrers() {
		if st, ok := r.(*ssa.Store); ok && st.Addr == al {
			stores = append(stores, st)
		}
	}
	if len(stores) == 1 {
		switch sv := stores[0].Val.(type) {
		case *ssa.Parameter:
			return t.root(sv)
		}
	}
	return fmt.Sprintf("L:%s@%d", al.Name(), instrIndex(al))
}

func isLocalRoot(r string) bool { return strings.HasPrefix(r, "L:") }

// splitPhiTop: the alternatives of a root that is exactly "phi(a,b,...)"; any other root is its own single alternative.
func splitPhiTop(r string) []string {
	if strings.HasPrefix(r, "phi(") && strings.HasSuffix(r, ")") {
		depth := 0
		for i, c := range r {
			if c == '(' {
				depth++
			} else if c == ')' {
				depth--
				if depth == 0 && i != len(r)-1 {
					return []string{r} // "phi(...).path": keep whole
				}
			}
		}
		return splitPhi(r)
	}
	return []string{r}
}

// substRoot rewrites a callee-relative root into the caller's terms: every parameter token P<k>
// (at the start, or right after "(" or ",") is replaced by m(k); ok=false if some parameter cannot be mapped.
func substRoot(tab string, m func(k int) (string, bool)) (string, bool) {
	var sb strings.Builder
	ok := true
	i := 0
	for i < len(tab) {
		atTok := i == 0 || tab[i-1] == '(' || tab[i-1] == ','
		if atTok && tab[i] == 'P' && i+1 < len(tab) && tab[i+1] >= '0' && tab[i+1] <= '9' {
			j := i + 1
			for j < len(tab) && tab[j] >= '0' && tab[j] <= '9' {
				j++
			}
			var k int
			fmt.Sscanf(tab[i+1:j], "%d", &k)
			if r, good := m(k); good {
				sb.WriteString(r)
			} else {
				ok = false
				sb.WriteString(tab[i:j])
			}
			i = j
			continue
		}
		sb.WriteByte(tab[i])
		i++
	}
	return sb.String(), ok
}

// rootLocal: the table denoted by tab is memory created by this function (or by a constructor it
// called) and every pointer on the way to it was stored by this function from local values.
func (t *tlFunc) rootLocal(tab string) bool {
	switch {
	case strings.HasPrefix(tab, "closure:"):
		return t.rootLocal(strings.TrimPrefix(tab, "closure:"))
	case strings.HasPrefix(tab, "L:"):
		return true
	case strings.HasPrefix(tab, "phi("):
		// phi(a,b).path
		depth, end := 0, -1
		for i, r := range tab {
			if r == '(' {
				depth++
			} else if r == ')' {
				depth--
				if depth == 0 {
					end = i
					break
				}
			}
		}
		if end < 0 {
			return false
		}
		for _, part := range splitPhi(tab[:end+1]) {
			if !t.rootLocal(part) {
				return false
			}
		}
		return true
	case strings.HasPrefix(tab, "M("):
		depth, end := 0, -1
		for i, r := range tab {
			if r == '(' {
				depth++
			} else if r == ')' {
				depth--
				if depth == 0 {
					end = i
					break
				}
			}
		}
		if end < 0 {
			return false
		}
		inner := tab[2:end]
		if !t.rootLocal(innerBase(inner)) {
			return false
		}
		// pointers stored by this function at that address must themselves be local
		for _, vr := range t.heapStores()[inner] {
			if !t.rootLocal(vr) {
				return false
			}
		}
		return true
	}
	return false
}

// innerBase strips trailing field / element selectors: "L:call4.bA[]" -> "L:call4".
func innerBase(r string) string {
	if strings.HasPrefix(r, "M(") || strings.HasPrefix(r, "phi(") {
		return r
	}
	for i, c := range r {
		if (c == '.' || c == '[') && i > 2 {
			return r[:i]
		}
	}
	return r
}

// heapStores: address root -> roots of the pointer values this function stores there.
func (t *tlFunc) heapStores() map[string][]string {
	if t.hstores != nil {
		return t.hstores
	}
	t.hstores = map[string][]string{}
	for _, b := range t.fn.Blocks {
		for _, ins := range b.Instrs {
			st, ok := ins.(*ssa.Store)
			if !ok {
				continue
			}
			if _, isPtr := st.Val.Type().Underlying().(*types.Pointer); !isPtr {
				continue
			}
			if _, isAlloc := st.Addr.(*ssa.Alloc); isAlloc {
				continue
			}
			a := t.root(st.Addr)
			t.hstores[a] = append(t.hstores[a], t.root(st.Val))
		}
	}
	return t.hstores
}

func rootParam(r string) (idx int, path string, ok bool) {
	if !strings.HasPrefix(r, "P") {
		return 0, "", false
	}
	i := 1
	for i < len(r) && r[i] >= '0' && r[i] <= '9' {
		i++
	}
	if i == 1 {
		return 0, "", false
	}
	fmt.Sscanf(r[1:i], "%d", &idx)
	return idx, r[i:], true
}

// ---- recognisers of table memory ----

// tableField: v is the address &T.<field> of a table; returns root(T), field index.
func (t *tlFunc) tableFieldAddr(v ssa.Value) (string, int, bool) {
	fa, ok := v.(*ssa.FieldAddr)
	if !ok {
		return "", 0, false
	}
	pt, ok := fa.X.Type().Underlying().(*types.Pointer)
	if !ok || !t.e.lv.isTableStruct(pt.Elem()) {
		return "", 0, false
	}
	return t.root(fa.X), fa.Field, true
}

// tableSlice: v is the slice value T.<field> (or a reslice of it).
func (t *tlFunc) tableSlice(v ssa.Value) (string, int, bool) {
	for depth := 0; depth < 6; depth++ {
		switch x := v.(type) {
		case *ssa.UnOp:
			if x.Op == token.MUL {
				return t.tableFieldAddr(x.X)
			}
			return "", 0, false
		case *ssa.Field:
			if t.e.lv.isTableStruct(x.X.Type()) {
				return t.root(x.X), x.Field, true
			}
			return "", 0, false
		case *ssa.Slice:
			v = x.X
		default:
			return "", 0, false
		}
	}
	return "", 0, false
}

// tableElemAddr: v is &T.<field>[i].
func (t *tlFunc) tableElemAddr(v ssa.Value) (tab string, field int, idx ssa.Value, ok bool) {
	ia, isIA := v.(*ssa.IndexAddr)
	if !isIA {
		return
	}
	tab, field, ok = t.tableSlice(ia.X)
	idx = ia.Index
	return
}

// flagLoad: v is the value T.needCopyOnWrite[i] (direct load or accessor call).
func (t *tlFunc) flagLoad(v ssa.Value) (string, ssa.Value, bool) {
	switch x := v.(type) {
	case *ssa.UnOp:
		if x.Op == token.MUL {
			if tab, f, idx, ok := t.tableElemAddr(x.X); ok && f == t.e.lv.fFlags {
				return tab, idx, true
			}
		}
	case *ssa.Call:
		if f := x.Call.StaticCallee(); f != nil && len(x.Call.Args) == 2 {
			if s := t.e.sums[t.e.sumKey(f, "")]; s != nil && s.flagLoad {
				return t.root(x.Call.Args[0]) + s.flagLoadTP, x.Call.Args[1], true
			}
		}
	}
	return "", nil, false
}

// ---- dominance helpers ----

// edgeTruth: is block b dominated by the edge (d -> d.Succs[k])?
func dominatedByEdge(d *ssa.BasicBlock, k int, b *ssa.BasicBlock) bool {
	s := d.Succs[k]
	if len(s.Preds) != 1 {
		return false
	}
	return s.Dominates(b)
}

// truth: the truth value of boolean v at (the start of) block b, if a dominating branch decides it.
func (t *tlFunc) truth(v ssa.Value, b *ssa.BasicBlock) (val, known bool) {
	if c, ok := v.(*ssa.Const); ok && c.Value != nil && c.Value.Kind() == constant.Bool {
		return constant.BoolVal(c.Value), true
	}
	if p, ok := v.(*ssa.Parameter); ok {
		for i, q := range t.fn.Params {
			if q == p {
				if bv, ok := t.ctx[i]; ok {
					return bv, true
				}
			}
		}
	}
	neg := false
	for {
		u, ok := v.(*ssa.UnOp)
		if !ok || u.Op != token.NOT {
			break
		}
		neg = !neg
		v = u.X
	}
	for d := b; d != nil; d = d.Idom() {
		if len(d.Instrs) == 0 {
			continue
		}
		ifi, ok := d.Instrs[len(d.Instrs)-1].(*ssa.If)
		if !ok || d == b && false {
			continue
		}
		c := ifi.Cond
		cneg := false
		for {
			u, ok := c.(*ssa.UnOp)
			if !ok || u.Op != token.NOT {
				break
			}
			cneg = !cneg
			c = u.X
		}
		if !t.sameBool(c, v) {
			continue
		}
		if d != b && dominatedByEdge(d, 0, b) {
			return !cneg != neg, true // cond true
		}
		if d != b && dominatedByEdge(d, 1, b) {
			return cneg != neg, true
		}
	}
	// short-circuit phi: v = phi [true from A, x from B] etc. (a || b): if b is dominated by the
	// false edge of a test of the phi itself that is handled above; nothing more here.
	return false, false
}

func (t *tlFunc) sameBool(a, b ssa.Value) bool {
	if a == b {
		return true
	}
	// two loads / accessor calls of the same flag
	ta, ia, oka := t.flagLoad(a)
	tb, ib, okb := t.flagLoad(b)
	return oka && okb && ta == tb && ia == ib && ia != nil
}

// ---- facts dataflow ----

func (t *tlFunc) computeDead() {
	t.dead = map[*ssa.BasicBlock]bool{}
	t.deadE = map[*ssa.BasicBlock]int{}
	reach := map[*ssa.BasicBlock]bool{}
	var visit func(b *ssa.BasicBlock)
	visit = func(b *ssa.BasicBlock) {
		if reach[b] {
			return
		}
		reach[b] = true
		if len(b.Instrs) > 0 {
			if ifi, ok := b.Instrs[len(b.Instrs)-1].(*ssa.If); ok {
				if p, ok := ifi.Cond.(*ssa.Parameter); ok {
					for i, q := range t.fn.Params {
						if q == p {
							if bv, ok := t.ctx[i]; ok {
								if bv {
									t.deadE[b] = 1
									visit(b.Succs[0])
								} else {
									t.deadE[b] = 0
									visit(b.Succs[1])
								}
								return
							}
						}
					}
				}
			}
		}
		for k, s := range b.Succs {
			if d, ok := t.deadE[b]; ok && d == k {
				continue
			}
			visit(s)
		}
	}
	// exhaustive type switches over a container: the edge on which every kind has been excluded is
	// infeasible (slots never hold nil; exhaustiveness of the kinds is rule F1's business)
	if lv := t.e.lv; lv.slotIface != nil {
		excluded := map[*ssa.BasicBlock]map[string]bool{}
		subject := map[*ssa.BasicBlock]ssa.Value{}
		for _, b := range t.fn.Blocks { // blocks are in an order where predecessors of straight chains come first
			if len(b.Instrs) == 0 {
				continue
			}
			ifi, ok := b.Instrs[len(b.Instrs)-1].(*ssa.If)
			if !ok {
				continue
			}
			ex, ok := ifi.Cond.(*ssa.Extract)
			if !ok || ex.Index != 1 {
				continue
			}
			ta, ok := ex.Tuple.(*ssa.TypeAssert)
			if !ok || !ta.CommaOk || !types.Identical(ta.X.Type(), lv.slotIface) {
				continue
			}
			set := map[string]bool{tname(ta.AssertedType): true}
			if len(b.Preds) == 1 {
				d := b.Preds[0]
				if subject[d] == ta.X && len(d.Succs) == 2 && d.Succs[1] == b && d.Succs[0] != b {
					for k := range excluded[d] {
						set[k] = true
					}
				}
			}
			excluded[b], subject[b] = set, ta.X
			all := len(lv.kindTypes) > 0
			for _, k := range lv.kindTypes {
				if !set[tname(k)] {
					all = false
				}
			}
			if all {
				if _, has := t.deadE[b]; !has {
					t.deadE[b] = 1
				}
			}
		}
	}
	if len(t.fn.Blocks) > 0 {
		visit(t.fn.Blocks[0])
	}
	for _, b := range t.fn.Blocks {
		if !reach[b] {
			t.dead[b] = true
		}
	}
}

// edgeDead: the edge pred -> pred.Succs[k] cannot be taken in this context.
func (t *tlFunc) edgeDead(pred *ssa.BasicBlock, k int) bool {
	if t.dead[pred] {
		return true
	}
	if d, ok := t.deadE[pred]; ok && d == k {
		return true
	}
	return false
}

// predEdgeDead: every edge from pred to b is dead.
func (t *tlFunc) predEdgeDead(pred, b *ssa.BasicBlock) bool {
	for k, s := range pred.Succs {
		if s == b && !t.edgeDead(pred, k) {
			return false
		}
	}
	return true
}

func (t *tlFunc) edgeFacts(pred *ssa.BasicBlock, succIdx int) factSet {
	f := t.out[pred].clone()
	if len(pred.Instrs) == 0 {
		return f
	}
	ifi, ok := pred.Instrs[len(pred.Instrs)-1].(*ssa.If)
	if !ok {
		return f
	}
	c := ifi.Cond
	neg := false
	for {
		u, ok := c.(*ssa.UnOp)
		if !ok || u.Op != token.NOT {
			break
		}
		neg = !neg
		c = u.X
	}
	if tab, idx, ok := t.flagLoad(c); ok && idx != nil {
		// flag false on: false edge of (flag), true edge of (!flag)
		flagFalse := (succIdx == 1) != neg
		if flagFalse {
			f[factKey{tab, idx}] = true
		}
	}
	return f
}

func (t *tlFunc) runFacts() {
	t.in = map[*ssa.BasicBlock]factSet{}
	t.out = map[*ssa.BasicBlock]factSet{}
	top := map[*ssa.BasicBlock]bool{}
	for _, b := range t.fn.Blocks {
		top[b] = true
	}
	if len(t.fn.Blocks) == 0 {
		return
	}
	entry := t.fn.Blocks[0]
	top[entry] = false
	t.in[entry] = factSet{}
	for iter := 0; iter < 50; iter++ {
		changed := false
		for _, b := range t.fn.Blocks {
			if t.dead[b] {
				continue
			}
			if b != entry {
				var acc factSet
				for _, pr := range b.Preds {
					if t.dead[pr] || top[pr] {
						continue
					}
					for k, s := range pr.Succs {
						if s != b || t.edgeDead(pr, k) {
							continue
						}
						ef := t.edgeFacts(pr, k)
						if acc == nil {
							acc = ef
						} else {
							for fk := range acc {
								if !ef[fk] {
									delete(acc, fk)
								}
							}
						}
					}
				}
				if acc == nil {
					continue
				}
				if top[b] || !sameFacts(t.in[b], acc) {
					t.in[b] = acc
					top[b] = false
					changed = true
				}
			}
			cur := t.in[b].clone()
			for _, ins := range b.Instrs {
				t.transfer(ins, cur)
			}
			if !sameFacts(t.out[b], cur) || t.out[b] == nil {
				t.out[b] = cur
				changed = true
			}
		}
		if !changed {
			break
		}
	}
}

func sameFacts(a, b factSet) bool {
	if len(a) != len(b) {
		return false
	}
	for k := range a {
		if !b[k] {
			return false
		}
	}
	return true
}

// factsAt: facts holding immediately before instruction ins.
func (t *tlFunc) factsAt(ins ssa.Instruction) factSet {
	b := ins.Block()
	cur := t.in[b]
	if cur == nil {
		return factSet{}
	}
	cur = cur.clone()
	for _, x := range b.Instrs {
		if x == ins {
			break
		}
		t.transfer(x, cur)
	}
	return cur
}

func (t *tlFunc) calleeOf(c *ssa.CallCommon) *ssa.Function {
	if c.IsInvoke() {
		return nil
	}
	return c.StaticCallee()
}

// tableArgs: arguments of a call that denote tables (by pointer or by value) with their roots.
func (t *tlFunc) tableArgs(args []ssa.Value) map[int]string {
	var out map[int]string
	for i, a := range args {
		if t.e.lv.isTableRef(a.Type()) {
			if out == nil {
				out = map[int]string{}
			}
			out[i] = t.root(a)
		}
	}
	return out
}

func (t *tlFunc) transfer(ins ssa.Instruction, cur factSet) {
	lv := t.e.lv
	switch x := ins.(type) {
	case *ssa.Store:
		if tab, f, idx, ok := t.tableElemAddr(x.Addr); ok {
			switch f {
			case lv.fFlags:
				if c, isC := x.Val.(*ssa.Const); isC && c.Value != nil && c.Value.Kind() == constant.Bool && !constant.BoolVal(c.Value) {
					// flag cleared: a fact only if the same block stored an owned container into the same slot before
					okStore := false
					for _, y := range x.Block().Instrs {
						if y == ins {
							break
						}
						if st, ok := y.(*ssa.Store); ok {
							if tb2, f2, idx2, ok2 := t.tableElemAddr(st.Addr); ok2 && f2 == lv.fCont && tb2 == tab && idx2 == idx {
								okStore = t.ownedAt(st.Val, t.factsAtNoRecurse(st, cur), nil)
							}
						}
					}
					if okStore && idx != nil {
						cur[factKey{tab, idx}] = true
					}
				} else {
					delete(cur, factKey{tab, idx})
				}
			case lv.fCont:
				// a slot that receives an owned container is exclusively owned by this table
				if t.ownedAt(x.Val, cur, nil) && idx != nil && !isNilConst(x.Val) {
					cur[factKey{tab, idx}] = true
				} else {
					delete(cur, factKey{tab, idx})
				}
			case lv.fKeys:
			}
			return
		}
		if tab, _, ok := t.tableFieldAddr(x.Addr); ok {
			// a slice header of the table is replaced: indices may denote other containers afterwards
			if sl, ok := x.Val.(*ssa.Slice); ok {
				if tb2, _, ok2 := t.tableSlice(sl.X); ok2 && tb2 == tab {
					return // reslice of itself (resize): remaining slots are unchanged
				}
			}
			cur.killTab(tab)
		}
	case *ssa.Call:
		t.transferCall(&x.Call, x, cur)
	case *ssa.Defer:
		t.transferCall(&x.Call, nil, cur)
	case *ssa.Go:
		t.transferCall(&x.Call, nil, cur)
	}
}

// factsAtNoRecurse avoids recomputing facts inside transfer: the caller's running set is a sound
// under-approximation of what held at the earlier store in the same block only if nothing was
// generated in between; we therefore use the intersection-free running set as is.
func (t *tlFunc) factsAtNoRecurse(_ ssa.Instruction, cur factSet) factSet { return cur }

func (t *tlFunc) transferCall(c *ssa.CallCommon, call *ssa.Call, cur factSet) {
	lv := t.e.lv
	if b, ok := c.Value.(*ssa.Builtin); ok {
		switch b.Name() {
		case "copy", "append", "clear":
			if len(c.Args) > 0 {
				if tab, _, ok := t.tableSlice(c.Args[0]); ok {
					cur.killTab(tab)
				}
			}
		}
		return
	}
	f := t.calleeOf(c)
	if f == nil {
		if c.IsInvoke() {
			return // kernel methods never see tables
		}
		// dynamic call (closure): may do anything to tables it captured
		cur.killTab("")
		return
	}
	args := c.Args
	targs := t.tableArgs(args)
	if len(targs) > 0 {
		osum := t.e.own.Sum(f)
		for i, tab := range targs {
			kill := osum == nil && f.Blocks == nil
			if osum != nil {
				if e := osum.mut[i]; e != nil {
					for cell := range e.cells {
						if cell == lv.cellFlags || cell == lv.cellKeys || cell == lv.cellCont || cell == "" {
							kill = true
						}
					}
				}
			}
			if kill {
				cur.killTab(tab)
			}
		}
		ctx := boolCtxArgs(t, f, args)
		s := t.e.summary(f, ctx)
		for k, est := range s.establish {
			if tab, ok := targs[est[0]]; ok && est[1] < len(args) {
				cur[factKey{tab + s.estPaths[k], args[est[1]]}] = true
			}
		}
		// bitmaps passed by pointer (rb *Bitmap): tables rooted below the argument
		return
	}
	// a callee that receives a *Bitmap (not the table itself) may restructure its table
	for i, a := range args {
		if hasTableInside(lv, a.Type()) {
			osum := t.e.own.Sum(f)
			if osum == nil {
				continue
			}
			if e := osum.mut[i]; e != nil {
				for cell := range e.cells {
					if cell == lv.cellFlags || cell == lv.cellKeys || cell == lv.cellCont {
						r := t.root(a)
						for k := range cur {
							if strings.HasPrefix(k.tab, r) {
								delete(cur, k)
							}
						}
					}
				}
			}
		}
	}
	_ = call
}

func hasTableInside(lv *tlLevel, t types.Type) bool {
	if p, ok := t.Underlying().(*types.Pointer); ok {
		if st, ok := p.Elem().Underlying().(*types.Struct); ok {
			for i := 0; i < st.NumFields(); i++ {
				if lv.isTableStruct(st.Field(i).Type()) {
					return true
				}
			}
		}
	}
	return false
}

// ---- slice groups (local slices of slot values) ----

func (t *tlFunc) find(v ssa.Value) ssa.Value {
	for {
		p, ok := t.grp[v]
		if !ok || p == v {
			return v
		}
		v = p
	}
}
func (t *tlFunc) union(a, b ssa.Value) {
	ra, rb := t.find(a), t.find(b)
	if ra != rb {
		t.grp[ra] = rb
	}
}

// grouped: slices whose values are tracked by the union-find (slot slices and flag slices).
func (t *tlFunc) grouped(ty types.Type) bool { return t.e.lv.isSlotSlice(ty) || isBoolSlice(ty) }

func (t *tlFunc) buildGroups() {
	lv := t.e.lv
	t.grp = map[ssa.Value]ssa.Value{}
	t.gstore = map[ssa.Value][]ssa.Value{}
	t.gsrc = map[ssa.Value][]ssa.Value{}
	type pend struct {
		s, v   ssa.Value
		spread bool
	}
	var stores []pend
	var srcs []ssa.Value
	for _, b := range t.fn.Blocks {
		if t.dead[b] {
			continue
		}
		for _, ins := range b.Instrs {
			switch x := ins.(type) {
			case *ssa.Slice:
				if t.grouped(x.Type()) && t.grouped(x.X.Type()) {
					t.union(x, x.X)
				}
			case *ssa.Phi:
				if t.grouped(x.Type()) {
					for i, e := range x.Edges {
						if !t.predEdgeDead(b.Preds[i], b) {
							t.union(x, e)
						}
					}
				}
			case *ssa.ChangeType:
				if t.grouped(x.Type()) {
					t.union(x, x.X)
				}
			case *ssa.Call:
				if bi, ok := x.Call.Value.(*ssa.Builtin); ok {
					switch bi.Name() {
					case "append":
						if isBoolSlice(x.Type()) {
							t.union(x, x.Call.Args[0])
						}
						if lv.isSlotSlice(x.Type()) {
							t.union(x, x.Call.Args[0])
							if len(x.Call.Args) > 1 {
								stores = append(stores, pend{x, x.Call.Args[1], true})
							}
						}
					case "copy":
						if lv.isSlotSlice(x.Call.Args[0].Type()) {
							stores = append(stores, pend{x.Call.Args[0], x.Call.Args[1], true})
						}
					}
				} else if lv.isSlotSlice(x.Type()) {
					srcs = append(srcs, x)
				}
			case *ssa.Store:
				if ia, ok := x.Addr.(*ssa.IndexAddr); ok && lv.isSlotSlice(ia.X.Type()) {
					stores = append(stores, pend{ia.X, x.Val, false})
				}
				// local slice variable kept in memory
				if al, ok := x.Addr.(*ssa.Alloc); ok && t.grouped(x.Val.Type()) {
					t.union(al, x.Val)
				}
			case *ssa.UnOp:
				if x.Op == token.MUL && t.grouped(x.Type()) {
					if al, ok := x.X.(*ssa.Alloc); ok {
						t.union(x, al)
					} else if lv.isSlotSlice(x.Type()) {
						srcs = append(srcs, x)
					}
				}
			case *ssa.MakeSlice:
				if lv.isSlotSlice(x.Type()) {
					srcs = append(srcs, x)
				}
			case *ssa.Extract, *ssa.Field:
				if lv.isSlotSlice(x.(ssa.Value).Type()) {
					srcs = append(srcs, x.(ssa.Value))
				}
			}
		}
	}
	for _, p := range t.fn.Params {
		if lv.isSlotSlice(p.Type()) {
			srcs = append(srcs, p)
		}
	}
	for _, fv := range t.fn.FreeVars {
		if lv.isSlotSlice(fv.Type()) {
			srcs = append(srcs, fv)
		}
	}
	for _, s := range stores {
		g := t.find(s.s)
		if s.spread {
			// the elements of another slice are copied in: that slice is a source of the group
			t.gsrc[g] = append(t.gsrc[g], s.v)
		} else {
			t.gstore[g] = append(t.gstore[g], s.v)
		}
	}
	for _, s := range srcs {
		g := t.find(s)
		t.gsrc[g] = append(t.gsrc[g], s)
	}
	// re-key by final representatives
	gs, gr := map[ssa.Value][]ssa.Value{}, map[ssa.Value][]ssa.Value{}
	for k, v := range t.gstore {
		gs[t.find(k)] = append(gs[t.find(k)], v...)
	}
	for k, v := range t.gsrc {
		gr[t.find(k)] = append(gr[t.find(k)], v...)
	}
	t.gstore, t.gsrc = gs, gr
}

// elemProv: provenance of the elements of slot-slice value s.
func (t *tlFunc) elemProv(s ssa.Value) atomSet {
	out := atomSet{}
	if tab, f, ok := t.tableSlice(s); ok && f == t.e.lv.fCont {
		out.add(atom{k: aSlot, tab: tab})
		return out
	}
	g := t.find(s)
	key := groupKey{g}
	if t.busy[key] {
		return out
	}
	t.busy[key] = true
	defer delete(t.busy, key)
	for _, v := range t.gstore[g] {
		out.addAll(t.provOf(v))
	}
	for _, src := range t.gsrc[g] {
		if t.find(src) == g && src != s {
			out.addAll(t.sliceSrcProv(src))
		} else if t.find(src) != g {
			out.addAll(t.elemProv(src))
		} else {
			out.addAll(t.sliceSrcProv(src))
		}
	}
	return out
}

type groupKey struct{ v ssa.Value }

func (groupKey) Name() string                  { return "group" }
func (groupKey) String() string                { return "group" }
func (groupKey) Type() types.Type              { return nil }
func (groupKey) Parent() *ssa.Function         { return nil }
func (groupKey) Referrers() *[]ssa.Instruction { return nil }
func (groupKey) Pos() token.Pos                { return token.NoPos }

// localFreshSlice: the slice's backing memory is allocated in this function (make / new), possibly
// re-sliced or reinterpreted by helpers that return their argument's memory.
func (t *tlFunc) localFreshSlice(v ssa.Value, depth int) bool {
	if depth > 12 {
		return false
	}
	switch x := v.(type) {
	case *ssa.MakeSlice:
		return true
	case *ssa.Alloc:
		return true
	case *ssa.Slice:
		return t.localFreshSlice(x.X, depth+1)
	case *ssa.Phi:
		for i, e := range x.Edges {
			if t.predEdgeDead(x.Block().Preds[i], x.Block()) || e == ssa.Value(x) {
				continue
			}
			if _, isPhi := e.(*ssa.Phi); isPhi && depth > 6 {
				continue
			}
			if !t.localFreshSlice(e, depth+1) {
				return false
			}
		}
		return true
	case *ssa.Call:
		f := x.Call.StaticCallee()
		if f == nil {
			return false
		}
		s := t.e.own.Sum(f)
		if s == nil || len(s.ret) == 0 {
			return false
		}
		r := s.ret[0]
		if r.global || len(r.isDeep) > 0 || len(r.reach) > 0 {
			return false
		}
		for k := range r.is {
			if k >= len(x.Call.Args) || !t.localFreshSlice(x.Call.Args[k], depth+1) {
				return false
			}
		}
		return r.fresh || len(r.is) > 0
	}
	return false
}

// sliceSrcProv: element provenance contributed by a primitive source of a slice group.
func (t *tlFunc) sliceSrcProv(src ssa.Value) atomSet {
	out := atomSet{}
	if tab, f, ok := t.tableSlice(src); ok && f == t.e.lv.fCont {
		out.add(atom{k: aSlot, tab: tab})
		return out
	}
	switch x := src.(type) {
	case *ssa.MakeSlice:
		out.add(atom{k: aNil})
	case *ssa.Parameter:
		for i, p := range t.fn.Params {
			if p == x {
				out.add(atom{k: aUnknown, why: fmt.Sprintf("elements of slice parameter %s (#%d)", x.Name(), i)})
			}
		}
	case *ssa.FreeVar:
		out.add(atom{k: aUnknown, why: "elements of captured slice " + x.Name()})
	case *ssa.UnOp:
		if fa, ok := x.X.(*ssa.FieldAddr); ok {
			out.addAll(t.e.fieldAtoms(fieldName(fa.X.Type(), fa.Field)))
		} else {
			out.add(atom{k: aUnknown, why: "slice loaded from memory"})
		}
	case *ssa.Field:
		out.addAll(t.e.fieldAtoms(fieldName(x.X.Type(), x.Field)))
	case *ssa.Call:
		if t.localFreshSlice(x, 0) {
			out.add(atom{k: aNil}) // reinterpreted fresh memory: no container in it yet
		} else if f := x.Call.StaticCallee(); f != nil && inRepo(f) {
			out.add(atom{k: aUnknown, why: "elements of slice returned by " + fname(f)})
		} else {
			out.add(atom{k: aUnknown, why: "elements of slice returned by a call"})
		}
	case *ssa.Extract:
		out.add(atom{k: aUnknown, why: "elements of slice from a tuple"})
	default:
		out.add(atom{k: aUnknown, why: "slice of unknown origin"})
	}
	return out
}

func fieldName(t types.Type, i int) string {
	if p, ok := t.Underlying().(*types.Pointer); ok {
		t = p.Elem()
	}
	st := t.Underlying().(*types.Struct)
	return typeShort(t) + "." + st.Field(i).Name()
}

func (e *tlEngine) fieldAtoms(name string) atomSet {
	out := atomSet{}
	if s, ok := e.field[name]; ok {
		for _, a := range s {
			out.add(a)
		}
	}
	return out
}

// globalise: convert function-local atoms into atoms that are meaningful anywhere.
func globalise(s atomSet, where string) atomSet {
	out := atomSet{}
	for _, a := range s {
		switch a.k {
		case aFresh, aGate, aNil:
			out.add(atom{k: a.k})
		case aUnknown:
			out.add(a)
		default:
			out.add(atom{k: aUnknown, why: fmt.Sprintf("borrowed %s stored in %s", a.String(), where)})
		}
	}
	return out
}

// ---- provenance ----

// provOf: provenance atoms of a container-typed value. Phi webs are cyclic: a value met again while it is
// being evaluated contributes its current approximation, the evaluation of the cycle head is repeated
// until that approximation is stable, and nothing computed from an unfinished approximation is cached.
func (t *tlFunc) provOf(v ssa.Value) atomSet {
	if s, ok := t.prov[v]; ok {
		return s
	}
	if t.busy[v] {
		if t.provHits == nil {
			t.provHits = map[ssa.Value]bool{}
		}
		t.provHits[v] = true
		if a, ok := t.provApprox[v]; ok {
			return a
		}
		return atomSet{}
	}
	if t.provApprox == nil {
		t.provApprox = map[ssa.Value]atomSet{}
	}
	outer := t.provHits
	var s atomSet
	var inner map[ssa.Value]bool
	for iter := 0; ; iter++ {
		t.provHits = map[ssa.Value]bool{}
		t.busy[v] = true
		s = t.prov1(v)
		delete(t.busy, v)
		inner = t.provHits
		if !inner[v] || iter > 8 {
			break
		}
		old := t.provApprox[v]
		if len(old) == len(s) {
			same := true
			for k := range s {
				if _, ok := old[k]; !ok {
					same = false
				}
			}
			if same {
				break
			}
		}
		cp := atomSet{}
		cp.addAll(s)
		t.provApprox[v] = cp
	}
	delete(inner, v)
	delete(t.provApprox, v)
	t.provHits = outer
	if len(inner) == 0 {
		t.prov[v] = s
	} else {
		// depends on the unfinished approximation of an enclosing evaluation: valid for this query only
		if t.provHits == nil {
			t.provHits = map[ssa.Value]bool{}
		}
		for k := range inner {
			t.provHits[k] = true
		}
	}
	return s
}

func (t *tlFunc) prov1(v ssa.Value) atomSet {
	lv := t.e.lv
	out := atomSet{}
	switch x := v.(type) {
	case *ssa.Const:
		if x.IsNil() {
			out.add(atom{k: aNil})
		} else {
			out.add(atom{k: aUnknown, why: "constant"})
		}
	case *ssa.Parameter:
		for i, p := range t.fn.Params {
			if p == x {
				out.add(atom{k: aParam, param: i})
			}
		}
	case *ssa.FreeVar:
		out.add(atom{k: aUnknown, why: "captured variable " + x.Name()})
	case *ssa.Alloc:
		out.add(atom{k: aFresh})
	case *ssa.IndexAddr:
		// &structs[i]: an element of a slice of container structs
		if t.localFreshSlice(x.X, 0) {
			out.add(atom{k: aFresh})
		} else {
			out.add(atom{k: aUnknown, why: "address of an element of a slice that is not allocated here"})
		}
	case *ssa.MakeInterface:
		return t.provOf(x.X)
	case *ssa.ChangeInterface:
		return t.provOf(x.X)
	case *ssa.ChangeType:
		return t.provOf(x.X)
	case *ssa.TypeAssert:
		return t.provOf(x.X)
	case *ssa.Extract:
		if ta, ok := x.Tuple.(*ssa.TypeAssert); ok {
			if x.Index == 0 {
				return t.provOf(ta.X)
			}
		}
		if c, ok := x.Tuple.(*ssa.Call); ok {
			return t.callProv(c, x.Index)
		}
		out.add(atom{k: aUnknown, why: "tuple element"})
	case *ssa.Phi:
		for i, e := range x.Edges {
			pr := x.Block().Preds[i]
			if t.predEdgeDead(pr, x.Block()) {
				continue
			}
			// evaluate the incoming value at the end of the predecessor, on that edge
			var ef factSet
			for k, s := range pr.Succs {
				if s == x.Block() && !t.edgeDead(pr, k) {
					ef = t.edgeFacts(pr, k)
				}
			}
			backEdge := x.Block().Dominates(pr)
			for _, a := range t.provOf(e) {
				if a.k == aSlot && a.idx != nil && ef[factKey{a.tab, a.idx}] {
					out.add(atom{k: aGate, tab: a.tab})
				} else if a.k == aFresh && backEdge && a.why == "" {
					// the object was created in an earlier iteration of the loop headed by this block
					out.add(atom{k: aFresh, why: fmt.Sprintf("carried:%d", x.Block().Index)})
				} else {
					out.add(a)
				}
			}
		}
	case *ssa.Call:
		return t.callProv(x, 0)
	case *ssa.UnOp:
		switch x.Op {
		case token.MUL:
			if tab, f, idx, ok := t.tableElemAddr(x.X); ok && f == lv.fCont {
				out.add(atom{k: aSlot, tab: tab, idx: idx})
				return out
			}
			switch a := x.X.(type) {
			case *ssa.IndexAddr:
				if lv.isSlotSlice(a.X.Type()) {
					return t.elemProv(a.X)
				}
				out.add(atom{k: aUnknown, why: "element of an array"})
			case *ssa.FieldAddr:
				out.addAll(t.e.fieldAtoms(fieldName(a.X.Type(), a.Field)))
				if len(out) == 0 {
					out.add(atom{k: aNil})
				}
			case *ssa.Alloc:
				for _, r := range *a.Referrers() {
					if st, ok := r.(*ssa.Store); ok && st.Addr == a {
						out.addAll(t.provOf(st.Val))
					}
				}
			case *ssa.FreeVar:
				out.add(atom{k: aUnknown, why: "captured variable " + a.Name()})
			default:
				out.add(atom{k: aUnknown, why: "loaded from memory"})
			}
		case token.ARROW:
			out.addAll(t.e.chanAtoms(tname(x.Type())))
		default:
			out.add(atom{k: aUnknown, why: "operator"})
		}
	case *ssa.Field:
		out.addAll(t.e.fieldAtoms(fieldName(x.X.Type(), x.Field)))
		if len(out) == 0 {
			out.add(atom{k: aNil})
		}
	case *ssa.Lookup, *ssa.Index:
		out.add(atom{k: aUnknown, why: "map/array element"})
	case *ssa.Next:
		out.add(atom{k: aUnknown, why: "range element"})
	case *ssa.Select:
		out.add(atom{k: aUnknown, why: "select"})
	default:
		out.add(atom{k: aUnknown, why: fmt.Sprintf("%T", v)})
	}
	return out
}

func (e *tlEngine) chanAtoms(name string) atomSet {
	out := atomSet{}
	for _, a := range e.chanJ[name] {
		out.add(a)
	}
	return out
}

// callProv: provenance of result #ri of a call.
func (t *tlFunc) callProv(c *ssa.Call, ri int) atomSet {
	out := atomSet{}
	common := &c.Call
	if _, ok := common.Value.(*ssa.Builtin); ok {
		out.add(atom{k: aUnknown, why: "builtin"})
		return out
	}
	var callees []*ssa.Function
	args := common.Args
	if common.IsInvoke() {
		callees = t.e.own.lookupImpls(common)
		args = append([]ssa.Value{common.Value}, common.Args...)
	} else if f := common.StaticCallee(); f != nil {
		callees = []*ssa.Function{f}
	}
	if len(callees) == 0 {
		out.add(atom{k: aUnknown, why: "result of a dynamic call"})
		return out
	}
	for _, f := range callees {
		// table-level summary first (functions that hand out slot values)
		if !common.IsInvoke() && inRepo(f) && f.Blocks != nil && t.e.inScope(f) && !t.e.isKernelFn(f) {
			s := t.e.summary(f, boolCtxArgs(t, f, args))
			if ri < len(s.ret) && s.done {
				for _, ra := range s.ret[ri] {
					switch ra.k {
					case aFresh, aGate, aNil:
						out.add(atom{k: ra.k})
					case aUnknown:
						out.add(atom{k: aUnknown, why: ra.why})
					case aParam:
						if ra.param < len(args) {
							out.addAll(t.provOf(args[ra.param]))
						}
					case aSlot, aShared:
						if ra.tabParam < len(args) {
							a := atom{k: ra.k, tab: t.root(args[ra.tabParam]) + ra.tabPath}
							if ra.idxParam >= 0 && ra.idxParam < len(args) {
								a.idx = args[ra.idxParam]
							}
							if ra.k == aShared {
								a.call = c
							}
							out.add(a)
						}
					}
				}
				continue
			}
			if !s.done {
				continue // not analysed yet: contributes nothing this round (fixpoint)
			}
		}
		osum := t.e.own.Sum(f)
		if osum == nil || ri >= len(osum.ret) {
			out.add(atom{k: aUnknown, why: "result of " + fname(f)})
			continue
		}
		r := osum.ret[ri]
		if r.fresh {
			out.add(atom{k: aFresh})
		}
		for k := range r.is {
			if k < len(args) {
				out.addAll(t.provOf(args[k]))
			}
		}
		for k := range r.isDeep {
			out.add(atom{k: aUnknown, why: fmt.Sprintf("%s returns memory loaded from its argument %s", fname(f), paramName(f, k))})
		}
		for k := range r.reach {
			if k == 0 && common.IsInvoke() && r.is[0] {
				continue
			}
			if t.e.base != nil && fnPkgPath(f) == modPath {
				continue // containers shared under copy-on-write between 32-bit bitmaps: level 32 (A3.32) decides that hand-off
			}
			out.add(atom{k: aUnknown, why: fmt.Sprintf("result of %s shares memory with its argument %s", fname(f), paramName(f, k))})
		}
		if r.global {
			out.add(atom{k: aUnknown, why: "package-level object returned by " + fname(f)})
		}
		if !r.fresh && len(r.is) == 0 && len(r.isDeep) == 0 && !r.global {
			out.add(atom{k: aNil})
		}
	}
	return out
}

// ownedAt: every atom of v denotes a container that may be written / stored freely at a point
// where facts hold. bad collects the offending atoms.
func (t *tlFunc) ownedAt(v ssa.Value, facts factSet, bad *[]string) bool {
	ok := true
	for _, a := range t.provOf(v) {
		if !t.atomOwned(a, facts) {
			ok = false
			if bad != nil {
				*bad = append(*bad, a.String())
			}
		}
	}
	return ok
}

func (t *tlFunc) atomOwned(a atom, facts factSet) bool {
	switch a.k {
	case aFresh, aGate, aNil:
		return true
	case aSlot:
		if a.idx != nil && facts[factKey{a.tab, a.idx}] {
			return true
		}
		if isLocalRoot(a.tab) && t.e.localTableOwned(t, a.tab) {
			return true
		}
		// a private helper that works on a table every caller has just built (the result under construction
		// passed down after an extract-function refactoring)
		if pi, _, ok := rootParam(a.tab); ok && !isExportedAPI(t.fn) && t.fn.Parent() == nil && t.e.paramTableOwned(t.fn, pi, 0) {
			return true
		}
	}
	return false
}

// paramTableOwned: every static call of f passes, for parameter k, (a pointer into) a table that the caller
// created itself and whose slots are all owned — or the caller's own parameter with the same property.
func (e *tlEngine) paramTableOwned(f *ssa.Function, k int, depth int) bool {
	key := fmt.Sprintf("%s#%d", f.String(), k)
	if v, ok := e.paramOwned[key]; ok {
		return v
	}
	if e.paramOwned == nil {
		e.paramOwned = map[string]bool{}
	}
	if depth > 3 {
		return false
	}
	e.paramOwned[key] = true // optimistic while the callers are inspected
	calls := 0
	result := true
	for _, g := range e.fns {
		if g == f {
			continue
		}
		var t *tlFunc
		for _, b := range g.Blocks {
			for _, ins := range b.Instrs {
				c, ok := ins.(*ssa.Call)
				if !ok || c.Call.StaticCallee() != f || k >= len(c.Call.Args) {
					continue
				}
				calls++
				if t == nil {
					t = e.funcState(g)
				}
				r := t.root(c.Call.Args[k])
				switch {
				case isLocalRoot(r) && e.localTableOwned(t, r) && builtEmptyHere(c.Call.Args[k]):
				case func() bool {
					pi, _, ok := rootParam(r)
					return ok && !isExportedAPI(g) && g.Parent() == nil && e.paramTableOwned(g, pi, depth+1)
				}():
				default:
					result = false
				}
			}
		}
	}
	if calls == 0 {
		result = false
	}
	e.paramOwned[key] = result
	return result
}

func (e *tlEngine) localTableOwned(t *tlFunc, tab string) bool {
	k := t.fn.String() + t.ctxS + "|" + localBase(tab)
	v, ok := e.localOwned[k]
	if !ok {
		e.localOwned[k] = true
		return true
	}
	return v
}

func localBase(tab string) string {
	// "L:call12.highlowcontainer" and "L:call12" denote the same local object
	if i := strings.Index(tab, "."); i >= 0 {
		return tab[:i]
	}
	return tab
}

// builtEmptyHere: v points (into) a bitmap/table that this function created empty — a composite literal, new,
// or the exported constructors New / NewBitmap. A table that came back from another function may already
// hold shared containers, so it does not count.
func builtEmptyHere(v ssa.Value) bool {
	for i := 0; i < 4; i++ {
		fa, ok := v.(*ssa.FieldAddr)
		if !ok {
			break
		}
		v = fa.X
	}
	switch x := v.(type) {
	case *ssa.Alloc:
		return true
	case *ssa.Call:
		if g := x.Call.StaticCallee(); g != nil && (g.Name() == "New" || g.Name() == "NewBitmap") && g.Signature.Recv() == nil {
			return true
		}
	case *ssa.UnOp:
		if al, ok := x.X.(*ssa.Alloc); ok && x.Op == token.MUL {
			ok2 := false
			for _, r := range *al.Referrers() {
				if st, isSt := r.(*ssa.Store); isSt && st.Addr == al {
					if !builtEmptyHere(st.Val) {
						return false
					}
					ok2 = true
				}
			}
			return ok2
		}
	}
	return false
}
