package main

import (
	"fmt"
	"sort"
	"strings"

	"golang.org/x/tools/go/ssa"
)

func init() {
	register("F8.point", "point updates at table level go through the kernels that answer with the right kind: code outside the three container kinds calls iaddReturnMinimized / iremoveReturnMinimized on a slot's container, never the plain iadd / iremove of the container interface, which keep an array beyond 4096 values (or a bitmap below) and report only a bool", ruleF8Point)
}

func ruleF8Point(p *Prog) *RuleResult {
	res := newResult("F8.point", ruleDoc["F8.point"], 6)
	ct := p.Type("roaring", "container")
	if ct == nil {
		res.undecided("anchors", "-", "roaring.container not found")
		return res
	}
	fns := append([]*ssa.Function(nil), p.sourceFns()...)
	sort.Slice(fns, func(i, j int) bool { return fname(fns[i]) < fname(fns[j]) })
	kind := func(f *ssa.Function) bool {
		top := f
		for top.Parent() != nil {
			top = top.Parent()
		}
		if top.Signature.Recv() == nil {
			return false
		}
		ts := typeShort(top.Signature.Recv().Type())
		return strings.HasSuffix(ts, "arrayContainer") || strings.HasSuffix(ts, "bitmapContainer") || strings.HasSuffix(ts, "runContainer16")
	}
	for _, f := range fns {
		if f.Blocks == nil || fnPkgPath(f) != pkgPathOf("roaring") || kind(f) {
			continue
		}
		n := 0
		for _, b := range f.Blocks {
			for _, ins := range b.Instrs {
				call, ok := ins.(*ssa.Call)
				if !ok || !call.Call.IsInvoke() {
					continue
				}
				name := call.Call.Method.Name()
				switch name {
				case "iadd", "iremove", "iaddReturnMinimized", "iremoveReturnMinimized":
				default:
					continue
				}
				n++
				c := fmt.Sprintf("%s|%s#%d", fname(f), name, n)
				if name == "iadd" || name == "iremove" {
					res.bad(c, p.ipos(call), fmt.Sprintf("the plain point kernel %s is applied to a slot's container: it never changes the kind, so the chunk can stay an array of 4097 values (which the writer emits with a payload every reader mis-sizes) or a bitmap of 4096", name))
				} else {
					res.ok(c, p.ipos(call), "kind-preserving kernel")
				}
			}
		}
	}
	return res
}
