package main

import (
	"fmt"
	"go/token"
	"go/types"
	"sort"
	"strings"

	"golang.org/x/tools/go/ssa"
)

func init() {
	register("B1", "no error returned by a callee is dropped: the error value is examined or forwarded, and every return reached on its non-nil edge carries a non-nil error (or the path panics)", ruleB1)
	register("B4", "MustReadFrom / MustFrozenView return the decoder's results and panic only with Validate's error", ruleB4)
}

var errorType = types.Universe.Lookup("error").Type()

func isErrorType(t types.Type) bool { return types.Identical(t, errorType) }

// errResultIndex returns the index of the last result if it is of type error, else -1.
func errResultIndex(sig *types.Signature) int {
	n := sig.Results().Len()
	if n == 0 {
		return -1
	}
	if isErrorType(sig.Results().At(n - 1).Type()) {
		return n - 1
	}
	return -1
}

func calleeName(c *ssa.CallCommon) string {
	if c.IsInvoke() {
		return "(" + tname(c.Value.Type()) + ")." + c.Method.Name()
	}
	if f := c.StaticCallee(); f != nil {
		return fname(f)
	}
	if b, ok := c.Value.(*ssa.Builtin); ok {
		return b.Name()
	}
	return "dynamic:" + c.Value.Name()
}

// sourceFns: repo functions that have source bodies (no synthetic wrappers), all four packages.
func (p *Prog) sourceFns() []*ssa.Function {
	var out []*ssa.Function
	for _, f := range p.RepoFns {
		if f.Blocks == nil || f.Synthetic != "" {
			continue
		}
		out = append(out, f)
	}
	return out
}

func isNilConst(v ssa.Value) bool {
	c, ok := v.(*ssa.Const)
	return ok && c.IsNil()
}

// dominatedBlocks returns all blocks dominated by b (b included).
func dominatedBlocks(b *ssa.BasicBlock) []*ssa.BasicBlock {
	var out []*ssa.BasicBlock
	var walk func(x *ssa.BasicBlock)
	walk = func(x *ssa.BasicBlock) {
		out = append(out, x)
		for _, d := range x.Dominees() {
			walk(d)
		}
	}
	walk(b)
	return out
}

// errUse classifies how an error-typed SSA value is consumed.
type errUse struct {
	tested    []*ssa.If // If instructions whose condition compares the value with nil
	nonNilBlk []*ssa.BasicBlock
	forwarded bool // returned, passed to a call, stored, sent, converted, merged in a phi
	any       bool
}

func (p *Prog) usesOfErr(v ssa.Value, seen map[ssa.Value]bool) errUse {
	var u errUse
	if seen[v] {
		return u
	}
	seen[v] = true
	refs := v.Referrers()
	if refs == nil {
		return u
	}
	for _, r := range *refs {
		switch x := r.(type) {
		case *ssa.DebugRef:
			continue
		case *ssa.BinOp:
			if (x.Op == token.NEQ || x.Op == token.EQL) && (isNilConst(x.X) || isNilConst(x.Y)) {
				u.any = true
				if br := x.Referrers(); br != nil {
					for _, rr := range *br {
						if ifi, ok := rr.(*ssa.If); ok {
							u.tested = append(u.tested, ifi)
							if x.Op == token.NEQ {
								u.nonNilBlk = append(u.nonNilBlk, ifi.Block().Succs[0])
							} else {
								u.nonNilBlk = append(u.nonNilBlk, ifi.Block().Succs[1])
							}
						} else {
							// the comparison result is itself stored / combined: treat as examined and forwarded
							u.forwarded = true
						}
					}
				}
			} else {
				u.any, u.forwarded = true, true // errors.Is-like comparisons with sentinel values (err == io.EOF)
			}
		case *ssa.Phi:
			u.any = true
			sub := p.usesOfErr(x, seen)
			u.tested = append(u.tested, sub.tested...)
			u.nonNilBlk = append(u.nonNilBlk, sub.nonNilBlk...)
			if sub.forwarded || (!sub.any && false) {
				u.forwarded = true
			}
			if !sub.any {
				// a phi nobody reads: not a use
				u.any = len(*x.Referrers()) > 0
			}
		default:
			u.any, u.forwarded = true, true
		}
	}
	return u
}

func ruleB1(p *Prog) *RuleResult {
	res := newResult("B1", ruleDoc["B1"], 100)
	for _, f := range p.sourceFns() {
		ownErrIdx := errResultIndex(f.Signature)
		perCallee := map[string]int{}
		for _, b := range f.Blocks {
			for _, ins := range b.Instrs {
				var common *ssa.CallCommon
				var val ssa.Value
				kind := "call"
				switch x := ins.(type) {
				case *ssa.Call:
					common, val = &x.Call, x
				case *ssa.Defer:
					common, kind = &x.Call, "defer"
				case *ssa.Go:
					common, kind = &x.Call, "go"
				default:
					continue
				}
				sig := common.Signature()
				ei := errResultIndex(sig)
				if ei < 0 {
					continue
				}
				cn := calleeName(common)
				// errors of these callees carry no information the properties talk about
				if strings.HasPrefix(cn, "fmt.Fp") || strings.HasPrefix(cn, "fmt.Print") || strings.HasPrefix(cn, "(*strings.Builder)") || strings.HasPrefix(cn, "(*bytes.Buffer).Write") {
					continue
				}
				perCallee[cn]++
				construct := fmt.Sprintf("%s|%s %s#%d", fname(f), kind, cn, perCallee[cn])
				pos := p.ipos(ins)
				if val == nil {
					res.bad(construct, pos, fmt.Sprintf("error result of %s is discarded by a %s statement", cn, kind))
					continue
				}
				// locate the error value
				var errVal ssa.Value
				if sig.Results().Len() == 1 {
					errVal = val
				} else if refs := val.Referrers(); refs != nil {
					for _, r := range *refs {
						if ex, ok := r.(*ssa.Extract); ok && ex.Index == ei {
							errVal = ex
						}
						// tuple pass-through: return f()
						if _, ok := r.(*ssa.Return); ok {
							errVal = val
						}
					}
				}
				if errVal == nil {
					res.bad(construct, pos, fmt.Sprintf("error result of %s is never read", cn))
					continue
				}
				u := p.usesOfErr(errVal, map[ssa.Value]bool{})
				if errVal == val && sig.Results().Len() > 1 {
					u.any, u.forwarded = true, true
				}
				if !u.any {
					res.bad(construct, pos, fmt.Sprintf("error result of %s is never read", cn))
					continue
				}
				// every return reachable from a non-nil edge must carry a non-nil error (when the function can report one)
				bad := ""
				if ownErrIdx >= 0 {
					for _, nb := range u.nonNilBlk {
						if r := p.nilReturnReachable(f, nb, ins.Block(), errVal, ownErrIdx); r != nil {
							bad = fmt.Sprintf("after %s failed, the return at %s can report a nil error", cn, p.ipos(r))
						}
					}
				}
				if bad != "" {
					res.bad(construct, pos, bad)
					continue
				}
				note := "forwarded"
				if len(u.tested) > 0 {
					note = "tested"
				}
				if ownErrIdx < 0 {
					note += "; enclosing function has no error result"
				}
				res.ok(construct, pos, note)
			}
		}
	}
	sort.SliceStable(res.Obs, func(i, j int) bool { return res.Obs[i].Construct < res.Obs[j].Construct })
	return res
}

// B4: the Must* wrappers.
func ruleB4(p *Prog) *RuleResult {
	res := newResult("B4", ruleDoc["B4"], 2)
	for _, w := range []struct {
		wrapper, decoder string
		panics           bool // reports a validation failure by panic (MustReadFrom) or by returning it (MustFrozenView)
	}{
		{"(*roaring.Bitmap).MustReadFrom", "(*roaring.Bitmap).ReadFrom", true},
		{"(*roaring.Bitmap).MustFrozenView", "(*roaring.Bitmap).FrozenView", false},
	} {
		f := p.Func(w.wrapper)
		if f == nil {
			if p.Func(w.decoder) == nil && p.Cfg.Name != cfgAmd64.Name {
				continue // this build configuration does not contain the format at all (portable build has no frozen view)
			}
			res.undecided(w.wrapper, "-", "anchor not found")
			continue
		}
		var dec, val *ssa.Call
		var panics []*ssa.Panic
		var rets []*ssa.Return
		for _, b := range f.Blocks {
			for _, ins := range b.Instrs {
				switch x := ins.(type) {
				case *ssa.Call:
					switch calleeName(&x.Call) {
					case w.decoder:
						dec = x
					case "(*roaring.Bitmap).Validate":
						val = x
					}
				case *ssa.Panic:
					panics = append(panics, x)
				case *ssa.Return:
					rets = append(rets, x)
				}
			}
		}
		pos := p.pos(f.Pos())
		c := w.wrapper
		switch {
		case dec == nil:
			res.bad(c+"|decode", pos, "wrapper does not call "+w.decoder)
			continue
		case val == nil:
			res.bad(c+"|validate", pos, "wrapper does not call Validate")
			continue
		}
		nres := dec.Call.Signature().Results().Len()
		if w.panics {
			// each result of the decoder is a result of the wrapper on every return
			okRes := true
			why := ""
			for _, r := range rets {
				for i := 0; i < nres; i++ {
					if i >= len(r.Results) {
						okRes, why = false, "wrapper has fewer results than the decoder"
						continue
					}
					if !derivesFromCall(r.Results[i], dec, i, nres, map[ssa.Value]bool{}) {
						okRes, why = false, fmt.Sprintf("return at %s: result %d is not the decoder's result %d", p.ipos(r), i, i)
					}
				}
			}
			if okRes {
				res.ok(c+"|results", pos, fmt.Sprintf("%d results forwarded on %d returns", nres, len(rets)))
			} else {
				res.bad(c+"|results", pos, why)
			}
			okPanic := len(panics) > 0
			for _, pn := range panics {
				if !derivesFromCall(pn.X, val, 0, 1, map[ssa.Value]bool{}) {
					okPanic = false
				}
			}
			if okPanic {
				res.ok(c+"|panic", pos, "")
			} else {
				res.bad(c+"|panic", pos, "wrapper must panic with, and only with, Validate's error")
			}
		} else {
			// every return yields the decoder's error (before validation) or Validate's verdict (after it)
			okRes := len(rets) > 0
			why := ""
			for _, r := range rets {
				if len(r.Results) != 1 {
					okRes, why = false, "unexpected result count"
					continue
				}
				afterValidate := val.Block().Dominates(r.Block())
				if afterValidate {
					if !derivesFromCall(r.Results[0], val, 0, 1, map[ssa.Value]bool{}) {
						okRes, why = false, fmt.Sprintf("return at %s does not return Validate's verdict", p.ipos(r))
					}
				} else if !derivesFromCall(r.Results[0], dec, 0, nres, map[ssa.Value]bool{}) {
					okRes, why = false, fmt.Sprintf("return at %s (before validation) does not return the decoder's error", p.ipos(r))
				}
			}
			if okRes {
				res.ok(c+"|results", pos, fmt.Sprintf("%d returns", len(rets)))
			} else {
				res.bad(c+"|results", pos, why)
			}
		}
		// (2) Validate is called only after the decode call
		if !dec.Block().Dominates(val.Block()) {
			res.bad(c+"|order", pos, "Validate is not dominated by the decode call")
		} else {
			res.ok(c+"|order", pos, "")
		}
		// (3) the decoder's error, when non-nil, is returned without validating
		ei := errResultIndex(dec.Call.Signature())
		if ei >= 0 {
			var ev ssa.Value
			if nres == 1 {
				ev = dec
			} else if refs := dec.Referrers(); refs != nil {
				for _, r := range *refs {
					if ex, ok := r.(*ssa.Extract); ok && ex.Index == ei {
						ev = ex
					}
				}
			}
			if ev == nil {
				res.bad(c+"|error", pos, "the decoder's error is dropped")
			} else {
				u := p.usesOfErr(ev, map[ssa.Value]bool{})
				guarded := false
				for _, nb := range u.nonNilBlk {
					// on the failing edge Validate must not run
					guarded = true
					for _, db := range dominatedBlocks(nb) {
						if db == val.Block() {
							guarded = false
						}
					}
				}
				// ... and it must not have run already: the Validate call sits on the error-is-nil side of
				// a test of the decoder's error (a failed decode leaves a half-built table behind)
				if guarded {
					onNilSide := false
					for _, ifi := range u.tested {
						cmp, _ := ifi.Cond.(*ssa.BinOp)
						if cmp == nil {
							continue
						}
						nilEdge := 1 // err != nil: the false edge is the nil side
						if cmp.Op == token.EQL {
							nilEdge = 0
						}
						if dominatedByEdge(ifi.Block(), nilEdge, val.Block()) {
							onNilSide = true
						}
					}
					if !onNilSide {
						guarded = false
					}
				}
				if guarded {
					res.ok(c+"|error", pos, "decode error returned before validation")
				} else {
					res.bad(c+"|error", pos, "a failed decode is not returned before Validate runs")
				}
			}
		}
	}
	return res
}

// derivesFromCall: v is result #idx of call (directly, through an Extract, a conversion or a phi of such).
func derivesFromCall(v ssa.Value, call *ssa.Call, idx, nres int, seen map[ssa.Value]bool) bool {
	if seen[v] {
		return true
	}
	seen[v] = true
	switch x := v.(type) {
	case *ssa.Call:
		return x == call && nres == 1
	case *ssa.Extract:
		return x.Tuple == call && x.Index == idx
	case *ssa.Phi:
		for _, e := range x.Edges {
			if !derivesFromCall(e, call, idx, nres, seen) {
				return false
			}
		}
		return true
	case *ssa.ChangeInterface:
		return derivesFromCall(x.X, call, idx, nres, seen)
	case *ssa.MakeInterface:
		return derivesFromCall(x.X, call, idx, nres, seen)
	case *ssa.UnOp:
		// load of a named result variable: every store to it must be the call's result
		if x.Op == token.MUL {
			if al, ok := x.X.(*ssa.Alloc); ok {
				n := 0
				for _, r := range *al.Referrers() {
					if st, ok := r.(*ssa.Store); ok && st.Addr == al {
						n++
						if c, isC := st.Val.(*ssa.Const); isC && (c.IsNil() || c.Value != nil && c.Value.ExactString() == "0") {
							continue // zero initialisation of a named result
						}
						if !derivesFromCall(st.Val, call, idx, nres, seen) {
							return false
						}
					}
				}
				return n > 0
			}
		}
	}
	return false
}

// nilReturnReachable: starting on the edge where errVal is known to be non-nil (block from), is a
// Return reachable (without executing the call's block again) whose error result is known to be
// nil on that path? Known nil: the constant nil, another error value that was tested nil on every
// path to the return, or a phi whose incoming value on a reachable edge is known nil.
func (p *Prog) nilReturnReachable(f *ssa.Function, from, callBlk *ssa.BasicBlock, errVal ssa.Value, errIdx int) *ssa.Return {
	reach := map[*ssa.BasicBlock]bool{}
	var w []*ssa.BasicBlock
	w = append(w, from)
	for len(w) > 0 {
		b := w[len(w)-1]
		w = w[:len(w)-1]
		if reach[b] {
			continue
		}
		reach[b] = true
		for _, s := range b.Succs {
			if s == callBlk {
				continue // the call is executed again: a new error value
			}
			w = append(w, s)
		}
	}
	// error values known nil at block b: their nil edge dominates b
	knownNilAt := func(v ssa.Value, b *ssa.BasicBlock) bool {
		if v == errVal || v.Referrers() == nil {
			return false
		}
		for _, r := range *v.Referrers() {
			bo, ok := r.(*ssa.BinOp)
			if !ok || (bo.Op != token.NEQ && bo.Op != token.EQL) || !(isNilConst(bo.X) || isNilConst(bo.Y)) || bo.Referrers() == nil {
				continue
			}
			for _, rr := range *bo.Referrers() {
				ifi, ok := rr.(*ssa.If)
				if !ok {
					continue
				}
				nilEdge := 1
				if bo.Op == token.EQL {
					nilEdge = 0
				}
				if dominatedByEdge(ifi.Block(), nilEdge, b) {
					return true
				}
			}
		}
		return false
	}
	var mayNil func(v ssa.Value, at *ssa.BasicBlock, depth int) bool
	mayNil = func(v ssa.Value, at *ssa.BasicBlock, depth int) bool {
		if depth > 6 {
			return false
		}
		if isNilConst(v) {
			return true
		}
		if v == errVal {
			return false
		}
		switch x := v.(type) {
		case *ssa.Phi:
			for i, e := range x.Edges {
				pred := x.Block().Preds[i]
				if !reach[pred] {
					continue
				}
				if mayNil(e, pred, depth+1) {
					return true
				}
			}
			return false
		case *ssa.Extract, *ssa.Call:
			if isErrorType(v.Type()) && (knownNilAt(v, at) || knownNilAt(v, from)) {
				return true
			}
		}
		return false
	}
	for _, b := range f.Blocks {
		if !reach[b] || len(b.Instrs) == 0 {
			continue
		}
		ret, ok := b.Instrs[len(b.Instrs)-1].(*ssa.Return)
		if !ok || errIdx >= len(ret.Results) {
			continue
		}
		if mayNil(ret.Results[errIdx], b, 0) {
			return ret
		}
	}
	return nil
}
