package main

import (
	"fmt"
	"sort"
	"strings"

	"golang.org/x/tools/go/ssa"
)

func init() {
	register("R3", "the three parallel arrays of a slot table (keys, containers, needCopyOnWrite) change length and shift together: a function that re-slices or replaces one of them as a whole does so for all three, and when it shifts them with copy() — or copies them from another table, as ParOr does with its workers' parts — the copies use the same bounds — flags that keep their old length or move by another distance belong to the wrong chunks from then on", ruleR3)
}

func ruleR3(p *Prog) *RuleResult {
	res := newResult("R3", ruleDoc["R3"], 10)
	for _, lvl := range []string{"32", "64"} {
		e, err := p.TL(lvl)
		if err != nil {
			res.undecided("anchors:"+lvl, "-", err.Error())
			continue
		}
		lv := e.lv
		fns := append([]*ssa.Function(nil), e.fns...)
		sort.Slice(fns, func(i, j int) bool { return fname(fns[i]) < fname(fns[j]) })
		names := map[int]string{lv.fKeys: "keys", lv.fCont: "containers", lv.fFlags: "needCopyOnWrite"}
		for _, f := range fns {
			if f.Blocks == nil {
				continue
			}
			t := e.funcState(f)
			// (a) whole-slice stores per table root
			whole := map[string]map[int]ssa.Instruction{}
			// (b) copy(dst, src) calls on table slices: table -> field -> bounds
			type cp struct {
				ins               ssa.Instruction
				dLow, sLow, sHigh ssa.Value
			}
			copies := map[string]map[int][]cp{}
			cross := map[string]map[int][]cp{}
			for _, b := range f.Blocks {
				for _, ins := range b.Instrs {
					switch x := ins.(type) {
					case *ssa.Store:
						if tab, fld, ok := t.tableFieldAddr(x.Addr); ok {
							if _, isTab := names[fld]; isTab {
								if whole[tab] == nil {
									whole[tab] = map[int]ssa.Instruction{}
								}
								whole[tab][fld] = x
							}
						}
					case *ssa.Call:
						bi, ok := x.Call.Value.(*ssa.Builtin)
						if !ok || bi.Name() != "copy" || len(x.Call.Args) != 2 {
							continue
						}
						ds, ok1 := x.Call.Args[0].(*ssa.Slice)
						ss, ok2 := x.Call.Args[1].(*ssa.Slice)
						// (c) a copy from one table into another (a worker's part appended to the result at an offset):
						// either side may be the array as a whole
						{
							dv, dLow := x.Call.Args[0], ssa.Value(nil)
							if ok1 {
								dv, dLow = ds.X, ds.Low
							}
							sv, sLow, sHigh := x.Call.Args[1], ssa.Value(nil), ssa.Value(nil)
							if ok2 {
								sv, sLow, sHigh = ss.X, ss.Low, ss.High
							}
							dt2, df2, okd2 := t.tableSlice(dv)
							st2, sf2, oks2 := t.tableSlice(sv)
							if okd2 && oks2 && dt2 != st2 && df2 == sf2 {
								key := fmt.Sprintf("%s <- %s (block %d)", dt2, st2, x.Block().Index) // one straight-line group of copies
								if cross[key] == nil {
									cross[key] = map[int][]cp{}
								}
								cross[key][df2] = append(cross[key][df2], cp{x, dLow, sLow, sHigh})
								continue
							}
						}
						if !ok1 || !ok2 {
							continue
						}
						dt, df, okd := t.tableSlice(ds.X)
						stb, sf, oks := t.tableSlice(ss.X)
						if !okd || !oks || dt != stb || df != sf {
							continue // not a shift inside one table
						}
						if copies[dt] == nil {
							copies[dt] = map[int][]cp{}
						}
						copies[dt][df] = append(copies[dt][df], cp{x, ds.Low, ss.Low, ss.High})
					}
				}
			}
			var tabs []string
			for tb := range whole {
				tabs = append(tabs, tb)
			}
			sort.Strings(tabs)
			for _, tb := range tabs {
				if isLocalRoot(tb) && !strings.HasPrefix(tb, "P") {
					continue
				}
				c := fmt.Sprintf("%s|%s resized", fname(f), tb)
				var missing []string
				for fld, nm := range names {
					if _, ok := whole[tb][fld]; !ok {
						missing = append(missing, nm)
					}
				}
				sort.Strings(missing)
				var any ssa.Instruction
				for _, i := range whole[tb] {
					any = i
				}
				if len(missing) > 0 && len(missing) < 3 {
					res.bad(c, p.ipos(any), fmt.Sprintf("the function replaces or re-slices some of the table's arrays but not %s: the arrays no longer have one length and the flags no longer line up with the containers", strings.Join(missing, ", ")))
				} else {
					res.ok(c, p.ipos(any), "all three arrays assigned")
				}
			}
			// table-to-table copies: all three arrays, at the same offsets
			crossN := 0
			var keys []string
			for k := range cross {
				keys = append(keys, k)
			}
			sort.Strings(keys)
			for _, k := range keys {
				m := cross[k]
				crossN++
				c := fmt.Sprintf("%s|arrays copied from another table#%d", fname(f), crossN)
				var any ssa.Instruction
				for _, l := range m {
					any = l[0].ins
				}
				// a copy of some of the arrays only is legitimate (clone copies keys and containers and derives the
				// flags): what is copied must be copied with the same bounds
				if len(m) < 2 || m[lv.fKeys] == nil {
					continue
				}
				ref := m[lv.fKeys]
				bad := ""
				for fld, l := range m {
					if len(l) != len(ref) {
						bad = fmt.Sprintf("%s is copied %d time(s), keys %d time(s)", names[fld], len(l), len(ref))
						continue
					}
					for i := range l {
						if !sameIdxOrNil(l[i].dLow, ref[i].dLow) || !sameIdxOrNil(l[i].sLow, ref[i].sLow) || !sameIdxOrNil(l[i].sHigh, ref[i].sHigh) {
							bad = fmt.Sprintf("the copy of %s at %s uses other bounds than the copy of keys at %s", names[fld], p.ipos(l[i].ins), p.ipos(ref[i].ins))
						}
					}
				}
				if bad != "" {
					res.bad(c, p.ipos(any), bad+": the flags (or containers) land at another offset than the keys")
				} else {
					res.ok(c, p.ipos(any), fmt.Sprintf("%d arrays copied with the same bounds", len(m)))
				}
			}
			tabs = tabs[:0]
			for tb := range copies {
				tabs = append(tabs, tb)
			}
			sort.Strings(tabs)
			for _, tb := range tabs {
				m := copies[tb]
				c := fmt.Sprintf("%s|%s shifted", fname(f), tb)
				if len(m) != 3 {
					var have []string
					for fld := range m {
						have = append(have, names[fld])
					}
					sort.Strings(have)
					var any ssa.Instruction
					for _, l := range m {
						any = l[0].ins
					}
					res.bad(c, p.ipos(any), fmt.Sprintf("elements are shifted inside %s only: the other arrays of the table keep their old positions", strings.Join(have, ", ")))
					continue
				}
				ref := m[lv.fKeys]
				bad := ""
				for fld, l := range m {
					if len(l) != len(ref) {
						bad = fmt.Sprintf("%s is shifted %d time(s), keys %d time(s)", names[fld], len(l), len(ref))
						continue
					}
					for i := range l {
						if !sameIdxExpr(l[i].dLow, ref[i].dLow, 0) || !sameIdxExpr(l[i].sLow, ref[i].sLow, 0) || !sameIdxExpr(l[i].sHigh, ref[i].sHigh, 0) {
							bad = fmt.Sprintf("the copy of %s at %s uses other bounds than the copy of keys at %s", names[fld], p.ipos(l[i].ins), p.ipos(ref[i].ins))
						}
					}
				}
				if bad != "" {
					res.bad(c, p.ipos(ref[0].ins), bad+": the flags (or containers) move by a different distance than the keys")
				} else {
					res.ok(c, p.ipos(ref[0].ins), "the three arrays are shifted with the same bounds")
				}
			}
		}
	}
	return res
}

// sameIdxExpr: structural equality of two index expressions (go/ssa does no common-subexpression
// elimination: i+1 written twice is two values).
func sameIdxExpr(a, b ssa.Value, d int) bool {
	if a == b {
		return true
	}
	if a == nil || b == nil || d > 4 {
		return false
	}
	switch x := a.(type) {
	case *ssa.Const:
		y, ok := b.(*ssa.Const)
		if !ok {
			return false
		}
		kx, okx := constIntVal(x)
		ky, oky := constIntVal(y)
		return okx && oky && kx == ky
	case *ssa.BinOp:
		y, ok := b.(*ssa.BinOp)
		return ok && x.Op == y.Op && sameIdxExpr(x.X, y.X, d+1) && sameIdxExpr(x.Y, y.Y, d+1)
	case *ssa.Convert:
		y, ok := b.(*ssa.Convert)
		return ok && sameIdxExpr(x.X, y.X, d+1)
	}
	return false
}

func sameIdxOrNil(a, b ssa.Value) bool {
	if a == nil || b == nil {
		return a == nil && b == nil
	}
	return sameIdxExpr(a, b, 0)
}
