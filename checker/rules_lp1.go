package main

import (
	"fmt"
	"go/ast"
	"go/token"
	"go/types"
	"strings"
)

func init() {
	register("LP1", "a counted loop steps its index once: when the for statement has a post statement that steps a variable (i++, i--, i += k), the loop body does not step the same variable again, unconditionally, in the same direction — a walk over the key table that is decremented twice per iteration skips every other chunk", ruleLP1)
}

func ruleLP1(p *Prog) *RuleResult {
	res := newResult("LP1", ruleDoc["LP1"], 100)
	stepOf := func(info *types.Info, s ast.Stmt) (types.Object, int) {
		switch x := s.(type) {
		case *ast.IncDecStmt:
			if id, ok := x.X.(*ast.Ident); ok {
				if x.Tok == token.INC {
					return info.ObjectOf(id), 1
				}
				return info.ObjectOf(id), -1
			}
		case *ast.AssignStmt:
			if len(x.Lhs) == 1 && (x.Tok == token.ADD_ASSIGN || x.Tok == token.SUB_ASSIGN) {
				if id, ok := x.Lhs[0].(*ast.Ident); ok {
					if x.Tok == token.ADD_ASSIGN {
						return info.ObjectOf(id), 1
					}
					return info.ObjectOf(id), -1
				}
			}
		}
		return nil, 0
	}
	for _, pk := range p.Pkgs {
		for _, file := range pk.Syntax {
			if strings.HasSuffix(p.Fset.Position(file.Pos()).Filename, "_test.go") {
				continue
			}
			for _, d := range file.Decls {
				fd, ok := d.(*ast.FuncDecl)
				if !ok || fd.Body == nil {
					continue
				}
				fn := p.astFuncName(pk.PkgPath, fd)
				n := 0
				ast.Inspect(fd.Body, func(nd ast.Node) bool {
					fs, ok := nd.(*ast.ForStmt)
					if !ok || fs.Post == nil {
						return true
					}
					obj, dir := stepOf(pk.TypesInfo, fs.Post)
					if obj == nil {
						return true
					}
					n++
					c := fmt.Sprintf("%s|for %s#%d", fn, obj.Name(), n)
					var again ast.Stmt
					for _, st := range fs.Body.List { // top-level statements of the body only: unconditional
						if o2, d2 := stepOf(pk.TypesInfo, st); o2 == obj && d2 == dir {
							again = st
						}
					}
					if again != nil {
						res.bad(c, p.pos(again.Pos()), fmt.Sprintf("%s is stepped by the for statement's post clause (%s) and again, unconditionally and in the same direction, in the body: every other element is skipped", obj.Name(), p.pos(fs.Post.Pos())))
					} else {
						res.ok(c, p.pos(fs.Pos()), "stepped once per iteration")
					}
					return true
				})
			}
		}
	}
	return res
}
