package main

import (
	"fmt"
	"sort"

	"golang.org/x/tools/go/ssa"
)

func init() {
	register("ACC1", "no lost accumulation: a slice cell that a loop fills with cell = append(cell, ...) is not overwritten, inside that same loop, by a value that does not come from the cell — what earlier iterations collected (the planes of the operands listed first) would be dropped and the result would depend on the argument order", ruleACC1)
}

type accCell struct {
	root ssa.Value // the slice of cells (the alloc it is reloaded from, or the value itself)
	idx  ssa.Value
}

func accCellOf(addr ssa.Value) (accCell, bool) {
	ia, ok := addr.(*ssa.IndexAddr)
	if !ok {
		return accCell{}, false
	}
	root := ia.X
	if ld, ok := root.(*ssa.UnOp); ok {
		if al, ok := ld.X.(*ssa.Alloc); ok {
			root = al
		}
	}
	return accCell{root, ia.Index}, true
}

// naturalLoop: the blocks of the loops headed by h (all back edges p -> h with h dominating p).
func naturalLoop(h *ssa.BasicBlock) map[*ssa.BasicBlock]bool {
	in := map[*ssa.BasicBlock]bool{}
	var work []*ssa.BasicBlock
	for _, p := range h.Preds {
		if h.Dominates(p) {
			in[h] = true
			if !in[p] {
				in[p] = true
				work = append(work, p)
			}
		}
	}
	for len(work) > 0 {
		b := work[len(work)-1]
		work = work[:len(work)-1]
		for _, p := range b.Preds {
			if !in[p] {
				in[p] = true
				work = append(work, p)
			}
		}
	}
	return in
}

// innermostLoop: the smallest natural loop containing b (nil if none).
func innermostLoop(b *ssa.BasicBlock) map[*ssa.BasicBlock]bool {
	for h := b; h != nil; h = h.Idom() {
		if l := naturalLoop(h); l[b] {
			return l
		}
	}
	return nil
}

func ruleACC1(p *Prog) *RuleResult {
	res := newResult("ACC1", ruleDoc["ACC1"], 2)
	fns := append([]*ssa.Function(nil), p.sourceFns()...)
	sort.Slice(fns, func(i, j int) bool { return fname(fns[i]) < fname(fns[j]) })
	for _, f := range fns {
		if f.Blocks == nil {
			continue
		}
		type st struct {
			s    *ssa.Store
			cell accCell
			acc  bool
		}
		var stores []st
		for _, b := range f.Blocks {
			for _, ins := range b.Instrs {
				s, ok := ins.(*ssa.Store)
				if !ok {
					continue
				}
				cell, ok := accCellOf(s.Addr)
				if !ok {
					continue
				}
				acc := false
				if c, ok := s.Val.(*ssa.Call); ok {
					if bi, ok := c.Call.Value.(*ssa.Builtin); ok && bi.Name() == "append" && len(c.Call.Args) > 0 {
						if ld, ok := c.Call.Args[0].(*ssa.UnOp); ok {
							if c2, ok := accCellOf(ld.X); ok && c2 == cell {
								acc = true
							}
						}
					}
				}
				stores = append(stores, st{s, cell, acc})
			}
		}
		n := 0
		for _, a := range stores {
			if !a.acc {
				continue
			}
			loop := innermostLoop(a.s.Block())
			if loop == nil {
				continue
			}
			n++
			c := fmt.Sprintf("%s|accumulator#%d", fname(f), n)
			var bad *ssa.Store
			for _, o := range stores {
				if o.acc || o.cell != a.cell || !loop[o.s.Block()] {
					continue
				}
				bad = o.s
			}
			if bad != nil {
				res.bad(c, p.ipos(bad), fmt.Sprintf("the cell filled by append at %s is overwritten inside the same loop with a value that does not come from it: what earlier iterations collected is dropped", p.ipos(a.s)))
			} else {
				res.ok(c, p.ipos(a.s), "only appended to inside its loop")
			}
		}
	}
	return res
}
