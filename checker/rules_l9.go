package main

import (
	"fmt"
	"go/constant"
	"go/token"
	"go/types"

	"golang.org/x/tools/go/ssa"
)

func init() {
	register("L9", "the portable reader decides between the two non-run payload kinds exactly as the specification and the writer do: a chunk announcing more than 4096 values is read as 8192 bytes of bitmap words, one announcing 4096 or fewer as 2 bytes per value. The deciding branch is evaluated at 4096 and 4097: at exactly 4096 both payloads are 8192 bytes long, so a reader that is off by one stays in step with the stream and silently turns the value list into bitmap words", ruleL9)
}

func ruleL9(p *Prog) *RuleResult {
	res := newResult("L9", ruleDoc["L9"], 1)
	f := p.Func("(*roaring.roaringArray).readFrom")
	if f == nil {
		res.undecided("(*roaring.roaringArray).readFrom", "-", "anchor not found")
		return res
	}
	thr := p.Const("roaring", "arrayDefaultMaxSize")
	if thr == nil {
		res.undecided("arrayDefaultMaxSize", "-", "constant not found")
		return res
	}
	thrV, _ := constInt64(thr)
	// the decoder and the helpers it hands its byte source to
	decoders := []*ssa.Function{f}
	inSet := map[*ssa.Function]bool{f: true}
	for k := 0; k < len(decoders) && k < 12; k++ {
		for _, b := range decoders[k].Blocks {
			for _, ins := range b.Instrs {
				c, ok := ins.(*ssa.Call)
				if !ok {
					continue
				}
				g := c.Call.StaticCallee()
				if g == nil || g.Blocks == nil || inSet[g] || !inRepo(g) {
					continue
				}
				for _, a := range c.Call.Args {
					if _, isI := a.Type().Underlying().(*types.Interface); isI && len(f.Params) > 1 && types.Identical(a.Type(), f.Params[1].Type()) {
						inSet[g] = true
						decoders = append(decoders, g)
						break
					}
				}
			}
		}
	}
	n := 0
	for _, d := range decoders {
		// the reads of the two payload kinds in this function: Next(8192-ish constant) and Next(k*card)
		var bitmapRead, arrayRead *ssa.Call
		var cardVal ssa.Value
		for _, b := range d.Blocks {
			for _, ins := range b.Instrs {
				c, ok := ins.(*ssa.Call)
				if !ok || !c.Call.IsInvoke() || c.Call.Method.Name() != "Next" || len(c.Call.Args) != 1 {
					continue
				}
				if v, isC := constIntVal(c.Call.Args[0]); isC && v == 2*thrV {
					bitmapRead = c
				} else if bo, ok := c.Call.Args[0].(*ssa.BinOp); ok && bo.Op == token.MUL {
					if k, isC := constIntVal(bo.Y); isC && k == 2 {
						if _, isCall := stripConv(bo.X).(*ssa.Call); !isCall { // 4*nruns is read from the stream; 2*card is not
							arrayRead = c
							cardVal = bo.X
						}
					}
				}
			}
		}
		if bitmapRead == nil || arrayRead == nil {
			continue
		}
		n++
		cn := fmt.Sprintf("%s|bitmap or array payload#%d", fname(f), n)
		var decided *ssa.If
		bitmapOnTrue := false
		for _, b := range d.Blocks {
			iff, ok := b.Instrs[len(b.Instrs)-1].(*ssa.If)
			if !ok {
				continue
			}
			t, e := b.Succs[0], b.Succs[1]
			dom := func(s *ssa.BasicBlock, c *ssa.Call) bool { return s == c.Block() || s.Dominates(c.Block()) }
			if dom(t, bitmapRead) && dom(e, arrayRead) && !dom(t, arrayRead) && !dom(e, bitmapRead) {
				decided, bitmapOnTrue = iff, true
			}
			if dom(e, bitmapRead) && dom(t, arrayRead) && !dom(e, arrayRead) && !dom(t, bitmapRead) {
				decided, bitmapOnTrue = iff, false
			}
		}
		if decided == nil {
			res.undecided(cn, p.pos(d.Pos()), "the branch separating the two payload reads was not recognised")
			continue
		}
		undecidedAt := int64(-1)
		eval := func(card int64) bool { // is the bitmap payload chosen for this cardinality?
			env := &concreteEnv{bind: map[ssa.Value]cval{cardVal: {i: card}}, freeBool: false}
			if cv, ok := cardVal.(*ssa.Convert); ok {
				env.bind[cv.X] = cval{i: card}
			}
			v, ok := env.evalExpr(decided.Cond, 0)
			if !ok || !v.isBool {
				undecidedAt = card
				return false
			}
			if bitmapOnTrue {
				return v.b
			}
			return !v.b
		}
		r1, r2, r3, r4 := eval(thrV), eval(thrV+1), eval(1), eval(65536)
		if undecidedAt >= 0 {
			res.undecided(cn, p.ipos(decided), "the deciding condition could not be evaluated for a given cardinality (not integer/boolean code over the cardinality)")
			continue
		}
		_, _, _, _ = r1, r2, r3, r4
		if !eval(thrV) && eval(thrV+1) && !eval(1) && eval(65536) {
			res.ok(cn, p.ipos(decided), fmt.Sprintf("array up to %d values, bitmap from %d", thrV, thrV+1))
		} else {
			res.bad(cn, p.ipos(decided), fmt.Sprintf("the reader picks the bitmap payload for cardinality %d: %v, for %d: %v (the format and the writer: false, true)", thrV, eval(thrV), thrV+1, eval(thrV+1)))
		}
	}
	if n == 0 {
		res.undecided(fname(f)+"|payload reads", p.pos(f.Pos()), "no function of the decoder reads both a bitmap and an array payload")
	}
	return res
}

func constInt64(c *types.Const) (int64, bool) {
	if c == nil {
		return 0, false
	}
	return constant.Int64Val(constant.ToInt(c.Val()))
}
