package main

import (
	"fmt"
	"go/ast"
	"go/token"
	"go/types"
	"strings"

	"golang.org/x/tools/go/ast/astutil"
	"golang.org/x/tools/go/ssa"
)

// exprText returns the source text of the binary expression whose operator is at pos.
func (p *Prog) exprText(pos token.Pos) string {
	for _, pk := range p.Pkgs {
		for _, file := range pk.Syntax {
			if file.Pos() <= pos && pos < file.End() {
				path, _ := astutil.PathEnclosingInterval(file, pos, pos)
				for _, n := range path {
					if be, ok := n.(*ast.BinaryExpr); ok && be.OpPos == pos {
						return types.ExprString(be)
					}
					if id, ok := n.(*ast.IncDecStmt); ok {
						return types.ExprString(id.X) + id.Tok.String()
					}
					if as, ok := n.(*ast.AssignStmt); ok && as.TokPos == pos {
						return types.ExprString(as.Lhs[0]) + as.Tok.String() + types.ExprString(as.Rhs[0])
					}
				}
			}
		}
	}
	return "?"
}

// exprShape is exprText with every local variable / parameter replaced by its type, and a dereference of a
// pointer-to-scalar folded into the scalar: renaming a local or passing a value instead of a pointer does
// not change the shape, while a different field, operator or operand type does.
func (p *Prog) exprShape(pos token.Pos) string {
	for _, pk := range p.Pkgs {
		for _, file := range pk.Syntax {
			if file.Pos() <= pos && pos < file.End() {
				path, _ := astutil.PathEnclosingInterval(file, pos, pos)
				for _, n := range path {
					if be, ok := n.(*ast.BinaryExpr); ok && be.OpPos == pos {
						return shapeOf(pk.TypesInfo, be.X) + " " + be.Op.String() + " " + shapeOf(pk.TypesInfo, be.Y)
					}
					if id, ok := n.(*ast.IncDecStmt); ok {
						return shapeOf(pk.TypesInfo, id.X) + id.Tok.String()
					}
					if as, ok := n.(*ast.AssignStmt); ok && as.TokPos == pos {
						return shapeOf(pk.TypesInfo, as.Lhs[0]) + as.Tok.String() + shapeOf(pk.TypesInfo, as.Rhs[0])
					}
				}
			}
		}
	}
	return "?"
}

func shapeOf(info *types.Info, e ast.Expr) string {
	short := func(t types.Type) string {
		return types.TypeString(t, func(*types.Package) string { return "" })
	}
	switch x := e.(type) {
	case *ast.Ident:
		if obj, ok := info.Uses[x].(*types.Var); ok && !obj.IsField() && obj.Parent() != nil && obj.Parent() != obj.Pkg().Scope() {
			return "<" + short(obj.Type()) + ">"
		}
		return x.Name
	case *ast.ParenExpr:
		return "(" + shapeOf(info, x.X) + ")"
	case *ast.StarExpr:
		in := shapeOf(info, x.X)
		if strings.HasPrefix(in, "<*") {
			return "<" + in[2:]
		}
		return "*" + in
	case *ast.SelectorExpr:
		// a struct field appears as its type (renaming a field keeps the shape); methods and package members keep their name
		if sel, ok := info.Selections[x]; ok && sel.Kind() == types.FieldVal {
			return shapeOf(info, x.X) + ".(" + short(sel.Type()) + ")"
		}
		return shapeOf(info, x.X) + "." + x.Sel.Name
	case *ast.IndexExpr:
		return shapeOf(info, x.X) + "[" + shapeOf(info, x.Index) + "]"
	case *ast.CallExpr:
		var as []string
		for _, a := range x.Args {
			as = append(as, shapeOf(info, a))
		}
		return shapeOf(info, x.Fun) + "(" + strings.Join(as, ", ") + ")"
	case *ast.BinaryExpr:
		return shapeOf(info, x.X) + " " + x.Op.String() + " " + shapeOf(info, x.Y)
	case *ast.UnaryExpr:
		return x.Op.String() + shapeOf(info, x.X)
	case *ast.BasicLit:
		return x.Value
	}
	return types.ExprString(e)
}

func init() {
	register("U1", "no 16-bit arithmetic that is widened afterwards: x±k on a uint16 must be computed after widening, otherwise the sentinel / bound one past 65535 (or below 0) cannot be represented", ruleU1)
}

func basicKind(t types.Type) types.BasicKind {
	if b, ok := t.Underlying().(*types.Basic); ok {
		return b.Kind()
	}
	return types.Invalid
}

func intWidth(k types.BasicKind) int {
	switch k {
	case types.Uint8, types.Int8:
		return 8
	case types.Uint16, types.Int16:
		return 16
	case types.Uint32, types.Int32:
		return 32
	case types.Int, types.Uint, types.Int64, types.Uint64, types.Uintptr:
		return 64
	}
	return 0
}

type narrowSite struct {
	f    *ssa.Function
	conv *ssa.Convert
	op   *ssa.BinOp
}

// allNarrow16 lists every 16-bit ADD/SUB (debug aid for triage).
func (p *Prog) allNarrow16() []string {
	var out []string
	for _, f := range p.sourceFns() {
		for _, b := range f.Blocks {
			for _, ins := range b.Instrs {
				if bo, ok := ins.(*ssa.BinOp); ok && (bo.Op == token.ADD || bo.Op == token.SUB) && intWidth(basicKind(bo.Type())) == 16 {
					out = append(out, fmt.Sprintf("%s|%s  =>  %s @%s", fname(f), p.exprText(bo.Pos()), p.exprShape(bo.Pos()), p.ipos(bo)))
				}
			}
		}
	}
	return out
}

// narrowArith32: x±y computed in 32 bits and widened to 64 bits afterwards (uint64(rb.Maximum()+1)).
func (p *Prog) narrowArith32() []narrowSite {
	var out []narrowSite
	for _, f := range p.sourceFns() {
		for _, b := range f.Blocks {
			for _, ins := range b.Instrs {
				cv, ok := ins.(*ssa.Convert)
				if !ok {
					continue
				}
				bo, ok := cv.X.(*ssa.BinOp)
				if !ok || (bo.Op != token.ADD && bo.Op != token.SUB && bo.Op != token.MUL && bo.Op != token.SHL) {
					continue
				}
				from, to := intWidth(basicKind(bo.Type())), intWidth(basicKind(cv.Type()))
				if from != 32 || to != 64 {
					continue
				}
				// int / uint are 64 bits wide in this configuration but not a deliberate widening
				if k := basicKind(cv.Type()); k == types.Int || k == types.Uint {
					continue
				}
				out = append(out, narrowSite{f, cv, bo})
			}
		}
	}
	return out
}

func (p *Prog) narrowArith() []narrowSite {
	var out []narrowSite
	for _, f := range p.sourceFns() {
		for _, b := range f.Blocks {
			for _, ins := range b.Instrs {
				cv, ok := ins.(*ssa.Convert)
				if !ok {
					continue
				}
				bo, ok := cv.X.(*ssa.BinOp)
				if !ok || (bo.Op != token.ADD && bo.Op != token.SUB && bo.Op != token.MUL && bo.Op != token.SHL) {
					continue
				}
				from, to := intWidth(basicKind(bo.Type())), intWidth(basicKind(cv.Type()))
				if from != 16 || to <= from {
					continue
				}
				out = append(out, narrowSite{f, cv, bo})
			}
		}
	}
	return out
}

// Sites confirmed by reading where the 16-bit result cannot wrap, keyed by function and expression shape
// (exprShape: locals and parameters appear as their types, so renaming them or passing a value instead of
// a pointer keeps the key), one line of reason each. Anything else is reported.
var narrowArithAllowed = map[string]string{
	"(*roaring.Bitmap).NextAbsentValue|<uint16> + 1":                                                                                                     "guarded by containerKey < nextContainerKey, so containerKey <= 65534",
	"(*roaring.arrayContainer).nextAbsentValue|<searchResult>.(uint16) + 1":                                                                              "only when result.index == cardinality-2, so result.value < maximum <= 65535",
	"(*roaring.arrayContainer).nextAbsentValue|<*arrayContainer>.([]uint16)[<int>] - <uint16>":                                                           "midIndex > result.index and content is sorted, so content[midIndex] >= target",
	"(*roaring.arrayContainer).nextAbsentValue|<*arrayContainer>.([]uint16)[<int>] + 1":                                                                  "low < cardinality-1 on this path, so content[low] < maximum <= 65535",
	"(*roaring.arrayContainer).previousAbsentValue|<searchResult>.(uint16) - 1":                                                                          "result.index == 1, so result.value > minimum >= 0",
	"(*roaring.arrayContainer).previousAbsentValue|<uint16> - <*arrayContainer>.([]uint16)[<int>]":                                                       "midIndex < result.index and content is sorted, so content[midIndex] <= target",
	"(*roaring.arrayContainer).previousAbsentValue|<*arrayContainer>.([]uint16)[<int>] - 1":                                                              "high >= 1 on this path, so content[high] > minimum >= 0",
	"(*roaring.bitmapContainer).resetTo|<interval16>.(uint16) + <interval16>.(uint16)":                                                                   "interval invariant start+length <= 65535 (checked by validate for decoded data)",
	"(*roaring.runContainer16).deleteAt|<*runContainer16>.([]interval16)[<int>].(uint16) + <uint16>":                                                     "cursor position lies inside the interval: start+pos <= last <= 65535",
	"(*roaring.runContainer16).invert|<interval16>.last() + 1":                                                                                           "cur is not the last interval, so cur.last() < next.start <= 65535",
	"(*roaring.runContainer16).rank|<uint16> - <*runContainer16>.([]interval16)[<int>].(uint16)":                                                         "x lies inside interval w on this path (already == true)",
	"(*roaring.runIterator16).nextMany|<*runIterator16>.(*runContainer16).([]interval16)[<*runIterator16>.(int)].(uint16) - <*runIterator16>.(uint16)":   "guarded by length >= curPosInIndex",
	"(*roaring.runIterator16).nextMany|<*runIterator16>.(*runContainer16).([]interval16)[<*runIterator16>.(int)].(uint16) + <*runIterator16>.(uint16)":   "cursor position lies inside the interval",
	"(*roaring.runIterator16).nextMany64|<*runIterator16>.(*runContainer16).([]interval16)[<*runIterator16>.(int)].(uint16) - <*runIterator16>.(uint16)": "guarded by length >= curPosInIndex",
	"(*roaring.runIterator16).nextMany64|<*runIterator16>.(*runContainer16).([]interval16)[<*runIterator16>.(int)].(uint16) + <*runIterator16>.(uint16)": "cursor position lies inside the interval",
}

// Functions in which no 16-bit addition/subtraction may occur at all (whether or not it is widened
// afterwards), because their operands range over the full 0..65535 and the result is used as a key,
// a bound or a sentinel: the neighbour queries, the cursors of the key-space iterators, the frozen
// reader and the key-range partition of ParOr.
var narrowScope = []string{
	"(*roaring.Bitmap).NextValue", "(*roaring.Bitmap).PreviousValue", "(*roaring.Bitmap).NextAbsentValue", "(*roaring.Bitmap).PreviousAbsentValue",
	"(*roaring.arrayContainer).nextValue", "(*roaring.arrayContainer).previousValue", "(*roaring.arrayContainer).nextAbsentValue", "(*roaring.arrayContainer).previousAbsentValue",
	"(*roaring.bitmapContainer).nextValue", "(*roaring.bitmapContainer).previousValue", "(*roaring.bitmapContainer).nextAbsentValue", "(*roaring.bitmapContainer).previousAbsentValue",
	"(*roaring.runContainer16).nextValue", "(*roaring.runContainer16).previousValue", "(*roaring.runContainer16).nextAbsentValue", "(*roaring.runContainer16).previousAbsentValue",
	"(*roaring.roaringArray).frozenView", "(*roaring.roaringArray).readFrom",
	"roaring.ParOr", "roaring.ParAnd", "roaring.ParHeapOr", "roaring.lazyOrOnRange", "roaring.lazyIOrOnRange", "roaring.parNaiveStartAt",
	"(*roaring.unsetIterator).Next", "(*roaring.unsetIterator).init", "(*roaring.unsetIterator).AdvanceIfNeeded",
}

var narrowScopeAllowed = map[string]string{
	"(*roaring.Bitmap).NextAbsentValue|<uint16> + 1":                                               "guarded by containerKey < nextContainerKey",
	"(*roaring.Bitmap).PreviousAbsentValue|<uint16> - 1":                                           "containerIndex > 0 on this path and keys are strictly increasing, so containerKey >= 1",
	"(*roaring.arrayContainer).nextAbsentValue|<searchResult>.(uint16) + 1":                        "only when result.index == cardinality-2, so result.value < maximum",
	"(*roaring.arrayContainer).nextAbsentValue|<*arrayContainer>.([]uint16)[<int>] - <uint16>":     "content[midIndex] >= target (sorted, midIndex > result.index)",
	"(*roaring.arrayContainer).nextAbsentValue|<*arrayContainer>.([]uint16)[<int>] + 1":            "low < cardinality-1, so content[low] < maximum",
	"(*roaring.arrayContainer).previousAbsentValue|<searchResult>.(uint16) - 1":                    "result.index == 1, so result.value > minimum",
	"(*roaring.arrayContainer).previousAbsentValue|<uint16> - <*arrayContainer>.([]uint16)[<int>]": "content[midIndex] <= target",
	"(*roaring.arrayContainer).previousAbsentValue|<*arrayContainer>.([]uint16)[<int>] - 1":        "high >= 1, so content[high] > minimum",
	"(*roaring.bitmapContainer).nextAbsentValue|<uint16>++":                                        "x is a word index (< 1024)",
	"(*roaring.bitmapContainer).previousAbsentValue|<uint16>++":                                    "x is a word index (< 1024)",
	"(*roaring.unsetIterator).Next|<*unsetIterator>.(uint16)++":                                    "the wrap to 0 is the intended end-of-chunk test on the next line",
}

// The shape key abstracts from variable names, so it could cover a second, untriaged expression of the same
// shape in the same function: each key stands for exactly as many sites as were read (1 unless listed).
var narrowAllowedSites = map[string]int{
	"scope:(*roaring.arrayContainer).nextAbsentValue|<searchResult>.(uint16) + 1":     2, // the comparison and the return inside the same guard
	"scope:(*roaring.arrayContainer).previousAbsentValue|<searchResult>.(uint16) - 1": 2, // idem
	"scope:(*roaring.bitmapContainer).nextAbsentValue|<uint16>++":                     2, // statement before the loop and the loop's post statement
	"scope:(*roaring.bitmapContainer).previousAbsentValue|<uint16>++":                 2, // idem
}

func allowedCount(key string) int {
	if n, ok := narrowAllowedSites[key]; ok {
		return n
	}
	return 1
}

// Truncating conversions of arithmetic results inside the scoped functions that cannot exceed the key type.
var truncAllowed = map[string]string{}

func inNarrowScope(f *ssa.Function) bool {
	g := f
	for g.Parent() != nil {
		g = g.Parent()
	}
	n := fname(g)
	for _, s := range narrowScope {
		if n == s {
			return true
		}
	}
	return false
}

func ruleU1(p *Prog) *RuleResult {
	res := newResult("U1", ruleDoc["U1"], 1)
	per := map[string]int{}
	n := 0
	// the rule is a universally quantified "no such construct": the positive control is the count of
	// widen-then-add sites in the neighbour kernels, which must stay non-zero
	for _, f := range p.sourceFns() {
		for _, b := range f.Blocks {
			for _, ins := range b.Instrs {
				if bo, ok := ins.(*ssa.BinOp); ok && (bo.Op == token.ADD || bo.Op == token.SUB) {
					if cv, ok := bo.X.(*ssa.Convert); ok && intWidth(basicKind(cv.X.Type())) == 16 && intWidth(basicKind(bo.Type())) > 16 {
						n++
						if n <= 400 {
							per["widen-then-add:"+fname(f)]++
						}
					}
				}
			}
		}
	}
	for k, c := range per {
		res.ok(k, "-", fmt.Sprintf("%d widen-then-add site(s)", c))
	}
	// clause 2: no 16-bit add/sub at all inside the scoped functions
	truncSeen := map[string]int{}
	scopeSeen := map[string]int{}
	arithSeen := map[string]int{}
	resolved := 0
	seenScope := map[string]bool{}
	for _, f := range p.sourceFns() {
		if !inNarrowScope(f) {
			continue
		}
		g := f
		for g.Parent() != nil {
			g = g.Parent()
		}
		if !seenScope[fname(g)] {
			seenScope[fname(g)] = true
			resolved++
		}
		for _, b := range f.Blocks {
			for _, ins := range b.Instrs {
				bo, ok := ins.(*ssa.BinOp)
				if !ok || (bo.Op != token.ADD && bo.Op != token.SUB) || intWidth(basicKind(bo.Type())) != 16 {
					continue
				}
				c := fmt.Sprintf("%s|%s", fname(f), p.exprShape(bo.Pos()))
				if _, known := narrowScopeAllowed[c]; !known {
					// a key kept in a field of a small struct is the same operand as the key in a local
					if rc := fmt.Sprintf("%s|%s", fname(f), reducedShape(p.exprShape(bo.Pos()))); narrowScopeAllowed[rc] != "" {
						c = rc
					}
				}
				scopeSeen[c]++
				if why, ok := narrowScopeAllowed[c]; ok && scopeSeen[c] <= allowedCount("scope:"+c) {
					res.ok(fmt.Sprintf("scope:%s#%d", c, scopeSeen[c]), p.ipos(bo), "allowed: "+why)
				} else if ok {
					res.bad(fmt.Sprintf("scope:%s#%d", c, scopeSeen[c]), p.ipos(bo), fmt.Sprintf("one more 16-bit %s of the allow-listed shape than the %d site(s) that were triaged: read it and extend the table if it cannot wrap", bo.Op, allowedCount("scope:"+c)))
				} else {
					res.bad("scope:"+c, p.ipos(bo), fmt.Sprintf("16-bit %s inside a function whose operands range over the whole chunk/key space: the result wraps at 65535/0", bo.Op))
				}
			}
		}
	}
	if resolved < len(narrowScope)-6 {
		res.undecided("scope", "-", fmt.Sprintf("only %d of the %d scoped functions were found", resolved, len(narrowScope)))
	}
	// clause 3: inside the scoped functions (and the 64-bit ParOr, whose keys are uint32) no computed value is
	// truncated into the key type: uint16(a + i*b) wraps once the sum passes the last key. A conversion is fine
	// when its operand is bounded by a value of the narrow type (min(x, int(hKey))) or is not arithmetic.
	for _, f := range p.sourceFns() {
		g := f
		for g.Parent() != nil {
			g = g.Parent()
		}
		if !inNarrowScope(f) && fname(g) != "roaring64.ParOr" {
			continue
		}
		keyWidth := 16
		if fname(g) == "roaring64.ParOr" {
			keyWidth = 32
		}
		for _, b := range f.Blocks {
			for _, ins := range b.Instrs {
				cv, ok := ins.(*ssa.Convert)
				if !ok || intWidth(basicKind(cv.Type())) != keyWidth || intWidth(basicKind(cv.X.Type())) <= keyWidth {
					continue
				}
				bo, ok := cv.X.(*ssa.BinOp)
				if !ok || (bo.Op != token.ADD && bo.Op != token.SUB && bo.Op != token.MUL) {
					continue // extractions (x >> 16, x & 0xffff), minima, loads: not arithmetic that can pass the last key
				}
				c := fmt.Sprintf("trunc:%s|%s", fname(f), p.exprShape(bo.Pos()))
				truncSeen[c]++
				ck := fmt.Sprintf("%s#%d", c, truncSeen[c])
				if why, ok := truncAllowed[c]; ok {
					res.ok(ck, p.ipos(cv), "allowed: "+why)
				} else {
					res.bad(ck, p.ipos(cv), fmt.Sprintf("a computed value is truncated to %d bits to serve as a key: beyond the last key it wraps to a small one (a chunk that starts past the end of the key space then covers the whole range again)", keyWidth))
				}
			}
		}
	}
	for _, s := range p.narrowArith() {
		c := fmt.Sprintf("%s|%s", fname(s.f), p.exprShape(s.op.Pos()))
		arithSeen[c]++
		if why, ok := narrowArithAllowed[c]; ok {
			if arithSeen[c] <= allowedCount(c) {
				res.ok(fmt.Sprintf("%s#%d", c, arithSeen[c]), p.ipos(s.conv), "allowed: "+why)
			} else {
				res.bad(fmt.Sprintf("%s#%d", c, arithSeen[c]), p.ipos(s.conv), fmt.Sprintf("one more widened 16-bit %s of the allow-listed shape than the %d site(s) that were triaged", s.op.Op, allowedCount(c)))
			}
			continue
		}
		res.bad(c, p.ipos(s.conv), fmt.Sprintf("%s is computed in 16 bits and widened to %s afterwards: the result wraps at the chunk edge", s.op.Op, s.conv.Type()))
	}
	// the same one level up: 32-bit arithmetic widened to 64 bits afterwards wraps at the end of the universe
	// (uint64(rb.Maximum()+1) is 0 for a bitmap that contains 2^32-1)
	seen32 := map[string]int{}
	for _, s := range p.narrowArith32() {
		c := fmt.Sprintf("w32:%s|%s", fname(s.f), p.exprShape(s.op.Pos()))
		seen32[c]++
		if why, ok := narrowArith32Allowed[c]; ok && seen32[c] == 1 {
			res.ok(c, p.ipos(s.conv), "allowed: "+why)
			continue
		}
		res.bad(fmt.Sprintf("%s#%d", c, seen32[c]), p.ipos(s.conv), fmt.Sprintf("%s is computed in 32 bits and widened to %s afterwards: the result wraps at 2^32 (the +1 past the last value of the universe is lost)", s.op.Op, s.conv.Type()))
	}
	return res
}

// narrowArith32Allowed: sites confirmed by reading, keyed by function and expression shape.
var narrowArith32Allowed = map[string]string{
	"w32:(*roaring.runContainer16).Xor|<uint32> + 1": "w is a 16-bit value of a run widened to uint32: w+1 <= 65536",
}
