package main

import (
	"fmt"
	"go/token"
	"sort"
	"strings"

	"golang.org/x/tools/go/ssa"
)

func init() {
	register("U5", "a value is put back together from a chunk key and a 16-bit answer by combineLoHi32/16, which shifts the key itself: the key argument is the plain key, never a keyspace that has been shifted already (the second shift pushes the key out of the word and the answer loses its chunk)", ruleU5)
}

func ruleU5(p *Prog) *RuleResult {
	res := newResult("U5", ruleDoc["U5"], 3)
	fns := append([]*ssa.Function(nil), p.sourceFns()...)
	sort.Slice(fns, func(i, j int) bool { return fname(fns[i]) < fname(fns[j]) })
	// combiners: functions of two integer parameters returning lob | (hob << k)
	hobOf := map[*ssa.Function]int{}
	for _, f := range fns {
		if f.Blocks == nil || len(f.Blocks) != 1 || len(f.Params) != 2 || f.Signature.Recv() != nil {
			continue
		}
		ret, ok := f.Blocks[0].Instrs[len(f.Blocks[0].Instrs)-1].(*ssa.Return)
		if !ok || len(ret.Results) != 1 {
			continue
		}
		or, ok := stripConv(ret.Results[0]).(*ssa.BinOp)
		if !ok || or.Op != token.OR {
			continue
		}
		for _, side := range []ssa.Value{or.X, or.Y} {
			if sh, ok := stripConv(side).(*ssa.BinOp); ok && sh.Op == token.SHL {
				if k, isC := constIntVal(sh.Y); isC && k > 0 {
					for i, prm := range f.Params {
						if stripConv(sh.X) == ssa.Value(prm) {
							hobOf[f] = i
						}
					}
				}
			}
		}
	}
	if len(hobOf) == 0 {
		res.undecided("combiners", "-", "no function of the shape lob | (hob << k) found: re-anchor the rule")
		return res
	}
	shifted := func(v ssa.Value) ssa.Instruction {
		seen := map[ssa.Value]bool{}
		var walk func(v ssa.Value, d int) ssa.Instruction
		walk = func(v ssa.Value, d int) ssa.Instruction {
			if d > 6 || seen[v] {
				return nil
			}
			seen[v] = true
			switch x := v.(type) {
			case *ssa.Convert:
				return walk(x.X, d+1)
			case *ssa.ChangeType:
				return walk(x.X, d+1)
			case *ssa.Phi:
				for _, e := range x.Edges {
					if r := walk(e, d+1); r != nil {
						return r
					}
				}
			case *ssa.BinOp:
				if x.Op == token.SHL {
					if k, isC := constIntVal(x.Y); !isC || k > 0 {
						return x
					}
				}
			}
			return nil
		}
		return walk(v, 0)
	}
	for _, f := range fns {
		if f.Blocks == nil {
			continue
		}
		n := 0
		for _, b := range f.Blocks {
			for _, ins := range b.Instrs {
				call, ok := ins.(*ssa.Call)
				if !ok {
					continue
				}
				g := call.Call.StaticCallee()
				hi, isComb := hobOf[g]
				if g == nil || !isComb || hi >= len(call.Call.Args) {
					continue
				}
				n++
				c := fmt.Sprintf("%s|%s#%d", fname(f), strings.TrimPrefix(fname(g), "roaring."), n)
				if sh := shifted(call.Call.Args[hi]); sh != nil {
					res.bad(c, p.ipos(call), fmt.Sprintf("the key argument was shifted already at %s and %s shifts it again: the chunk key falls out of the word and the result keeps only the low part", p.ipos(sh), fname(g)))
				} else {
					res.ok(c, p.ipos(call), "key argument is an unshifted key")
				}
			}
		}
	}
	return res
}
