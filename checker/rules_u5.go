package main

import (
	"fmt"
	"go/token"
	"go/types"
	"sort"
	"strings"

	"golang.org/x/tools/go/ssa"
)

func init() {
	register("U5", "a value is put back together from a chunk key and a 16-bit answer by combineLoHi32/16, which shifts the key itself: the key argument is the plain key, never a keyspace that has been shifted already (the second shift pushes the key out of the word and the answer loses its chunk)", ruleU5)
}

func ruleU5(p *Prog) *RuleResult {
	res := newResult("U5", ruleDoc["U5"], 3)
	fns := append([]*ssa.Function(nil), p.sourceFns()...)
	sort.Slice(fns, func(i, j int) bool { return fname(fns[i]) < fname(fns[j]) })
	// combiners: functions of two integer parameters returning lob | (hob << k)
	hobOf := map[*ssa.Function]int{}
	for _, f := range fns {
		if f.Blocks == nil || len(f.Blocks) != 1 || len(f.Params) != 2 || f.Signature.Recv() != nil {
			continue
		}
		ret, ok := f.Blocks[0].Instrs[len(f.Blocks[0].Instrs)-1].(*ssa.Return)
		if !ok || len(ret.Results) != 1 {
			continue
		}
		or, ok := stripConv(ret.Results[0]).(*ssa.BinOp)
		if !ok || or.Op != token.OR {
			continue
		}
		for _, side := range []ssa.Value{or.X, or.Y} {
			if sh, ok := stripConv(side).(*ssa.BinOp); ok && sh.Op == token.SHL {
				if k, isC := constIntVal(sh.Y); isC && k > 0 {
					for i, prm := range f.Params {
						if stripConv(sh.X) == ssa.Value(prm) {
							hobOf[f] = i
						}
					}
				}
			}
		}
	}
	if len(hobOf) == 0 {
		res.undecided("combiners", "-", "no function of the shape lob | (hob << k) found: re-anchor the rule")
		return res
	}
	shifted := func(v ssa.Value) ssa.Instruction {
		seen := map[ssa.Value]bool{}
		var walk func(v ssa.Value, d int) ssa.Instruction
		walk = func(v ssa.Value, d int) ssa.Instruction {
			if d > 6 || seen[v] {
				return nil
			}
			seen[v] = true
			switch x := v.(type) {
			case *ssa.Convert:
				return walk(x.X, d+1)
			case *ssa.ChangeType:
				return walk(x.X, d+1)
			case *ssa.Phi:
				for _, e := range x.Edges {
					if r := walk(e, d+1); r != nil {
						return r
					}
				}
			case *ssa.BinOp:
				if x.Op == token.SHL {
					if k, isC := constIntVal(x.Y); !isC || k > 0 {
						return x
					}
				}
			}
			return nil
		}
		return walk(v, 0)
	}
	for _, f := range fns {
		if f.Blocks == nil {
			continue
		}
		n := 0
		for _, b := range f.Blocks {
			for _, ins := range b.Instrs {
				call, ok := ins.(*ssa.Call)
				if !ok {
					continue
				}
				g := call.Call.StaticCallee()
				hi, isComb := hobOf[g]
				if g == nil || !isComb || hi >= len(call.Call.Args) {
					continue
				}
				n++
				c := fmt.Sprintf("%s|%s#%d", fname(f), strings.TrimPrefix(fname(g), "roaring."), n)
				if sh := shifted(call.Call.Args[hi]); sh != nil {
					res.bad(c, p.ipos(call), fmt.Sprintf("the key argument was shifted already at %s and %s shifts it again: the chunk key falls out of the word and the result keeps only the low part", p.ipos(sh), fname(g)))
				} else {
					res.ok(c, p.ipos(call), "key argument is an unshifted key")
				}
			}
		}
	}
	// the same confusion in comparisons: a field that only ever holds a chunk base (key << 16: the iterators'
	// hs) is compared with a bare key (a widened 16-bit value, the result of highbits) — the two are on
	// different scales and the comparison is decided by the scale, not by the values
	baseField := map[string]int{} // field -> 1 all stores shifted, -1 some store not shifted
	for _, f := range fns {
		if f.Blocks == nil {
			continue
		}
		for _, b := range f.Blocks {
			for _, ins := range b.Instrs {
				st, ok := ins.(*ssa.Store)
				if !ok {
					continue
				}
				fa, ok := st.Addr.(*ssa.FieldAddr)
				if !ok {
					continue
				}
				bt, ok := st.Val.Type().Underlying().(*types.Basic)
				if !ok || (bt.Kind() != types.Uint32 && bt.Kind() != types.Uint64) {
					continue
				}
				name := fieldName(fa.X.Type(), fa.Field)
				if sh, ok := stripConv(st.Val).(*ssa.BinOp); ok && sh.Op == token.SHL {
					if k, isC := constIntVal(sh.Y); isC && (k == 16 || k == 32) {
						if baseField[name] == 0 {
							baseField[name] = 1
						}
						continue
					}
				}
				baseField[name] = -1
			}
		}
	}
	bareKey := func(v ssa.Value) bool {
		cv, ok := v.(*ssa.Convert)
		if !ok {
			return false
		}
		if bt, ok := cv.X.Type().Underlying().(*types.Basic); ok && bt.Kind() == types.Uint16 {
			return true
		}
		return false
	}
	for _, f := range fns {
		if f.Blocks == nil {
			continue
		}
		n := 0
		for _, b := range f.Blocks {
			for _, ins := range b.Instrs {
				cmp, ok := ins.(*ssa.BinOp)
				if !ok {
					continue
				}
				switch cmp.Op {
				case token.LSS, token.LEQ, token.GTR, token.GEQ, token.EQL, token.NEQ:
				default:
					continue
				}
				for _, pair := range [][2]ssa.Value{{cmp.X, cmp.Y}, {cmp.Y, cmp.X}} {
					ld, ok := pair[0].(*ssa.UnOp)
					if !ok {
						continue
					}
					fa, ok := ld.X.(*ssa.FieldAddr)
					if !ok || baseField[fieldName(fa.X.Type(), fa.Field)] != 1 {
						continue
					}
					n++
					c := fmt.Sprintf("%s|base field compared#%d", fname(f), n)
					if bareKey(pair[1]) {
						res.bad(c, p.ipos(cmp), "a field that holds a chunk base (key << 16) is compared with a bare 16-bit key: the scales differ by 2^16, so for every chunk but the first the comparison no longer says what it was written to say")
					} else {
						res.ok(c, p.ipos(cmp), "compared with a value on the same scale")
					}
				}
			}
		}
	}
	return res
}
