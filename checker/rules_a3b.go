package main

import (
	"fmt"
	"go/token"
	"go/types"
	"sort"
	"strings"

	"golang.org/x/tools/go/ssa"
)

func init() {
	register("A3.bsi", "planes of the 32-bit bit-sliced index are its own: every *roaring.Bitmap stored into BSI.bA or BSI.eBM is freshly built (NewBitmap, Clone, an aggregate's result) — never a caller's bitmap or another index's plane", ruleA3BSI)
}

// ruleA3BSI covers package BitSliceIndexing, whose planes are pointers. (roaring64.BSI holds Bitmap structs
// by value; copying those is rule A7.)
func ruleA3BSI(p *Prog) *RuleResult {
	res := newResult("A3.bsi", ruleDoc["A3.bsi"], 8)
	own := p.OWN()
	bsiPkg := pkgPathOf("BitSliceIndexing")
	isPlaneField := func(addr ssa.Value) (string, bool) {
		fa, ok := addr.(*ssa.FieldAddr)
		if !ok {
			return "", false
		}
		n := fieldName(fa.X.Type(), fa.Field)
		if strings.HasSuffix(n, "BSI.bA") || strings.HasSuffix(n, "BSI.eBM") {
			return n[strings.LastIndex(n, ".")+1:], true
		}
		return "", false
	}
	var fns []*ssa.Function
	for _, f := range p.sourceFns() {
		if fnPkgPath(f) == bsiPkg && f.Blocks != nil {
			fns = append(fns, f)
		}
	}
	sort.Slice(fns, func(i, j int) bool { return fname(fns[i]) < fname(fns[j]) })
	for _, f := range fns {
		// fresh(v): v is a bitmap pointer created by this call chain
		var fresh func(v ssa.Value, seen map[ssa.Value]bool) (bool, string)
		fresh = func(v ssa.Value, seen map[ssa.Value]bool) (bool, string) {
			if seen[v] {
				return true, ""
			}
			seen[v] = true
			switch x := v.(type) {
			case *ssa.Const:
				return true, ""
			case *ssa.Alloc:
				return true, ""
			case *ssa.Call:
				g := x.Call.StaticCallee()
				if g == nil {
					return false, "result of a dynamic call"
				}
				if sum := own.Sum(g); sum != nil && len(sum.ret) > 0 {
					r := sum.ret[0]
					if r.fresh && len(r.is) == 0 && len(r.isDeep) == 0 && !r.global {
						return true, ""
					}
					return false, "result of " + fname(g) + ", which may return one of its arguments"
				}
				return false, "result of " + g.String() + " (no summary)"
			case *ssa.Phi:
				for _, e := range x.Edges {
					if ok, why := fresh(e, seen); !ok {
						return false, why
					}
				}
				return true, ""
			case *ssa.Parameter:
				return false, "parameter " + x.Name() + " (a bitmap that belongs to the caller)"
			case *ssa.FreeVar:
				return false, "captured variable " + x.Name()
			case *ssa.UnOp:
				if x.Op == token.MUL {
					if al, ok := x.X.(*ssa.Alloc); ok {
						for _, r := range *al.Referrers() {
							if st, ok := r.(*ssa.Store); ok && st.Addr == al {
								if ok2, why := fresh(st.Val, seen); !ok2 {
									return false, why
								}
							}
						}
						return true, ""
					}
					return false, "a pointer loaded from memory (" + strings.TrimSpace(x.X.String()) + ")"
				}
			case *ssa.Extract:
				return fresh(x.Tuple, seen)
			}
			return false, "a value of unknown origin"
		}
		n := 0
		report := func(ins ssa.Instruction, what string, v ssa.Value) {
			n++
			c := fmt.Sprintf("%s|plane store %s#%d", fname(f), what, n)
			if ok, why := fresh(v, map[ssa.Value]bool{}); ok {
				res.ok(c, p.ipos(ins), "freshly built bitmap")
			} else {
				res.bad(c, p.ipos(ins), "the bitmap stored as a plane is "+why+": later updates of the index rewrite that bitmap, and changes to it change the index")
			}
		}
		isBitmapPtr := func(t types.Type) bool {
			pt, ok := t.Underlying().(*types.Pointer)
			if !ok {
				return false
			}
			nt, ok := pt.Elem().(*types.Named)
			return ok && nt.Obj().Name() == "Bitmap"
		}
		for _, b := range f.Blocks {
			for _, ins := range b.Instrs {
				switch x := ins.(type) {
				case *ssa.Store:
					if !isBitmapPtr(x.Val.Type()) {
						continue
					}
					// b.eBM = v
					if fld, ok := isPlaneField(x.Addr); ok {
						report(x, fld, x.Val)
						continue
					}
					// b.bA[i] = v
					if ia, ok := x.Addr.(*ssa.IndexAddr); ok {
						if ld, ok := ia.X.(*ssa.UnOp); ok && ld.Op == token.MUL {
							if fld, ok := isPlaneField(ld.X); ok {
								report(x, fld+"[i]", x.Val)
							}
						}
					}
				case *ssa.Call:
					// b.bA = append(b.bA, v...)
					bi, ok := x.Call.Value.(*ssa.Builtin)
					if !ok || bi.Name() != "append" || len(x.Call.Args) != 2 {
						continue
					}
					ld, ok := x.Call.Args[0].(*ssa.UnOp)
					if !ok || ld.Op != token.MUL {
						continue
					}
					fld, ok := isPlaneField(ld.X)
					if !ok {
						continue
					}
					// the variadic tail: a slice of a fresh array whose elements are stored one by one
					if sl, ok := x.Call.Args[1].(*ssa.Slice); ok {
						if al, ok := sl.X.(*ssa.Alloc); ok {
							for _, r := range *al.Referrers() {
								if ia, ok := r.(*ssa.IndexAddr); ok {
									for _, rr := range *ia.Referrers() {
										if st, ok := rr.(*ssa.Store); ok {
											report(st, "append("+fld+")", st.Val)
										}
									}
								}
							}
							continue
						}
					}
					n++
					res.bad(fmt.Sprintf("%s|plane store append(%s)#%d", fname(f), fld, n), p.ipos(x), "a whole slice of bitmaps of unknown origin is appended to the planes")
				}
			}
		}
	}
	return res
}
