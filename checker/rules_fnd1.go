package main

import (
	"fmt"
	"go/types"
	"sort"

	"golang.org/x/tools/go/ssa"
)

// FND1 — the position answered by a search is used only together with its "found" answer.
//
// The searches of this code base (runContainer16.search, slices.BinarySearch*, ...) answer
// (position, found): the position is that of the element when found and the insertion point
// otherwise. A caller that uses the position and drops the boolean treats an insertion point
// as a hit (removing a value that is not there deletes its neighbour).
func init() {
	register("FND1", "a call whose results are (integer position, bool found, ...) — the run search, slices.BinarySearch and the like — has its boolean consumed wherever its position (or position±k) indexes or bounds a slice: a position used as an element's place without the found answer is an insertion point taken for a hit; a position that is only compared or handed on (a lower bound for a cursor) is not covered", ruleFND1)
}

func ruleFND1(p *Prog) *RuleResult {
	res := newResult("FND1", ruleDoc["FND1"], 5)
	fns := append([]*ssa.Function(nil), p.sourceFns()...)
	sort.Slice(fns, func(i, j int) bool { return fname(fns[i]) < fname(fns[j]) })
	for _, f := range fns {
		n := 0
		for _, b := range f.Blocks {
			for _, ins := range b.Instrs {
				c, ok := ins.(*ssa.Call)
				if !ok {
					continue
				}
				tup, ok := c.Type().(*types.Tuple)
				if !ok || tup.Len() < 2 {
					continue
				}
				b0, ok0 := tup.At(0).Type().Underlying().(*types.Basic)
				b1, ok1 := tup.At(1).Type().Underlying().(*types.Basic)
				if !ok0 || !ok1 || b0.Info()&types.IsInteger == 0 || b1.Kind() != types.Bool {
					continue
				}
				g := c.Call.StaticCallee()
				if g == nil {
					continue
				}
				posUsed, fndUsed := false, false
				// the position counts as "taken for an element" when it (or position±k, a conversion, a phi of it)
				// indexes or bounds a slice; a position that is only compared or handed on as a cursor is a lower bound
				var asIndex func(v ssa.Value, d int, seen map[ssa.Value]bool) bool
				asIndex = func(v ssa.Value, d int, seen map[ssa.Value]bool) bool {
					if d > 5 || seen[v] || v.Referrers() == nil {
						return false
					}
					seen[v] = true
					for _, r := range *v.Referrers() {
						switch x := r.(type) {
						case *ssa.IndexAddr:
							if x.Index == v {
								return true
							}
						case *ssa.Index:
							if x.Index == v {
								return true
							}
						case *ssa.Slice:
							if x.Low == v || x.High == v {
								return true
							}
						case *ssa.BinOp:
							switch x.Op.String() {
							case "+", "-":
								if asIndex(x, d+1, seen) {
									return true
								}
							}
						case *ssa.Convert:
							if asIndex(x, d+1, seen) {
								return true
							}
						case *ssa.Phi:
							if asIndex(x, d+1, seen) {
								return true
							}
						}
					}
					return false
				}
				if c.Referrers() != nil {
					for _, r := range *c.Referrers() {
						if e, ok := r.(*ssa.Extract); ok && e.Referrers() != nil && len(*e.Referrers()) > 0 {
							if e.Index == 0 && asIndex(e, 0, map[ssa.Value]bool{}) {
								posUsed = true
							}
							if e.Index == 1 {
								fndUsed = true
							}
						}
					}
				}
				if !posUsed {
					continue
				}
				n++
				cn := fmt.Sprintf("%s|position of %s#%d", fname(f), g.Name(), n)
				if fndUsed {
					res.ok(cn, p.ipos(c), "the found answer is consumed too")
				} else {
					res.bad(cn, p.ipos(c), "the position is used and the found answer is dropped: an insertion point is taken for a hit")
				}
			}
		}
	}
	return res
}
