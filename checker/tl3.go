package main

import (
	"fmt"
	"go/token"
	"strings"

	"golang.org/x/tools/go/ssa"
)

// Rule F3 (empty-result elision), evaluated inside the TL engine because it needs slot provenance.

type emptyTest struct {
	call     *ssa.Call
	subj     ssa.Value // receiver of isEmpty, stripped
	emptyBlk *ssa.BasicBlock
	nonEmpty *ssa.BasicBlock
	ifBlk    *ssa.BasicBlock
}

func (t *tlFunc) emptinessTests() []emptyTest {
	var out []emptyTest
	for _, b := range t.fn.Blocks {
		if t.dead[b] {
			continue
		}
		for _, ins := range b.Instrs {
			c, ok := ins.(*ssa.Call)
			if !ok {
				continue
			}
			name := ""
			var recv ssa.Value
			if c.Call.IsInvoke() {
				name, recv = c.Call.Method.Name(), c.Call.Value
			} else if f := c.Call.StaticCallee(); f != nil && f.Signature.Recv() != nil && len(c.Call.Args) > 0 {
				name, recv = f.Name(), c.Call.Args[0]
			}
			if (name != "isEmpty" && name != "IsEmpty") || recv == nil || !t.e.lv.isSlotType(recv.Type()) {
				continue
			}
			refs := c.Referrers()
			if refs == nil {
				continue
			}
			// find the If that consumes the test (possibly through NOT)
			var walk func(v ssa.Value, neg bool)
			walk = func(v ssa.Value, neg bool) {
				if v.Referrers() == nil {
					return
				}
				for _, r := range *v.Referrers() {
					switch x := r.(type) {
					case *ssa.If:
						et := emptyTest{call: c, subj: stripAssert(recv), ifBlk: x.Block()}
						if neg {
							et.emptyBlk, et.nonEmpty = x.Block().Succs[1], x.Block().Succs[0]
						} else {
							et.emptyBlk, et.nonEmpty = x.Block().Succs[0], x.Block().Succs[1]
						}
						out = append(out, et)
					case *ssa.UnOp:
						if x.Op == token.NOT {
							walk(x, !neg)
						}
					}
				}
			}
			walk(c, false)
		}
	}
	return out
}

// slotOf: v is a (re)load of slot (tab, idx), directly or through an accessor.
func (t *tlFunc) slotOf(v ssa.Value) (string, ssa.Value, bool) {
	for _, a := range t.provOf(stripAssert(v)) {
		if a.k == aSlot && a.idx != nil {
			return a.tab, a.idx, true
		}
	}
	return "", nil, false
}

func (t *tlFunc) mayEmptyCall(c *ssa.CallCommon) (bool, string) {
	lv := t.e.lv
	if lv.name == "32" {
		if c.IsInvoke() && mayEmptyKernel32[c.Method.Name()] && lv.isSlotType(c.Value.Type()) {
			return true, c.Method.Name()
		}
		if f := c.StaticCallee(); f != nil && f.Signature.Recv() != nil && mayEmptyKernel32[f.Name()] && t.e.isKernelFn(f) {
			return true, f.Name()
		}
		return false, ""
	}
	if f := c.StaticCallee(); f != nil && mayEmptyBucket64[fname(f)] {
		return true, fname(f)
	}
	return false, ""
}

// mayEmptyHelper: a table-level helper of this package that hands a possibly empty kernel result back
// without testing it (summary flag); the caller is then in the position of having made that kernel call.
func (t *tlFunc) mayEmptyHelper(c *ssa.CallCommon) (bool, string) {
	f := c.StaticCallee()
	if f == nil || !t.e.inScope(f) || f.Blocks == nil || t.e.isKernelFn(f) {
		return false, ""
	}
	if s := t.e.summary(f, boolCtxArgs(t, f, c.Args)); s != nil && s.mayEmptyRet {
		return true, f.Name()
	}
	return false, ""
}

func (t *tlFunc) collectF3() {
	lv := t.e.lv
	tests := t.emptinessTests()
	per := map[string]int{}
	// a bucket that comes in as a parameter and is put into the table as it is (Roaring32AsRoaring64) may be
	// empty: the store needs an emptiness test on that parameter
	tableMethod := t.fn.Signature.Recv() != nil && lv.isTableRef(t.fn.Signature.Recv().Type())
	if lv.name == "64" && !tableMethod { // the table's own insertion helpers leave the test to their callers
		for _, prm := range t.fn.Params {
			if !lv.isSlotType(prm.Type()) {
				continue
			}
			k := 0
			t.resultUses(prm, func(u ssa.Instruction, kind, utab string, uidx ssa.Value) {
				if kind != "slot" {
					return
				}
				k++
				site := &tlSite{rule: "F3", fn: t.fn, ctx: t.ctxS, instr: u, what: fmt.Sprintf("parameter %s stored as a bucket#%d", prm.Name(), k)}
				guarded := false
				for _, et := range tests {
					if et.subj == ssa.Value(prm) && dominatesEdge(et.ifBlk, et.nonEmpty, u.Block()) {
						guarded = true
					}
				}
				if guarded {
					site.status, site.note = "ok", "behind an IsEmpty test on the parameter"
				} else {
					site.status, site.note = "violation", "the caller's 32-bit bitmap is stored as a bucket without an IsEmpty test: an empty argument leaves an empty bucket in the table (IsEmpty() false with cardinality 0, Validate fails)"
				}
				t.e.addSite(site)
			})
		}
	}
	for _, b := range t.fn.Blocks {
		if t.dead[b] {
			continue
		}
		for _, ins := range b.Instrs {
			call, ok := ins.(*ssa.Call)
			if !ok {
				continue
			}
			may, opName := t.mayEmptyCall(&call.Call)
			viaHelper := false
			if !may {
				if may, opName = t.mayEmptyHelper(&call.Call); !may {
					continue
				}
				viaHelper = true
			}
			_, args := t.callTargets(&call.Call)
			if len(args) == 0 {
				continue
			}
			recv := args[0]
			if viaHelper && (call.Type() == nil || !lv.isSlotType(call.Type())) {
				continue
			}
			// subject: the result when it is a slot value, else the receiver (in-place bucket operations)
			var subj ssa.Value
			resultIsSlot := false
			if call.Type() != nil && lv.isSlotType(call.Type()) {
				subj, resultIsSlot = call, true
			} else if lv.isSlotType(recv.Type()) {
				subj = recv
			} else {
				continue
			}
			// does the subject live in a table?
			inTable, tab := false, ""
			var idx ssa.Value
			if lv.isSlotType(recv.Type()) {
				for _, a := range t.provOf(recv) {
					if a.k == aGate || a.k == aSlot {
						inTable, tab = true, a.tab
					}
				}
			}
			// stores / escapes of the result
			type use struct {
				ins  ssa.Instruction
				kind string
				tab  string
				idx  ssa.Value
			}
			var uses []use
			if resultIsSlot {
				t.resultUses(call, func(u ssa.Instruction, kind, utab string, uidx ssa.Value) {
					uses = append(uses, use{u, kind, utab, uidx})
				})
			} else if !inTable {
				// an in-place operation on a bucket that is not in a table yet (c := NewBitmap(); c.Flip(..)):
				// the stores of that bucket which come after the operation are the ones to guard
				t.resultUses(stripAssert(recv), func(u ssa.Instruction, kind, utab string, uidx ssa.Value) {
					if u.Block() == call.Block() {
						after := false
						for _, x := range call.Block().Instrs {
							if x == ssa.Instruction(call) {
								after = true
							}
							if x == u && !after {
								return
							}
						}
					} else if !blockReaches(call.Block(), u.Block()) {
						return
					}
					uses = append(uses, use{u, kind, utab, uidx})
				})
			}
			if !inTable && len(uses) == 0 {
				continue // a temporary that never reaches a table
			}
			per[opName]++
			what := fmt.Sprintf("may-empty %s#%d", opName, per[opName])
			site := &tlSite{rule: "F3", fn: t.fn, ctx: t.ctxS, instr: call, what: what}
			// tests on the subject, or on a reload of the slot it was stored to / came from
			base := stripAssert(subj)
			var mine []emptyTest
			for _, et := range tests {
				if et.subj == base || sameThroughPhi(et.subj, base) {
					mine = append(mine, et)
					continue
				}
				if st, si, ok := t.slotOf(et.subj); ok {
					for _, u := range uses {
						if u.kind == "slot" && u.tab == st && u.idx == si {
							mine = append(mine, et)
						}
					}
					if inTable && st == tab && (idx == nil || idx == si) && len(uses) == 0 {
						mine = append(mine, et)
					}
				}
			}
			if len(mine) == 0 && resultIsSlot && t.returnsValue(call) && !isExportedAPI(t.fn) {
				// handed back to the caller untested: the obligation travels with the value
				if !t.sum.mayEmptyRet {
					t.sum.mayEmptyRet = true
					t.e.changed = true
				}
				onlyReturned := true
				for _, u := range uses {
					if u.kind == "slot" {
						onlyReturned = false
					}
				}
				if onlyReturned {
					site.status, site.note = "ok", "returned to the caller untested: the caller's store is checked instead"
					t.e.addSite(site)
					continue
				}
			}
			if len(mine) == 0 && !isExportedAPI(t.fn) && len(uses) == 0 {
				// the helper asks the bucket whether it is empty and returns the answer: the decision is its
				// callers', each of which must branch on that answer
				if ans := t.emptinessAnswerReturned(base); ans != nil {
					if bad := callersIgnoringAnswer(t.e, t.fn); bad == "" {
						site.status, site.note = "ok", "the emptiness of the bucket is returned to the caller ("+t.e.p.ipos(ans)+"), and every caller branches on it"
					} else {
						site.status, site.note = "violation", "the emptiness of the bucket is returned to the caller, but "+bad+" does not branch on the answer"
					}
					t.e.addSite(site)
					continue
				}
			}
			if len(mine) == 0 {
				site.status = "violation"
				site.note = fmt.Sprintf("the result of %s may be empty and %s a slot table, but it is never tested with isEmpty", opName, map[bool]string{true: "stays in", false: "is stored into"}[inTable && len(uses) == 0])
				t.e.addSite(site)
				continue
			}
			var bad []string
			for _, u := range uses {
				ok := false
				for _, et := range mine {
					if dominatesEdge(et.ifBlk, et.nonEmpty, u.ins.Block()) {
						ok = true
					}
					// nil-sentinel idiom (ParAnd): the stored value is phi(result on the non-empty edge, nil on the empty edge)
					if !ok {
						if st, isStore := u.ins.(*ssa.Store); isStore {
							if ph, isPhi := st.Val.(*ssa.Phi); isPhi && phiGuarded(ph, et) {
								ok = true
							}
						}
					}
					// store first, test after (Remove idiom): the test follows in the same block or post-dominates, and its empty edge removes the slot
					if !ok && (et.ifBlk == u.ins.Block() || straightLineTo(u.ins.Block(), et.ifBlk)) && t.removesSlot(et.emptyBlk, u.tab) {
						ok = true
					}
				}
				if !ok {
					bad = append(bad, fmt.Sprintf("%s at %s is not guarded by the emptiness test", u.kind+"-store", t.e.p.ipos(u.ins)))
				}
			}
			if len(bad) > 0 {
				site.status, site.note = "violation", strings.Join(bad, "; ")
			} else {
				site.status = "ok"
				site.note = fmt.Sprintf("%d emptiness test(s), %d guarded store(s)", len(mine), len(uses))
			}
			t.e.addSite(site)
		}
	}
}

func sameThroughPhi(a, b ssa.Value) bool {
	if p, ok := a.(*ssa.Phi); ok {
		for _, e := range p.Edges {
			if stripAssert(e) == b {
				return true
			}
		}
	}
	if p, ok := b.(*ssa.Phi); ok {
		for _, e := range p.Edges {
			if stripAssert(e) == a {
				return true
			}
		}
	}
	return false
}

func dominatesEdge(ifBlk, succ, b *ssa.BasicBlock) bool {
	if len(succ.Preds) != 1 {
		return false
	}
	return succ.Dominates(b)
}

func straightLineTo(from, to *ssa.BasicBlock) bool {
	cur := from
	for i := 0; i < 4 && len(cur.Succs) == 1; i++ {
		cur = cur.Succs[0]
		if cur == to {
			return true
		}
	}
	return false
}

// removesSlot: block blk performs a structural removal on table tab (a call whose callee shifts the key array).
func (t *tlFunc) removesSlot(blk *ssa.BasicBlock, tab string) bool {
	lv := t.e.lv
	for _, ins := range blk.Instrs {
		c, ok := ins.(*ssa.Call)
		if !ok {
			continue
		}
		f := c.Call.StaticCallee()
		if f == nil || len(c.Call.Args) == 0 {
			continue
		}
		if !lv.isTableRef(c.Call.Args[0].Type()) || t.root(c.Call.Args[0]) != tab {
			continue
		}
		if s := t.e.own.Sum(f); s != nil {
			if e := s.mut[0]; e != nil {
				if _, ok := e.cells[lv.cellKeys]; ok {
					return true
				}
			}
		}
	}
	return false
}

// resultUses enumerates where the result of a call ends up: slot stores (raw or through the
// slot-store API), struct fields, channels. Follows phis and interface conversions.
func (t *tlFunc) resultUses(v ssa.Value, f func(ins ssa.Instruction, kind, tab string, idx ssa.Value)) {
	lv := t.e.lv
	seen := map[ssa.Value]bool{}
	var walk func(x ssa.Value)
	walk = func(x ssa.Value) {
		if seen[x] || x.Referrers() == nil {
			return
		}
		seen[x] = true
		for _, r := range *x.Referrers() {
			switch u := r.(type) {
			case *ssa.Phi:
				walk(u)
			case *ssa.MakeInterface:
				walk(u)
			case *ssa.ChangeInterface:
				walk(u)
			case *ssa.TypeAssert:
				walk(u)
			case *ssa.Extract:
				walk(u)
			case *ssa.Store:
				if u.Val != x {
					continue
				}
				if tab, fld, idx, ok := t.tableElemAddr(u.Addr); ok && fld == lv.fCont {
					f(u, "slot", tab, idx)
				} else if _, ok := u.Addr.(*ssa.FieldAddr); ok {
					f(u, "field", "", nil)
				} else if ia, ok := u.Addr.(*ssa.IndexAddr); ok {
					// element of a local array built for a variadic append into a table
					if al, ok := ia.X.(*ssa.Alloc); ok {
						for _, rr := range *al.Referrers() {
							if sl, ok := rr.(*ssa.Slice); ok {
								for _, r3 := range *sl.Referrers() {
									if c, ok := r3.(*ssa.Call); ok {
										if bi, ok := c.Call.Value.(*ssa.Builtin); ok && bi.Name() == "append" {
											if tab, fld, ok := t.tableSlice(c.Call.Args[0]); ok && fld == lv.fCont {
												f(c, "slot", tab, nil)
											} else if lv.isSlotSlice(c.Type()) {
												f(c, "slice", "", nil)
											}
										}
									}
								}
							}
						}
					} else if lv.isSlotSlice(ia.X.Type()) {
						f(u, "slice", "", nil)
					}
				}
			case *ssa.Send:
				if u.X == x {
					f(u, "chan", "", nil)
				}
			case *ssa.Call:
				callee := u.Call.StaticCallee()
				if callee == nil || !t.e.inScope(callee) || callee.Blocks == nil {
					continue
				}
				s := t.e.summary(callee, boolCtxArgs(t, callee, u.Call.Args))
				for _, rq := range s.reqs {
					if rq.valParam < len(u.Call.Args) && u.Call.Args[rq.valParam] == x && rq.tabParam < len(u.Call.Args) {
						var idx ssa.Value
						if rq.idxParam >= 0 && rq.idxParam < len(u.Call.Args) {
							idx = u.Call.Args[rq.idxParam]
						}
						f(u, "slot", t.root(u.Call.Args[rq.tabParam])+rq.tabPath, idx)
					}
				}
			}
		}
	}
	walk(v)
}

// phiGuarded: every non-nil incoming value of ph arrives on the non-empty edge of the test.
func phiGuarded(ph *ssa.Phi, et emptyTest) bool {
	n := 0
	for i, e := range ph.Edges {
		if isNilConst(e) {
			continue
		}
		n++
		pred := ph.Block().Preds[i]
		if pred == et.ifBlk && ph.Block() == et.nonEmpty {
			continue
		}
		if dominatesEdge(et.ifBlk, et.nonEmpty, pred) {
			continue
		}
		return false
	}
	return n > 0
}

// returnsValue: v (possibly through phis and interface conversions) is a result of the enclosing function.
func (t *tlFunc) returnsValue(v ssa.Value) bool {
	seen := map[ssa.Value]bool{}
	var walk func(x ssa.Value) bool
	walk = func(x ssa.Value) bool {
		if seen[x] || x.Referrers() == nil {
			return false
		}
		seen[x] = true
		for _, r := range *x.Referrers() {
			switch u := r.(type) {
			case *ssa.Return:
				return true
			case *ssa.Phi:
				if walk(u) {
					return true
				}
			case *ssa.MakeInterface:
				if walk(u) {
					return true
				}
			case *ssa.ChangeInterface:
				if walk(u) {
					return true
				}
			}
		}
		return false
	}
	return walk(v)
}

// collectF13: an in-place kernel that returns a container may return a different one (an array that grew
// into a bitmap container, a bitmap that shrank into an array, re-minimised runs). When its receiver sits
// in a table slot, the result has to go back into the table (or be handed back to the caller): a result
// that is only inspected leaves the old container in the slot.
func (t *tlFunc) collectF13() {
	lv := t.e.lv
	if lv.name != "32" {
		return
	}
	per := map[string]int{}
	for _, b := range t.fn.Blocks {
		if t.dead[b] {
			continue
		}
		for _, ins := range b.Instrs {
			call, ok := ins.(*ssa.Call)
			if !ok || call.Type() == nil || !lv.isSlotType(call.Type()) {
				continue
			}
			name := ""
			var recv ssa.Value
			if call.Call.IsInvoke() {
				name, recv = call.Call.Method.Name(), call.Call.Value
			} else if f := call.Call.StaticCallee(); f != nil && f.Signature.Recv() != nil && len(call.Call.Args) > 0 && t.e.isKernelFn(f) {
				name, recv = f.Name(), call.Call.Args[0]
			}
			if recv == nil || !inplaceContainerMethods[name] || !lv.isSlotType(recv.Type()) {
				continue
			}
			inTable := false
			for _, a := range t.provOf(recv) {
				if a.k == aGate || a.k == aSlot {
					inTable = true
				}
			}
			if !inTable {
				continue
			}
			per[name]++
			site := &tlSite{rule: "F13", fn: t.fn, ctx: t.ctxS, instr: call, what: fmt.Sprintf("result of %s#%d", name, per[name])}
			stored := false
			t.resultUses(call, func(u ssa.Instruction, kind, utab string, uidx ssa.Value) {
				stored = true
			})
			if !stored && t.returnsValue(call) {
				stored = true
			}
			if !stored {
				// carried into the next iteration of a loop and stored there (AddMany)
				seen := map[ssa.Value]bool{}
				var viaPhi func(v ssa.Value, d int)
				viaPhi = func(v ssa.Value, d int) {
					if d > 4 || seen[v] || v.Referrers() == nil {
						return
					}
					seen[v] = true
					for _, r := range *v.Referrers() {
						if ph, ok := r.(*ssa.Phi); ok {
							t.resultUses(ph, func(u ssa.Instruction, kind, utab string, uidx ssa.Value) { stored = true })
							viaPhi(ph, d+1)
						}
					}
				}
				viaPhi(call, 0)
			}
			if stored {
				site.status, site.note = "ok", "the returned container is stored (or handed back to the caller)"
			} else {
				site.status, site.note = "violation", fmt.Sprintf("the container returned by %s is never stored back into the table: when the kernel re-types the chunk (array <-> bitmap <-> run) the new container is lost and the slot keeps the old one", name)
			}
			t.e.addSite(site)
		}
	}
}

// emptinessAnswerReturned: a call isEmpty()/IsEmpty() on the subject whose boolean result the function returns
func (t *tlFunc) emptinessAnswerReturned(subj ssa.Value) *ssa.Call {
	for _, b := range t.fn.Blocks {
		if t.dead[b] {
			continue
		}
		for _, ins := range b.Instrs {
			c, ok := ins.(*ssa.Call)
			if !ok || c.Referrers() == nil {
				continue
			}
			name := ""
			var recv ssa.Value
			if c.Call.IsInvoke() {
				name, recv = c.Call.Method.Name(), c.Call.Value
			} else if f := c.Call.StaticCallee(); f != nil && f.Signature.Recv() != nil && len(c.Call.Args) > 0 {
				name, recv = f.Name(), c.Call.Args[0]
			}
			if (name != "isEmpty" && name != "IsEmpty") || recv == nil {
				continue
			}
			if r := stripAssert(recv); r != subj && !sameThroughPhi(r, subj) {
				continue
			}
			for _, r := range *c.Referrers() {
				if ret, ok := r.(*ssa.Return); ok {
					for _, rv := range ret.Results {
						if rv == ssa.Value(c) {
							return c
						}
					}
				}
			}
		}
	}
	return nil
}

// callersIgnoringAnswer: a static caller of f (in scope) whose use of f's result is not a branch condition
func callersIgnoringAnswer(e *tlEngine, f *ssa.Function) string {
	n := 0
	for _, g := range e.fns {
		for _, b := range g.Blocks {
			for _, ins := range b.Instrs {
				c, ok := ins.(*ssa.Call)
				if !ok || c.Call.StaticCallee() != f {
					continue
				}
				n++
				branches := false
				var walk func(v ssa.Value, d int)
				walk = func(v ssa.Value, d int) {
					if d > 3 || v.Referrers() == nil {
						return
					}
					for _, r := range *v.Referrers() {
						switch x := r.(type) {
						case *ssa.If:
							branches = true
						case *ssa.UnOp:
							walk(x, d+1)
						case *ssa.Extract:
							walk(x, d+1)
						case *ssa.Return:
							// handed further up: accepted only if the caller is itself unexported (one more level)
							if !isExportedAPI(g) {
								branches = callersIgnoringAnswer(e, g) == ""
							}
						}
					}
				}
				walk(c, 0)
				if !branches {
					return fname(g)
				}
			}
		}
	}
	if n == 0 {
		return "no caller"
	}
	return ""
}
