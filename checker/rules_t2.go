package main

import (
	"fmt"
	"go/token"
	"go/types"
	"sort"

	"golang.org/x/tools/go/ssa"
)

func init() {
	register("T2", "a total that a decoder adds up from counts found in its input (element counts of 65536 containers reach 2^32) and then compares with the length of the buffer is kept in a type that has 64 bits on every target: int has 32 bits on 386/arm, the sum wraps, the 'buffer too small' test passes and the slicing that follows panics", ruleT2)
}

func ruleT2(p *Prog) *RuleResult {
	res := newResult("T2", ruleDoc["T2"], 2)
	fns := append([]*ssa.Function(nil), p.sourceFns()...)
	sort.Slice(fns, func(i, j int) bool { return fname(fns[i]) < fname(fns[j]) })
	t2Callers = map[*ssa.Function][]*ssa.Call{}
	for _, g := range fns {
		if g.Blocks == nil {
			continue
		}
		for _, b := range g.Blocks {
			for _, ins := range b.Instrs {
				if c, ok := ins.(*ssa.Call); ok {
					if callee := c.Call.StaticCallee(); callee != nil {
						t2Callers[callee] = append(t2Callers[callee], c)
					}
				}
			}
		}
	}
	for _, f := range fns {
		if f.Blocks == nil {
			continue
		}
		takesBytes := false
		for _, prm := range f.Params {
			if sl, ok := prm.Type().Underlying().(*types.Slice); ok {
				if bt, ok := sl.Elem().Underlying().(*types.Basic); ok && bt.Kind() == types.Uint8 {
					takesBytes = true
				}
			}
		}
		if !takesBytes {
			continue
		}
		n := 0
		for _, b := range f.Blocks {
			for _, ins := range b.Instrs {
				ph, ok := ins.(*ssa.Phi)
				if !ok {
					break
				}
				bt, ok := ph.Type().Underlying().(*types.Basic)
				if !ok || bt.Info()&types.IsInteger == 0 {
					continue
				}
				// an accumulator: some edge is (phi-web) + addend with a data-dependent addend
				dataAdd := false
				seen := map[ssa.Value]bool{}
				var walk func(v ssa.Value, d int)
				walk = func(v ssa.Value, d int) {
					if d > 6 || seen[v] {
						return
					}
					seen[v] = true
					switch x := v.(type) {
					case *ssa.Phi:
						for _, e := range x.Edges {
							walk(e, d+1)
						}
					case *ssa.BinOp:
						if x.Op == token.ADD {
							// one side leads back to the accumulator, the other is the addend
							if reaches(x.X, ph, 6) && !isConstExpr(x.Y) {
								if fromLoad(x.Y, 4) {
									dataAdd = true
								}
								walk(x.X, d+1)
							} else if reaches(x.X, ph, 6) {
								walk(x.X, d+1)
							}
						}
					}
				}
				for _, e := range ph.Edges {
					walk(e, 0)
				}
				if !dataAdd {
					continue
				}
				// compared (possibly after scaling / summing) with a length?
				if !flowsToLenCompare(ph, 0, map[ssa.Value]bool{}) {
					continue
				}
				n++
				c := fmt.Sprintf("%s|total %s#%d", fname(f), ph.Comment, n)
				if bt.Kind() == types.Int64 || bt.Kind() == types.Uint64 {
					res.ok(c, p.ipos(ph), "summed in "+bt.Name())
				} else {
					res.bad(c, p.ipos(ph), fmt.Sprintf("the total is summed in %s, which has 32 bits on 386/arm: with counts taken from the input it wraps, the comparison with the buffer length passes and the slicing behind it panics", bt.Name()))
				}
			}
		}
	}
	return res
}

func reaches(v, target ssa.Value, d int) bool {
	if v == target {
		return true
	}
	if d == 0 {
		return false
	}
	switch x := v.(type) {
	case *ssa.Phi:
		for _, e := range x.Edges {
			if e == target {
				return true
			}
		}
		for _, e := range x.Edges {
			if _, isPhi := e.(*ssa.Phi); isPhi && reaches(e, target, d-1) {
				return true
			}
			if bo, ok := e.(*ssa.BinOp); ok && reaches(bo, target, d-1) {
				return true
			}
		}
	case *ssa.BinOp:
		return reaches(x.X, target, d-1)
	}
	return false
}

func isConstExpr(v ssa.Value) bool {
	_, ok := stripConv(v).(*ssa.Const)
	return ok
}

// fromLoad: v is (a conversion / small arithmetic of) a value loaded from a slice element.
func fromLoad(v ssa.Value, d int) bool {
	if d == 0 {
		return false
	}
	switch x := v.(type) {
	case *ssa.Convert:
		return fromLoad(x.X, d-1)
	case *ssa.BinOp:
		return fromLoad(x.X, d-1) || fromLoad(x.Y, d-1)
	case *ssa.UnOp:
		if x.Op == token.MUL {
			_, ok := x.X.(*ssa.IndexAddr)
			return ok
		}
	}
	return false
}

// flowsToLenCompare: v, scaled and summed, is an operand of an ordering comparison whose other side is len(...).
func flowsToLenCompare(v ssa.Value, d int, seen map[ssa.Value]bool) bool {
	if d > 6 || seen[v] || v.Referrers() == nil {
		return false
	}
	seen[v] = true
	isLen := func(x ssa.Value) bool {
		c, ok := stripConv(x).(*ssa.Call)
		if !ok {
			return false
		}
		bi, ok := c.Call.Value.(*ssa.Builtin)
		return ok && bi.Name() == "len"
	}
	for _, r := range *v.Referrers() {
		switch x := r.(type) {
		case *ssa.BinOp:
			switch x.Op {
			case token.LSS, token.LEQ, token.GTR, token.GEQ, token.NEQ, token.EQL:
				if isLen(x.X) || isLen(x.Y) {
					return true
				}
			case token.ADD, token.MUL, token.SHL, token.SUB:
				if flowsToLenCompare(x, d+1, seen) {
					return true
				}
			}
		case *ssa.Convert:
			if flowsToLenCompare(x, d+1, seen) {
				return true
			}
		case *ssa.Phi:
			if flowsToLenCompare(x, d+1, seen) {
				return true
			}
		case *ssa.Return:
			// handed back to the caller (a tally helper): follow the result at every static call site
			f := x.Parent()
			for ri, rv := range x.Results {
				if rv != v {
					continue
				}
				for _, site := range t2Callers[f] {
					if site.Referrers() == nil {
						continue
					}
					if len(x.Results) == 1 {
						if flowsToLenCompare(site, d+1, seen) {
							return true
						}
						continue
					}
					for _, rr := range *site.Referrers() {
						if ex, ok := rr.(*ssa.Extract); ok && ex.Index == ri && flowsToLenCompare(ex, d+1, seen) {
							return true
						}
					}
				}
			}
		}
	}
	return false
}

// t2Callers: static call sites per callee, filled by ruleT2.
var t2Callers = map[*ssa.Function][]*ssa.Call{}
