// rbverify decides structural clauses of the properties in /verif/properties.jsonl
// for RoaringBitmap/roaring by static analysis of /repo's current source.
// Nothing from /repo is executed.
package main

import (
	"encoding/json"
	"flag"
	"fmt"
	"os"
	"path/filepath"
	"runtime/debug"
	"sort"
	"strconv"
	"strings"
	"time"
)

type ruleFn func(p *Prog) *RuleResult

var ruleTable = map[string]ruleFn{}
var ruleDoc = map[string]string{}

func register(id, doc string, fn ruleFn) {
	ruleTable[id] = fn
	ruleDoc[id] = doc
}

func main() {
	prop := flag.String("property", "", "property id (C01..C20)")
	tier := flag.String("tier", "", "quick|thorough (default $VERIF_TIER or quick)")
	explain := flag.String("explain", "", "print a replay file")
	rule := flag.String("rule", "", "debug: run a single rule and print its obligations")
	dump := flag.String("dump", "", "debug: dump OWN summaries of functions whose name contains this")
	listRules := flag.Bool("list", false, "list rules and the properties they serve")
	tldump := flag.String("tl", "", "debug: dump TL summaries at level 32|64 (optionally level:filter)")
	all := flag.Bool("all", false, "debug: run every registered rule once and print the findings")
	manifest := flag.Bool("manifest", false, "regenerate /verif/MANIFEST.json from the property table")
	flag.Parse()
	if a := os.Getenv("RB_ARCH"); a != "" { // debug: run the single-configuration modes on another architecture
		cfgAmd64 = BuildConfig{Name: "linux/" + a, GOARCH: a}
	}
	// go/packages resolves the "go" command through this process's PATH
	os.Setenv("PATH", "/opt/veriftools/go1.26.8/bin:"+os.Getenv("PATH"))

	if *explain != "" {
		b, err := os.ReadFile(*explain)
		if err != nil {
			fmt.Println(err)
			os.Exit(2)
		}
		fmt.Println(string(b))
		return
	}
	if *manifest {
		writeManifest()
		return
	}
	if *listRules {
		var ids []string
		for id := range ruleTable {
			ids = append(ids, id)
		}
		sort.Strings(ids)
		for _, id := range ids {
			var ps []string
			for _, pr := range propOrder {
				for _, r := range propRules[pr].Rules {
					if r == id {
						ps = append(ps, pr)
					}
				}
			}
			fmt.Printf("%-10s %-40s %s\n", id, strings.Join(ps, ","), ruleDoc[id])
		}
		return
	}
	t := *tier
	if t == "" {
		t = os.Getenv("VERIF_TIER")
	}
	if t != "thorough" {
		t = "quick"
	}
	if *all {
		p, err := Load(cfgAmd64, nil)
		if err != nil {
			fmt.Println("LOAD ERROR:", err)
			os.Exit(2)
		}
		var ids []string
		for id := range ruleTable {
			ids = append(ids, id)
		}
		sort.Strings(ids)
		if only := os.Getenv("RB_ONLY"); only != "" { // debug: restrict -all to a comma-separated list of rules
			ids = nil
			for _, id := range strings.Split(only, ",") {
				if ruleTable[id] != nil {
					ids = append(ids, id)
				}
			}
		}
		total := 0
		for _, id := range ids {
			res := func() (res *RuleResult) {
				defer func() {
					if r := recover(); r != nil {
						res = newResult(id, "", 0)
						res.undecided("panic", "-", fmt.Sprint(r))
					}
				}()
				return ruleTable[id](p)
			}()
			if len(res.Obs) < res.MinExpected {
				res.undecided("liveness", "-", fmt.Sprintf("%d < %d", len(res.Obs), res.MinExpected))
			}
			fmt.Printf("RULE %-10s obligations=%d findings=%d\n", id, len(res.Obs), len(res.Findings))
			for _, f := range res.Findings {
				msg := f.Msg
				if len(msg) > 300 {
					msg = msg[:300]
				}
				fmt.Printf("  FINDING %s @%s: %s\n", f.Key, f.Pos, msg)
				total++
			}
		}
		fmt.Printf("TOTAL findings=%d\n", total)
		return
	}
	if os.Getenv("RB_DEBUG_NARROW32") != "" {
		p, _ := Load(cfgAmd64, nil)
		for _, s := range p.narrowArith32() {
			fmt.Println(fname(s.f), p.ipos(s.conv), p.exprShape(s.op.Pos()))
		}
		return
	}
	if os.Getenv("RB_DEBUG_NARROW") != "" {
		p, _ := Load(cfgAmd64, nil)
		for _, l := range p.allNarrow16() {
			fmt.Println(l)
		}
		return
	}
	if *tldump != "" {
		p, err := Load(cfgAmd64, nil)
		if err != nil {
			fmt.Println("LOAD ERROR:", err)
			os.Exit(2)
		}
		parts := strings.SplitN(*tldump, ":", 2)
		e, err := p.TL(parts[0])
		if err != nil {
			fmt.Println(err)
			os.Exit(2)
		}
		var ks []string
		for k := range e.sums {
			ks = append(ks, k)
		}
		sort.Strings(ks)
		for _, k := range ks {
			if len(parts) > 1 && !strings.Contains(k, parts[1]) {
				continue
			}
			s := e.sums[k]
			fmt.Printf("%s\n   ret=%v pair=%v establish=%v%v reqs=%v flagLoad=%v flagSet=%v markAll=%v\n", strings.ReplaceAll(k, modPath, "roaring"), s.ret, s.pair, s.establish, s.estPaths, s.reqs, s.flagLoad, s.flagSet, s.markAll)
			for tab, w := range s.mutTab {
				fmt.Printf("      mutTab %s  <- %s\n", tab, w)
			}
			fmt.Printf("      retTab %v\n", s.retTab)
		}
		fmt.Println("fields:")
		for k, v := range e.field {
			fmt.Println("  ", k, v.list())
		}
		for k, v := range e.chanJ {
			fmt.Println("   chan", k, v.list())
		}
		return
	}
	if *dump != "" || *rule != "" {
		p, err := Load(cfgAmd64, nil)
		if err != nil {
			fmt.Println("LOAD ERROR:", err)
			os.Exit(2)
		}
		if *dump != "" {
			p.OWN().dump(*dump)
		}
		if *rule != "" {
			fn := ruleTable[*rule]
			if fn == nil {
				fmt.Println("no such rule")
				os.Exit(2)
			}
			res := fn(p)
			sortObs(res.Obs)
			for _, o := range res.Obs {
				fmt.Printf("%-10s %-9s %-70s %s  %s\n", o.Rule, o.Status, o.Construct, o.Pos, o.Note)
			}
			for _, f := range res.Findings {
				fmt.Printf("FINDING %s @%s: %s\n", f.Key, f.Pos, f.Msg)
				for _, w := range f.Witness {
					fmt.Println("    ", w)
				}
			}
			fmt.Printf("%d obligations, %d findings (min expected %d)\n", len(res.Obs), len(res.Findings), res.MinExpected)
		}
		return
	}
	if *prop == "" {
		fmt.Println("usage: rbverify -property Cnn [-tier quick|thorough]")
		os.Exit(2)
	}
	os.Exit(runProperty(*prop, t))
}

func seedFromEnv() int {
	n, _ := strconv.Atoi(os.Getenv("VERIF_SEED"))
	return n
}

// runProperty runs all rules mapped to a property and writes its evidence file.
func runProperty(prop, tier string) (exit int) {
	start := time.Now()
	spec, ok := propRules[prop]
	if !ok {
		fmt.Printf("unknown property %s\n", prop)
		return 2
	}
	evPath := filepath.Join(verifDir(), "evidence", prop+".json")
	replayDir := filepath.Join(verifDir(), "evidence", "replay")

	var findings []Finding
	var obs []Obligation
	perRule := map[string]map[string]int{}
	assume := map[string]bool{}
	extra := map[string]any{}
	var configs []string

	addInternal := func(key, msg string) {
		findings = append(findings, Finding{Rule: "INTERNAL", Key: "INTERNAL|" + key, Pos: "-", Msg: msg, Undecided: true})
	}

	runOn := func(cfg BuildConfig, overlay map[string][]byte) {
		defer func() {
			if r := recover(); r != nil {
				addInternal("panic:"+cfg.Name, fmt.Sprintf("checker panicked on %s: %v\n%s", cfg.Name, r, debug.Stack()))
			}
		}()
		p, err := Load(cfg, overlay)
		if err != nil {
			addInternal("load:"+cfg.Name, err.Error())
			return
		}
		configs = append(configs, fmt.Sprintf("%s: %d repo packages, %d repo functions", cfg.Name, len(p.Pkgs), len(p.RepoFns)))
		for _, id := range spec.Rules {
			if cfg.Name == cfgAppengine.Name && littleEndianOnly[id] {
				continue // the rule speaks about the zero-copy / frozen code that the portable build does not contain
			}
			fn := ruleTable[id]
			if fn == nil {
				addInternal("norule:"+id, "rule "+id+" is mapped but not registered")
				continue
			}
			res := func() (res *RuleResult) {
				defer func() {
					if r := recover(); r != nil {
						res = newResult(id, "", 0)
						res.undecided("panic", "-", fmt.Sprintf("rule panicked: %v\n%s", r, debug.Stack()))
					}
				}()
				return fn(p)
			}()
			if len(res.Obs) < res.MinExpected || len(res.Obs) == 0 {
				res.undecided("liveness", "-", fmt.Sprintf("rule enumerated %d instances, expected at least %d (anchors moved or renamed?)", len(res.Obs), max(res.MinExpected, 1)))
			}
			suffix := ""
			if cfg.Name != cfgAmd64.Name {
				suffix = "@" + cfg.Name
			}
			cnt := perRule[id+suffix]
			if cnt == nil {
				cnt = map[string]int{}
				perRule[id+suffix] = cnt
			}
			for _, o := range res.Obs {
				cnt[o.Status]++
				if cfg.Name == cfgAmd64.Name {
					obs = append(obs, o)
				}
			}
			seen := map[string]bool{}
			for _, f := range findings {
				seen[f.Key] = true
			}
			for _, f := range res.Findings {
				if !seen[f.Key] {
					findings = append(findings, f)
					seen[f.Key] = true
				}
			}
			for _, a := range res.Assumptions {
				assume[a] = true
			}
			if cfg.Name == cfgAmd64.Name {
				for k, v := range res.Extra {
					extra[id+"."+k] = v
				}
			}
		}
	}

	runOn(cfgAmd64, nil)
	var selftest []string
	if tier == "thorough" {
		runOn(cfgArm64, nil)
		runOn(cfg386, nil)
		runOn(cfgAppengine, nil)
		st, stFind := runSelfTests(prop, spec)
		selftest = st
		findings = append(findings, stFind...)
	}

	// classify findings against the known-findings file
	kf, err := loadKnown()
	if err != nil {
		addInternal("known", err.Error())
		kf = &KnownFile{}
	}
	os.RemoveAll(replayDir + "/" + prop)
	var unknown []Finding
	var known []string
	sort.SliceStable(findings, func(i, j int) bool { return findings[i].Key < findings[j].Key })
	for _, f := range findings {
		if e := kf.lookup(prop, f.Key); e != nil && !f.Undecided {
			known = append(known, f.Key)
			fmt.Printf("KNOWN-FINDING: property=%s %s [%s @%s]\n", prop, e.What, f.Key, f.Pos)
			continue
		}
		unknown = append(unknown, f)
	}
	for i, f := range unknown {
		path := filepath.Join(replayDir, prop, fmt.Sprintf("%s-%d-%s.json", prop, i, sanitize(f.Key)))
		_ = writeJSON(path, map[string]any{"property": prop, "finding": f, "how_to_read": "rule = DESIGN.md §3 rule id; key = rule|function|construct; pos = file:line in /repo at the time of the run; witness = chain of calls/stores that justify the report"})
		fmt.Printf("%s %s @%s: %s\n", f.Rule, f.Key, f.Pos, f.Msg)
		for _, w := range f.Witness {
			fmt.Printf("      %s\n", w)
		}
		fmt.Printf("VIOLATION property=%s replay=%s\n", prop, path)
	}

	// evidence
	sortObs(obs)
	nOK := 0
	for _, o := range obs {
		if o.Status == "ok" {
			nOK++
		}
	}
	var samples []any
	perRuleSeen := map[string]int{}
	for _, o := range obs {
		if perRuleSeen[o.Rule] < 4 {
			samples = append(samples, o)
			perRuleSeen[o.Rule]++
		}
	}
	var rulesDesc []string
	for _, id := range spec.Rules {
		rulesDesc = append(rulesDesc, id+": "+ruleDoc[id])
	}
	var as []string
	for a := range assume {
		as = append(as, a)
	}
	as = append(as, globalAssumptions...)
	sort.Strings(as)
	cov := map[string]any{
		"explanation":       spec.Explanation,
		"decided_clauses":   spec.Decided,
		"not_decided":       spec.NotDecided,
		"rules":             rulesDesc,
		"obligations":       len(obs),
		"discharged":        nOK,
		"per_rule":          perRule,
		"build_configs":     configs,
		"samples":           samples,
		"all_obligations":   obs,
		"known_findings":    known,
		"checker_cmd":       "/verif/check.sh " + prop + " " + tier,
		"trusted_base":      []string{"go/types, go/ssa (x/tools v0.50.0)", "go1.26.8 go list", "rbverify rule implementations (/verif/checker)"},
		"exhaustive":        false,
		"rule_extra":        extra,
		"selftest_overlays": selftest,
	}
	ev := Evidence{PropertyID: prop, Tier: tier, Seed: seedFromEnv(), Level: "other", Coverage: cov, Assumptions: as,
		WallS: time.Since(start).Seconds(), Violations: len(unknown)}
	if err := writeJSON(evPath, ev); err != nil {
		fmt.Println("cannot write evidence:", err)
		return 2
	}
	fmt.Printf("%s tier=%s: %d obligations over %d rules, %d discharged, %d known findings, %d violations, %.1fs\n",
		prop, tier, len(obs), len(spec.Rules), nOK, len(known), len(unknown), time.Since(start).Seconds())
	if len(unknown) > 0 {
		return 1
	}
	return 0
}

// Rules about code that exists only in the little-endian build (serialization_littleendian.go:
// reinterpreting casts, frozen format). The portable build (-tags appengine) copies instead.
var littleEndianOnly = map[string]bool{"UNS1": true, "UNS2": true, "T2": true, "A4": true, "L4": true, "B3": true, "L5": true, "L1": true, "T1": true, "L6": true}

var globalAssumptions = []string{
	"assembly routines (popcount AVX2/NEON, arm64 union2by2) read their slice arguments, write only their declared output buffer, and retain nothing",
	"the caller does not mutate a bitmap concurrently with an operation on it",
	"no reflection, cgo or linkname reaches repo state (none present in the analysed packages)",
}

func mustJSON(v any) string { b, _ := json.Marshal(v); return string(b) }
