package main

import (
	"fmt"
	"go/token"
	"go/types"
	"sort"

	"golang.org/x/tools/go/ssa"
)

func init() {
	register("U13", "a chunk key computed in signed 32-bit arithmetic (key + offset) is cut to uint16 only where comparisons on that same expression bound it on both sides on the way (>= 0 and <= 65535, or the complementary tests failing): a key beyond 65535 wraps into the key space and the shifted chunk is filed under the wrong key", ruleU13)
}

// sameExpr: structurally equal pure integer expressions
func sameExpr(a, b ssa.Value, d int) bool {
	if a == b {
		return true
	}
	if d > 4 {
		return false
	}
	switch x := a.(type) {
	case *ssa.Const:
		y, ok := b.(*ssa.Const)
		if !ok {
			return false
		}
		cx, ok1 := constIntVal(x)
		cy, ok2 := constIntVal(y)
		return ok1 && ok2 && cx == cy
	case *ssa.BinOp:
		y, ok := b.(*ssa.BinOp)
		return ok && x.Op == y.Op && sameExpr(x.X, y.X, d+1) && sameExpr(x.Y, y.Y, d+1)
	case *ssa.Convert:
		y, ok := b.(*ssa.Convert)
		return ok && types.Identical(x.Type(), y.Type()) && sameExpr(x.X, y.X, d+1)
	}
	return false
}

func ruleU13(p *Prog) *RuleResult {
	res := newResult("U13", ruleDoc["U13"], 2)
	fns := append([]*ssa.Function(nil), p.sourceFns()...)
	sort.Slice(fns, func(i, j int) bool { return fname(fns[i]) < fname(fns[j]) })
	kind := func(t types.Type) types.BasicKind {
		if bt, ok := t.Underlying().(*types.Basic); ok {
			return bt.Kind()
		}
		return types.Invalid
	}
	// bounds: the comparisons on expressions equal to e that hold where block b is entered
	bounds := func(f *ssa.Function, e ssa.Value, b *ssa.BasicBlock) (lower, upper string) {
		for _, b2 := range f.Blocks {
			iff, ok := b2.Instrs[len(b2.Instrs)-1].(*ssa.If)
			if !ok {
				continue
			}
			for _, src := range sliceBack(iff.Cond, func(v ssa.Value) bool {
				bo, ok := v.(*ssa.BinOp)
				if !ok {
					return false
				}
				switch bo.Op {
				case token.LSS, token.LEQ, token.GTR, token.GEQ:
					return sameExpr(bo.X, e, 0) || sameExpr(bo.Y, e, 0)
				}
				return false
			}) {
				bo := src.(*ssa.BinOp)
				onLeft := sameExpr(bo.X, e, 0)
				upperOnTrue := (onLeft && (bo.Op == token.LSS || bo.Op == token.LEQ)) || (!onLeft && (bo.Op == token.GTR || bo.Op == token.GEQ))
				t, el := b2.Succs[0], b2.Succs[1]
				domT := len(t.Preds) == 1 && (t == b || t.Dominates(b))
				domE := len(el.Preds) == 1 && (el == b || el.Dominates(b))
				if domT {
					if upperOnTrue {
						upper = p.ipos(iff)
					} else {
						lower = p.ipos(iff)
					}
				}
				if domE {
					if upperOnTrue {
						lower = p.ipos(iff)
					} else {
						upper = p.ipos(iff)
					}
				}
			}
		}
		return
	}
	for _, f := range fns {
		if f.Blocks == nil {
			continue
		}
		n := 0
		for _, b := range f.Blocks {
			for _, ins := range b.Instrs {
				cv, ok := ins.(*ssa.Convert)
				if !ok || kind(cv.Type()) != types.Uint16 || kind(cv.X.Type()) != types.Int32 {
					continue
				}
				n++
				cn := fmt.Sprintf("%s|signed key cut to uint16#%d", fname(f), n)
				lower, upper := bounds(f, cv.X, b)
				// the key handed to an unexported helper: bounded at each of its call sites
				if prm, isP := cv.X.(*ssa.Parameter); isP && (lower == "" || upper == "") && !token.IsExported(f.Name()) {
					qi := -1
					for i, q := range f.Params {
						if q == prm {
							qi = i
						}
					}
					sites, all := 0, true
					for _, h := range fns {
						for _, hb := range h.Blocks {
							for _, in2 := range hb.Instrs {
								ci, ok := in2.(ssa.CallInstruction)
								if !ok || ci.Common().StaticCallee() != f || qi < 0 || qi >= len(ci.Common().Args) {
									continue
								}
								sites++
								l2, u2 := bounds(h, ci.Common().Args[qi], hb)
								if (lower == "" && l2 == "") || (upper == "" && u2 == "") {
									all = false
								}
							}
						}
					}
					if sites > 0 && all {
						res.ok(cn, p.ipos(cv), fmt.Sprintf("a parameter of an unexported helper, bounded on both sides at each of its %d call sites", sites))
						continue
					}
				}
				if lower != "" && upper != "" {
					res.ok(cn, p.ipos(cv), fmt.Sprintf("bounded below (%s) and above (%s)", lower, upper))
				} else {
					miss := "below"
					if lower != "" {
						miss = "above"
					} else if upper == "" {
						miss = "on either side"
					}
					res.bad(cn, p.ipos(cv), "the signed key is not bounded "+miss+" by a comparison on the way to the cut")
				}
			}
		}
	}
	return res
}
