package main

import (
	"fmt"
	"go/constant"
	"go/types"

	"golang.org/x/tools/go/ssa"
)

func init() {
	register("F2.repair", "the per-container repair step of the parallel aggregates re-types every bitmap container: on every path on which repairAfterLazy(c) hands a bitmap container back, a test has shown that its cardinality exceeds 4096 (the workers promote small array/run chunks to bitmap containers with a valid cardinality, so the test may not depend on the lazy sentinel)", ruleF2Repair)
}

func ruleF2Repair(p *Prog) *RuleResult {
	res := newResult("F2.repair", ruleDoc["F2.repair"], 1)
	f := p.Func("roaring.repairAfterLazy")
	thrC := p.Const("roaring", "arrayDefaultMaxSize")
	bct := p.Type("roaring", "bitmapContainer")
	if f == nil || thrC == nil || bct == nil || len(f.Params) != 1 {
		res.undecided("roaring.repairAfterLazy", "-", "anchor not found")
		return res
	}
	thr, _ := constant.Int64Val(thrC.Val())
	bcPtr := types.NewPointer(bct)
	prm := f.Params[0]
	// the type-switch case for *bitmapContainer
	var ta *ssa.TypeAssert
	var caseBlk *ssa.BasicBlock
	for _, b := range f.Blocks {
		for _, ins := range b.Instrs {
			if x, ok := ins.(*ssa.TypeAssert); ok && x.X == ssa.Value(prm) && x.CommaOk && types.Identical(x.AssertedType, bcPtr) {
				ta = x
			}
		}
		if ifi, ok := b.Instrs[len(b.Instrs)-1].(*ssa.If); ok && ta != nil && caseBlk == nil {
			if ex, ok := ifi.Cond.(*ssa.Extract); ok && ex.Tuple == ssa.Value(ta) && ex.Index == 1 {
				caseBlk = b.Succs[0]
			}
		}
	}
	if ta == nil || caseBlk == nil {
		// the switch may have become dispatch through an unexported interface: `if r, ok := c.(I); ok { return r.m() }`
		// with (*bitmapContainer).m as the former case body
		for _, b := range f.Blocks {
			for _, ins := range b.Instrs {
				x, ok := ins.(*ssa.TypeAssert)
				if !ok || x.X != ssa.Value(prm) {
					continue
				}
				iface, ok := x.AssertedType.Underlying().(*types.Interface)
				if !ok || iface.NumMethods() == 0 {
					continue
				}
				if !types.Implements(bcPtr, iface) {
					continue
				}
				for i := 0; i < iface.NumMethods(); i++ {
					sel := p.SSA.MethodSets.MethodSet(bcPtr).Lookup(iface.Method(i).Pkg(), iface.Method(i).Name())
					if sel == nil {
						continue
					}
					if m := p.SSA.MethodValue(sel); m != nil && m.Blocks != nil && m.Signature.Results().Len() == 1 {
						f, prm = m, m.Params[0]
						ta, caseBlk = nil, m.Blocks[0]
					}
				}
			}
		}
		if caseBlk == nil {
			res.undecided("roaring.repairAfterLazy|bitmap case", p.pos(f.Pos()), "no type-switch case for *bitmapContainer on the parameter, and no interface dispatch that *bitmapContainer implements")
			return res
		}
	}
	var tv ssa.Value
	if ta != nil {
		for _, r := range *ta.Referrers() {
			if ex, ok := r.(*ssa.Extract); ok && ex.Index == 0 {
				tv = ex
			}
		}
	} else {
		tv = prm // the method's receiver is the bitmap container itself
	}
	n := 0
	for _, b := range f.Blocks {
		ret, ok := b.Instrs[len(b.Instrs)-1].(*ssa.Return)
		if !ok || len(ret.Results) != 1 {
			continue
		}
		// does this return hand back the parameter (still a bitmap container)?
		givesBack := false
		switch v := ret.Results[0].(type) {
		case *ssa.Parameter:
			givesBack = v == prm
		case *ssa.MakeInterface:
			givesBack = tv != nil && v.X == tv
		case *ssa.Phi:
			for _, e := range v.Edges {
				if e == ssa.Value(prm) {
					givesBack = true
				}
			}
		}
		if !givesBack {
			continue
		}
		// paths from the bitmap case into this return
		var entries []*ssa.BasicBlock
		if caseBlk.Dominates(b) {
			entries = append(entries, b)
		} else {
			for _, pr := range b.Preds {
				if caseBlk.Dominates(pr) {
					entries = append(entries, pr)
				}
			}
		}
		for _, e := range entries {
			n++
			c := fmt.Sprintf("roaring.repairAfterLazy|bitmap container handed back#%d", n)
			guard := tv
			if guard == nil && ta != nil {
				guard = ta
			}
			okG, why := p.exceedsThreshold(guard, e, thr)
			if !okG && e != b {
				// the test may be the branch that leads from e into the return block
				if edgeEstablishes(e, b, guard, bcPtr, thr) {
					okG, why = true, "cardinality test on the edge into the return"
				}
			}
			if okG {
				res.ok(c, p.ipos(ret), why)
			} else {
				res.bad(c, p.ipos(ret), fmt.Sprintf("a path through the *bitmapContainer case returns the container without a test that it holds more than %d values (%s): ParOr/ParHeapOr promote small chunks to bitmap containers whose cardinality is valid, so they would be kept as 8 kB bitmap containers", thr, why))
			}
		}
	}
	if n == 0 {
		res.undecided("roaring.repairAfterLazy|bitmap container handed back", p.pos(f.Pos()), "no path hands the bitmap container back: the function was restructured, re-anchor the rule")
	}
	return res
}
