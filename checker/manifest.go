package main

import (
	"fmt"
	"os"
	"sort"
	"strings"
)

// writeManifest regenerates /verif/MANIFEST.json from the property table so that the claimed
// rules, the level notes and the not_applicable list can never drift from what the checker runs.
func writeManifest() {
	type lvl struct {
		Category  string `json:"category"`
		Text      string `json:"text"`
		DesignRef string `json:"design_ref"`
	}
	type check struct {
		PropertyID  string `json:"property_id"`
		QuickCmd    string `json:"quick_cmd"`
		ThoroughCmd string `json:"thorough_cmd"`
		Evidence    string `json:"evidence_file"`
		Replay      string `json:"replay_cmd_template"`
		Engine      string `json:"engine"`
		Level       lvl    `json:"level_claimed"`
		LevelNote   string `json:"level_note"`
		Technique   string `json:"technique"`
	}
	type na struct {
		PropertyID string `json:"property_id"`
		Reason     string `json:"reason"`
	}
	var checks []check
	var nas []na
	engines := map[string][]string{}
	for _, id := range propOrder {
		sp := propRules[id]
		if sp == nil || len(sp.Rules) == 0 {
			reason := "no structural clause of this property is decided by the checker yet"
			if sp != nil && sp.NAReason != "" {
				reason = sp.NAReason
			}
			nas = append(nas, na{id, reason})
			continue
		}
		text := "Decides, on every path and call site of the current source, these structural clauses (each a necessary condition of the property): " +
			strings.Join(sp.Decided, "; ") + ". Does NOT decide the behaviour itself: " + strings.Join(sp.NotDecided, "; ") +
			". Level 'other' because the verdict is a static argument over code shape, not an exploration of inputs."
		checks = append(checks, check{
			PropertyID:  id,
			QuickCmd:    "/verif/check.sh " + id + " quick",
			ThoroughCmd: "/verif/check.sh " + id + " thorough",
			Evidence:    "/verif/evidence/" + id + ".json",
			Replay:      "/verif/bin/rbverify -explain {path}",
			Engine:      "rbverify",
			Level:       lvl{"other", text, "DESIGN.md §4 " + id + ", rules " + strings.Join(sp.Rules, ", ")},
			LevelNote: "Trusted: go/types + go/ssa (x/tools v0.50.0), the rule implementations in /verif/checker, the anchor tables in model.go. Assumed: " +
				strings.Join(globalAssumptions, "; ") + ". A rule that cannot resolve an anchor or classify a construct reports UNDECIDED and the check fails.",
			Technique: sp.Technique,
		})
		for _, r := range sp.Rules {
			e := strings.SplitN(r, ".", 2)[0]
			engines[e] = append(engines[e], id)
		}
	}
	type eng struct {
		Name   string   `json:"name"`
		Path   string   `json:"path"`
		Serves []string `json:"serves_properties"`
		Kind   string   `json:"kind_free_text"`
	}
	var allServed []string
	for _, c := range checks {
		allServed = append(allServed, c.PropertyID)
	}
	sort.Strings(allServed)
	m := map[string]any{
		"version":   1,
		"setup_cmd": "cd /verif/checker && GOFLAGS=-mod=mod GOPROXY=off GOSUMDB=off GOTOOLCHAIN=local GOWORK=off PATH=/opt/veriftools/go1.26.8/bin:$PATH go build -o /verif/bin/rbverify .",
		"hooks": map[string]any{
			"guard":            "verif",
			"enable":           "none needed: the checks are static and nothing in /repo is instrumented",
			"baseline_off_cmd": "/verif/tools/baseline.sh /repo",
			"source_commits":   []string{},
			"add_only":         true,
		},
		"engines": []eng{{Name: "rbverify", Path: "/verif/checker", Serves: allServed,
			Kind: "repository-specific static analyser on go/packages + go/types + go/ssa (ownership/effect summaries, provenance typestate, error/dominance rules, AST/constant layout rules)"}},
		"checks":         checks,
		"not_applicable": nas,
		"notes":          "All claims are at level 'other': each check decides named structural clauses of its property (DESIGN.md §4) from /repo's current source on every run and never executes roaring code. Known findings: /verif/known_findings.json. Demonstrations of the defects found: /verif/findings/demos (documentation, not a check).",
	}
	if nas == nil {
		m["not_applicable"] = []na{}
	}
	if err := writeJSON(verifDir()+"/MANIFEST.json", m); err != nil {
		fmt.Println(err)
		os.Exit(2)
	}
	fmt.Printf("MANIFEST.json: %d checks, %d not_applicable\n", len(checks), len(nas))
}
