package main

import (
	"fmt"
	"sort"
	"strings"

	"golang.org/x/tools/go/ssa"
)

func init() {
	register("A2.stale", "the write gate hands back the container to write: getWritableContainerAtIndex may replace the slot by a clone, so a container that was read from that slot before the gate call is the old, possibly shared one — after a gate call on (table, i) no value read earlier from that slot is used as the receiver or argument of a call, or stored", ruleA2Stale)
}

func ruleA2Stale(p *Prog) *RuleResult {
	res := newResult("A2.stale", ruleDoc["A2.stale"], 20)
	for _, lvl := range []string{"32", "64"} {
		e, err := p.TL(lvl)
		if err != nil {
			res.undecided("anchors:"+lvl, "-", err.Error())
			continue
		}
		fns := append([]*ssa.Function(nil), e.fns...)
		sort.Slice(fns, func(i, j int) bool { return fname(fns[i]) < fname(fns[j]) })
		for _, f := range fns {
			if f.Blocks == nil {
				continue
			}
			t := e.funcState(f)
			n := 0
			order := map[ssa.Instruction]int{}
			k := 0
			for _, b := range f.Blocks {
				for _, ins := range b.Instrs {
					order[ins] = k
					k++
				}
			}
			before := func(a, b ssa.Instruction) bool { // a executes before b on every path to b
				if a.Block() == b.Block() {
					return order[a] < order[b]
				}
				return a.Block().Dominates(b.Block())
			}
			for _, b := range f.Blocks {
				for _, ins := range b.Instrs {
					g, ok := ins.(*ssa.Call)
					if !ok {
						continue
					}
					callee := g.Call.StaticCallee()
					if callee == nil {
						continue
					}
					args := g.Call.Args
					targs := t.tableArgs(args)
					if len(targs) == 0 {
						continue
					}
					s := e.summary(callee, boolCtxArgs(t, callee, args))
					if s == nil {
						continue
					}
					for ei, est := range s.establish {
						tab, ok := targs[est[0]]
						if !ok || est[1] >= len(args) {
							continue
						}
						tab += s.estPaths[ei]
						idx := args[est[1]]
						n++
						c := fmt.Sprintf("%s|gate %s#%d", fname(f), callee.Name(), n)
						bad := ""
						// values read from (tab, idx) before the gate
						for _, b2 := range f.Blocks {
							for _, i2 := range b2.Instrs {
								v, isV := i2.(ssa.Value)
								if !isV || i2 == ssa.Instruction(g) || !before(i2, g) {
									continue
								}
								if _, isCall := i2.(*ssa.Call); !isCall {
									if _, isLoad := i2.(*ssa.UnOp); !isLoad {
										continue
									}
								}
								if !e.lv.isSlotType(v.Type()) {
									continue
								}
								isOld := false
								for _, a := range t.prov1(v) {
									if a.k == aSlot && a.tab == tab && a.idx == idx {
										isOld = true
									}
								}
								if !isOld || v.Referrers() == nil {
									continue
								}
								for _, u := range *v.Referrers() {
									if u == ssa.Instruction(g) || !before(g, u) {
										continue
									}
									switch x := u.(type) {
									case *ssa.Call:
										if !mayWriteThrough(p, x, v) {
											continue // a read of the old container (its cardinality, a membership test) harms nobody
										}
										bad = fmt.Sprintf("the container read from the slot at %s is used at %s, after the gate at %s may have replaced the slot by a clone: the write goes to the old, possibly shared container", p.ipos(i2), p.ipos(x), p.ipos(g))
									case *ssa.Store:
										if x.Val == v {
											bad = fmt.Sprintf("the container read from the slot at %s is stored at %s, after the gate at %s may have replaced the slot", p.ipos(i2), p.ipos(x), p.ipos(g))
										}
									case *ssa.MakeInterface, *ssa.Phi, *ssa.TypeAssert, *ssa.ChangeInterface:
										// followed one step: a call on the converted value
										if uv, ok := u.(ssa.Value); ok && uv.Referrers() != nil {
											for _, u2 := range *uv.Referrers() {
												if c2, ok := u2.(*ssa.Call); ok && before(g, c2) && mayWriteThrough(p, c2, uv) {
													bad = fmt.Sprintf("the container read from the slot at %s is used at %s, after the gate at %s may have replaced the slot by a clone", p.ipos(i2), p.ipos(c2), p.ipos(g))
												}
											}
										}
									}
								}
							}
						}
						if bad != "" {
							res.bad(c, p.ipos(g), bad)
						} else {
							res.ok(c, p.ipos(g), "no earlier read of the slot is used after the gate")
						}
					}
				}
			}
		}
	}
	return res
}

// mayWriteThrough: the call may write the memory of argument v — an interface method of the in-place
// families (i..., lazyI...), or a static callee whose effect summary mutates that parameter.
func mayWriteThrough(p *Prog, c *ssa.Call, v ssa.Value) bool {
	if c.Call.IsInvoke() {
		if c.Call.Value != v {
			// v is an operand of an interface call: in-place kernels do not write operands (A1.kernel)
			return false
		}
		n := c.Call.Method.Name()
		return (len(n) > 1 && n[0] == 'i' && n[1] >= 'a' && n[1] <= 'z' && n != "isEmpty" && n != "isFull" && n != "intersects" && n != "iterate") || strings.HasPrefix(n, "lazyI")
	}
	g := c.Call.StaticCallee()
	if g == nil {
		return true
	}
	osum := p.OWN().Sum(g)
	if osum == nil {
		return true
	}
	for k, a := range c.Call.Args {
		if a == v {
			if e := osum.mut[k]; e != nil && (e.shallow || e.deep || len(e.cells) > 0) {
				return true
			}
		}
	}
	return false
}
