package main

import (
	"fmt"
	"go/token"
	"go/types"
	"strings"

	"golang.org/x/tools/go/ssa"
)

func init() {
	register("P1", "WaitGroup pairing: every goroutine started in a function that joins with a WaitGroup is preceded by wg.Add(1) and runs a function whose entry defers wg.Done(); wg.Wait() precedes the close of the result channel", ruleP1)
	register("P3", "channels are closed only by the function that made them, and never twice on one path", ruleP3)
	register("P4", "no goroutine left behind: for every goroutine whose body ranges over a channel, every path from its go statement to a return of the spawner closes that channel", ruleP4)
	register("PT", "pool typestate: a pooled reader adapter is Reset right after Get, put back exactly once on every path (one Put site, reached on every path that took it), and never stored", rulePT)
}

func isWGMethod(c *ssa.CallCommon, name string) (ssa.Value, bool) {
	f := c.StaticCallee()
	if f == nil || f.String() != "(*sync.WaitGroup)."+name || len(c.Args) == 0 {
		return nil, false
	}
	return c.Args[0], true
}

// deferredDone: function g defers wg.Done() in its entry block.
func deferredDone(g *ssa.Function) bool {
	if g == nil || len(g.Blocks) == 0 {
		return false
	}
	for _, ins := range g.Blocks[0].Instrs {
		if d, ok := ins.(*ssa.Defer); ok {
			if _, ok := isWGMethod(&d.Call, "Done"); ok {
				return true
			}
			// a deferred helper that is handed the WaitGroup and marks it done on every path
			// (defer deliver(out, &result, wg))
			if h := d.Call.StaticCallee(); h != nil && h.Blocks != nil {
				for i, a := range d.Call.Args {
					if a.Type().String() == "*sync.WaitGroup" && i < len(h.Params) && callsDoneOnEveryPath(h, h.Params[i]) {
						return true
					}
				}
			}
		}
	}
	return false
}

// callsDoneOnEveryPath: every return of h is dominated by a call wg.Done() on its parameter q
func callsDoneOnEveryPath(h *ssa.Function, q *ssa.Parameter) bool {
	var dones []*ssa.BasicBlock
	for _, b := range h.Blocks {
		for _, ins := range b.Instrs {
			var cc *ssa.CallCommon
			switch x := ins.(type) {
			case *ssa.Call:
				cc = &x.Call
			case *ssa.Defer:
				cc = &x.Call
			}
			if cc == nil {
				continue
			}
			if _, ok := isWGMethod(cc, "Done"); ok && len(cc.Args) > 0 && cc.Args[0] == ssa.Value(q) {
				dones = append(dones, b)
			}
		}
	}
	if len(dones) == 0 {
		return false
	}
	for _, b := range h.Blocks {
		if _, ok := b.Instrs[len(b.Instrs)-1].(*ssa.Return); !ok {
			continue
		}
		dom := false
		for _, d := range dones {
			if d == b || d.Dominates(b) {
				dom = true
			}
		}
		if !dom {
			return false
		}
	}
	return true
}

// funcsOfType: package-level functions / methods used as values whose signature is identical to t.
func (p *Prog) funcsOfSignature(sig *types.Signature) []*ssa.Function {
	var out []*ssa.Function
	for _, f := range p.sourceFns() {
		if f.Parent() != nil {
			continue
		}
		fs := f.Signature
		if f.Signature.Recv() != nil {
			// method value: compare without receiver
			fs = types.NewSignatureType(nil, nil, nil, f.Signature.Params(), f.Signature.Results(), f.Signature.Variadic())
		}
		if types.Identical(fs, types.NewSignatureType(nil, nil, nil, sig.Params(), sig.Results(), sig.Variadic())) {
			out = append(out, f)
		}
	}
	return out
}

func ruleP1(p *Prog) *RuleResult {
	res := newResult("P1", ruleDoc["P1"], 10)
	for _, f := range p.sourceFns() {
		// functions that call wg.Wait
		var waits []*ssa.Call
		for _, b := range f.Blocks {
			for _, ins := range b.Instrs {
				if c, ok := ins.(*ssa.Call); ok {
					if _, ok := isWGMethod(&c.Call, "Wait"); ok {
						waits = append(waits, c)
					}
				}
			}
		}
		if len(waits) == 0 {
			continue
		}
		n := 0
		for _, b := range f.Blocks {
			for i, ins := range b.Instrs {
				g, ok := ins.(*ssa.Go)
				if !ok {
					continue
				}
				n++
				c := fmt.Sprintf("%s|go#%d", fname(f), n)
				// (a) wg.Add(1) earlier in the same block
				added := false
				for _, prev := range b.Instrs[:i] {
					if pc, ok := prev.(*ssa.Call); ok {
						if _, ok := isWGMethod(&pc.Call, "Add"); ok && len(pc.Call.Args) == 2 && isConstInt(pc.Call.Args[1], 1) {
							added = true
						}
					}
				}
				if !added {
					res.bad(c, p.ipos(g), "goroutine started without a preceding wg.Add(1) in the same block although the function joins with wg.Wait()")
					continue
				}
				// (b) the goroutine's function defers wg.Done
				var bodies []*ssa.Function
				if callee := g.Call.StaticCallee(); callee != nil {
					bodies = append(bodies, callee)
				} else if sig, ok := g.Call.Value.Type().Underlying().(*types.Signature); ok {
					bodies = p.funcsOfSignature(sig)
				}
				if len(bodies) == 0 {
					res.undecided(c, p.ipos(g), "cannot resolve the function started by this go statement")
					continue
				}
				bad := ""
				for _, body := range bodies {
					if !deferredDone(body) {
						bad = fname(body) + " does not defer wg.Done() at its entry"
					}
				}
				// (c) a Wait is reachable after the go
				if bad == "" {
					reach := false
					for _, w := range waits {
						if blockReaches(b, w.Block()) {
							reach = true
						}
					}
					if !reach {
						bad = "no wg.Wait() is reachable after this go statement"
					}
				}
				if bad != "" {
					res.bad(c, p.ipos(g), bad)
				} else {
					var names []string
					for _, body := range bodies {
						names = append(names, fname(body))
					}
					res.ok(c, p.ipos(g), "Add(1) before, deferred Done in "+strings.Join(names, ", "))
				}
			}
		}
		// wg.Wait dominates every close of a channel made here
		for _, b := range f.Blocks {
			for _, ins := range b.Instrs {
				c, ok := ins.(*ssa.Call)
				if !ok {
					continue
				}
				if bi, ok := c.Call.Value.(*ssa.Builtin); ok && bi.Name() == "close" {
					dom := false
					for _, w := range waits {
						if w.Block().Dominates(b) {
							dom = true
						}
					}
					cc := fmt.Sprintf("%s|close after Wait", fname(f))
					if dom {
						res.ok(cc, p.ipos(c), "")
					} else {
						res.bad(cc, p.ipos(c), "a channel the workers send on is closed without first joining them (wg.Wait does not dominate the close)")
					}
				}
			}
		}
	}
	return res
}

func blockReaches(from, to *ssa.BasicBlock) bool {
	seen := map[*ssa.BasicBlock]bool{}
	w := []*ssa.BasicBlock{from}
	for len(w) > 0 {
		b := w[len(w)-1]
		w = w[:len(w)-1]
		if seen[b] {
			continue
		}
		seen[b] = true
		if b == to {
			return true
		}
		w = append(w, b.Succs...)
	}
	return false
}

// chanOrigin: the MakeChan a channel value derives from inside f (through phis / conversions / local variables).
func chanOrigin(v ssa.Value, depth int) ssa.Value {
	if depth > 6 {
		return nil
	}
	switch x := v.(type) {
	case *ssa.MakeChan:
		return x
	case *ssa.ChangeType:
		return chanOrigin(x.X, depth+1)
	case *ssa.UnOp:
		if x.Op == token.MUL {
			if al, ok := x.X.(*ssa.Alloc); ok {
				for _, r := range *al.Referrers() {
					if st, ok := r.(*ssa.Store); ok && st.Addr == al {
						if o := chanOrigin(st.Val, depth+1); o != nil {
							return o
						}
					}
				}
			}
		}
	}
	return nil
}

func ruleP3(p *Prog) *RuleResult {
	res := newResult("P3", ruleDoc["P3"], 8)
	for _, f := range p.sourceFns() {
		type cl struct {
			call *ssa.Call
			ch   ssa.Value
		}
		var closes []cl
		for _, b := range f.Blocks {
			for _, ins := range b.Instrs {
				if c, ok := ins.(*ssa.Call); ok {
					if bi, ok := c.Call.Value.(*ssa.Builtin); ok && bi.Name() == "close" {
						closes = append(closes, cl{c, c.Call.Args[0]})
					}
				}
			}
		}
		for i, c := range closes {
			construct := fmt.Sprintf("%s|close#%d", fname(f), i+1)
			origin := chanOrigin(c.ch, 0)
			if origin == nil {
				res.bad(construct, p.ipos(c.call), "closes a channel that this function did not create (parameter, field or captured variable): the creator may close it again or still send on it")
				continue
			}
			twice := false
			for j, o := range closes {
				if i == j || chanOrigin(o.ch, 0) != origin {
					continue
				}
				if o.call.Block() == c.call.Block() || blockReaches(c.call.Block(), o.call.Block()) && c.call.Block() != o.call.Block() {
					// a second close of the same channel is reachable
					if o.call.Block() == c.call.Block() || !blockReaches(o.call.Block(), c.call.Block()) || true {
						twice = true
					}
				}
			}
			if twice {
				res.bad(construct, p.ipos(c.call), "the same channel can be closed twice on one path")
			} else {
				res.ok(construct, p.ipos(c.call), "closed once, by its creator")
			}
		}
	}
	return res
}

// rangesOverChan: function g contains a receive loop `for x := range ch` over its parameter/free variable; returns those values.
func rangedChans(g *ssa.Function) []ssa.Value {
	var out []ssa.Value
	for _, b := range g.Blocks {
		for _, ins := range b.Instrs {
			u, ok := ins.(*ssa.UnOp)
			if !ok || u.Op != token.ARROW || !u.CommaOk {
				continue
			}
			// the ok result decides the loop exit
			out = append(out, u.X)
		}
	}
	return out
}

func ruleP4(p *Prog) *RuleResult {
	res := newResult("P4", ruleDoc["P4"], 4)
	for _, f := range p.sourceFns() {
		n := 0
		for _, b := range f.Blocks {
			for _, ins := range b.Instrs {
				g, ok := ins.(*ssa.Go)
				if !ok {
					continue
				}
				callee := g.Call.StaticCallee()
				if callee == nil || callee.Blocks == nil {
					continue
				}
				for _, rc := range rangedChans(callee) {
					// map the callee's channel (parameter / free variable) to the spawner's value
					var spawnerVal ssa.Value
					switch x := rc.(type) {
					case *ssa.Parameter:
						for i, prm := range callee.Params {
							if prm == x && i < len(g.Call.Args) {
								spawnerVal = g.Call.Args[i]
							}
						}
					case *ssa.FreeVar:
						if mc, ok := g.Call.Value.(*ssa.MakeClosure); ok {
							for i, fv := range callee.FreeVars {
								if fv == x && i < len(mc.Bindings) {
									spawnerVal = mc.Bindings[i]
								}
							}
						}
					case *ssa.UnOp:
						// captured by reference: *freevar
						if fv, ok := x.X.(*ssa.FreeVar); ok {
							if mc, ok := g.Call.Value.(*ssa.MakeClosure); ok {
								for i, v := range callee.FreeVars {
									if v == fv && i < len(mc.Bindings) {
										spawnerVal = mc.Bindings[i]
									}
								}
							}
						}
					}
					n++
					c := fmt.Sprintf("%s|go %s ranges over a channel#%d", fname(f), callee.Name(), n)
					if spawnerVal == nil {
						res.undecided(c, p.ipos(g), "cannot map the ranged channel to a value of the spawner")
						continue
					}
					origin := chanOrigin(spawnerVal, 0)
					if origin == nil {
						if al, ok := spawnerVal.(*ssa.Alloc); ok {
							// binding is the address of the local variable holding the channel
							for _, r := range *al.Referrers() {
								if st, ok := r.(*ssa.Store); ok && st.Addr == al {
									origin = chanOrigin(st.Val, 0)
								}
							}
						}
					}
					if origin == nil {
						res.undecided(c, p.ipos(g), "the ranged channel is not created in the spawner")
						continue
					}
					// blocks that close this channel
					S := map[*ssa.BasicBlock]bool{}
					for _, b2 := range f.Blocks {
						for _, i2 := range b2.Instrs {
							if cc, ok := i2.(*ssa.Call); ok {
								if bi, ok := cc.Call.Value.(*ssa.Builtin); ok && bi.Name() == "close" && chanOrigin(cc.Call.Args[0], 0) == origin {
									S[b2] = true
								}
							}
						}
					}
					if len(S) == 0 {
						res.bad(c, p.ipos(g), "the channel this goroutine ranges over is never closed by the spawner: the goroutine never ends")
						continue
					}
					if S[b] || mustPassThrough(b, S, isReturnBlock) {
						res.ok(c, p.ipos(g), "closed on every path to a return")
					} else {
						res.bad(c, p.ipos(g), "a path from this go statement to a return of the spawner does not close the channel the goroutine ranges over: goroutine leak")
					}
				}
			}
		}
	}
	return res
}

// Pool helpers: a function that returns a value it took from a package-level pool (acquire), and a function
// that puts one of its parameters back (release). Callers of such helpers are treated as if they had made
// the Get / Put themselves.
type poolHelper struct {
	pool       ssa.Value
	resetFirst bool // acquire: the helper resets the object before returning it
	param      int  // release: which parameter goes back
}

func poolHelpers(p *Prog) (acquire, release map[*ssa.Function]poolHelper) {
	acquire, release = map[*ssa.Function]poolHelper{}, map[*ssa.Function]poolHelper{}
	for _, f := range p.sourceFns() {
		if f.Parent() != nil {
			continue
		}
		for _, b := range f.Blocks {
			for _, ins := range b.Instrs {
				c, ok := ins.(*ssa.Call)
				if !ok {
					continue
				}
				callee := c.Call.StaticCallee()
				if callee == nil || len(c.Call.Args) == 0 {
					continue
				}
				if _, isGlobal := c.Call.Args[0].(*ssa.Global); !isGlobal {
					continue
				}
				switch callee.String() {
				case "(*sync.Pool).Get":
					// returned (through its type assertion)?
					if c.Referrers() == nil {
						continue
					}
					for _, r := range *c.Referrers() {
						ta, ok := r.(*ssa.TypeAssert)
						if !ok || ta.Referrers() == nil {
							continue
						}
						returned, reset := false, false
						for _, rr := range *ta.Referrers() {
							switch y := rr.(type) {
							case *ssa.Return:
								returned = true
							case *ssa.MakeInterface:
								// handed back as the interface the callers work with
								if y.Referrers() != nil {
									for _, r3 := range *y.Referrers() {
										if _, ok := r3.(*ssa.Return); ok {
											returned = true
										}
									}
								}
							case *ssa.Call:
								if g := y.Call.StaticCallee(); g != nil && g.Name() == "Reset" && len(y.Call.Args) > 0 && y.Call.Args[0] == ssa.Value(ta) {
									reset = true
								}
							}
						}
						if returned {
							acquire[f] = poolHelper{pool: c.Call.Args[0], resetFirst: reset}
						}
					}
				case "(*sync.Pool).Put":
					if len(c.Call.Args) < 2 {
						continue
					}
					v := c.Call.Args[1]
					if mi, ok := v.(*ssa.MakeInterface); ok {
						v = mi.X
					}
					// the parameter may arrive as an interface and be asserted back to the pooled type
					if ta, ok := v.(*ssa.TypeAssert); ok {
						v = ta.X
					}
					for i, prm := range f.Params {
						if prm == v {
							release[f] = poolHelper{pool: c.Call.Args[0], param: i}
						}
					}
				}
			}
		}
	}
	return
}

func rulePT(p *Prog) *RuleResult {
	res := newResult("PT", ruleDoc["PT"], 2)
	acquire, release := poolHelpers(p)
	for _, f := range p.sourceFns() {
		if _, isAcq := acquire[f]; isAcq {
			continue // its Get is judged at the callers
		}
		type getSite struct {
			call  *ssa.Call
			pool  ssa.Value
			obj   ssa.Value
			reset bool
		}
		var gets []getSite
		for _, b := range f.Blocks {
			for _, ins := range b.Instrs {
				if c, ok := ins.(*ssa.Call); ok {
					callee := c.Call.StaticCallee()
					if callee == nil {
						continue
					}
					if callee.String() == "(*sync.Pool).Get" {
						if _, isGlobal := c.Call.Args[0].(*ssa.Global); isGlobal {
							gets = append(gets, getSite{call: c, pool: c.Call.Args[0]})
						}
					} else if h, ok := acquire[callee]; ok {
						gets = append(gets, getSite{call: c, pool: h.pool, obj: c, reset: h.resetFirst})
					}
				}
			}
		}
		for gi, gs := range gets {
			get := gs.call
			c := fmt.Sprintf("%s|Pool.Get#%d", fname(f), gi+1)
			pool := gs.pool
			// the typed value
			obj := gs.obj
			if obj == nil && get.Referrers() != nil {
				for _, r := range *get.Referrers() {
					if ta, ok := r.(*ssa.TypeAssert); ok {
						obj = ta
					}
				}
			}
			if obj == nil {
				res.undecided(c, p.ipos(get), "pooled value is not type-asserted")
				continue
			}
			// the value may live in a local variable (captured by a deferred closure)
			isObj := func(v ssa.Value) bool {
				if v == obj {
					return true
				}
				if u, ok := v.(*ssa.UnOp); ok && u.Op == token.MUL {
					if al, ok := u.X.(*ssa.Alloc); ok {
						for _, r := range *al.Referrers() {
							if st, ok := r.(*ssa.Store); ok && st.Addr == al && st.Val == obj {
								return true
							}
						}
					}
				}
				return false
			}
			// (a) Reset is the first use
			resetFirst := gs.reset
			after := false
			for _, ins := range get.Block().Instrs {
				if ins == ssa.Instruction(get) {
					after = true
					continue
				}
				if !after {
					continue
				}
				if gs.reset {
					break
				}
				if cc, ok := ins.(*ssa.Call); ok {
					if callee := cc.Call.StaticCallee(); callee != nil && len(cc.Call.Args) > 0 && isObj(cc.Call.Args[0]) {
						resetFirst = callee.Name() == "Reset"
						break
					}
				}
			}
			// (b) Put sites for this pool in f and in closures deferred by f
			var puts []*ssa.Call
			var collect func(g *ssa.Function)
			collect = func(g *ssa.Function) {
				for _, b := range g.Blocks {
					for _, ins := range b.Instrs {
						switch x := ins.(type) {
						case *ssa.Call:
							if callee := x.Call.StaticCallee(); callee != nil && callee.String() == "(*sync.Pool).Put" && x.Call.Args[0] == pool {
								puts = append(puts, x)
							} else if callee != nil {
								if h, ok := release[callee]; ok && h.pool == pool {
									puts = append(puts, x)
								}
							}
						case *ssa.Defer:
							if callee := x.Call.StaticCallee(); callee != nil {
								if callee.String() == "(*sync.Pool).Put" && x.Call.Args[0] == pool {
									puts = append(puts, nil)
								}
								if callee.Parent() == g {
									collect(callee)
								}
							}
						}
					}
				}
			}
			collect(f)
			bad := ""
			switch {
			case !resetFirst:
				bad = "the pooled adapter is used before Reset (it still refers to the previous user's source)"
			case len(puts) == 0:
				bad = "the pooled adapter is never put back"
			case len(puts) > 1:
				bad = fmt.Sprintf("%d Put sites for one Get: the same adapter can be put into the pool twice and handed to two concurrent decoders", len(puts))
			default:
				put := puts[0]
				if put != nil && put.Block().Parent() == f {
					// correlated condition: Get and Put under the same branch condition
					S := map[*ssa.BasicBlock]bool{put.Block(): true}
					if !(put.Block() == get.Block() || mustPassThroughCorrelated(get.Block(), S)) {
						bad = "a path from Get to a return does not put the adapter back"
					}
				}
			}
			// (c) not stored anywhere
			if bad == "" && obj.Referrers() != nil {
				for _, r := range *obj.Referrers() {
					if st, ok := r.(*ssa.Store); ok && st.Val == obj {
						if _, isLocal := st.Addr.(*ssa.Alloc); !isLocal {
							bad = "the pooled adapter is stored in memory that outlives the call"
						}
					}
				}
			}
			if bad != "" {
				res.bad(c, p.ipos(get), bad)
			} else {
				res.ok(c, p.ipos(get), "Get -> Reset -> ... -> one Put on every path")
			}
		}
	}
	return res
}

// mustPassThroughCorrelated: like mustPassThrough to a Return, but a branch on a condition that
// already decided the way into `from` is followed only along the same edge (the Get and the Put
// of ReadFrom are both under `if !ok`).
func mustPassThroughCorrelated(from *ssa.BasicBlock, S map[*ssa.BasicBlock]bool) bool {
	// conditions known at `from`
	known := map[ssa.Value]int{}
	for d := from; d != nil; d = d.Idom() {
		if len(d.Instrs) == 0 || d == from {
			continue
		}
		if ifi, ok := d.Instrs[len(d.Instrs)-1].(*ssa.If); ok {
			if dominatedByEdge(d, 0, from) {
				known[ifi.Cond] = 0
			} else if dominatedByEdge(d, 1, from) {
				known[ifi.Cond] = 1
			}
		}
	}
	seen := map[*ssa.BasicBlock]bool{}
	var w []*ssa.BasicBlock
	w = append(w, from.Succs...)
	for len(w) > 0 {
		b := w[len(w)-1]
		w = w[:len(w)-1]
		if seen[b] || S[b] {
			continue
		}
		seen[b] = true
		if isReturnBlock(b) {
			return false
		}
		if len(b.Instrs) > 0 {
			if ifi, ok := b.Instrs[len(b.Instrs)-1].(*ssa.If); ok {
				if e, ok := known[ifi.Cond]; ok {
					w = append(w, b.Succs[e])
					continue
				}
			}
		}
		w = append(w, b.Succs...)
	}
	return true
}
