package main

import (
	"fmt"
	"sort"
	"strings"

	"golang.org/x/tools/go/ssa"
)

func init() {
	register("B8", "a value that comes with an error is used only where the error is nil: for a call returning (value, error), no use of the value is confined to the error-is-non-nil side of the test of that error (the inverted check `v, err := f(); if err == nil { return sentinel }; use(v)`)", ruleB8)
}

func ruleB8(p *Prog) *RuleResult {
	res := newResult("B8", ruleDoc["B8"], 20)
	var fns []*ssa.Function
	fns = append(fns, p.sourceFns()...)
	sort.Slice(fns, func(i, j int) bool { return fname(fns[i]) < fname(fns[j]) })
	for _, f := range fns {
		if strings.HasPrefix(f.Name(), "smat") {
			continue
		}
		n := 0
		for _, b := range f.Blocks {
			for _, ins := range b.Instrs {
				call, ok := ins.(*ssa.Call)
				if !ok {
					continue
				}
				sig := call.Call.Signature()
				if sig.Results().Len() != 2 || !isErrorType(sig.Results().At(1).Type()) || call.Referrers() == nil {
					continue
				}
				var val, errv *ssa.Extract
				for _, r := range *call.Referrers() {
					if ex, ok := r.(*ssa.Extract); ok {
						if ex.Index == 0 {
							val = ex
						} else {
							errv = ex
						}
					}
				}
				if val == nil || errv == nil || val.Referrers() == nil {
					continue
				}
				u := p.usesOfErr(errv, map[ssa.Value]bool{})
				if len(u.nonNilBlk) == 0 {
					continue
				}
				n++
				c := fmt.Sprintf("%s|value of %s#%d", fname(f), calleeName(&call.Call), n)
				// every use of the value sits in blocks dominated by a non-nil edge?
				uses, onErrSide := 0, 0
				var where ssa.Instruction
				for _, r := range *val.Referrers() {
					if _, isDbg := r.(*ssa.DebugRef); isDbg {
						continue
					}
					uses++
					for _, nb := range u.nonNilBlk {
						if len(nb.Preds) == 1 && nb.Dominates(r.Block()) {
							onErrSide++
							where = r
							break
						}
					}
				}
				if uses > 0 && onErrSide == uses {
					res.bad(c, p.ipos(where), "the value is used only on the side where its error is non-nil (and ignored where the call succeeded): the error test is inverted")
				} else {
					res.ok(c, p.ipos(call), "")
				}
			}
		}
	}
	return res
}
