package main

import (
	"fmt"
	"go/types"
	"sort"
	"strings"

	"golang.org/x/tools/go/ssa"
)

func init() {
	register("TWIN1", "a batch method and its 64-bit twin on the same type (nextMany / nextMany64) are the same code up to the element width: their instruction sequences agree, operand for operand, once types are set aside and the suffix 64 is dropped from callee names. A twin that reads another variable than its sibling at the same place (the count written so far where the sibling reads the count taken from this run) emits or skips different elements", ruleTWIN1)
}

// twinShape renders f as a sequence of instruction shapes in which every operand is named by the position of the
// instruction (or parameter) that defines it, so that only structure and data flow are compared.
func twinShape(f *ssa.Function) []string {
	num := map[ssa.Value]int{}
	for i, prm := range f.Params {
		num[prm] = -(i + 1)
	}
	k := 0
	for _, b := range f.Blocks {
		for _, ins := range b.Instrs {
			if v, ok := ins.(ssa.Value); ok {
				num[v] = k
			}
			k++
		}
	}
	ref := func(v ssa.Value) string {
		if c, ok := v.(*ssa.Const); ok {
			if c.Value == nil {
				return "nil"
			}
			return "c" + c.Value.ExactString()
		}
		if n, ok := num[v]; ok {
			return fmt.Sprint(n)
		}
		return "?"
	}
	var out []string
	for _, b := range f.Blocks {
		out = append(out, fmt.Sprintf("block %d preds=%d", b.Index, len(b.Preds)))
		for _, ins := range b.Instrs {
			var s string
			switch x := ins.(type) {
			case *ssa.BinOp:
				s = fmt.Sprintf("binop %s %s %s", x.Op, ref(x.X), ref(x.Y))
			case *ssa.UnOp:
				s = fmt.Sprintf("unop %s %s", x.Op, ref(x.X))
			case *ssa.Phi:
				var es []string
				for _, e := range x.Edges {
					es = append(es, ref(e))
				}
				s = "phi " + strings.Join(es, ",")
			case *ssa.Call:
				name := ""
				if x.Call.IsInvoke() {
					name = "invoke " + x.Call.Method.Name()
				} else if g := x.Call.StaticCallee(); g != nil {
					name = g.Name()
				} else if bi, ok := x.Call.Value.(*ssa.Builtin); ok {
					name = bi.Name()
				}
				name = strings.TrimSuffix(name, "64")
				var as []string
				for _, a := range x.Call.Args {
					as = append(as, ref(a))
				}
				s = "call " + name + "(" + strings.Join(as, ",") + ")"
			case *ssa.FieldAddr:
				s = fmt.Sprintf("fieldaddr %s .%d", ref(x.X), x.Field)
			case *ssa.Field:
				s = fmt.Sprintf("field %s .%d", ref(x.X), x.Field)
			case *ssa.IndexAddr:
				s = fmt.Sprintf("indexaddr %s [%s]", ref(x.X), ref(x.Index))
			case *ssa.Index:
				s = fmt.Sprintf("index %s [%s]", ref(x.X), ref(x.Index))
			case *ssa.Store:
				s = fmt.Sprintf("store %s <- %s", ref(x.Addr), ref(x.Val))
			case *ssa.Convert:
				s = "convert " + ref(x.X)
			case *ssa.ChangeType:
				s = "convert " + ref(x.X)
			case *ssa.Slice:
				lo, hi := "-", "-"
				if x.Low != nil {
					lo = ref(x.Low)
				}
				if x.High != nil {
					hi = ref(x.High)
				}
				s = fmt.Sprintf("slice %s[%s:%s]", ref(x.X), lo, hi)
			case *ssa.If:
				s = "if " + ref(x.Cond)
			case *ssa.Jump:
				s = "jump"
			case *ssa.Return:
				var rs []string
				for _, r := range x.Results {
					rs = append(rs, ref(r))
				}
				s = "return " + strings.Join(rs, ",")
			case *ssa.DebugRef:
				continue
			default:
				s = fmt.Sprintf("%T", ins)
			}
			out = append(out, s)
		}
	}
	return out
}

func ruleTWIN1(p *Prog) *RuleResult {
	res := newResult("TWIN1", ruleDoc["TWIN1"], 3)
	fns := append([]*ssa.Function(nil), p.sourceFns()...)
	sort.Slice(fns, func(i, j int) bool { return fname(fns[i]) < fname(fns[j]) })
	byKey := map[string]*ssa.Function{}
	for _, f := range fns {
		if f.Signature.Recv() == nil || f.Blocks == nil {
			continue
		}
		byKey[types.TypeString(f.Signature.Recv().Type(), nil)+"."+f.Name()] = f
	}
	for _, f := range fns {
		if f.Signature.Recv() == nil || f.Blocks == nil || strings.HasSuffix(f.Name(), "64") {
			continue
		}
		g := byKey[types.TypeString(f.Signature.Recv().Type(), nil)+"."+f.Name()+"64"]
		if g == nil || f.Signature.Params().Len() != g.Signature.Params().Len() {
			continue
		}
		cn := fmt.Sprintf("%s|and its 64-bit twin", fname(f))
		a, b := twinShape(f), twinShape(g)
		diff := ""
		for i := 0; i < len(a) || i < len(b); i++ {
			x, y := "<end>", "<end>"
			if i < len(a) {
				x = a[i]
			}
			if i < len(b) {
				y = b[i]
			}
			if x != y {
				diff = fmt.Sprintf("instruction %d: %q in %s, %q in %s", i, x, f.Name(), y, g.Name())
				break
			}
		}
		if diff == "" {
			res.ok(cn, p.pos(f.Pos()), fmt.Sprintf("%d instructions agree", len(a)))
		} else {
			res.bad(cn, p.pos(g.Pos()), "the twins differ at "+diff)
		}
	}
	return res
}
