package main

import (
	"fmt"
	"go/types"
	"sort"
	"strings"

	"golang.org/x/tools/go/ssa"
)

func init() {
	register("U3", "no parameter is silently dropped: every named parameter of a function of the library is used in its body (an ignored parameter means the behaviour cannot depend on it: a cookie header that is not forwarded, a worker count or found-set that is never consulted)", ruleU3)
}

// Parameters that are ignored on purpose, confirmed by reading; keyed by function + parameter name.
var u3Allowed = map[string]string{
	"(*roaring.Bitmap).FromUnsafeBytes|param:cookieHeader": "the variadic tail is accepted for signature symmetry with ReadFrom and not forwarded; no given property exercises FromUnsafeBytes with a pre-read cookie (an API wart, recorded in DESIGN.md, not a violation of C05/C10)",
	"(*roaring64.BSI).MinMaxBig|param:parallelism":         "the extremum is computed by plane algebra in the calling goroutine; the result is independent of the worker count by construction (C20 asks exactly that)",
}

func ruleU3(p *Prog) *RuleResult {
	res := newResult("U3", ruleDoc["U3"], 300)
	var fns []*ssa.Function
	for _, f := range p.sourceFns() {
		if f.Blocks == nil || f.Synthetic != "" || f.Parent() != nil {
			continue
		}
		if strings.HasPrefix(f.Name(), "smat") || strings.HasPrefix(f.Name(), "init") {
			continue
		}
		fns = append(fns, f)
	}
	sort.Slice(fns, func(i, j int) bool { return fname(fns[i]) < fname(fns[j]) })
	// interfaces whose method signatures are dictated to their implementations: those of the repository
	// and the few standard ones it implements
	var ifaces []*types.Interface
	for _, pkg := range p.Pkgs {
		if pkg.Types == nil {
			continue
		}
		sc := pkg.Types.Scope()
		for _, n := range sc.Names() {
			if tn, ok := sc.Lookup(n).(*types.TypeName); ok {
				if it, ok := tn.Type().Underlying().(*types.Interface); ok && it.NumMethods() > 0 {
					ifaces = append(ifaces, it)
				}
			}
		}
		for _, imp := range pkg.Types.Imports() {
			switch imp.Path() {
			case "io", "sort", "container/heap", "encoding", "fmt":
				isc := imp.Scope()
				for _, n := range isc.Names() {
					if tn, ok := isc.Lookup(n).(*types.TypeName); ok && tn.Exported() {
						if it, ok := tn.Type().Underlying().(*types.Interface); ok && it.NumMethods() > 0 {
							ifaces = append(ifaces, it)
						}
					}
				}
			}
		}
	}
	dictated := func(f *ssa.Function) bool {
		recv := f.Signature.Recv()
		if recv == nil {
			return false
		}
		for _, it := range ifaces {
			has := false
			for i := 0; i < it.NumMethods(); i++ {
				if it.Method(i).Name() == f.Name() {
					has = true
				}
			}
			if has && (types.Implements(recv.Type(), it) || types.Implements(types.NewPointer(recv.Type()), it)) {
				return true
			}
		}
		return false
	}
	for _, f := range fns {
		isDictated := dictated(f)
		for k, prm := range f.Params {
			if prm.Name() == "_" || prm.Name() == "" {
				continue
			}
			if isDictated {
				continue // the signature is fixed by an interface; an implementation may have no use for a parameter
			}
			if k == 0 && f.Signature.Recv() != nil {
				continue // receivers of marker methods are legitimately unused
			}
			c := fmt.Sprintf("%s|param:%s", fname(f), prm.Name())
			used := prm.Referrers() != nil && len(*prm.Referrers()) > 0
			if used {
				// a parameter that is only spilled to a cell that nobody reads is unused as well
				only := true
				for _, r := range *prm.Referrers() {
					st, ok := r.(*ssa.Store)
					if !ok {
						only = false
						break
					}
					al, ok := st.Addr.(*ssa.Alloc)
					if !ok {
						only = false
						break
					}
					for _, rr := range *al.Referrers() {
						if rr != ssa.Instruction(st) {
							if _, isDbg := rr.(*ssa.DebugRef); !isDbg {
								only = false
							}
						}
					}
				}
				if only {
					used = false
				}
			}
			if used {
				res.ok(c, p.pos(f.Pos()), "")
				continue
			}
			if why, ok := u3Allowed[c]; ok {
				res.ok(c, p.pos(f.Pos()), "ignored on purpose: "+why)
				continue
			}
			res.bad(c, p.pos(f.Pos()), fmt.Sprintf("parameter %s is never used: whatever the caller passes has no effect", prm.Name()))
		}
	}
	return res
}
