package main

import (
	"fmt"
	"go/token"
	"go/types"
	"sort"
	"strings"

	"golang.org/x/tools/go/ssa"
)

func init() {
	register("U7", "a function that promises an arbitrary-precision result (*big.Int) does not compute a plane's weight in a machine word: no fixed-width shift of a computed value by a variable amount (card << j) inside it or its function literals — for plane 63 and above the term loses its high bits or becomes 0 before it is widened", ruleU7)
}

func ruleU7(p *Prog) *RuleResult {
	res := newResult("U7", ruleDoc["U7"], 3)
	fns := append([]*ssa.Function(nil), p.sourceFns()...)
	sort.Slice(fns, func(i, j int) bool { return fname(fns[i]) < fname(fns[j]) })
	returnsBig := func(f *ssa.Function) bool {
		r := f.Signature.Results()
		for i := 0; i < r.Len(); i++ {
			if strings.HasSuffix(typeShort(r.At(i).Type()), "big.Int") {
				return true
			}
		}
		return false
	}
	for _, f := range fns {
		if f.Blocks == nil {
			continue
		}
		top := f
		for top.Parent() != nil {
			top = top.Parent()
		}
		pp := fnPkgPath(top)
		if pp != pkgPathOf("roaring64") && pp != pkgPathOf("BitSliceIndexing") {
			continue
		}
		if !returnsBig(top) {
			continue
		}
		n := 0
		for _, b := range f.Blocks {
			for _, ins := range b.Instrs {
				bo, ok := ins.(*ssa.BinOp)
				if !ok || bo.Op != token.SHL {
					continue
				}
				if bt, ok := bo.Type().Underlying().(*types.Basic); !ok || bt.Info()&types.IsInteger == 0 {
					continue
				}
				if _, isC := constIntVal(bo.Y); isC {
					continue
				}
				// 1 << bit, ^0 << width: a mask assembled inside one word (the 64-bit fast paths), not a weight
				if _, isC := stripConv(bo.X).(*ssa.Const); isC {
					continue
				}
				n++
				res.bad(fmt.Sprintf("%s|word shift by a variable amount#%d", fname(f), n), p.ipos(bo), fmt.Sprintf("%s is shifted by a variable amount in %s inside a function that returns *big.Int: the weight of plane 63 and above does not fit, the term is truncated before it is widened", typeShort(bo.X.Type()), typeShort(bo.Type())))
			}
		}
		if n == 0 && f == top {
			res.ok(fname(f)+"|no word shift by a variable amount", p.pos(f.Pos()), "plane weights are built with big.Int")
		}
	}
	return res
}
