package main

import (
	"fmt"
	"go/token"
	"go/types"
	"sort"
	"strings"

	"golang.org/x/tools/go/ssa"
)

func init() {
	register("PC1", "plane coverage: every whole-index operation of the bit-sliced indexes visits every plane bA[0..len(bA)) — in roaring64 that includes the sign plane bA[BitCount()]", rulePC1)
}

// aff: a*L + c with L = len(b.bA); ok=false when the value is not affine in L.
type aff struct {
	a, c int64
	ok   bool
}

func isBAField(v ssa.Value) (base ssa.Value, ok bool) {
	u, isU := v.(*ssa.UnOp)
	if !isU || u.Op != token.MUL {
		return nil, false
	}
	fa, isF := u.X.(*ssa.FieldAddr)
	if !isF {
		return nil, false
	}
	st := fa.X.Type().Underlying().(*types.Pointer).Elem().Underlying().(*types.Struct)
	if st.Field(fa.Field).Name() != "bA" {
		return nil, false
	}
	return fa.X, true
}

// isOwnIndex: base designates the index the enclosing method operates on — its receiver, or the
// receiver captured by a closure. Lengths of other indexes' plane arrays are not L.
func isOwnIndex(base ssa.Value) bool {
	switch bv := base.(type) {
	case *ssa.Parameter:
		f := bv.Parent()
		return f != nil && f.Signature.Recv() != nil && len(f.Params) > 0 && f.Params[0] == bv
	case *ssa.FreeVar:
		return true
	case *ssa.UnOp:
		if _, isFV := bv.X.(*ssa.FreeVar); isFV {
			return true
		}
		// go/ssa spills a receiver captured by a closure into a cell: `*cell` with the single store `*cell = recv`
		if al, isAl := bv.X.(*ssa.Alloc); isAl && al.Referrers() != nil {
			var src ssa.Value
			n := 0
			for _, r := range *al.Referrers() {
				if st, ok := r.(*ssa.Store); ok && st.Addr == al {
					src = st.Val
					n++
				}
			}
			if n == 1 {
				if prm, ok := src.(*ssa.Parameter); ok {
					return isOwnIndex(prm)
				}
			}
		}
	}
	return false
}

func evalAff(v ssa.Value, depth int) aff {
	if depth > 8 {
		return aff{}
	}
	switch x := v.(type) {
	case *ssa.Const:
		if c, ok := constIntVal(x); ok {
			return aff{0, c, true}
		}
	case *ssa.Convert:
		return evalAff(x.X, depth+1)
	case *ssa.BinOp:
		l, r := evalAff(x.X, depth+1), evalAff(x.Y, depth+1)
		if !l.ok || !r.ok {
			return aff{}
		}
		switch x.Op {
		case token.ADD:
			return aff{l.a + r.a, l.c + r.c, true}
		case token.SUB:
			return aff{l.a - r.a, l.c - r.c, true}
		}
	case *ssa.Call:
		if bi, ok := x.Call.Value.(*ssa.Builtin); ok && bi.Name() == "len" {
			if base, ok := isBAField(x.Call.Args[0]); ok && isOwnIndex(base) {
				return aff{1, 0, true}
			}
			return aff{}
		}
		// inline single-expression helpers such as BitCount(), called on the index operated on
		if f := x.Call.StaticCallee(); f != nil && len(f.Blocks) == 1 && f.Signature.Results().Len() == 1 && f.Signature.Recv() != nil && len(x.Call.Args) > 0 && isOwnIndex(x.Call.Args[0]) {
			if r, ok := f.Blocks[0].Instrs[len(f.Blocks[0].Instrs)-1].(*ssa.Return); ok {
				return evalAff(r.Results[0], depth+1)
			}
		}
	case *ssa.Phi:
		// max idiom: `bits := len(b.bA); if len(o.bA) > bits { bits = len(o.bA) }` never goes below L
		// (the mirrored min idiom `if w > len(b.bA) { w = len(b.bA) }` can fall below L and is not accepted)
		if geL(x, map[*ssa.Phi]bool{}, depth) {
			return aff{1, 0, true}
		}
	}
	return aff{}
}

// geL proves v >= len(bA) for (possibly loop-carried) maxima: a phi is >= L when every incoming
// edge either is >= L itself or is taken only under a branch condition `e > w` / `e >= w` with
// w >= L. Phis on a cycle are assumed (induction over loop iterations).
func geL(v ssa.Value, assumed map[*ssa.Phi]bool, depth int) bool {
	if depth > 12 {
		return false
	}
	ph, isPhi := v.(*ssa.Phi)
	if !isPhi {
		a := evalAffNoPhi(v, depth+1)
		return a.ok && a.a == 1 && a.c >= 0
	}
	if assumed[ph] {
		return true
	}
	assumed[ph] = true
	for i, e := range ph.Edges {
		if geL(e, assumed, depth+1) {
			continue
		}
		// guarded edge: walk single-predecessor jump blocks back to the deciding If
		blk := ph.Block().Preds[i]
		succ := ph.Block()
		for len(blk.Preds) == 1 {
			if _, isJump := blk.Instrs[len(blk.Instrs)-1].(*ssa.Jump); !isJump {
				break
			}
			succ, blk = blk, blk.Preds[0]
		}
		ifi, ok := blk.Instrs[len(blk.Instrs)-1].(*ssa.If)
		if !ok {
			return false
		}
		cmp, ok := ifi.Cond.(*ssa.BinOp)
		if !ok {
			return false
		}
		onTrue := blk.Succs[0] == succ
		if blk.Succs[0] == blk.Succs[1] {
			return false
		}
		var w ssa.Value
		switch {
		case onTrue && (cmp.Op == token.GTR || cmp.Op == token.GEQ) && sameReadExpr(cmp.X, e):
			w = cmp.Y
		case onTrue && (cmp.Op == token.LSS || cmp.Op == token.LEQ) && sameReadExpr(cmp.Y, e):
			w = cmp.X
		case !onTrue && (cmp.Op == token.LSS || cmp.Op == token.LEQ) && sameReadExpr(cmp.X, e):
			w = cmp.Y
		case !onTrue && (cmp.Op == token.GTR || cmp.Op == token.GEQ) && sameReadExpr(cmp.Y, e):
			w = cmp.X
		}
		if w == nil || !geL(w, assumed, depth+1) {
			return false
		}
	}
	return true
}

// sameReadExpr: a and b are the same value, or two evaluations of the same side-effect-free read
// expression (go/ssa does no CSE: `if len(x.bA) > n { n = len(x.bA) }` loads twice) with no store
// or call in the block that re-evaluates it.
func sameReadExpr(a, b ssa.Value) bool {
	if a == b {
		return true
	}
	if bi, ok := b.(ssa.Instruction); ok && bi.Block() != nil {
		for _, ins := range bi.Block().Instrs {
			switch x := ins.(type) {
			case *ssa.Store, *ssa.MapUpdate, *ssa.Go, *ssa.Defer, *ssa.Send:
				return false
			case *ssa.Call:
				if _, isB := x.Call.Value.(*ssa.Builtin); !isB {
					if _, ok := lenBAOf(x); !ok {
						return false
					}
				}
			}
		}
	}
	var eq func(a, b ssa.Value, d int) bool
	eq = func(a, b ssa.Value, d int) bool {
		if a == b {
			return true
		}
		if d > 8 {
			return false
		}
		if ba, ok := lenBAOf(a); ok {
			if bb, ok := lenBAOf(b); ok {
				return eq(ba, bb, d+1)
			}
		}
		switch x := a.(type) {
		case *ssa.Const:
			y, ok := b.(*ssa.Const)
			return ok && x.Value != nil && y.Value != nil && x.Value.ExactString() == y.Value.ExactString()
		case *ssa.Call:
			y, ok := b.(*ssa.Call)
			if !ok {
				return false
			}
			bx, ok1 := x.Call.Value.(*ssa.Builtin)
			by, ok2 := y.Call.Value.(*ssa.Builtin)
			return ok1 && ok2 && bx.Name() == "len" && by.Name() == "len" && eq(x.Call.Args[0], y.Call.Args[0], d+1)
		case *ssa.UnOp:
			y, ok := b.(*ssa.UnOp)
			return ok && x.Op == y.Op && eq(x.X, y.X, d+1)
		case *ssa.FieldAddr:
			y, ok := b.(*ssa.FieldAddr)
			return ok && x.Field == y.Field && eq(x.X, y.X, d+1)
		case *ssa.IndexAddr:
			y, ok := b.(*ssa.IndexAddr)
			return ok && eq(x.X, y.X, d+1) && eq(x.Index, y.Index, d+1)
		case *ssa.Convert:
			y, ok := b.(*ssa.Convert)
			return ok && eq(x.X, y.X, d+1)
		}
		return false
	}
	return eq(a, b, 0)
}

// lenBAOf: v is len(base.bA), written out or through a one-line accessor such as BitCount().
func lenBAOf(v ssa.Value) (ssa.Value, bool) {
	c, ok := v.(*ssa.Call)
	if !ok {
		return nil, false
	}
	if bi, ok := c.Call.Value.(*ssa.Builtin); ok {
		if bi.Name() == "len" {
			return isBAField(c.Call.Args[0])
		}
		return nil, false
	}
	f := c.Call.StaticCallee()
	if f == nil || len(f.Blocks) != 1 || f.Signature.Recv() == nil || len(c.Call.Args) == 0 {
		return nil, false
	}
	r, ok := f.Blocks[0].Instrs[len(f.Blocks[0].Instrs)-1].(*ssa.Return)
	if !ok || len(r.Results) != 1 {
		return nil, false
	}
	if base, ok := lenBAOf(r.Results[0]); ok && base == ssa.Value(f.Params[0]) {
		return c.Call.Args[0], true
	}
	return nil, false
}

func evalAffNoPhi(v ssa.Value, depth int) aff {
	if _, isPhi := v.(*ssa.Phi); isPhi {
		return aff{}
	}
	return evalAff(v, depth)
}

type planeLoop struct {
	phi        *ssa.Phi
	start      int64
	bound      aff
	inclusive  bool
	delta      int64 // index = i + delta
	pos        ssa.Instruction
	descending bool
}

// planeLoops finds loops of f whose induction variable indexes a bA slice (directly, or in a closure it is passed to).
func planeLoops(p *Prog, f *ssa.Function) []planeLoop {
	var out []planeLoop
	for _, b := range f.Blocks {
		for _, ins := range b.Instrs {
			ph, ok := ins.(*ssa.Phi)
			if !ok || len(ph.Edges) != 2 {
				continue
			}
			if bk, ok := ph.Type().Underlying().(*types.Basic); !ok || bk.Info()&types.IsInteger == 0 {
				continue
			}
			// phi(start, phi±1)
			var start int64
			var step *ssa.BinOp
			okShape := false
			for i, e := range ph.Edges {
				if c, isC := constIntVal(e); isC {
					if bo, isB := ph.Edges[1-i].(*ssa.BinOp); isB && (bo.Op == token.ADD || bo.Op == token.SUB) && isConstInt(bo.Y, 1) && (bo.X == ssa.Value(ph)) {
						start, step, okShape = c, bo, true
					}
				}
			}
			desc := false
			if !okShape {
				// descending loops start at a computed value: for i := b.BitCount(); i >= 0; i--
				for i, e := range ph.Edges {
					if bo, isB := ph.Edges[1-i].(*ssa.BinOp); isB && bo.Op == token.SUB && isConstInt(bo.Y, 1) && bo.X == ssa.Value(ph) {
						if a := evalAff(e, 0); a.ok {
							step, okShape, desc = bo, true, true
							_ = a
						}
					}
				}
			}
			if !okShape {
				continue
			}
			// loop condition on phi (or on phi+1 for range loops)
			iv := ssa.Value(ph)
			rangeStyle := false
			var bound aff
			incl := false
			found := false
			type cond struct {
				blk   *ssa.BasicBlock
				bound aff
				incl  bool
			}
			var conds []cond
			for _, b2 := range f.Blocks {
				if len(b2.Instrs) == 0 {
					continue
				}
				ifi, ok := b2.Instrs[len(b2.Instrs)-1].(*ssa.If)
				if !ok {
					continue
				}
				cmp, ok := ifi.Cond.(*ssa.BinOp)
				if !ok {
					continue
				}
				lhs := cmp.X
				if lhs == ssa.Value(step) && step.Op == token.ADD && start == -1 {
					rangeStyle = true
				} else if lhs != iv {
					continue
				}
				switch cmp.Op {
				case token.LSS:
					conds = append(conds, cond{b2, evalAff(cmp.Y, 0), false})
					found = true
				case token.LEQ:
					conds = append(conds, cond{b2, evalAff(cmp.Y, 0), true})
					found = true
				case token.GEQ, token.GTR:
					if desc {
						found = true
					}
				}
			}
			// the loop header's own condition(s): `i < A`, `i < A || i < B` (continues while either holds:
			// any bound that covers suffices) or `i < A && i < B` (stops at the smaller: both must cover).
			var hdr []cond
			for _, c := range conds {
				if c.blk == ph.Block() || (len(c.blk.Preds) == 1 && c.blk.Preds[0] == ph.Block()) {
					hdr = append(hdr, c)
				}
			}
			switch {
			case len(hdr) == 1:
				bound, incl = hdr[0].bound, hdr[0].incl
			case len(hdr) == 2 && hdr[1].blk == hdr[0].blk.Succs[1]: // ||
				bound, incl = hdr[0].bound, hdr[0].incl
				if !bound.ok {
					bound, incl = hdr[1].bound, hdr[1].incl
				}
			case len(hdr) == 2 && hdr[1].blk == hdr[0].blk.Succs[0]: // &&
				if hdr[0].bound.ok && hdr[1].bound.ok {
					bound, incl = hdr[0].bound, hdr[0].incl
				}
			case len(hdr) == 0 && len(conds) > 0:
				bound, incl = conds[len(conds)-1].bound, conds[len(conds)-1].incl
			}
			if !found {
				continue
			}
			idxVal := iv
			if rangeStyle {
				idxVal = step
				start = 0
			}
			// how is the induction variable used as a plane index?
			uses := planeIndexUses(p, f, idxVal)
			for _, u := range uses {
				pl := planeLoop{phi: ph, start: start, bound: bound, inclusive: incl, delta: u.delta, pos: u.ins, descending: desc}
				if desc {
					// descending from S down to 0: covers [0, S]
					for i, e := range ph.Edges {
						if _, isB := ph.Edges[1-i].(*ssa.BinOp); isB {
							pl.bound = evalAff(e, 0)
							pl.inclusive = true
							pl.start = 0
						}
					}
				}
				out = append(out, pl)
			}
		}
	}
	return out
}

type idxUse struct {
	ins   ssa.Instruction
	delta int64
}

// planeIndexUsesIn: as planeIndexUses; in a worker method the plane array is reached through the method's own
// receiver, which the caller bound to its receiver.
func planeIndexUsesIn(p *Prog, f *ssa.Function, iv ssa.Value, method bool) []idxUse {
	return planeIndexUses(p, f, iv)
}

func planeIndexUses(p *Prog, f *ssa.Function, iv ssa.Value) []idxUse {
	var out []idxUse
	var visit func(v ssa.Value, delta int64, depth int)
	visit = func(v ssa.Value, delta int64, depth int) {
		if depth > 4 || v.Referrers() == nil {
			return
		}
		for _, r := range *v.Referrers() {
			switch x := r.(type) {
			case *ssa.IndexAddr:
				if x.Index == v {
					if base, ok := isBAField(x.X); ok {
						// only the planes of the index operated on (receiver, or the receiver captured by a closure)
						switch bv := base.(type) {
						case *ssa.Parameter:
							if len(f.Params) > 0 && bv == f.Params[0] {
								out = append(out, idxUse{x, delta})
							}
						case *ssa.FreeVar:
							out = append(out, idxUse{x, delta})
						case *ssa.UnOp:
							// the receiver captured by a closure (free variable), or spilled to a cell for one
							if isOwnIndex(bv) {
								out = append(out, idxUse{x, delta})
							}
						}
					}
				}
			case *ssa.BinOp:
				if c, ok := constIntVal(x.Y); ok && x.X == v {
					switch x.Op {
					case token.ADD:
						visit(x, delta+c, depth+1)
					case token.SUB:
						visit(x, delta-c, depth+1)
					}
				}
			case *ssa.Convert:
				visit(x, delta, depth+1)
			case *ssa.Go, *ssa.Call, *ssa.Defer:
				var c *ssa.CallCommon
				switch y := x.(type) {
				case *ssa.Go:
					c = &y.Call
				case *ssa.Call:
					c = &y.Call
				case *ssa.Defer:
					c = &y.Call
				}
				callee := c.StaticCallee()
				if callee == nil || callee.Blocks == nil {
					continue
				}
				// a closure of f, or a worker method/function of the same package that receives the index
				// (go b.clearPlane(j, ...)): the plane is indexed in there
				if callee.Parent() != f && (fnPkgPath(callee) != fnPkgPath(f) || depth > 1) {
					continue
				}
				for ai, a := range c.Args {
					if a == v && ai < len(callee.Params) {
						for _, u := range planeIndexUsesIn(p, callee, callee.Params[ai], callee.Parent() != f) {
							out = append(out, idxUse{x.(ssa.Instruction), delta + u.delta})
						}
					}
				}
			}
		}
	}
	visit(iv, 0, 0)
	return out
}

// Whole-index operations (DESIGN §3.8 PC1).
var wholeIndexOps = []string{
	"(*roaring64.BSI).NewBSIRetainSet", "(*roaring64.BSI).ClearValues", "(*roaring64.BSI).Retain", "(*roaring64.BSI).ParOr",
	"(*roaring64.BSI).MarshalBinary", "(*roaring64.BSI).WriteTo", "(*roaring64.BSI).Equals", "(*roaring64.BSI).RunOptimize",
	"(*roaring64.BSI).GetSizeInBytes",
	"(*BitSliceIndexing.BSI).NewBSIRetainSet", "(*BitSliceIndexing.BSI).ClearValues", "(*BitSliceIndexing.BSI).ParOr",
	"(*BitSliceIndexing.BSI).MarshalBinary", "(*BitSliceIndexing.BSI).RunOptimize",
	// overwriting a column must write (set or clear) every plane, or the old high bits survive
	"(*roaring64.BSI).SetBigValue", "(*roaring64.BSI).SetBigMany",
	"(*BitSliceIndexing.BSI).SetValue", "(*BitSliceIndexing.BSI).SetMany",
}

// wideningOps grow bA on demand; existing negative values must be sign-extended into every new
// plane up to and including the new top plane (DESIGN §3.8 PC2).
var wideningOps = []string{"(*roaring64.BSI).SetBigValue", "(*roaring64.BSI).SetBigMany", "(*roaring64.BSI).ParOr"}

func rulePC1(p *Prog) *RuleResult {
	res := newResult("PC1", ruleDoc["PC1"], 10)
	for _, name := range wholeIndexOps {
		f := p.Func(name)
		if f == nil {
			res.undecided(name, "-", "anchor not found")
			continue
		}
		var fns []*ssa.Function
		fns = append(fns, f)
		loops := planeLoops(p, f)
		// range loops over b.bA itself (`for _, bm := range b.bA`) are SSA index loops bounded by len(b.bA):
		// they appear as plane loops through the IndexAddr of the ranged slice.
		if len(loops) == 0 {
			res.undecided(name+"|planes", p.pos(f.Pos()), "no loop over the planes recognised in a whole-index operation")
			continue
		}
		// a separate access to the sign plane bA[len-1]
		signSeparately := false
		for _, b := range f.Blocks {
			for _, ins := range b.Instrs {
				if ia, ok := ins.(*ssa.IndexAddr); ok {
					if _, ok := isBAField(ia.X); ok {
						if a := evalAff(ia.Index, 0); a.ok && a.a == 1 && a.c == -1 {
							signSeparately = true
						}
					}
				}
			}
		}
		per := 0
		seen := map[*ssa.Phi]bool{}
		for _, l := range loops {
			if seen[l.phi] {
				continue
			}
			seen[l.phi] = true
			per++
			c := fmt.Sprintf("%s|plane loop#%d", name, per)
			if !l.bound.ok {
				res.undecided(c, p.ipos(l.pos), "loop bound is not an affine expression of len(bA)")
				continue
			}
			lo := l.start + l.delta
			hiExcl := aff{l.bound.a, l.bound.c + l.delta, true}
			if l.inclusive {
				hiExcl.c++
			}
			covers := lo == 0 && hiExcl.a == 1 && hiExcl.c == 0
			desc := fmt.Sprintf("planes [%d, %s)", lo, affString(hiExcl))
			switch {
			case covers:
				res.ok(c, p.ipos(l.pos), desc+" = all planes")
			case lo == 0 && hiExcl.a == 1 && hiExcl.c == -1 && signSeparately:
				res.ok(c, p.ipos(l.pos), desc+" plus the sign plane accessed separately")
			case lo == 0 && hiExcl.a == 1 && hiExcl.c > 0:
				res.ok(c, p.ipos(l.pos), desc+" (covers all planes; extra index used for another array)")
			default:
				res.bad(c, p.ipos(l.pos), fmt.Sprintf("the loop visits %s but the index has len(bA) planes: %s", desc, strings.TrimSpace("the plane(s) outside that interval (the sign plane in roaring64) are skipped")))
			}
		}
	}
	return res
}

func init() {
	register("PC2", "sign extension on widening: when the 64-bit BSI grows bA, the loop that copies the old sign plane covers every new plane [old len(bA), new len(bA)) including the new top plane", rulePC2)
}

// affLoad evaluates v as a*len(bA)+c and returns the loads of bA it is built from.
func affLoads(v ssa.Value, depth int, out *[]*ssa.UnOp) {
	if depth > 8 {
		return
	}
	switch x := v.(type) {
	case *ssa.Convert:
		affLoads(x.X, depth+1, out)
	case *ssa.BinOp:
		affLoads(x.X, depth+1, out)
		affLoads(x.Y, depth+1, out)
	case *ssa.Call:
		if bi, ok := x.Call.Value.(*ssa.Builtin); ok && bi.Name() == "len" {
			if _, ok := isBAField(x.Call.Args[0]); ok {
				*out = append(*out, x.Call.Args[0].(*ssa.UnOp))
			}
		}
	}
}

// planeCountOf: v = len(x.bA) + c for some index x (any index, not only the receiver).
func planeCountOf(v ssa.Value) (base ssa.Value, c int64, ok bool) {
	switch x := v.(type) {
	case *ssa.Convert:
		return planeCountOf(x.X)
	case *ssa.BinOp:
		k, isC := constIntVal(x.Y)
		if !isC {
			return nil, 0, false
		}
		b, c0, ok := planeCountOf(x.X)
		switch {
		case ok && x.Op == token.ADD:
			return b, c0 + k, true
		case ok && x.Op == token.SUB:
			return b, c0 - k, true
		}
	case *ssa.Call:
		if bi, isB := x.Call.Value.(*ssa.Builtin); isB && bi.Name() == "len" {
			if b, ok := isBAField(x.Call.Args[0]); ok {
				return b, 0, true
			}
		}
	}
	return nil, 0, false
}

// growthExempt: methods of the 64-bit index that append to the receiver's bA without having to
// sign-extend, one reason each.
var growthExempt = map[string]string{
	"(*roaring64.BSI).UnmarshalBinary": "decoder: fills the plane array from the encoded planes, nothing is widened",
	"(*roaring64.BSI).ReadFrom":        "decoder: fills the plane array from the stream, nothing is widened",
	"(*roaring64.BSI).Add":             "ripple-carry addition: Add/Increment are defined on non-negative values only (C19), the carry plane is a value plane",
	"(*roaring64.BSI).Increment":       "ripple-carry addition: Add/Increment are defined on non-negative values only (C19), the carry plane is a value plane",
	"(*roaring64.BSI).IncrementAll":    "ripple-carry addition: Add/Increment are defined on non-negative values only (C19), the carry plane is a value plane",
}

func rulePC2(p *Prog) *RuleResult {
	res := newResult("PC2", ruleDoc["PC2"], 5)
	// completeness of the table of widening operations: every method that appends to its own bA is
	// either checked for sign extension below or exempt with a reason
	{
		var names []string
		var methods []*ssa.Function
		for _, f := range p.sourceFns() {
			if fnPkgPath(f) != pkgPathOf("roaring64") || f.Blocks == nil || f.Signature.Recv() == nil || !strings.HasSuffix(typeShort(f.Signature.Recv().Type()), "BSI") {
				continue
			}
			methods = append(methods, f)
		}
		grows := map[*ssa.Function]bool{}
		for _, f := range methods {
			for _, b := range f.Blocks {
				for _, ins := range b.Instrs {
					st, ok := ins.(*ssa.Store)
					if !ok {
						continue
					}
					fa, ok := st.Addr.(*ssa.FieldAddr)
					if !ok || !strings.HasSuffix(fieldName(fa.X.Type(), fa.Field), ".bA") || !isOwnIndex(fa.X) {
						continue
					}
					if c, ok := st.Val.(*ssa.Call); ok {
						if bi, ok := c.Call.Value.(*ssa.Builtin); ok && bi.Name() == "append" {
							grows[f] = true
						}
					}
				}
			}
		}
		// a helper that grows the array on behalf of its caller (called on the caller's own index) makes the caller a grower
		for changed := true; changed; {
			changed = false
			for _, f := range methods {
				if grows[f] {
					continue
				}
				for _, b := range f.Blocks {
					for _, ins := range b.Instrs {
						if c, ok := ins.(*ssa.Call); ok {
							if g := c.Call.StaticCallee(); g != nil && grows[g] && !isExportedAPI(g) && len(c.Call.Args) > 0 && isOwnIndex(c.Call.Args[0]) {
								grows[f] = true
								changed = true
							}
						}
					}
				}
			}
		}
		for f := range grows {
			// the obligation sits on the exported operations; unexported helpers are covered through them
			if isExportedAPI(f) {
				names = append(names, fname(f))
			}
		}
		sort.Strings(names)
		for _, n := range names {
			c := n + "|grows bA"
			listed := false
			for _, w := range wideningOps {
				if w == n {
					listed = true
				}
			}
			switch {
			case listed:
				res.ok(c, "-", "widening operation: sign extension checked below")
			case growthExempt[n] != "":
				res.ok(c, "-", "exempt: "+growthExempt[n])
			default:
				res.bad(c, "-", "this method appends planes to its own index but is neither checked for sign extension nor exempt: existing negative values lose their sign when the sign slot moves")
			}
		}
	}
	// operands narrower than the result: the n-ary union merges plane i of every operand; an operand
	// without plane i is sign-extended, i.e. contributes its last plane
	if f := p.Func("(*roaring64.BSI).ParOr"); f == nil {
		res.undecided("(*roaring64.BSI).ParOr|narrow operand", "-", "anchor not found")
	} else {
		n := 0
		for _, b := range f.Blocks {
			ifi, ok := b.Instrs[len(b.Instrs)-1].(*ssa.If)
			if !ok {
				continue
			}
			cmp, ok := ifi.Cond.(*ssa.BinOp)
			if !ok {
				continue
			}
			// len(x.bA) > i  |  i < len(x.bA)   with x another index than the receiver
			var lenSide ssa.Value
			no := 1 // successor taken when the operand has no plane i
			switch cmp.Op {
			case token.GTR:
				lenSide = cmp.X
			case token.LSS:
				lenSide = cmp.Y
			case token.LEQ:
				lenSide, no = cmp.X, 0
			case token.GEQ:
				lenSide, no = cmp.Y, 0
			default:
				continue
			}
			base, lc, ok := planeCountOf(lenSide)
			if !ok || lc != 0 || isOwnIndex(base) {
				continue
			}
			// the other side is the plane index: the branch taken when the plane exists reads x.bA[i]
			other := cmp.Y
			if lenSide == cmp.Y {
				other = cmp.X
			}
			reads := false
			for _, rb := range f.Blocks {
				if !b.Succs[1-no].Dominates(rb) {
					continue
				}
				for _, ins := range rb.Instrs {
					if ia, ok := ins.(*ssa.IndexAddr); ok && ia.Index == other {
						if b2, ok := isBAField(ia.X); ok && b2 == base {
							reads = true
						}
					}
				}
			}
			if !reads {
				continue
			}
			n++
			c := fmt.Sprintf("(*roaring64.BSI).ParOr|narrow operand#%d", n)
			region := b.Succs[no]
			found := false
			for _, rb := range f.Blocks {
				if !region.Dominates(rb) {
					continue
				}
				for _, ins := range rb.Instrs {
					ia, ok := ins.(*ssa.IndexAddr)
					if !ok {
						continue
					}
					b2, ok := isBAField(ia.X)
					if !ok || b2 != base {
						continue
					}
					if b3, ic, ok := planeCountOf(ia.Index); ok && b3 == base && ic == -1 {
						found = true
					}
				}
			}
			if found {
				res.ok(c, p.ipos(ifi), "an operand without plane i contributes its sign plane bA[len(bA)-1]")
			} else {
				res.bad(c, p.ipos(ifi), "an operand without plane i contributes nothing to it: the planes are merged index by index, so the negative values of a narrower operand lose their sign (its sign plane lands on a value plane of the result)")
			}
		}
		if n == 0 {
			res.undecided("(*roaring64.BSI).ParOr|narrow operand", p.pos(f.Pos()), "no comparison of an operand's plane count with the plane index found: re-anchor the rule")
		}
	}
	for _, name := range wideningOps {
		f := p.Func(name)
		if f == nil {
			res.undecided(name, "-", "anchor not found")
			continue
		}
		// stores that grow the plane array; the widening code may live in a helper method called on the
		// same receiver (extract-method refactoring): then the helper is analysed in place of the entry point
		growBlocks := func(g *ssa.Function) []*ssa.BasicBlock {
			var out []*ssa.BasicBlock
			for _, b := range g.Blocks {
				for _, ins := range b.Instrs {
					if st, ok := ins.(*ssa.Store); ok {
						if fa, ok := st.Addr.(*ssa.FieldAddr); ok && strings.HasSuffix(fieldName(fa.X.Type(), fa.Field), ".bA") {
							out = append(out, b)
						}
					}
				}
			}
			return out
		}
		grow := growBlocks(f)
		for depth := 0; len(grow) == 0 && depth < 2; depth++ {
			var next *ssa.Function
			for _, b := range f.Blocks {
				for _, ins := range b.Instrs {
					if c, ok := ins.(*ssa.Call); ok {
						if g := c.Call.StaticCallee(); g != nil && g.Signature.Recv() != nil && len(c.Call.Args) > 0 && len(f.Params) > 0 && c.Call.Args[0] == ssa.Value(f.Params[0]) && len(growBlocks(g)) > 0 {
							next = g
						}
					}
				}
			}
			if next == nil {
				break
			}
			f = next
			grow = growBlocks(f)
		}
		if len(grow) == 0 {
			res.undecided(name+"|growth", p.pos(f.Pos()), "no store to bA: the widening code moved, re-anchor the rule")
			continue
		}
		afterGrowth := func(ld *ssa.UnOp) bool {
			for _, g := range grow {
				if blockReaches(ld.Block(), g) {
					return false
				}
			}
			return true
		}
		n := 0
		for _, b := range f.Blocks {
			for _, ins := range b.Instrs {
				ph, ok := ins.(*ssa.Phi)
				if !ok || len(ph.Edges) != 2 {
					continue
				}
				var start ssa.Value
				var step *ssa.BinOp
				for i, e := range ph.Edges {
					if bo, isB := ph.Edges[1-i].(*ssa.BinOp); isB && bo.Op == token.ADD && isConstInt(bo.Y, 1) && bo.X == ssa.Value(ph) {
						if _, isC := constIntVal(e); !isC {
							start, step = e, bo
						}
					}
				}
				if step == nil || len(planeIndexUses(p, f, ph)) == 0 {
					continue
				}
				n++
				c := fmt.Sprintf("%s|sign-extension loop#%d", name, n)
				sa := evalAff(start, 0)
				var sl []*ssa.UnOp
				affLoads(start, 0, &sl)
				startOK := sa.ok && sa.a == 1 && sa.c == 0 && len(sl) == 1 && !afterGrowth(sl[0])
				// bound
				var bound ssa.Value
				incl := false
				for _, b2 := range f.Blocks {
					if ifi, ok := b2.Instrs[len(b2.Instrs)-1].(*ssa.If); ok {
						if cmp, ok := ifi.Cond.(*ssa.BinOp); ok && cmp.X == ssa.Value(ph) {
							switch cmp.Op {
							case token.LSS:
								bound = cmp.Y
							case token.LEQ:
								bound, incl = cmp.Y, true
							}
						}
					}
				}
				if bound == nil {
					res.undecided(c, p.ipos(ph), "loop condition not recognised")
					continue
				}
				ba := evalAff(bound, 0)
				if incl {
					ba.c++
				}
				var bl []*ssa.UnOp
				affLoads(bound, 0, &bl)
				boundOK := ba.ok && ba.a == 1 && ba.c == 0 && len(bl) == 1 && afterGrowth(bl[0])
				switch {
				case !sa.ok || !ba.ok:
					res.undecided(c, p.ipos(ph), "start or bound is not an affine expression of len(bA)")
				case !startOK:
					res.bad(c, p.ipos(ph), fmt.Sprintf("the loop starts at %s (of the array before growth: %v): new planes below it are not sign-extended", affString(sa), len(sl) == 1 && !afterGrowth(sl[0])))
				case !boundOK:
					res.bad(c, p.ipos(ph), fmt.Sprintf("the loop stops before %s of the grown array: the new top (sign) plane is not filled, existing negative values become positive", affString(ba)))
				default:
					res.ok(c, p.ipos(ph), "planes [old len(bA), new len(bA))")
				}
			}
		}
		if n == 0 {
			// the loop may live in a helper of its own that is called after the growth with the old sign
			// position as an argument: signExtendFrom(oldSignPos)
			for _, b := range f.Blocks {
				for _, ins := range b.Instrs {
					call, ok := ins.(*ssa.Call)
					if !ok {
						continue
					}
					g := call.Call.StaticCallee()
					if g == nil || g.Blocks == nil || g.Signature.Recv() == nil || len(call.Call.Args) == 0 || len(f.Params) == 0 || call.Call.Args[0] != ssa.Value(f.Params[0]) || len(growBlocks(g)) > 0 {
						continue
					}
					for _, gb := range g.Blocks {
						for _, gi := range gb.Instrs {
							ph, ok := gi.(*ssa.Phi)
							if !ok || len(ph.Edges) != 2 {
								continue
							}
							var start ssa.Value
							var step *ssa.BinOp
							for i, e := range ph.Edges {
								if bo, isB := ph.Edges[1-i].(*ssa.BinOp); isB && bo.Op == token.ADD && isConstInt(bo.Y, 1) && bo.X == ssa.Value(ph) {
									if _, isC := constIntVal(e); !isC {
										start, step = e, bo
									}
								}
							}
							if step == nil || len(planeIndexUses(p, g, ph)) == 0 {
								continue
							}
							n++
							c := fmt.Sprintf("%s|sign-extension loop#%d", name, n)
							// start = parameter + k, resolved with the argument of the call
							sa := aff{}
							startBefore := false
							if bo, ok := start.(*ssa.BinOp); ok && bo.Op == token.ADD {
								if prm, ok := bo.X.(*ssa.Parameter); ok {
									if k, isC := constIntVal(bo.Y); isC {
										for pi, gp := range g.Params {
											if gp == prm && pi < len(call.Call.Args) {
												aa := evalAff(call.Call.Args[pi], 0)
												var al []*ssa.UnOp
												affLoads(call.Call.Args[pi], 0, &al)
												if aa.ok {
													sa = aff{aa.a, aa.c + k, true}
													startBefore = len(al) == 1 && !afterGrowth(al[0])
												}
											}
										}
									}
								}
							}
							var bound ssa.Value
							incl := false
							for _, b2 := range g.Blocks {
								if ifi, ok := b2.Instrs[len(b2.Instrs)-1].(*ssa.If); ok {
									if cmp, ok := ifi.Cond.(*ssa.BinOp); ok && cmp.X == ssa.Value(ph) {
										switch cmp.Op {
										case token.LSS:
											bound = cmp.Y
										case token.LEQ:
											bound, incl = cmp.Y, true
										}
									}
								}
							}
							if bound == nil {
								res.undecided(c, p.ipos(ph), "loop condition not recognised")
								continue
							}
							ba := evalAff(bound, 0)
							if incl {
								ba.c++
							}
							// the helper reads len(bA) itself; it must be called after the growth
							callAfterGrowth := true
							for _, gb2 := range grow {
								if blockReaches(call.Block(), gb2) && gb2 != call.Block() {
									callAfterGrowth = false
								}
							}
							switch {
							case !sa.ok || !ba.ok:
								res.undecided(c, p.ipos(ph), "start or bound of the sign-extension helper is not an affine expression of len(bA)")
							case !(sa.a == 1 && sa.c == 0 && startBefore):
								res.bad(c, p.ipos(ph), fmt.Sprintf("the helper starts at %s of the array before growth: new planes below it are not sign-extended", affString(sa)))
							case !(ba.a == 1 && ba.c == 0 && callAfterGrowth):
								res.bad(c, p.ipos(ph), fmt.Sprintf("the helper stops before %s of the grown array (called after growth: %v): the new top (sign) plane is not filled", affString(ba), callAfterGrowth))
							default:
								res.ok(c, p.ipos(ph), "planes [old len(bA), new len(bA)) via "+fname(g))
							}
						}
					}
				}
			}
		}
		if n == 0 {
			res.undecided(name+"|sign-extension", p.pos(f.Pos()), "no sign-extension loop found in a widening operation")
		}
	}
	return res
}

func affString(a aff) string {
	s := ""
	switch a.a {
	case 0:
	case 1:
		s = "len(bA)"
	default:
		s = fmt.Sprintf("%d*len(bA)", a.a)
	}
	if a.c != 0 || s == "" {
		s += fmt.Sprintf("%+d", a.c)
	}
	return s
}
