package main

import (
	"fmt"
	"go/token"
	"go/types"
	"strings"

	"golang.org/x/tools/go/ssa"
)

func init() {
	register("PC1", "plane coverage: every whole-index operation of the bit-sliced indexes visits every plane bA[0..len(bA)) — in roaring64 that includes the sign plane bA[BitCount()]", rulePC1)
}

// aff: a*L + c with L = len(b.bA); ok=false when the value is not affine in L.
type aff struct {
	a, c int64
	ok   bool
}

func isBAField(v ssa.Value) (base ssa.Value, ok bool) {
	u, isU := v.(*ssa.UnOp)
	if !isU || u.Op != token.MUL {
		return nil, false
	}
	fa, isF := u.X.(*ssa.FieldAddr)
	if !isF {
		return nil, false
	}
	st := fa.X.Type().Underlying().(*types.Pointer).Elem().Underlying().(*types.Struct)
	if st.Field(fa.Field).Name() != "bA" {
		return nil, false
	}
	return fa.X, true
}

func evalAff(v ssa.Value, depth int) aff {
	if depth > 8 {
		return aff{}
	}
	switch x := v.(type) {
	case *ssa.Const:
		if c, ok := constIntVal(x); ok {
			return aff{0, c, true}
		}
	case *ssa.Convert:
		return evalAff(x.X, depth+1)
	case *ssa.BinOp:
		l, r := evalAff(x.X, depth+1), evalAff(x.Y, depth+1)
		if !l.ok || !r.ok {
			return aff{}
		}
		switch x.Op {
		case token.ADD:
			return aff{l.a + r.a, l.c + r.c, true}
		case token.SUB:
			return aff{l.a - r.a, l.c - r.c, true}
		}
	case *ssa.Call:
		if bi, ok := x.Call.Value.(*ssa.Builtin); ok && bi.Name() == "len" {
			if _, ok := isBAField(x.Call.Args[0]); ok {
				return aff{1, 0, true}
			}
			return aff{}
		}
		// inline single-expression helpers such as BitCount()
		if f := x.Call.StaticCallee(); f != nil && len(f.Blocks) == 1 && f.Signature.Results().Len() == 1 {
			if r, ok := f.Blocks[0].Instrs[len(f.Blocks[0].Instrs)-1].(*ssa.Return); ok {
				return evalAff(r.Results[0], depth+1)
			}
		}
	case *ssa.Phi:
		// max idiom: `bits := len(b.bA); if len(o.bA) > bits { bits = len(o.bA) }` never goes below L
		for _, e := range x.Edges {
			if a := evalAff(e, depth+1); a.ok && a.a == 1 && a.c == 0 {
				return a
			}
		}
	}
	return aff{}
}

type planeLoop struct {
	phi        *ssa.Phi
	start      int64
	bound      aff
	inclusive  bool
	delta      int64 // index = i + delta
	pos        ssa.Instruction
	descending bool
}

// planeLoops finds loops of f whose induction variable indexes a bA slice (directly, or in a closure it is passed to).
func planeLoops(p *Prog, f *ssa.Function) []planeLoop {
	var out []planeLoop
	for _, b := range f.Blocks {
		for _, ins := range b.Instrs {
			ph, ok := ins.(*ssa.Phi)
			if !ok || len(ph.Edges) != 2 {
				continue
			}
			if bk, ok := ph.Type().Underlying().(*types.Basic); !ok || bk.Info()&types.IsInteger == 0 {
				continue
			}
			// phi(start, phi±1)
			var start int64
			var step *ssa.BinOp
			okShape := false
			for i, e := range ph.Edges {
				if c, isC := constIntVal(e); isC {
					if bo, isB := ph.Edges[1-i].(*ssa.BinOp); isB && (bo.Op == token.ADD || bo.Op == token.SUB) && isConstInt(bo.Y, 1) && (bo.X == ssa.Value(ph)) {
						start, step, okShape = c, bo, true
					}
				}
			}
			desc := false
			if !okShape {
				// descending loops start at a computed value: for i := b.BitCount(); i >= 0; i--
				for i, e := range ph.Edges {
					if bo, isB := ph.Edges[1-i].(*ssa.BinOp); isB && bo.Op == token.SUB && isConstInt(bo.Y, 1) && bo.X == ssa.Value(ph) {
						if a := evalAff(e, 0); a.ok {
							step, okShape, desc = bo, true, true
							_ = a
						}
					}
				}
			}
			if !okShape {
				continue
			}
			// loop condition on phi (or on phi+1 for range loops)
			iv := ssa.Value(ph)
			rangeStyle := false
			var bound aff
			incl := false
			found := false
			for _, b2 := range f.Blocks {
				if len(b2.Instrs) == 0 {
					continue
				}
				ifi, ok := b2.Instrs[len(b2.Instrs)-1].(*ssa.If)
				if !ok {
					continue
				}
				cmp, ok := ifi.Cond.(*ssa.BinOp)
				if !ok {
					continue
				}
				lhs := cmp.X
				if lhs == ssa.Value(step) && step.Op == token.ADD && start == -1 {
					rangeStyle = true
				} else if lhs != iv {
					continue
				}
				switch cmp.Op {
				case token.LSS:
					bound, found = evalAff(cmp.Y, 0), true
				case token.LEQ:
					bound, incl, found = evalAff(cmp.Y, 0), true, true
				case token.GEQ, token.GTR:
					if desc {
						found = true
					}
				}
			}
			if !found {
				continue
			}
			idxVal := iv
			if rangeStyle {
				idxVal = step
				start = 0
			}
			// how is the induction variable used as a plane index?
			uses := planeIndexUses(p, f, idxVal)
			for _, u := range uses {
				pl := planeLoop{phi: ph, start: start, bound: bound, inclusive: incl, delta: u.delta, pos: u.ins, descending: desc}
				if desc {
					// descending from S down to 0: covers [0, S]
					for i, e := range ph.Edges {
						if _, isB := ph.Edges[1-i].(*ssa.BinOp); isB {
							pl.bound = evalAff(e, 0)
							pl.inclusive = true
							pl.start = 0
						}
					}
				}
				out = append(out, pl)
			}
		}
	}
	return out
}

type idxUse struct {
	ins   ssa.Instruction
	delta int64
}

func planeIndexUses(p *Prog, f *ssa.Function, iv ssa.Value) []idxUse {
	var out []idxUse
	var visit func(v ssa.Value, delta int64, depth int)
	visit = func(v ssa.Value, delta int64, depth int) {
		if depth > 4 || v.Referrers() == nil {
			return
		}
		for _, r := range *v.Referrers() {
			switch x := r.(type) {
			case *ssa.IndexAddr:
				if x.Index == v {
					if base, ok := isBAField(x.X); ok {
						// only the planes of the index operated on (receiver, or the receiver captured by a closure)
						switch bv := base.(type) {
						case *ssa.Parameter:
							if len(f.Params) > 0 && bv == f.Params[0] {
								out = append(out, idxUse{x, delta})
							}
						case *ssa.FreeVar:
							out = append(out, idxUse{x, delta})
						case *ssa.UnOp:
							if _, isFV := bv.X.(*ssa.FreeVar); isFV {
								out = append(out, idxUse{x, delta})
							}
						}
					}
				}
			case *ssa.BinOp:
				if c, ok := constIntVal(x.Y); ok && x.X == v {
					switch x.Op {
					case token.ADD:
						visit(x, delta+c, depth+1)
					case token.SUB:
						visit(x, delta-c, depth+1)
					}
				}
			case *ssa.Convert:
				visit(x, delta, depth+1)
			case *ssa.Go, *ssa.Call, *ssa.Defer:
				var c *ssa.CallCommon
				switch y := x.(type) {
				case *ssa.Go:
					c = &y.Call
				case *ssa.Call:
					c = &y.Call
				case *ssa.Defer:
					c = &y.Call
				}
				callee := c.StaticCallee()
				if callee == nil || callee.Parent() != f {
					continue
				}
				for ai, a := range c.Args {
					if a == v && ai < len(callee.Params) {
						for _, u := range planeIndexUses(p, callee, callee.Params[ai]) {
							out = append(out, idxUse{x.(ssa.Instruction), delta + u.delta})
						}
					}
				}
			}
		}
	}
	visit(iv, 0, 0)
	return out
}

// Whole-index operations (DESIGN §3.8 PC1).
var wholeIndexOps = []string{
	"(*roaring64.BSI).NewBSIRetainSet", "(*roaring64.BSI).ClearValues", "(*roaring64.BSI).Retain", "(*roaring64.BSI).ParOr",
	"(*roaring64.BSI).MarshalBinary", "(*roaring64.BSI).WriteTo", "(*roaring64.BSI).Equals", "(*roaring64.BSI).RunOptimize",
	"(*roaring64.BSI).GetSizeInBytes",
	"(*BitSliceIndexing.BSI).NewBSIRetainSet", "(*BitSliceIndexing.BSI).ClearValues", "(*BitSliceIndexing.BSI).ParOr",
	"(*BitSliceIndexing.BSI).MarshalBinary", "(*BitSliceIndexing.BSI).RunOptimize",
}

func rulePC1(p *Prog) *RuleResult {
	res := newResult("PC1", ruleDoc["PC1"], 10)
	for _, name := range wholeIndexOps {
		f := p.Func(name)
		if f == nil {
			res.undecided(name, "-", "anchor not found")
			continue
		}
		var fns []*ssa.Function
		fns = append(fns, f)
		loops := planeLoops(p, f)
		// range loops over b.bA itself (`for _, bm := range b.bA`) are SSA index loops bounded by len(b.bA):
		// they appear as plane loops through the IndexAddr of the ranged slice.
		if len(loops) == 0 {
			res.undecided(name+"|planes", p.pos(f.Pos()), "no loop over the planes recognised in a whole-index operation")
			continue
		}
		// a separate access to the sign plane bA[len-1]
		signSeparately := false
		for _, b := range f.Blocks {
			for _, ins := range b.Instrs {
				if ia, ok := ins.(*ssa.IndexAddr); ok {
					if _, ok := isBAField(ia.X); ok {
						if a := evalAff(ia.Index, 0); a.ok && a.a == 1 && a.c == -1 {
							signSeparately = true
						}
					}
				}
			}
		}
		per := 0
		seen := map[*ssa.Phi]bool{}
		for _, l := range loops {
			if seen[l.phi] {
				continue
			}
			seen[l.phi] = true
			per++
			c := fmt.Sprintf("%s|plane loop#%d", name, per)
			if !l.bound.ok {
				res.undecided(c, p.ipos(l.pos), "loop bound is not an affine expression of len(bA)")
				continue
			}
			lo := l.start + l.delta
			hiExcl := aff{l.bound.a, l.bound.c + l.delta, true}
			if l.inclusive {
				hiExcl.c++
			}
			covers := lo == 0 && hiExcl.a == 1 && hiExcl.c == 0
			desc := fmt.Sprintf("planes [%d, %s)", lo, affString(hiExcl))
			switch {
			case covers:
				res.ok(c, p.ipos(l.pos), desc+" = all planes")
			case lo == 0 && hiExcl.a == 1 && hiExcl.c == -1 && signSeparately:
				res.ok(c, p.ipos(l.pos), desc+" plus the sign plane accessed separately")
			case lo == 0 && hiExcl.a == 1 && hiExcl.c > 0:
				res.ok(c, p.ipos(l.pos), desc+" (covers all planes; extra index used for another array)")
			default:
				res.bad(c, p.ipos(l.pos), fmt.Sprintf("the loop visits %s but the index has len(bA) planes: %s", desc, strings.TrimSpace("the plane(s) outside that interval (the sign plane in roaring64) are skipped")))
			}
		}
	}
	return res
}

func affString(a aff) string {
	s := ""
	switch a.a {
	case 0:
	case 1:
		s = "len(bA)"
	default:
		s = fmt.Sprintf("%d*len(bA)", a.a)
	}
	if a.c != 0 || s == "" {
		s += fmt.Sprintf("%+d", a.c)
	}
	return s
}
