package main

import (
	"fmt"
	"go/token"
	"sort"
	"strings"

	"golang.org/x/tools/go/ssa"
)

func init() {
	register("G1", "no shared mutable package state: outside init, library code never writes a package-level variable or hands its memory to a writer; the only package-level objects used on API paths are sync.Pool values and read-only tables", ruleG1)
}

// ruleG1: a package-level scratch buffer or counter written from API functions is shared by every
// goroutine and every bitmap. Each use of a global outside an init function is classified.
var g1own *ownEngine

func ruleG1(p *Prog) *RuleResult {
	res := newResult("G1", ruleDoc["G1"], 5)
	g1own = p.OWN()
	type use struct {
		g   *ssa.Global
		fn  *ssa.Function
		ins ssa.Instruction
	}
	per := map[string]int{}
	var fns []*ssa.Function
	fns = append(fns, p.sourceFns()...)
	sort.Slice(fns, func(i, j int) bool { return fname(fns[i]) < fname(fns[j]) })
	for _, f := range fns {
		if f.Name() == "init" || strings.HasPrefix(f.Name(), "init#") || f.Synthetic != "" {
			continue
		}
		if strings.HasPrefix(f.Name(), "smat") || strings.Contains(fnPkgPath(f), "/cmd/") {
			continue
		}
		for _, b := range f.Blocks {
			for _, ins := range b.Instrs {
				for _, op := range ins.Operands(nil) {
					g, ok := (*op).(*ssa.Global)
					if !ok || g.Pkg == nil || !strings.HasPrefix(g.Pkg.Pkg.Path(), modPath) {
						continue
					}
					if strings.HasPrefix(g.Name(), "smat") || strings.HasPrefix(g.Name(), "init$guard") {
						continue
					}
					gt := typeShort(g.Type())
					key := fmt.Sprintf("%s|global %s", fname(f), g.Name())
					per[key]++
					c := fmt.Sprintf("%s#%d", key, per[key])
					if strings.Contains(gt, "sync.") || strings.Contains(gt, "atomic.") {
						res.ok(c, p.ipos(ins), "a sync / sync/atomic value (sync.Pool, Once, Mutex, atomic counter): synchronised by its own type")
						continue
					}
					if cc, isCall := ins.(*ssa.Call); isCall {
						if g2 := cc.Call.StaticCallee(); g2 != nil && strings.HasPrefix(g2.String(), "sync/atomic.") {
							res.ok(c, p.ipos(ins), "accessed through sync/atomic")
							continue
						}
					}
					if why := globalEscapes(f, ins, g); why != "" {
						res.bad(c, p.ipos(ins), fmt.Sprintf("package-level variable %s.%s is %s: every caller receives the same memory, so one caller's edit (or append into its spare capacity) shows up in another caller's result", g.Pkg.Pkg.Name(), g.Name(), why))
					} else if why := globalWrite(ins, g); why != "" {
						res.bad(c, p.ipos(ins), fmt.Sprintf("package-level variable %s.%s is %s: the memory is shared by every goroutine and every bitmap, so concurrent or interleaved calls on unrelated bitmaps interfere", g.Pkg.Pkg.Name(), g.Name(), why))
					} else {
						res.ok(c, p.ipos(ins), "read only")
					}
				}
			}
		}
	}
	return res
}

// globalWrite classifies instruction ins using &g: "" = read-only.
func globalWrite(ins ssa.Instruction, g *ssa.Global) string {
	switch x := ins.(type) {
	case *ssa.Store:
		if x.Addr == ssa.Value(g) {
			return "assigned"
		}
		return "" // the global's address stored elsewhere does not occur; its value is loaded first
	case *ssa.UnOp:
		if x.Op == token.MUL {
			// load of the whole value: a slice/map/pointer header read from a global still shares its backing store;
			// follow the loaded value
			return derivedWrite(x, 0)
		}
	case *ssa.IndexAddr, *ssa.FieldAddr, *ssa.Slice:
		return derivedWrite(ins.(ssa.Value), 0)
	case *ssa.Call:
		// &g passed to a function: method with pointer receiver on a package-level struct
		return "passed by address to " + callName(&x.Call)
	}
	return ""
}

func callName(c *ssa.CallCommon) string {
	if f := c.StaticCallee(); f != nil {
		return f.String()
	}
	if c.IsInvoke() {
		return c.Method.Name()
	}
	return "a function value"
}

// derivedWrite: v is (derived from) memory of a global; is it written or given to code that may write it?
func derivedWrite(v ssa.Value, depth int) string {
	if depth > 6 || v.Referrers() == nil {
		return ""
	}
	for _, r := range *v.Referrers() {
		switch x := r.(type) {
		case *ssa.Store:
			if x.Addr == v {
				return "written (element/field store)"
			}
		case *ssa.IndexAddr:
			if x.X == v {
				if w := derivedWrite(x, depth+1); w != "" {
					return w
				}
			}
		case *ssa.FieldAddr:
			if x.X == v {
				if w := derivedWrite(x, depth+1); w != "" {
					return w
				}
			}
		case *ssa.Slice:
			if x.X == v {
				if w := derivedWrite(x, depth+1); w != "" {
					return w
				}
			}
		case *ssa.UnOp:
			if x.Op == token.MUL && hasPointers(x.Type()) {
				if w := derivedWrite(x, depth+1); w != "" {
					return w
				}
			}
		case *ssa.Call:
			if !hasPointers(v.Type()) {
				continue
			}
			if bi, ok := x.Call.Value.(*ssa.Builtin); ok {
				switch bi.Name() {
				case "len", "cap":
					continue
				case "copy":
					if len(x.Call.Args) > 0 && x.Call.Args[0] == v {
						return "the destination of copy"
					}
					continue
				case "append":
					if len(x.Call.Args) > 0 && x.Call.Args[0] == v {
						return "appended to"
					}
					continue
				}
			}
			name := callName(&x.Call)
			switch {
			case strings.HasPrefix(name, "io.ReadFull"), strings.HasPrefix(name, "io.ReadAtLeast"), name == "Read", strings.Contains(name, ".PutUint"):
				return "filled by " + name
			case strings.HasPrefix(name, "(encoding/binary.") && strings.Contains(name, ").Uint"):
				continue
			case name == "Write" || strings.HasSuffix(name, ".Write"):
				continue // io.Writer contract: Write must not modify or retain p
			}
			if f := x.Call.StaticCallee(); f != nil && len(f.Blocks) > 0 {
				// repo callee: consult its effect summary for the parameter(s) that receive the global's memory
				if g1own != nil {
					if sum := g1own.Sum(f); sum != nil {
						for ai, a := range x.Call.Args {
							if a == v {
								if e := sum.mut[ai]; e != nil && (e.shallow || e.deep) {
									return "written by " + f.String() + " (parameter " + paramName(f, ai) + ")"
								}
							}
						}
						continue
					}
				}
				return "passed to " + name + " (no effect summary)"
			}
			if x.Call.IsInvoke() {
				if g1own != nil {
					wrote := ""
					for _, g := range g1own.lookupImpls(&x.Call) {
						if sum := g1own.Sum(g); sum != nil {
							for ai, a := range x.Call.Args {
								if a == v {
									if e := sum.mut[ai+1]; e != nil && (e.shallow || e.deep) {
										wrote = g.String()
									}
								}
							}
						}
					}
					if wrote != "" {
						return "written by " + wrote
					}
					if len(g1own.lookupImpls(&x.Call)) > 0 {
						continue
					}
				}
			}
			return "passed to " + name
		}
	}
	return ""
}

// globalEscapes: ins loads a slice / map / pointer held in global g and an exported function returns it.
func globalEscapes(f *ssa.Function, ins ssa.Instruction, g *ssa.Global) string {
	ld, ok := ins.(*ssa.UnOp)
	if !ok || ld.Op != token.MUL || ld.X != ssa.Value(g) || !hasPointers(ld.Type()) || isErrorType(ld.Type()) {
		return ""
	}
	top := f
	for top.Parent() != nil {
		top = top.Parent()
	}
	if !isExportedAPI(top) {
		return ""
	}
	seen := map[ssa.Value]bool{}
	var reach func(v ssa.Value, d int) bool
	reach = func(v ssa.Value, d int) bool {
		if d > 6 || seen[v] || v.Referrers() == nil {
			return false
		}
		seen[v] = true
		for _, r := range *v.Referrers() {
			switch x := r.(type) {
			case *ssa.Return:
				return true
			case *ssa.Phi:
				if reach(x, d+1) {
					return true
				}
			case *ssa.Slice:
				if reach(x, d+1) {
					return true
				}
			case *ssa.ChangeType:
				if reach(x, d+1) {
					return true
				}
			case *ssa.MakeInterface:
				if reach(x, d+1) {
					return true
				}
			}
		}
		return false
	}
	if reach(ld, 0) {
		return "returned to the caller by " + fname(top)
	}
	return ""
}
