package main

import (
	"fmt"
	"go/token"
	"go/types"
	"sort"

	"golang.org/x/tools/go/ssa"
)

func init() {
	register("GAL1", "a galloping search answers with a position that may be one past the end of what it searched (nothing at or above the target). Its result — directly, or carried round a loop in a position variable — is used as an index (slice indexing, or a positional accessor of the chunk table) only after being compared with a bound on some path that dominates the use. The searches are recognised by shape: an int-returning function with a loop that doubles its step", ruleGAL1)
}

// gallopers: functions with a single int result and a loop-carried value that is doubled each round
func (p *Prog) gallopers() []*ssa.Function {
	var out []*ssa.Function
	for _, f := range p.sourceFns() {
		if f.Blocks == nil || f.Signature.Results().Len() != 1 || !types.Identical(f.Signature.Results().At(0).Type(), types.Typ[types.Int]) {
			continue
		}
		found := false
		for _, b := range f.Blocks {
			for _, ins := range b.Instrs {
				ph, ok := ins.(*ssa.Phi)
				if !ok {
					break
				}
				for _, e := range ph.Edges {
					bo, ok := e.(*ssa.BinOp)
					if !ok {
						continue
					}
					c, isC := constIntVal(bo.Y)
					if ((bo.Op == token.MUL && isC && c == 2) || (bo.Op == token.SHL && isC && c == 1)) && bo.X == ssa.Value(ph) {
						found = true
					}
				}
			}
		}
		if found {
			out = append(out, f)
		}
	}
	sort.Slice(out, func(i, j int) bool { return fname(out[i]) < fname(out[j]) })
	return out
}

func ruleGAL1(p *Prog) *RuleResult {
	res := newResult("GAL1", ruleDoc["GAL1"], 30)
	gs := map[*ssa.Function]bool{}
	for _, g := range p.gallopers() {
		gs[g] = true
		res.ok("search|"+fname(g), p.pos(g.Pos()), "int-returning function with a doubling loop")
	}
	if len(gs) < 3 {
		res.undecided("anchors", "-", fmt.Sprintf("only %d galloping searches recognised", len(gs)))
	}
	fns := append([]*ssa.Function(nil), p.sourceFns()...)
	sort.Slice(fns, func(i, j int) bool { return fname(fns[i]) < fname(fns[j]) })
	for _, f := range fns {
		if f.Blocks == nil || gs[f] {
			continue
		}
		n := 0
		for _, b := range f.Blocks {
			for _, ins := range b.Instrs {
				c, ok := ins.(*ssa.Call)
				if !ok || c.Call.StaticCallee() == nil || !gs[c.Call.StaticCallee()] {
					continue
				}
				n++
				cn := fmt.Sprintf("%s|result of %s#%d", fname(f), c.Call.StaticCallee().Name(), n)
				// chain: the result and the phis it feeds
				chain := map[ssa.Value]bool{c: true}
				for changed := true; changed; {
					changed = false
					for _, b2 := range f.Blocks {
						for _, i2 := range b2.Instrs {
							ph, ok := i2.(*ssa.Phi)
							if !ok {
								break
							}
							if chain[ph] {
								continue
							}
							for _, e := range ph.Edges {
								if chain[e] {
									chain[ph] = true
									changed = true
								}
							}
						}
					}
				}
				// comparisons on a chain value that decide a branch
				type cmp struct {
					v   ssa.Value
					iff *ssa.If
				}
				var cmps []cmp
				for _, b2 := range f.Blocks {
					iff, ok := b2.Instrs[len(b2.Instrs)-1].(*ssa.If)
					if !ok {
						continue
					}
					for _, src := range sliceBack(iff.Cond, func(v ssa.Value) bool {
						bo, ok := v.(*ssa.BinOp)
						if !ok {
							return false
						}
						switch bo.Op {
						case token.EQL, token.NEQ, token.LSS, token.LEQ, token.GTR, token.GEQ:
							return chain[bo.X] || chain[bo.Y]
						}
						return false
					}) {
						bo := src.(*ssa.BinOp)
						if chain[bo.X] {
							cmps = append(cmps, cmp{bo.X, iff})
						}
						if chain[bo.Y] {
							cmps = append(cmps, cmp{bo.Y, iff})
						}
					}
				}
				var bad ssa.Instruction
				uses := 0
				for _, b2 := range f.Blocks {
					for _, i2 := range b2.Instrs {
						var idx ssa.Value
						switch x := i2.(type) {
						case *ssa.IndexAddr:
							idx = x.Index
						case *ssa.Index:
							idx = x.Index
						case *ssa.Call:
							// positional accessor: a call passing the value as an int argument to a method of the
							// table the search ran on
							if g := x.Call.StaticCallee(); g != nil && !gs[g] && len(x.Call.Args) >= 2 && len(c.Call.Args) > 0 && sameAccessPath(x.Call.Args[0], c.Call.Args[0], 0) {
								for _, a := range x.Call.Args[1:] {
									if chain[a] {
										idx = a
									}
								}
							}
						}
						if idx == nil || !chain[idx] {
							continue
						}
						// only uses that the call can reach
						if !reachAvoid(c, i2, nil) {
							continue
						}
						uses++
						var checked func(v ssa.Value, at *ssa.BasicBlock, edge bool, seen map[ssa.Value]bool) bool
						checked = func(v ssa.Value, at *ssa.BasicBlock, edge bool, seen map[ssa.Value]bool) bool {
							for _, cm := range cmps {
								if cm.v != v {
									continue
								}
								cb := cm.iff.Block()
								if (cb != at && cb.Dominates(at)) || (edge && cb == at) {
									return true
								}
							}
							ph, ok := v.(*ssa.Phi)
							if !ok {
								return false
							}
							if seen[v] {
								return true // round the loop: decided by the other edges
							}
							seen[v] = true
							for k, e := range ph.Edges {
								if chain[e] && !checked(e, ph.Block().Preds[k], true, seen) {
									return false
								}
							}
							return true
						}
						okUse := checked(idx, i2.Block(), false, map[ssa.Value]bool{})
						if !okUse {
							bad = i2
						}
					}
				}
				if bad != nil {
					res.bad(cn, p.ipos(c), fmt.Sprintf("the position is used as an index at %s without having been compared with a bound first; the search returns one past the end when nothing qualifies", p.ipos(bad)))
				} else {
					res.ok(cn, p.ipos(c), fmt.Sprintf("%d index uses, each behind a comparison of the position", uses))
				}
			}
		}
	}
	return res
}

// sameAccessPath: the two values name the same place by the same chain of field selections and loads
func sameAccessPath(a, b ssa.Value, d int) bool {
	if a == b {
		return true
	}
	if d > 6 {
		return false
	}
	switch x := a.(type) {
	case *ssa.FieldAddr:
		y, ok := b.(*ssa.FieldAddr)
		return ok && x.Field == y.Field && sameAccessPath(x.X, y.X, d+1)
	case *ssa.Field:
		y, ok := b.(*ssa.Field)
		return ok && x.Field == y.Field && sameAccessPath(x.X, y.X, d+1)
	case *ssa.UnOp:
		y, ok := b.(*ssa.UnOp)
		return ok && x.Op == token.MUL && y.Op == token.MUL && sameAccessPath(x.X, y.X, d+1)
	case *ssa.IndexAddr:
		y, ok := b.(*ssa.IndexAddr)
		return ok && sameAccessPath(x.X, y.X, d+1) && sameAccessPath(x.Index, y.Index, d+1)
	case *ssa.Const:
		y, ok := b.(*ssa.Const)
		if !ok {
			return false
		}
		cx, ok1 := constIntVal(x)
		cy, ok2 := constIntVal(y)
		return ok1 && ok2 && cx == cy
	}
	return false
}
