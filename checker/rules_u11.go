package main

import (
	"fmt"
	"go/token"
	"go/types"
	"sort"

	"golang.org/x/tools/go/ssa"
)

func init() {
	register("U11", "the last value of a half-open range is end-1; on an unsigned end handed in by the caller that is computed only where end is known to be positive — behind 'start >= end: return' (so end > start >= 0), a test against zero, or a clamp to a positive constant. Computed for end == 0 it wraps to the top of the universe: RemoveRange(0,0) wipes the bitmap, Flip(x,0) panics or flips everything", ruleU11)
}

func ruleU11(p *Prog) *RuleResult {
	res := newResult("U11", ruleDoc["U11"], 8)
	fns := append([]*ssa.Function(nil), p.sourceFns()...)
	sort.Slice(fns, func(i, j int) bool { return fname(fns[i]) < fname(fns[j]) })
	isUnsigned := func(t types.Type) bool {
		bt, ok := t.Underlying().(*types.Basic)
		return ok && bt.Info()&types.IsUnsigned != 0 && p.sizeofBasic(bt) >= 4
	}
	type fnAn struct {
		carries  func(v ssa.Value, seen map[ssa.Value]bool) bool
		positive func(v ssa.Value, at *ssa.BasicBlock, edge bool, seen map[ssa.Value]bool) (bool, string)
		params   map[ssa.Value]bool
	}
	cache := map[*ssa.Function]*fnAn{}
	var analysisOf func(f *ssa.Function) *fnAn
	analysisOf = func(f *ssa.Function) *fnAn {
		if a, ok := cache[f]; ok {
			return a
		}
		cache[f] = nil
		params := map[ssa.Value]bool{}
		for _, prm := range f.Params {
			if isUnsigned(prm.Type()) {
				params[prm] = true
			}
		}
		// values that carry a parameter: the parameter, or a phi merging it with clamps
		var carries func(v ssa.Value, seen map[ssa.Value]bool) bool
		carries = func(v ssa.Value, seen map[ssa.Value]bool) bool {
			if params[v] {
				return true
			}
			if seen[v] {
				return false
			}
			seen[v] = true
			if ph, ok := v.(*ssa.Phi); ok {
				for _, e := range ph.Edges {
					if carries(e, seen) {
						return true
					}
				}
			}
			return false
		}
		var positive func(v ssa.Value, at *ssa.BasicBlock, edge bool, seen map[ssa.Value]bool) (bool, string)
		positive = func(v ssa.Value, at *ssa.BasicBlock, edge bool, seen map[ssa.Value]bool) (bool, string) {
			if c, ok := constIntVal(v); ok {
				return c > 0, "a positive constant"
			}
			for _, b := range f.Blocks {
				iff, ok := b.Instrs[len(b.Instrs)-1].(*ssa.If)
				if !ok {
					continue
				}
				bo, ok := iff.Cond.(*ssa.BinOp)
				if !ok {
					continue
				}
				posConst := func(x ssa.Value) bool { c, ok := constIntVal(x); return ok && c > 0 }
				zero := func(x ssa.Value) bool { c, ok := constIntVal(x); return ok && c == 0 }
				onTrue, onFalse := false, false
				switch {
				case bo.Op == token.GTR && bo.X == v && isUnsigned(bo.Y.Type()), bo.Op == token.LSS && bo.Y == v && isUnsigned(bo.X.Type()):
					onTrue = true
				case bo.Op == token.NEQ && ((bo.X == v && zero(bo.Y)) || (bo.Y == v && zero(bo.X))):
					onTrue = true
				case bo.Op == token.GEQ && bo.X == v && posConst(bo.Y):
					onTrue = true
				case bo.Op == token.LEQ && bo.X == v && isUnsigned(bo.Y.Type()), bo.Op == token.GEQ && bo.Y == v && isUnsigned(bo.X.Type()):
					onFalse = true
				case bo.Op == token.EQL && ((bo.X == v && zero(bo.Y)) || (bo.Y == v && zero(bo.X))):
					onFalse = true
				case bo.Op == token.LSS && bo.X == v && posConst(bo.Y):
					onFalse = true
				}
				if !onTrue && !onFalse {
					continue
				}
				s := b.Succs[0]
				if onFalse {
					s = b.Succs[1]
				}
				if len(s.Preds) == 1 && (s == at || s.Dominates(at)) {
					return true, "tested at " + p.ipos(iff)
				}
				// the test is the last thing on the edge into a phi
				if edge && b == at && len(s.Preds) >= 1 {
					// at is the predecessor block itself: its successor on the deciding side must be the phi's block —
					// the caller checks that; accept only single-successor structure
				}
			}
			if ph, ok := v.(*ssa.Phi); ok && !seen[v] {
				seen[v] = true
				why := ""
				for k, e := range ph.Edges {
					ok, w := positive(e, ph.Block().Preds[k], true, seen)
					if !ok {
						return false, ""
					}
					why = w
				}
				return true, "on every edge: " + why
			}
			return false, ""
		}
		a := &fnAn{carries: carries, positive: positive, params: params}
		cache[f] = a
		return a
	}
	// for an unexported helper the parameter is the caller's business: positive at every static call site whose
	// argument itself carries a parameter (up to the exported entry points)
	var positiveAtCallers func(g *ssa.Function, q ssa.Value, depth int) (bool, string)
	positiveAtCallers = func(g *ssa.Function, q ssa.Value, depth int) (bool, string) {
		if token.IsExported(g.Name()) || depth > 2 {
			return false, ""
		}
		qi := -1
		for i, prm := range g.Params {
			if ssa.Value(prm) == q {
				qi = i
			}
		}
		if qi < 0 {
			return false, ""
		}
		sites := 0
		for _, h := range fns {
			for _, b := range h.Blocks {
				for _, ins := range b.Instrs {
					ci, ok := ins.(ssa.CallInstruction)
					if !ok || ci.Common().StaticCallee() != g || qi >= len(ci.Common().Args) {
						continue
					}
					sites++
					arg := ci.Common().Args[qi]
					ha := analysisOf(h)
					if ha == nil {
						return false, ""
					}
					if !ha.carries(arg, map[ssa.Value]bool{}) {
						continue // not a caller-supplied quantity on this way in
					}
					if ok, _ := ha.positive(arg, b, false, map[ssa.Value]bool{}); ok {
						continue
					}
					// the caller's own parameter, handed on: look one level further up
					if ha.params[arg] {
						if ok, _ := positiveAtCallers(h, arg, depth+1); ok {
							continue
						}
					}
					return false, ""
				}
			}
		}
		if sites == 0 {
			return false, ""
		}
		return true, fmt.Sprintf("positive (or not caller-supplied) at each of the %d call sites of this helper", sites)
	}
	for _, f := range fns {
		if f.Blocks == nil || f.Parent() != nil {
			continue
		}
		an := analysisOf(f)
		if an == nil || len(an.params) == 0 {
			continue
		}
		carries, positive := an.carries, an.positive
		n := 0
		for _, b := range f.Blocks {
			for _, ins := range b.Instrs {
				bo, ok := ins.(*ssa.BinOp)
				if !ok || bo.Op != token.SUB || !isUnsigned(bo.Type()) {
					continue
				}
				if c, isC := constIntVal(bo.Y); !isC || c != 1 {
					continue
				}
				if !carries(bo.X, map[ssa.Value]bool{}) {
					continue
				}
				if bo.Referrers() == nil || len(*bo.Referrers()) == 0 {
					continue
				}
				n++
				cn := fmt.Sprintf("%s|%s#%d", fname(f), p.exprShape(bo.Pos()), n)
				if ok, why := positive(bo.X, b, false, map[ssa.Value]bool{}); ok {
					res.ok(cn, p.ipos(bo), "the operand is positive here: "+why)
				} else if ok, why := func() (bool, string) {
					// the parameters behind the operand (itself, or through the phi of a loop that starts at it)
					var prms []ssa.Value
					seen := map[ssa.Value]bool{}
					var leaves func(v ssa.Value)
					leaves = func(v ssa.Value) {
						if seen[v] {
							return
						}
						seen[v] = true
						if an.params[v] {
							prms = append(prms, v)
						}
						if ph, ok := v.(*ssa.Phi); ok {
							for _, e := range ph.Edges {
								leaves(e)
							}
						}
					}
					leaves(bo.X)
					why := ""
					for _, q := range prms {
						ok, w := positiveAtCallers(f, q, 0)
						if !ok {
							return false, ""
						}
						why = w
					}
					return len(prms) > 0, why
				}(); ok {
					res.ok(cn, p.ipos(bo), why)
				} else {
					res.bad(cn, p.ipos(bo), "the unsigned operand comes from the caller and nothing on the way here excludes zero: end-1 wraps to the top of the universe")
				}
			}
		}
	}
	return res
}
