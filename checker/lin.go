package main

import (
	"fmt"
	"go/token"
	"go/types"
	"sort"
	"strings"

	"golang.org/x/tools/go/ssa"
)

// lin is an affine form Σ coef·symbol + c over symbolic quantities (lengths of payload fields,
// parameters, opaque calls). It is the value domain of engine LAY (DESIGN §3.4).
type lin struct {
	t  map[string]int64
	c  int64
	ok bool
}

func linConst(c int64) lin { return lin{t: map[string]int64{}, c: c, ok: true} }
func linSym(s string) lin  { return lin{t: map[string]int64{s: 1}, ok: true} }

func (a lin) add(b lin, sign int64) lin {
	if !a.ok || !b.ok {
		return lin{}
	}
	out := lin{t: map[string]int64{}, c: a.c + sign*b.c, ok: true}
	for k, v := range a.t {
		out.t[k] += v
	}
	for k, v := range b.t {
		out.t[k] += sign * v
	}
	for k, v := range out.t {
		if v == 0 {
			delete(out.t, k)
		}
	}
	return out
}

func (a lin) scale(k int64) lin {
	if !a.ok {
		return lin{}
	}
	out := lin{t: map[string]int64{}, c: a.c * k, ok: true}
	for s, v := range a.t {
		if v*k != 0 {
			out.t[s] = v * k
		}
	}
	return out
}

func (a lin) isConst() (int64, bool) {
	if a.ok && len(a.t) == 0 {
		return a.c, true
	}
	return 0, false
}

func (a lin) String() string {
	if !a.ok {
		return "<not affine>"
	}
	var ks []string
	for k := range a.t {
		ks = append(ks, k)
	}
	sort.Strings(ks)
	var parts []string
	for _, k := range ks {
		if a.t[k] == 1 {
			parts = append(parts, k)
		} else {
			parts = append(parts, fmt.Sprintf("%d*%s", a.t[k], k))
		}
	}
	if a.c != 0 || len(parts) == 0 {
		parts = append(parts, fmt.Sprint(a.c))
	}
	return strings.Join(parts, " + ")
}

func (a lin) equal(b lin) bool { return a.ok && b.ok && a.String() == b.String() }

// rename replaces a symbol.
func (a lin) rename(from, to string) lin {
	if !a.ok {
		return a
	}
	out := lin{t: map[string]int64{}, c: a.c, ok: true}
	for k, v := range a.t {
		if k == from {
			out.t[to] += v
		} else {
			out.t[k] += v
		}
	}
	return out
}

type linEnv struct {
	p      *Prog
	vals   map[ssa.Value]lin // bindings of parameters when a helper is inlined
	lens   map[ssa.Value]lin // length of a slice parameter when a helper is inlined
	depth  int
	opaque func(c *ssa.Call) (lin, bool) // rule-specific interpretation of calls
}

func (e *linEnv) child() *linEnv {
	return &linEnv{p: e.p, vals: map[ssa.Value]lin{}, lens: map[ssa.Value]lin{}, depth: e.depth + 1, opaque: e.opaque}
}

// eval evaluates an integer SSA value.
func (e *linEnv) eval(v ssa.Value) lin {
	if e.depth > 6 {
		return lin{}
	}
	if l, ok := e.vals[v]; ok {
		return l
	}
	switch x := v.(type) {
	case *ssa.Const:
		if c, ok := constIntVal(x); ok {
			return linConst(c)
		}
	case *ssa.Convert:
		return e.eval(x.X)
	case *ssa.ChangeType:
		return e.eval(x.X)
	case *ssa.Parameter:
		return linSym("p:" + x.Name())
	case *ssa.BinOp:
		l, r := e.eval(x.X), e.eval(x.Y)
		switch x.Op {
		case token.ADD:
			return l.add(r, 1)
		case token.SUB:
			return l.add(r, -1)
		case token.MUL:
			if k, ok := r.isConst(); ok {
				return l.scale(k)
			}
			if k, ok := l.isConst(); ok {
				return r.scale(k)
			}
		case token.SHL:
			if k, ok := r.isConst(); ok && k >= 0 && k < 40 {
				return l.scale(1 << uint(k))
			}
		case token.QUO:
			if k, ok := r.isConst(); ok && k != 0 {
				if c, isC := l.isConst(); isC {
					return linConst(c / k)
				}
				if l.ok {
					return linSym(fmt.Sprintf("(%s)/%d", l.String(), k))
				}
			}
		}
	case *ssa.UnOp:
		if x.Op == token.MUL {
			// load of an integer field
			if fa, ok := x.X.(*ssa.FieldAddr); ok {
				return linSym(fieldName(fa.X.Type(), fa.Field))
			}
		}
	case *ssa.Field:
		return linSym(fieldName(x.X.Type(), x.Field))
	case *ssa.Extract:
		if c, ok := x.Tuple.(*ssa.Call); ok && x.Index == 0 && e.opaque != nil {
			if l, ok := e.opaque(c); ok {
				return l
			}
		}
	case *ssa.Call:
		if bi, ok := x.Call.Value.(*ssa.Builtin); ok {
			switch bi.Name() {
			case "len":
				return e.lenOf(x.Call.Args[0])
			}
			return lin{}
		}
		if e.opaque != nil {
			if l, ok := e.opaque(x); ok {
				return l
			}
		}
		callee := x.Call.StaticCallee()
		if callee == nil || callee.Blocks == nil {
			if x.Call.IsInvoke() {
				return linSym(x.Call.Method.Name() + "()")
			}
			return lin{}
		}
		// inline helpers that return one integer expression on a single return path
		if r := singleReturn(callee); r != nil && len(r.Results) >= 1 {
			ce := e.child()
			for i, prm := range callee.Params {
				if i < len(x.Call.Args) {
					if _, isSlice := prm.Type().Underlying().(*types.Slice); isSlice {
						ce.lens[prm] = e.lenOf(x.Call.Args[i])
					} else if b, ok := prm.Type().Underlying().(*types.Basic); ok && b.Info()&types.IsInteger != 0 {
						ce.vals[prm] = e.eval(x.Call.Args[i])
					} else if _, isPtr := prm.Type().Underlying().(*types.Pointer); isPtr {
						// receiver: field loads through it are symbolic by field name
					}
				}
			}
			return ce.eval(r.Results[0])
		}
	}
	return lin{}
}

// singleReturn: the function's only Return that yields a non-nil/non-zero-length value (helpers
// with an early `return nil` for empty input are accepted).
func singleReturn(f *ssa.Function) *ssa.Return {
	var rets []*ssa.Return
	for _, b := range f.Blocks {
		if r, ok := b.Instrs[len(b.Instrs)-1].(*ssa.Return); ok {
			if len(r.Results) > 0 && isNilConst(r.Results[0]) {
				continue
			}
			rets = append(rets, r)
		}
	}
	if len(rets) == 1 {
		return rets[0]
	}
	return nil
}

// lenOf evaluates the length of a slice value.
func (e *linEnv) lenOf(v ssa.Value) lin {
	if l, ok := e.lens[v]; ok {
		return l
	}
	switch x := v.(type) {
	case *ssa.MakeSlice:
		return e.eval(x.Len)
	case *ssa.Slice:
		if x.High != nil {
			hi := e.eval(x.High)
			if x.Low != nil {
				return hi.add(e.eval(x.Low), -1)
			}
			return hi
		}
		base := e.lenOf(x.X)
		if x.Low != nil {
			return base.add(e.eval(x.Low), -1)
		}
		return base
	case *ssa.UnOp:
		if x.Op == token.MUL {
			if fa, ok := x.X.(*ssa.FieldAddr); ok {
				return linSym("len(" + fieldName(fa.X.Type(), fa.Field) + ")")
			}
		}
	case *ssa.Field:
		return linSym("len(" + fieldName(x.X.Type(), x.Field) + ")")
	case *ssa.Parameter:
		return linSym("len(p:" + x.Name() + ")")
	case *ssa.Call:
		if bi, ok := x.Call.Value.(*ssa.Builtin); ok {
			if bi.Name() == "Slice" && len(x.Call.Args) == 2 { // unsafe.Slice(ptr, n)
				return e.eval(x.Call.Args[1])
			}
			return lin{}
		}
		callee := x.Call.StaticCallee()
		if callee == nil || callee.Blocks == nil {
			return lin{}
		}
		if r := singleReturn(callee); r != nil && len(r.Results) >= 1 {
			ce := e.child()
			for i, prm := range callee.Params {
				if i < len(x.Call.Args) {
					if _, isSlice := prm.Type().Underlying().(*types.Slice); isSlice {
						ce.lens[prm] = e.lenOf(x.Call.Args[i])
					} else if b, ok := prm.Type().Underlying().(*types.Basic); ok && b.Info()&types.IsInteger != 0 {
						ce.vals[prm] = e.eval(x.Call.Args[i])
					}
				}
			}
			return ce.lenOf(r.Results[0])
		}
	case *ssa.Phi:
		var first lin
		for i, ed := range x.Edges {
			l := e.lenOf(ed)
			if i == 0 {
				first = l
			} else if !first.equal(l) {
				return lin{}
			}
		}
		return first
	}
	return lin{}
}
