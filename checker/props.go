package main

// PropSpec maps a property to the rule instances that decide its structural clauses.
type PropSpec struct {
	Rules       []string
	Explanation string
	Decided     []string
	NotDecided  []string
	Technique   string
	NAReason    string
}

var propOrder = []string{"C01", "C02", "C03", "C04", "C05", "C06", "C07", "C08", "C09", "C10", "C11", "C12", "C13", "C14", "C15", "C16", "C17", "C18", "C19", "C20"}

var propRules = map[string]*PropSpec{
	"C01": {
		Rules: []string{"A1.kernel", "A6.kernel"},
		Explanation: "Static ownership/effect analysis (go/ssa, interprocedural summaries to a fixpoint) of every container kernel of the three kinds: which parameters a kernel may write and what its result may alias.",
		Decided: []string{"operands of every container kernel are never written (all 3 kinds x all methods)", "non-in-place kernels leave the receiver unchanged", "results of non-in-place kernels are fresh; in-place kernels return receiver or fresh, never the operand"},
		NotDecided: []string{"kernel arithmetic (merge loops, galloping, run interval algebra, word masks)", "popcount assembly", "key-merge cursor logic", "result cardinalities"},
		Technique: "static analysis: interprocedural ownership/effect/alias summaries over go/ssa",
	},
}
