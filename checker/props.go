package main

// PropSpec maps a property to the rule instances that decide its structural clauses.
// Every claim is at level "other": the rules decide the named clauses (each a necessary
// condition of the property) on every path / call site of the current source; they do not decide
// the behaviour itself. A rule listed here must exist in the rule table (checked at run time).
type PropSpec struct {
	Rules       []string
	Explanation string
	Decided     []string
	NotDecided  []string
	Technique   string
	NAReason    string
}

var propOrder = []string{"C01", "C02", "C03", "C04", "C05", "C06", "C07", "C08", "C09", "C10", "C11", "C12", "C13", "C14", "C15", "C16", "C17", "C18", "C19", "C20"}

const (
	techOwn  = "static analysis: interprocedural ownership/effect/alias summaries over go/ssa (OWN) and table-level ownership typestate with must-facts (TL)"
	techErr  = "static analysis: error-flow and dominance rules over go/ssa"
	techMix  = "static analysis: ownership typestate (TL), effect summaries (OWN), dominance/CFG rules over go/ssa, AST/constant rules over go/types"
	explBase = "Rules are evaluated on the type-checked SSA form of /repo's current source (go/packages + go/ssa, linux/amd64; thorough adds linux/arm64, linux/386 and -tags appengine). Every obligation is a concrete construct (function + call site / store / return / switch), listed under all_obligations with its verdict."
)

var propRules = map[string]*PropSpec{
	"C01": {
		Rules:       []string{"A1.kernel", "A6.kernel", "F1", "F8.bitmap", "F8.run", "F10", "F3.32", "A1.api32", "A2.32", "A3.32", "F11", "F8.scratch", "G1", "F13.32", "IDX1", "RES1", "A2.stale", "LEN1", "U1", "RCV1", "GAL1", "CACHE1", "U10"},
		Explanation: explBase + " C01: kernels never write operands, results are fresh, every kind pairing is dispatched, results are re-typed at the 4096 threshold and run results re-minimised, empty results are elided, x.Op(x) is guarded.",
		Decided: []string{
			"no 16-bit sum or difference is compared as it is (it wraps at 65535 / 0); start+length of one interval and two triaged key±1 comparisons between strictly ordered keys are the only sites",
			"where the container returned by an in-place kernel is kept, the old receiver is not consulted afterwards (cardinality/emptiness of a container that is no longer in the bitmap)",
			"the position answered by a galloping search is compared with a bound before it is used as an index (directly, or as the loop's position variable)",
			"a merge loop that carries the element under its cursor in a local reloads it whenever the cursor moves (including galloping jumps)",
			"kernels and predicates use no package-level scratch memory (concurrent queries on unrelated bitmaps cannot interfere)",
			"operands of every container kernel are never written (3 kinds x all methods) and non-in-place kernels leave the receiver unchanged",
			"non-in-place kernels return fresh containers; in-place kernels return receiver or fresh, never the operand",
			"every type switch over a container handles all three kinds",
			"a shrunk/built bitmap container is returned as bitmap only behind a cardinality > 4096 test; run results reach a slot only minimised",
			"in-place Xor/AndNot test rb == x2 before writing",
			"And/AndNot/Xor results are stored only when non-empty",
			"static And/Or/Xor/AndNot and the cardinality/predicate shortcuts never change their operands' contents",
			"in-place forms write only owned containers and keep flags with moved containers, so the result cannot depend on (or corrupt) copy-on-write sharing",
			"predicates and cardinality shortcuts never read the copy-on-write flags",
			"in the two-cursor merge loops (and the cardinality shortcuts built like them) a position variable indexes one operand's table only",
			"no call of an in-place kernel that can answer with a different container is used as a bare statement, unless its receiver is a bitmap container (whose words are updated in place whatever is returned); one triaged array site below the 4096 threshold",
		},
		NotDecided: []string{"kernel arithmetic (merge loops, galloping, run interval algebra, word masks)", "popcount assembly vs portable equality", "key-merge cursor logic", "numeric results of *Cardinality / Intersects"},
		Technique:  techMix,
	},
	"C02": {
		Rules:       []string{"A2.32", "A3.32", "F3.32", "F8.bitmap", "F8.run", "F5", "F8.scratch", "A4", "F13.32", "U6", "RES1", "A2.stale", "A4.clear", "F8.point", "R3", "RCV1", "CACHE1", "U11", "IX0"},
		Explanation: explBase + " C02: every mutator obtains its container through the copy-before-write gate, stores only owned containers, drops emptied chunks, keeps flags aligned with moved containers, re-types/minimises results and inserts at a position searched in the same table.",
		Decided: []string{
			"exported functions read a fixed position of a caller's slice (the first value of AddMany, the first bitmap of an aggregate) only behind a test of its length",
			"end-1 of a caller-supplied unsigned range end is computed only where the end is known to be positive (behind the empty-range exit, a zero test or a clamp)",
			"where the container returned by an in-place kernel is kept, the old receiver is not consulted afterwards (cardinality/emptiness of a container that is no longer in the bitmap)",
			"the container returned by an in-place kernel applied to a slot's container is stored back into the table (CheckedAdd/CheckedRemove/Add/Remove/AddRange ...)",
			"every payload write of Add/CheckedAdd/Remove/CheckedRemove/AddRange/RemoveRange/Flip/AddMany goes through an owned container (gate or fresh)",
			"every slot store keeps container and copy-on-write flag together (including removeAtIndex/insert shifts)",
			"Remove/CheckedRemove/RemoveRange/Flip test emptiness of every may-empty result and drop the chunk",
			"bitmap results <= 4096 are converted; run results are minimised before they are stored",
			"new keys are inserted at the index searched in the receiver's own table",
			"the 64-bit bounds of AddRange/RemoveRange/Flip are cut to 32 bits only where they are bounded below 2^32 on every path (a range beyond the universe is empty, not wrapped into it)",
		},
		NotDecided: []string{"CheckedAdd/CheckedRemove return values", "first/middle/last chunk range arithmetic", "word masks", "that the replayed set equals the model set"},
		Technique:  techOwn,
	},
	"C03": {
		Rules:       []string{"A1.api32", "A1.kernel", "F1", "F11", "G1", "F3.32", "F3.64", "A1.api64", "U6", "EQ1", "IDX1", "F2", "U5", "CUR1", "LOW1", "U11", "U12"},
		Explanation: explBase + " C03: the clause 'queries never modify the bitmap' is decided for every exported read-only function; kind dispatch of the query paths is exhaustive.",
		Decided: []string{
			"in the 64-bit bitmap a 64-bit quantity is cut to 32 bits only if it is a widened / shifted / masked 32-bit value or an upper-bound comparison on it dominates the cut (Select's running index against the bucket cardinality)",
			"end-1 of a caller-supplied unsigned range end is computed only where the end is known to be positive (behind the empty-range exit, a zero test or a clamp)",
			"Rank asks a chunk (bucket) found by scanning positions about the low half of its argument only where the scan has established that the chunk's key equals the argument's high half",
			"an iterator glues the key of the current chunk/bucket to what the inner iterator yields only when no reload of the cursor lies between the two reads",
			"queries use no package-level scratch memory",
			"no mutator leaves an empty chunk/bucket behind (IsEmpty, Minimum, Maximum rely on it)",
			"no exported query (cardinality, rank/select, extrema, Contains, Equals, ToArray, Checksum, Stats, iterators' constructors ...) changes the contents of its receiver or argument", "read-only container kernels never write receiver or operand", "type switches on the query paths handle all kinds", "no scalar query (Equals, Contains, Rank, cardinalities ...) reads the copy-on-write flags",
			"the 64-bit bounds of CardinalityInRange/IntersectsWithInterval are cut to 32 bits only where they are bounded below 2^32 on every path",
			"every comparison inside an equality routine (Equals/equals of bitmaps, tables and the three container kinds) has the receiver on one side and the argument on the other"},
		NotDecided: []string{"every numeric result (rank, select, cardinalities, extrema)", "Checksum invariance under Clone / round trip", "AVX2 vs portable popcount"},
		Technique:  techOwn,
	},
	"C04": {
		Rules:       []string{"F7", "F1", "A1.api32", "F12", "U4", "R2", "LP1", "U5", "CUR1", "CUR2", "CUR3", "CUR4", "CUR5", "U10", "U1", "CUR6"},
		Explanation: explBase + " C04: the early-termination clause and the purity of iteration are decided; kind dispatch in iterator init / Iterate / Ranges is exhaustive.",
		Decided: []string{
			"a cursor method that steps the chunk position reloads the cursor before the key field is read again (in particular in the condition of the loop that does the stepping)",
			"the per-container unset and run iterators do not step past a run with 16-bit arithmetic that is widened afterwards (last()+1 wraps to 0 at the end of the chunk and the iterator starts the chunk again)",
			"no 16-bit sum or difference is compared as it is (it wraps at 65535 / 0); start+length of one interval and two triaged key±1 comparisons between strictly ordered keys are the only sites",
			"the batch iterators ask the inner iterator for more only behind a test that the caller's buffer has room, so that a zero answer can only mean an exhausted chunk",
			"an iterator glues the key of the current chunk/bucket to what the inner iterator yields only when no reload of the cursor lies between the two reads",
			"every move of the inner iterator of the eager iterators is followed, before returning, by an exhaustion test that may reload the cursor",
			"AdvanceIfNeeded hands the low half of its argument to the chunk-level iterator (or stores it as gap position) only under an equality test of the cursor key against the argument's high half",
			"the key field of a cursor whose reload can leave the inner iterator nil is read only behind a nil test of, or a call on, the inner iterator",
			"range-over-func sequences capture only parameters: each traversal creates its own iterator state",
			"every callback invocation's stop answer is examined and, once false, the callback is never invoked again (Iterate, Values, Backward, Unset, Ranges, per-kind iterate)", "iterator init / Iterate / Ranges handle all three kinds", "iteration never changes the bitmap's contents",
			"the word scan behind UnsetIterator/Unset and Ranges inverts the word before shifting it, or bounds the count taken on the shifted word",
			"Initialize of every reusable iterator assigns each cursor field (stepped by Next/Advance and consulted by the set-up code) on every path"},
		NotDecided: []string{"order/completeness of the produced sequence", "AdvanceIfNeeded / PeekNext arithmetic", "unset-iterator gap handling beyond the word scan", "Ranges merging across chunks"},
		Technique:  "static analysis: CFG reachability after the stop edge (go/ssa), AST type-switch exhaustiveness, ownership summaries",
	},
	"C05": {
		Rules:       []string{"B1", "B2", "B5", "L2", "L5", "A4", "F8.bitmap", "A8", "G1", "F8.scratch", "F2.repair", "R1", "U3", "PT2", "L1", "B7", "B8", "F13.32", "RES1", "F8.point", "U1", "T1", "L9", "ZERO1"},
		Explanation: explBase + " C05: error propagation on every encode/decode path, byte accounting of writers and readers, bounded reads, agreement of size prediction / writer / reader on the offset-header predicate and payload sizes, and flagging of zero-copy payloads.",
		Decided: []string{
			"the run flags of the portable header are OR-ed into a buffer that was allocated zeroed in the same call (or cleared first), never into one kept from a previous write",
			"the portable reader reads a non-run chunk as bitmap words exactly when it announces more than 4096 values (evaluated at 4096 and 4097, where both payloads have the same length and an off-by-one stays in step with the stream)",
			"decoding into a previously used bitmap re-slices each of the receiver's three tables only behind a capacity test on that same table",
			"no decoder wraps the caller's stream in a read-ahead buffer (a reader consumes exactly its own bytes)",
			"pooled readers are not touched after they went back to the pool, and only values of the pool's own type are put back",
			"ToBase64 and FromBase64 use the same alphabet",
			"every decoder resets or reassigns all three table arrays of the receiver on every successful path (decoding into a used bitmap keeps nothing)",
			"the copying decoders (ReadFrom, UnmarshalBinary, FromBase64) keep no pointer into the caller's slice; only the documented zero-copy constructors do",
			"decoding uses no package-level scratch memory",
			"no error of a writer/reader call is dropped, and no return reached after a failed call reports nil",
			"returned byte counts depend on the count of every write; the counting reader accounts every read",
			"every read of the byte sources is bounds-checked (or delegated to io.ReadAtLeast/ReadFull)",
			"the offset-header predicate of size prediction, writer and reader agree (and with the spec constant 4)",
			"per-kind payload size: serializedSizeInBytes == bytes written == offset increment == bytes consumed by the reader",
			"zero-copy decoded payloads are flagged copy-on-write",
			"kernels never hand out a bitmap container of <= 4096 values, which the writer would refuse",
		},
		NotDecided: []string{"equality of contents after a round trip", "reader behaviour on arbitrary chunkings beyond io.ReadAtLeast's contract"},
		Technique:  techErr + "; affine size expressions over go/ssa",
	},
	"C06": {
		Rules:       []string{"L1", "L2", "L5", "L6", "B5", "B1", "U3", "PT2", "A8", "R1", "B7", "L8", "T1", "U1", "F8.point", "L9", "ZERO1"},
		Explanation: explBase + " C06: format constants, header predicate, payload sizes and byte order are compared with the published RoaringFormatSpec values transcribed in the model.",
		Decided: []string{
			"the run flags of the portable header are OR-ed into a buffer that was allocated zeroed in the same call (or cleared first), never into one kept from a previous write",
			"the portable reader reads a non-run chunk as bitmap words exactly when it announces more than 4096 values (evaluated at 4096 and 4097, where both payloads have the same length and an off-by-one stays in step with the stream)",
			"ToBytes/MarshalBinary results are not backed by pooled memory",
			"no decoder drops one of its parameters (a pre-read cookie header is forwarded)",
			"a run list taken from the input is looked at (merged or rejected) before it is adopted — a known finding on this tree: it is adopted verbatim",
			"the stream adapter fills every read completely (io.ReadAtLeast) and bounds-checks every slice it hands out, so short reads of a conformant stream are not misparsed",
			"cookies 12347/12346, noOffsetThreshold 4, array/bitmap threshold 4096, bitmap payload 8192 bytes, run element 4 bytes", "offset header present iff no-run cookie or N >= 4, in size prediction, writer and reader", "offset-header increments equal payload sizes per kind", "all multi-byte fields little-endian"},
		NotDecided: []string{"that an independent decoder recovers exactly the set", "ascending keys (follows from C09)", "cardinality-minus-one field arithmetic beyond the affine check"},
		Technique:  "static analysis: constant folding (go/constant), truth tables over normalised branch conditions, affine expression comparison",
	},
	"C07": {
		Rules:       []string{"A1.kernel", "A6.kernel", "A2.32", "A3.32", "A2.64", "A3.64", "A1.api32", "A1.api64", "A1.slices", "F9", "F5", "A7", "A9", "IDX1", "A2.stale", "A4.clear", "A1.bsi", "R3", "R4"},
		Explanation: explBase + " C07 (strongest claim): a container reachable from two tables is flagged in both before either writes; every payload write goes through an owned container; every slot store is an owned store, a flagged move or a certified clone-or-share hand-off; aggregates return independent bitmaps; read-only functions change neither bitmaps nor the caller's slice.",
		Decided: []string{
			"no table is given an array (keys, containers, flags) of another table: clones and results own their three arrays",
			"write gate: every call that may write a container's payload has an owned receiver (32-bit containers and 64-bit buckets)",
			"hand-off: every slot store (API and raw, ~140 sites) stores owned / moves with its flag / shares with destination flag true and source flag ensured",
			"kernels return fresh results and never write or return their operand",
			"no exported read-only function changes a bitmap argument's contents; documented mutators change only their receiver",
			"no exported function writes the backing array of a slice argument",
			"aggregates of one bitmap return a fresh bitmap",
			"no bitmap / table struct is duplicated by value from a bitmap that stays in use (two headers over the same arrays)",
		},
		NotDecided: []string{"for >= 2 inputs HeapOr/HeapXor's result is the last pushed Or/Xor result (loop-count argument)", "that gate-obtained containers are not shared again before the write inside one function (assumed)"},
		Technique:  techOwn,
	},
	"C08": {
		Rules:       []string{"A4", "A5", "A2.32", "A3.32", "A8", "B6", "UNS1", "A2.stale", "A4.clear", "R3"},
		Explanation: explBase + " C08: caller-owned memory enters a bitmap only as container payload under a true copy-on-write flag, never as a slot-table array; every payload write honours the flag; detach deep-copies every flagged slot.",
		Decided: []string{
			"no pointer-containing type is overlaid on byte memory: containers cloned by copy-on-write stay visible to the garbage collector",
			"only the documented zero-copy constructors keep a reference to a caller's slice",
			"FromBuffer/FromUnsafeBytes/FrozenView/FromDense(no copy): payload slices of the caller's memory are stored only in containers whose slot flag is true on that path; keys/containers/flags arrays are library-allocated", "NextReturnsSafeSlice is true only for a byte source whose Next allocates", "every in-place path obtains its container through the gate (A2) and flags travel with containers (A3)", "CloneCopyOnWriteContainers replaces every flagged slot by a deep clone and clears the flag"},
		NotDecided: []string{"that the bitmap keeps behaving as a correct set (C01-C04)"},
		Technique:  "static analysis: taint propagation of caller-owned slices over go/ssa + ownership typestate",
	},
	"C09": {
		Rules:       []string{"F3.32", "F8.bitmap", "F8.run", "F2", "V1", "V2", "A6.kernel", "A2.32", "A3.32", "F8.scratch", "A2.64", "A3.64", "F3.64", "L2", "L5", "F2.repair", "R1", "B5", "F13.32", "A9", "RES1", "U1", "V3", "F8.point", "LEN1", "R3", "U10", "L9", "A4"},
		Explanation: explBase + " C09: the producer side of each Validate conjunct that has a structural form (no empty chunk stored, array/bitmap threshold, runs minimised, lazy cardinality repaired) and the validator's own conjunct table.",
		Decided: []string{
			"memory handed in by the caller (FromDense without copy, zero-copy decode, frozen view) is stored only in containers whose slot is flagged copy-on-write: otherwise two library-made bitmaps over the same words corrupt each other's cached cardinality and one of them stops validating",
			"the portable reader reads a non-run chunk as bitmap words exactly when it announces more than 4096 values (evaluated at 4096 and 4097, where both payloads have the same length and an off-by-one stays in step with the stream)",
			"no 16-bit sum or difference is compared as it is (it wraps at 65535 / 0); start+length of one interval and two triaged key±1 comparisons between strictly ordered keys are the only sites",
			"roaring64 buckets obey the same ownership and no-empty-bucket rules",
			"writer, reader and size predictor agree on header and payload sizes (a written bitmap can be read back)",
			"no may-empty result is stored without an emptiness test", "bitmap containers are returned only behind cardinality > 4096; run containers reach slots minimised", "lazy kernels that write a bitmap invalidate or recompute the cached cardinality and every lazy aggregate is repaired before it is returned", "Validate calls every per-kind validator on every container and each listed conjunct is present", "containers are never shared unflagged between bitmaps (a later mutation of one would silently invalidate the other)"},
		NotDecided: []string{"key order and strict sortedness of payloads after arbitrary kernels (value level)"},
		Technique:  techMix,
	},
	"C10": {
		Rules:       []string{"B1", "B4", "B5", "T1", "V1", "V2", "U1", "G1", "U3", "L4", "B6", "UNS1", "PT2", "B8", "T2", "V3", "F5.neg", "PT", "A8", "A1.bsi", "U10"},
		Explanation: explBase + " C10: decoder error discipline, Must* wrappers, bounded reads, size fields bounded before allocation, validator conjuncts (incl. the wrap bound on every run), no 16-bit arithmetic in the frozen reader.",
		Decided: []string{
			"no 16-bit sum or difference is compared as it is (it wraps at 65535 / 0); start+length of one interval and two triaged key±1 comparisons between strictly ordered keys are the only sites",
			"FrozenView evaluates all 256 type-code values: each is either built or rejected",
			"a decoded length extends one of the receiver's arrays only behind a capacity test on that same array",
			"no decoder consults cap() of the caller's bytes",
			"no decoder drops one of its parameters (MustReadFrom/ReadFrom forward the pre-read cookie)",
			"decoders use no package-level scratch memory",
			"no decoder error is dropped (incl. SkipBytes); MustReadFrom returns ReadFrom's results and panics only with Validate's error", "byte sources check bounds before every slice/advance", "decoded sizes are bounded by a constant before make()/slicing (32-bit decoders)", "validators contain every conjunct the property lists, evaluated on every element",
			"totals that FrozenView adds up from the footer's counts and compares with the buffer length have 64 bits on every target"},
		NotDecided: []string{"absence of panics in general (arithmetic sufficiency of frozenView's length guards beyond their width)", "hang-freedom", "mutual consistency of queries on validated input"},
		Technique:  techErr + "; taint of decoded sizes",
	},
	"C11": {
		Rules:       []string{"F9", "F2", "A1.api32", "A1.slices", "A2.32", "A3.32", "A6.kernel", "U1", "F8.scratch", "A2.64", "A3.64", "F2.repair", "U3", "PT2", "P6", "P2", "LP2", "LEN1", "IDX1", "F3.32", "RES1", "GAL1", "CACHE1", "SW1", "IX0"},
		Explanation: explBase + " C11: singleton behaviour of the aggregate siblings, lazy->repair discipline, inputs and the caller's slice unchanged, scratch containers never end up in the result.",
		Decided: []string{
			"exported functions read a fixed position of a caller's slice (the first value of AddMany, the first bitmap of an aggregate) only behind a test of its length",
			"at no call is an argument handed to another parameter than the one it is named after while that parameter exists with the same type (the start/last bounds of the per-range merge kernels, found-set/filter-set)",
			"a merge loop that carries the element under its cursor in a local reloads it whenever the cursor moves (including galloping jumps)",
			"the position answered by a galloping search is compared with a bound before it is used as an index (directly, or as the loop's position variable)",
			"roaring64 aggregates store only owned or properly shared buckets",
			"every aggregate of one bitmap returns a fresh bitmap", "every lazy union result is repaired before it is returned / sent; lazy kernels mark the cardinality invalid", "aggregates never change their inputs' contents nor the caller's slice", "kernel results never alias the argument, so AndAny's reused scratch containers cannot be stored in x", "no 16-bit arithmetic in the key-range partition of ParOr", "AndAny's per-key filter list is reset, untouched or known empty on every way back to the loop header"},
		NotDecided: []string{"key-range partition arithmetic of ParOr", "heap grouping", "that the fold is the right fold", "worker-count independence of the result"},
		Technique:  techMix,
	},
	"C12": {
		Rules:       []string{"P1", "P3", "P4", "PT", "A1.api32", "A2.32", "A3.32", "G1", "U3", "PT2", "P6", "A2.64", "A3.64", "P2", "A1.bsi", "U1", "PC2", "F10.bsi", "A1.slices", "LEN1", "CACHE1", "SW1", "P7"},
		Explanation: explBase + " C12: protocol skeleton only: WaitGroup pairing, single close by the creator, range-workers released on every path, pool typestate, workers never change input contents.",
		Decided: []string{
			"every worker of the fan-out executors (which size the result channel to the worker count and drain it after Wait) sends at most once per invocation",
			"at no call is an argument handed to another parameter than the one it is named after while that parameter exists with the same type (the start/last bounds of the per-range merge kernels, found-set/filter-set)",
			"the per-range merge kernels of ParOr (lazyOrOnRange, lazyIOrOnRange, orOnRange, iorOnRange) keep their cached table length in step with insertions and reload the cached key whenever a cursor moves: otherwise the answer depends on how many keys a worker's range spans, i.e. on the worker count",
			"no computed key is truncated into the key type in ParOr's chunk arithmetic",
			"no worker goroutine assigns a variable captured from its spawner (results travel over channels, atomics or distinct slice elements)",
			"the task object shared by BSI workers is never written by them",
			"no producer/consumer cycle through the coordinator: work is fed from a goroutine of its own, or the workers' per-item results are drained by another goroutine",
			"memory handed to a sync.Pool is not touched again until a new value is obtained, and nothing derived from a pooled object is returned",
			"no library function writes package-level state (shared by all goroutines)",
			"every goroutine preceded by wg.Add(1) runs a function whose every path calls wg.Done (deferred)", "every channel is closed at most once, by the function that created it, and every for-range worker's channel is closed on every path to the spawner's return", "pooled adapters are Reset after Get, Put exactly once on every path and not retained", "parallel aggregates never change input contents: every payload write in the workers' call trees goes through an owned container (A1/A2/A3)"},
		NotDecided: []string{"absence of data races in general", "result determinism across schedules", "count-based termination arguments (sent == expected)", "GOMAXPROCS effects — these need a race detector / model checker, a different family"},
		Technique:  "static analysis: goroutine/channel/WaitGroup/pool skeleton rules over go/ssa CFG (must-pass-through, at-most-once)",
	},
	"C13": {
		Rules:       []string{"L4", "L1", "B1", "B3", "A4", "T1", "R1", "B6", "UNS1", "G1", "UNS2", "T2", "A4.clear", "U1", "A3.32", "A2.32", "A2.stale"},
		Explanation: explBase + " C13: the three frozen writers, the size predictor and the reader agree on type codes, count fields, element sizes and arena order; FreezeTo checks the buffer before writing; errors propagate; the view is flagged.",
		Decided: []string{
			"the frozen view's container table and headers live in typed (scanned) memory",
			"no data pointer of a possibly empty byte slice is reinterpreted as a wider element (the frozen form of the empty bitmap is 4 bytes)",
			"every decoder resets or reassigns all three table arrays of the receiver on every successful path (decoding into a used bitmap keeps nothing)",
			"type codes bitmap=1/array=2/run=3 and count encodings agree across FreezeTo, WriteFrozenTo, GetFrozenSizeInBytes and frozenView and with the CRoaring layout constants", "FreezeTo's size check dominates every write into buf and the returned count is the checked size", "WriteFrozenTo propagates every writer error", "frozen payloads are flagged copy-on-write, keys are copied", "container count bounded (<= 65536) before allocation"},
		NotDecided: []string{"byte equality of the three writers on a given input", "Equal after view"},
		Technique:  "static analysis: sibling table extraction from type switches (AST + go/constant), dominance",
	},
	"C14": {
		Rules:       []string{"F8.run", "F8.bitmap", "F3.32", "L7", "F8.scratch", "A2.32", "A3.32", "F2.repair", "F13.32", "RES1", "F8.point", "U6"},
		Explanation: explBase + " C14: the representation-minimisation clause the bound relies on, and the documented constants of BoundSerializedSizeInBytes.",
		Decided: []string{
			"containers are never shared unflagged (a write through a stale flag would corrupt another bitmap's chunk and its size)",
			"no chunk is left as an un-minimised run container after a mutation or a set operation; shrinking bitmap results are converted at 4096", "no empty chunk is left in the table (it would cost header bytes for zero values)", "BoundSerializedSizeInBytes is the documented affine form (8 bytes header + per-chunk overhead + 2 bytes/value)"},
		NotDecided: []string{"the inequality itself for every history"},
		Technique:  techMix,
	},
	"C15": {
		Rules:       []string{"U1", "A1.api32", "F3.32", "F8.bitmap", "F8.run", "F2", "B8", "U4", "U5", "LP1", "GAL1", "U10", "CACHE1"},
		Explanation: explBase + " C15: kernels can express the out-of-chunk sentinels (no 16-bit wrap in the neighbour kernels and drivers) and the queries are pure. Everything else about these functions is value-level.",
		Decided: []string{
			"the neighbour walks keep what they cache beside a cursor in step with it: the key beside the chunk index, and the chunk's answer beside the key the chunk was fetched with",
			"no 16-bit sum or difference is compared as it is (it wraps at 65535 / 0); start+length of one interval and two triaged key±1 comparisons between strictly ordered keys are the only sites",
			"the position answered by a galloping search is compared with a bound before it is used as an index (directly, or as the loop's position variable)",
			"no (value, error) result is used only on the error side of its test (the inverted check that made the walk past the last chunk answer -1)",
			"no mutator leaves an empty chunk behind (the drivers ask each chunk for its minimum/maximum and ignore the error)",
			"no 16-bit add/sub in the neighbour queries (3 kinds x 4 kernels + drivers) outside the triaged, reasoned allow-list", "neighbour queries never change the bitmap",
			"word scans for the next unset bit invert the word before shifting it (a complement of a shifted word is never tested against zero, nor is a position counted on it left unbounded)",
			"combineLoHi32/16 receive the plain chunk key, never an already shifted keyspace",
			"no counted loop steps its index both in the for clause and, unconditionally, in its body (the walk over the key table visits every chunk)"},
		NotDecided: []string{"the cross-chunk walk of NextAbsentValue/PreviousAbsentValue beyond the clauses above (the gap test between consecutive keys)", "binary searches", "agreement of the 'none' sentinels between kinds"},
		Technique:  "static analysis: integer-width rule over go/ssa with a triaged allow-list; ownership summaries",
	},
	"C16": {
		Rules:       []string{"A1.api32", "A3.32", "A6.kernel", "F5", "F6", "A4", "F3.32", "F8.bitmap", "F8.run", "F8.scratch", "B6", "A9", "U8", "F5.neg", "F3.64", "U1", "U11", "U13"},
		Explanation: explBase + " C16: AddOffset/Flip/ToDense leave b unchanged; results hold only fresh or properly shared containers; static Flip inserts at the answer's index; addOffset nil discipline; FromDense(no copy) never writes the caller's words; shifted parts are re-typed.",
		Decided: []string{
			"the shifted chunk key of AddOffset, computed in signed 32-bit arithmetic, is cut to uint16 only behind comparisons that bound that same expression on both sides",
			"end-1 of a caller-supplied unsigned range end is computed only where the end is known to be positive (behind the empty-range exit, a zero test or a clamp)",
			"the two halves produced by addOffset do not share spare capacity of one allocation",
			"FromDense never consults cap() of the caller's words (nothing beyond len is read)",
			"ToDense/WriteDenseTo never convert a value that carries a chunk base to int (32 bits on 386/arm)",
			"AddOffset/AddOffset64/Flip/ToDense/WriteDenseTo never change their bitmap argument", "AddOffset64 and static Flip store only fresh containers or certified hand-offs", "static Flip inserts with an index searched in the answer", "addOffset never returns a typed nil inside the container interface", "FromDense without copy flags the container whenever its payload is the caller's slice", "Flip drops empty results; addOffset parts are returned in their cheapest representation"},
		NotDecided: []string{"offset/carry arithmetic", "dense bit layout", "floor division for negative offsets"},
		Technique:  techMix,
	},
	"C17": {
		Rules:       []string{"A2.64", "A3.64", "F3.64", "F5", "F9", "A1.api64", "A5", "F12", "P6", "P2", "U1", "F10", "EQ1", "R2", "IDX1", "A2.stale", "LEN1", "F5.neg", "R3", "U5", "CUR1", "CUR2", "CUR3", "CUR4", "GAL1", "CACHE1", "CUR5", "SW1", "LOW1", "U11", "U12", "IX0", "CUR6", "R4"},
		Explanation: explBase + " C17: the 64-bit bitmap's bucket table obeys the same ownership discipline (bucket = container), drops emptied buckets, inserts at the right index and its aggregates return fresh bitmaps.",
		Decided: []string{
			"no table is given an array (keys, containers, flags) of another table: clones and results own their three arrays",
			"a cursor method that steps the chunk position reloads the cursor before the key field is read again (in particular in the condition of the loop that does the stepping)",
			"exported functions read a fixed position of a caller's slice (the first value of AddMany, the first bitmap of an aggregate) only behind a test of its length",
			"in the 64-bit bitmap a 64-bit quantity is cut to 32 bits only if it is a widened / shifted / masked 32-bit value or an upper-bound comparison on it dominates the cut (Select's running index against the bucket cardinality)",
			"end-1 of a caller-supplied unsigned range end is computed only where the end is known to be positive (behind the empty-range exit, a zero test or a clamp)",
			"Rank asks a chunk (bucket) found by scanning positions about the low half of its argument only where the scan has established that the chunk's key equals the argument's high half",
			"at no call is an argument handed to another parameter than the one it is named after while that parameter exists with the same type (the start/last bounds of the per-range merge kernels, found-set/filter-set)",
			"the batch iterators ask the inner iterator for more only behind a test that the caller's buffer has room, so that a zero answer can only mean an exhausted chunk",
			"a merge loop that carries the element under its cursor in a local reloads it whenever the cursor moves (including galloping jumps)",
			"an iterator glues the key of the current chunk/bucket to what the inner iterator yields only when no reload of the cursor lies between the two reads",
			"every move of the inner iterator of the eager iterators is followed, before returning, by an exhaustion test that may reload the cursor",
			"AdvanceIfNeeded hands the low half of its argument to the chunk-level iterator (or stores it as gap position) only under an equality test of the cursor key against the argument's high half",
			"the position answered by a galloping search is compared with a bound before it is used as an index (directly, or as the loop's position variable)", "every bucket write goes through an owned bucket (gate / fresh)", "every bucket store is owned / moved with its flag / cloned", "every may-empty bucket operation is followed by an emptiness test", "insertion index searched in the destination table (static Flip)", "FastOr/FastAnd/ParOr of one bitmap return a fresh bitmap", "read-only API never changes its arguments", "in-place Xor tests rb == x2 before writing", "Equals compares receiver with argument on both key and bucket level", "Initialize rewinds every cursor field of the reusable 64-bit iterators"},
		NotDecided: []string{"per-bucket range splitting", "Rank/Select accumulation", "iterator arithmetic", "absence of panics in general"},
		Technique:  techOwn,
	},
	"C18": {
		Rules:       []string{"B1", "B2", "B5", "T1", "L1", "V1", "F3.64", "A8", "G1", "R1", "U3", "PT2", "B7", "B8", "F5.neg", "L2", "A2.64", "A3.64", "F8.point", "F8.bitmap", "F8.run", "L9", "ZERO1"},
		Explanation: explBase + " C18: error propagation and byte accounting of the 64-bit writers/readers, bounded reads, the bound on the bucket count before allocation, agreement of writer/readers/size predictor on the framing, validator wiring, no empty bucket stored.",
		Decided: []string{
			"the run flags of the portable header are OR-ed into a buffer that was allocated zeroed in the same call (or cleared first), never into one kept from a previous write",
			"the portable reader reads a non-run chunk as bitmap words exactly when it announces more than 4096 values (evaluated at 4096 and 4097, where both payloads have the same length and an off-by-one stays in step with the stream)",
			"the 32-bit kernels that build a bucket's containers keep the kind the writer accepts (array up to 4096 values, bitmap above, minimised runs): point updates of a bucket go through the kind-preserving kernels, and a bitmap container is handed out only behind a cardinality test — otherwise WriteTo of a library-made 64-bit bitmap refuses the container half-way through the stream",
			"every decoder resets or reassigns all three table arrays of the receiver on every successful path (decoding into a used bitmap keeps nothing)",
			"roaring64 UnmarshalBinary/ReadFrom keep no pointer into the caller's slice",
			"decoding uses no package-level scratch memory",
			"no reader/writer error is dropped in roaring64 WriteTo/ReadFrom/FromUnsafeBytes and the inner 32-bit decoders", "returned counts depend on every inner count", "the key is read with io.ReadFull / bounds-checked Next", "decoded counts reach make() only behind an upper bound", "writer, both readers and GetSerializedSizeInBytes agree on the framing (8-byte count, 4-byte key per bucket)", "roaring64 Validate checks every bucket, key order, table lengths and rejects empty buckets", "mutators never leave an empty bucket in the table (it would fail Validate after a round trip)"},
		NotDecided: []string{"round-trip equality", "hang-freedom", "contents of the decoded chunks"},
		Technique:  techErr,
	},
	"C19": {
		Rules:       []string{"PC1", "PC2", "B1", "P1", "A7", "U3", "A3.bsi", "A8", "P2", "A1.bsi", "F10.bsi", "ACC1", "SW1", "U9"},
		Explanation: explBase + " C19: every whole-index operation touches every plane including the sign plane; (un)marshal errors propagate; per-plane goroutines are joined.",
		Decided: []string{
			"planes of the 32-bit index are freshly built bitmaps, never a caller's bitmap (Add/addDigit, ParOr, UnmarshalBinary, NewBSIRetainSet)",
			"Clone/NewBSIRetainSet, ClearValues, ParOr, RunOptimize, Equals, WriteTo/ReadFrom ... iterate over all len(bA) planes (sign plane included)", "SetValue/SetMany/SetBigValue/SetBigMany write (set or clear) every plane", "widening copies the old sign plane into every new plane up to the new top plane", "Marshal/Unmarshal/WriteTo/ReadFrom propagate errors", "per-plane goroutines are paired with a WaitGroup", "Clone/NewBSIRetainSet copy planes only from freshly cloned bitmaps (no shared headers)",
			"the n-ary union (ParOr) of indexes of different widths: the receiver is sign-extended when it grows, a narrower operand contributes its sign plane to every higher plane, and the per-plane operand lists are only appended to (no operand's plane is dropped, whatever the argument order)",
			"every exported method of the 64-bit index that appends planes to its own array is either checked for sign extension or exempt with a reason",
			"x.Add(x) never reads the operand on the path where it is the receiver (a snapshot stands in)",
			"ClearValues removes its found-set from the existence bitmap only after (and never concurrently with) its last other use of it, so the found-set may be GetExistenceBitmap() itself"},
		NotDecided: []string{"two's-complement encode/decode", "ripple-carry addition", "how many planes a value needs"},
		Technique:  "static analysis: loop-bound vs slice-length agreement over go/ssa; error-flow rules",
	},
	"C20": {
		Rules:       []string{"A1.bsi", "P1", "U3", "A3.bsi", "P2", "U7", "SW1", "U9"},
		Explanation: explBase + " C20: queries never change the index, returned bitmaps are never the index's internal bitmaps, fan-out goroutines are joined.",
		Decided: []string{
			"worker goroutines assign no captured variable; the shared task is read-only for them",
			"comparison constants (*big.Int, task fields) are never overwritten by the functions that receive them",
			"no query ignores one of its parameters (found-set, operator, bounds) apart from two named, justified cases",
			"no BSI query changes the contents of the index's planes or existence bitmap", "no query returns a pointer to an internal bitmap (eBM / bA[i]) of the index", "parallel executors pair every goroutine with WaitGroup.Done",
			"functions with an arbitrary-precision result (SumBigValues, GetBigValue(s), MinMaxBig) compute no plane weight in a machine word",
			"no call crosses two same-typed arguments over the parameters they are named after (found-set / filter-set, start / end ...)"},
		NotDecided: []string{"the comparison automaton", "trie/cube shortcuts", "sums and min/max beyond the width clause", "found-set restriction arithmetic"},
		Technique:  techOwn,
	},
}
