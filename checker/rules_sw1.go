package main

import (
	"fmt"
	"go/ast"
	"go/types"
	"strings"

	"golang.org/x/tools/go/types/typeutil"
)

func init() {
	register("SW1", "arguments reach the parameter they are named after: at no call are two same-typed arguments crossed over (a variable named like parameter j passed in position i while the variable named like parameter i is passed in position j) — the found-set / filter-set, start / end and key / index pairs of this code base are all same-typed, so the compiler cannot see the swap; nor is an argument named like one parameter handed to another same-typed parameter while the first receives something else (spec.end, spec.start passed for start, last)", ruleSW1)
}

func ruleSW1(p *Prog) *RuleResult {
	res := newResult("SW1", ruleDoc["SW1"], 40)
	argName := func(e ast.Expr) string {
		switch x := e.(type) {
		case *ast.Ident:
			return x.Name
		case *ast.SelectorExpr:
			return x.Sel.Name
		case *ast.UnaryExpr:
			if id, ok := x.X.(*ast.Ident); ok {
				return id.Name
			}
			if se, ok := x.X.(*ast.SelectorExpr); ok {
				return se.Sel.Name
			}
		}
		return ""
	}
	for _, pk := range p.Pkgs {
		for _, file := range pk.Syntax {
			if strings.HasSuffix(p.Fset.Position(file.Pos()).Filename, "_test.go") {
				continue
			}
			for _, d := range file.Decls {
				fd, ok := d.(*ast.FuncDecl)
				if !ok || fd.Body == nil {
					continue
				}
				fn := p.astFuncName(pk.PkgPath, fd)
				n := 0
				ast.Inspect(fd.Body, func(nd ast.Node) bool {
					call, ok := nd.(*ast.CallExpr)
					if !ok || len(call.Args) < 2 {
						return true
					}
					callee, ok := typeutil.Callee(pk.TypesInfo, call).(*types.Func)
					if !ok || callee.Pkg() == nil || !strings.HasPrefix(callee.Pkg().Path(), modPath) {
						return true
					}
					sig := callee.Type().(*types.Signature)
					if sig.Variadic() && len(call.Args) > sig.Params().Len() {
						// only the fixed part
					}
					np := sig.Params().Len()
					names := make([]string, len(call.Args))
					matched := 0
					for i, a := range call.Args {
						names[i] = argName(a)
						if i < np && names[i] != "" && strings.EqualFold(names[i], sig.Params().At(i).Name()) {
							matched++
						}
					}
					var swaps, onesided []string
					for i := 0; i < len(call.Args) && i < np; i++ {
						for j := i + 1; j < len(call.Args) && j < np; j++ {
							pi, pj := sig.Params().At(i), sig.Params().At(j)
							if names[i] == "" || names[j] == "" || pi.Name() == "" || pj.Name() == "" || pi.Name() == "_" || strings.EqualFold(pi.Name(), pj.Name()) {
								continue
							}
							if !types.Identical(pi.Type(), pj.Type()) {
								continue
							}
							if strings.EqualFold(names[i], pj.Name()) && strings.EqualFold(names[j], pi.Name()) {
								swaps = append(swaps, fmt.Sprintf("argument %q goes to parameter %q and argument %q to parameter %q", names[i], pi.Name(), names[j], pj.Name()))
							}
						}
					}
					// one-sided: an argument named like another same-typed parameter, while that parameter receives
					// something else (spec.end, spec.start handed to (start, last))
					for i := 0; i < len(call.Args) && i < np; i++ {
						for j := 0; j < len(call.Args) && j < np; j++ {
							if i == j {
								continue
							}
							pi, pj := sig.Params().At(i), sig.Params().At(j)
							if names[i] == "" || pi.Name() == "" || pj.Name() == "" || pj.Name() == "_" || strings.EqualFold(pi.Name(), pj.Name()) || !types.Identical(pi.Type(), pj.Type()) {
								continue
							}
							if strings.EqualFold(names[i], pj.Name()) && !strings.EqualFold(names[i], pi.Name()) && !strings.EqualFold(names[j], pj.Name()) && len(swaps) == 0 {
								onesided = append(onesided, fmt.Sprintf("argument %q goes to parameter %q although a parameter %q of the same type exists and receives %q", names[i], pi.Name(), pj.Name(), names[j]))
							}
						}
					}
					if len(swaps) == 0 && len(onesided) == 0 && matched < 2 {
						return true
					}
					n++
					c := fmt.Sprintf("%s|call of %s#%d", fn, callee.Name(), n)
					if len(swaps) > 0 {
						res.bad(c, p.pos(call.Pos()), "crossed arguments: "+strings.Join(swaps, "; "))
					} else if len(onesided) > 0 {
						res.bad(c, p.pos(call.Pos()), "misplaced argument: "+strings.Join(onesided, "; "))
					} else {
						res.ok(c, p.pos(call.Pos()), fmt.Sprintf("%d argument(s) named after their parameter", matched))
					}
					return true
				})
			}
		}
	}
	return res
}
