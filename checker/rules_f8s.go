package main

import (
	"fmt"
	"go/constant"
	"go/token"
	"go/types"
	"sort"
	"strings"

	"golang.org/x/tools/go/ssa"
)

func init() {
	register("F8.scratch", "kernel operands are well-typed: a bitmap container built as scratch space (newBitmapContainer, toBitmapContainer, a literal) is never passed to a kernel that may hand its operand back (itself or a clone) unless a dominating test shows it holds more than 4096 values", ruleF8Scratch)
}

// retParams computes, for the functions of package roaring, which parameters may come back as (a copy
// of) the result: returned as is, through clone(), or through another function that does so.
func retParams(p *Prog) map[*ssa.Function]map[int]bool {
	out := map[*ssa.Function]map[int]bool{}
	own := p.OWN()
	var fns []*ssa.Function
	for _, f := range p.sourceFns() {
		if fnPkgPath(f) == modPath && f.Blocks != nil {
			fns = append(fns, f)
		}
	}
	derived := func(f *ssa.Function, k int) bool {
		prm := f.Params[k]
		seen := map[ssa.Value]bool{}
		var work []ssa.Value
		work = append(work, prm)
		seen[prm] = true
		push := func(v ssa.Value) {
			if !seen[v] {
				seen[v] = true
				work = append(work, v)
			}
		}
		for len(work) > 0 {
			v := work[len(work)-1]
			work = work[:len(work)-1]
			if v.Referrers() == nil {
				continue
			}
			for _, r := range *v.Referrers() {
				switch x := r.(type) {
				case *ssa.MakeInterface:
					push(x)
				case *ssa.ChangeInterface:
					push(x)
				case *ssa.ChangeType:
					push(x)
				case *ssa.TypeAssert:
					push(x)
				case *ssa.Extract:
					push(x)
				case *ssa.Phi:
					push(x)
				case *ssa.Return:
					for _, rv := range x.Results {
						if rv == v {
							return true
						}
					}
				case *ssa.Call:
					var callees []*ssa.Function
					if x.Call.IsInvoke() {
						if x.Call.Value == v && (x.Call.Method.Name() == "clone" || x.Call.Method.Name() == "Clone") {
							push(x)
							continue
						}
						callees = own.lookupImpls(&x.Call)
					} else if g := x.Call.StaticCallee(); g != nil {
						if (g.Name() == "clone" || g.Name() == "Clone") && len(x.Call.Args) > 0 && x.Call.Args[0] == v {
							push(x)
							continue
						}
						callees = []*ssa.Function{g}
					}
					args := x.Call.Args
					off := 0
					if x.Call.IsInvoke() {
						off = 1 // callee.Params[0] is the receiver, not in Args
						if x.Call.Value == v {
							for _, g := range callees {
								if out[g][0] {
									push(x)
								}
							}
						}
					}
					for ai, a := range args {
						if a != v {
							continue
						}
						for _, g := range callees {
							if out[g][ai+off] {
								push(x)
							}
						}
					}
				}
			}
		}
		return false
	}
	for changed := true; changed; {
		changed = false
		for _, f := range fns {
			for k, prm := range f.Params {
				if out[f][k] || !hasPointers(prm.Type()) {
					continue
				}
				ts := typeShort(prm.Type())
				if !(strings.Contains(ts, "ontainer")) {
					continue
				}
				if derived(f, k) {
					if out[f] == nil {
						out[f] = map[int]bool{}
					}
					out[f][k] = true
					changed = true
				}
			}
		}
	}
	return out
}

func ruleF8Scratch(p *Prog) *RuleResult {
	res := newResult("F8.scratch", ruleDoc["F8.scratch"], 3)
	thrC := p.Const("roaring", "arrayDefaultMaxSize")
	bct := p.Type("roaring", "bitmapContainer")
	if thrC == nil || bct == nil {
		res.undecided("anchors", "-", "arrayDefaultMaxSize / bitmapContainer not found")
		return res
	}
	thr, _ := constant.Int64Val(thrC.Val())
	bcPtr := types.NewPointer(bct)
	own := p.OWN()
	rp := retParams(p)
	var fns []*ssa.Function
	for _, f := range p.sourceFns() {
		if fnPkgPath(f) == modPath && f.Blocks != nil {
			fns = append(fns, f)
		}
	}
	sort.Slice(fns, func(i, j int) bool { return fname(fns[i]) < fname(fns[j]) })
	for _, f := range fns {
		// raw bitmap containers created in f
		raw := map[ssa.Value]ssa.Value{} // value -> the *bitmapContainer it wraps / is
		var seed []ssa.Value
		for _, b := range f.Blocks {
			for _, ins := range b.Instrs {
				switch x := ins.(type) {
				case *ssa.Call:
					if types.Identical(x.Type(), bcPtr) {
						g := x.Call.StaticCallee()
						if g != nil && (g.Name() == "clone" || g.Name() == "Clone") {
							continue // a copy of something that is itself subject to this rule or comes from a table
						}
						seed = append(seed, x)
					}
				case *ssa.Alloc:
					if types.Identical(x.Type(), bcPtr) && x.Comment == "complit" {
						seed = append(seed, x)
					}
				}
			}
		}
		if len(seed) == 0 {
			continue
		}
		var work []ssa.Value
		for _, s := range seed {
			raw[s] = s
			work = append(work, s)
		}
		for len(work) > 0 {
			v := work[len(work)-1]
			work = work[:len(work)-1]
			if v.Referrers() == nil {
				continue
			}
			add := func(n ssa.Value) {
				if _, ok := raw[n]; !ok {
					raw[n] = raw[v]
					work = append(work, n)
				}
			}
			for _, r := range *v.Referrers() {
				switch x := r.(type) {
				case *ssa.MakeInterface:
					add(x)
				case *ssa.ChangeInterface:
					add(x)
				case *ssa.TypeAssert:
					add(x)
				case *ssa.Phi:
					add(x)
				case *ssa.Call:
					// an in-place kernel invoked on the scratch returns (possibly) the scratch itself
					if x.Call.IsInvoke() && x.Call.Value == v && inplaceContainerMethods[x.Call.Method.Name()] {
						add(x)
					}
					if g := x.Call.StaticCallee(); g != nil && len(x.Call.Args) > 0 && x.Call.Args[0] == v && inplaceContainerMethods[g.Name()] && hasPointers(x.Type()) {
						add(x)
					}
				}
			}
		}
		per, none := 0, 0
		for _, b := range f.Blocks {
			for _, ins := range b.Instrs {
				call, ok := ins.(*ssa.Call)
				if !ok {
					continue
				}
				var callees []*ssa.Function
				off := 0
				if call.Call.IsInvoke() {
					callees = own.lookupImpls(&call.Call)
					off = 1
				} else if g := call.Call.StaticCallee(); g != nil {
					callees = []*ssa.Function{g}
				}
				for ai, a := range call.Call.Args {
					src, isRaw := raw[a]
					if !isRaw {
						continue
					}
					if !call.Call.IsInvoke() && ai == 0 && call.Call.StaticCallee() != nil && call.Call.StaticCallee().Signature.Recv() != nil {
						// receiver position: the callee's own returns are checked by F8.bitmap — except where that rule
						// trusts the receiver to be a valid bitmap container already (its grow-only table)
						g := call.Call.StaticCallee()
						if why, trusted := bitmapReturnGrowOnly[fname(g)]; trusted && hasPointers(call.Type()) && !strings.HasPrefix(g.Name(), "lazy") {
							per++
							c := fmt.Sprintf("%s|scratch receiver of %s#%d", fname(f), fname(g), per)
							switch {
							case growOperandIsBitmap(call, bcPtr, raw):
								res.ok(c, p.ipos(call), "united with a bitmap container that is not scratch (> 4096 values), so the result exceeds the threshold")
							case resultRetyped(call):
								res.ok(c, p.ipos(call), "the result is unused or re-typed (toEfficientContainer) before use")
							default:
								if ok, w := scratchGuarded(p, a, src, b, raw, bcPtr, thr, 0); ok {
									res.ok(c, p.ipos(call), w)
								} else {
									res.bad(c, p.ipos(call), fmt.Sprintf("%s is trusted to return a bitmap container above the threshold (%s), but here its receiver is scratch space that may hold <= %d values", fname(g), why, thr))
								}
							}
						}
						continue
					}
					var giveBack []string
					for _, g := range callees {
						if rp[g][ai+off] {
							giveBack = append(giveBack, fname(g))
						}
					}
					if len(giveBack) == 0 {
						none++
						continue
					}
					sort.Strings(giveBack)
					per++
					c := fmt.Sprintf("%s|scratch operand of %s#%d", fname(f), calleeName(&call.Call), per)
					if ok, why := scratchGuarded(p, a, src, b, raw, bcPtr, thr, 0); ok {
						res.ok(c, p.ipos(call), why)
					} else {
						res.bad(c, p.ipos(call), fmt.Sprintf("a scratch bitmap container that may hold <= %d values is passed to a kernel that may return (a clone of) its operand (%s): the stored result would be a bitmap container below the array threshold (%s)", thr, strings.Join(giveBack, ", "), why))
					}
				}
			}
		}
		if none > 0 {
			res.ok(fmt.Sprintf("%s|scratch operands never handed back", fname(f)), p.pos(f.Pos()), fmt.Sprintf("%d call(s) take a scratch bitmap container as operand; no possible callee returns that operand or a clone of it", none))
		}
	}
	return res
}

// growOperandIsBitmap: some other operand of the call is a *bitmapContainer that is not itself scratch.
func growOperandIsBitmap(call *ssa.Call, bcPtr types.Type, raw map[ssa.Value]ssa.Value) bool {
	for i, a := range call.Call.Args {
		if i == 0 {
			continue
		}
		if types.Identical(a.Type(), bcPtr) {
			if _, isRaw := raw[a]; !isRaw {
				return true
			}
		}
	}
	return false
}

// resultRetyped: every use of the call's result is a call of toEfficientContainer on it, or the result is unused.
func resultRetyped(call *ssa.Call) bool {
	if call.Referrers() == nil || len(*call.Referrers()) == 0 {
		return true
	}
	for _, r := range *call.Referrers() {
		c, ok := r.(*ssa.Call)
		if !ok {
			return false
		}
		name := ""
		if c.Call.IsInvoke() && c.Call.Value == ssa.Value(call) {
			name = c.Call.Method.Name()
		} else if g := c.Call.StaticCallee(); g != nil && len(c.Call.Args) > 0 && c.Call.Args[0] == ssa.Value(call) {
			name = g.Name()
		}
		if !strings.HasPrefix(name, "toEfficientContainer") {
			return false
		}
	}
	return true
}

// scratchGuarded: at block b the value v (derived from scratch bitmap src) is either known not to be a
// bitmap container any more, or known to hold more than thr values. Phi values are checked per incoming
// edge (the guard may sit on the edge itself: `if bc, ok := x.(*bitmapContainer); ok { if bc.cardinality <= thr { x = bc.toArrayContainer() } }`).
func scratchGuarded(p *Prog, v, src ssa.Value, b *ssa.BasicBlock, raw map[ssa.Value]ssa.Value, bcPtr types.Type, thr int64, depth int) (bool, string) {
	if ok, why := p.exceedsThreshold(src, b, thr); ok {
		return true, why
	}
	if notBitmapAt(v, b, bcPtr) {
		return true, "not a bitmap container on this path (failed type assertion)"
	}
	ph, isPhi := v.(*ssa.Phi)
	if !isPhi || depth > 4 {
		return false, "no dominating cardinality test"
	}
	for i, e := range ph.Edges {
		if _, isRaw := raw[e]; !isRaw {
			continue
		}
		pred := ph.Block().Preds[i]
		if edgeEstablishes(pred, ph.Block(), e, bcPtr, thr) {
			continue
		}
		if ok, _ := scratchGuarded(p, e, raw[e], pred, raw, bcPtr, thr, depth+1); !ok {
			// the guard may dominate pred through pred's own predecessors' edges
			if !predsEstablish(pred, e, bcPtr, thr) {
				return false, "no cardinality test on the path through " + pred.String()
			}
		}
	}
	return true, "every path either re-types the scratch container or shows its cardinality exceeds the threshold"
}

// edgeEstablishes: the branch from block `from` to `to` is taken only if v is not a bitmap container or holds > thr values.
func edgeEstablishes(from, to *ssa.BasicBlock, v ssa.Value, bcPtr types.Type, thr int64) bool {
	ifi, ok := from.Instrs[len(from.Instrs)-1].(*ssa.If)
	if !ok || from.Succs[0] == from.Succs[1] {
		return false
	}
	idx := 1
	if from.Succs[0] == to {
		idx = 0
	}
	// `ok` of v.(*bitmapContainer)
	if ex, isEx := ifi.Cond.(*ssa.Extract); isEx && ex.Index == 1 {
		if ta, isTA := ex.Tuple.(*ssa.TypeAssert); isTA && ta.CommaOk && types.Identical(ta.AssertedType, bcPtr) && ta.X == v {
			return idx == 1
		}
	}
	bo, isBO := ifi.Cond.(*ssa.BinOp)
	if !isBO {
		return false
	}
	var k int64
	var op token.Token
	if cv, ok := constIntVal(bo.Y); ok {
		if _, ok2 := cardinalityOf(bo.X); ok2 {
			k, op = cv, bo.Op
		}
	} else if cv, ok := constIntVal(bo.X); ok {
		if _, ok2 := cardinalityOf(bo.Y); ok2 {
			k, op = cv, flipOp(bo.Op)
		}
	}
	lb := int64(-1)
	switch {
	case op == token.GTR && idx == 0:
		lb = k + 1
	case op == token.GEQ && idx == 0:
		lb = k
	case op == token.LEQ && idx == 1:
		lb = k + 1
	case op == token.LSS && idx == 1:
		lb = k
	}
	return lb > thr
}

func predsEstablish(b *ssa.BasicBlock, v ssa.Value, bcPtr types.Type, thr int64) bool {
	if len(b.Preds) == 0 {
		return false
	}
	for _, p := range b.Preds {
		if !edgeEstablishes(p, b, v, bcPtr, thr) {
			return false
		}
	}
	return true
}

// notBitmapAt: b is dominated by the false edge of `_, ok := v.(*bitmapContainer)`.
func notBitmapAt(v ssa.Value, b *ssa.BasicBlock, bcPtr types.Type) bool {
	for d := b.Idom(); d != nil; d = d.Idom() {
		ifi, ok := d.Instrs[len(d.Instrs)-1].(*ssa.If)
		if !ok {
			continue
		}
		if ex, isEx := ifi.Cond.(*ssa.Extract); isEx && ex.Index == 1 {
			if ta, isTA := ex.Tuple.(*ssa.TypeAssert); isTA && ta.CommaOk && types.Identical(ta.AssertedType, bcPtr) && ta.X == v {
				if dominatedByEdge(d, 1, b) {
					return true
				}
			}
		}
	}
	return false
}
