package main

import (
	"fmt"
	"go/token"
	"go/types"
	"sort"

	"golang.org/x/tools/go/ssa"
)

func init() {
	register("ZERO1", "flag bits are OR-ed into a byte buffer (buf[i/8] |= 1 << (i%8): the run flags of the portable header) only if the buffer was allocated zeroed in the same function, or was handed in by the caller: a buffer kept in a field or taken from a pool still carries the flags of the previous use, and |= never clears them", ruleZERO1)
}

func ruleZERO1(p *Prog) *RuleResult {
	res := newResult("ZERO1", ruleDoc["ZERO1"], 1)
	fns := append([]*ssa.Function(nil), p.sourceFns()...)
	sort.Slice(fns, func(i, j int) bool { return fname(fns[i]) < fname(fns[j]) })
	for _, f := range fns {
		n := 0
		for _, b := range f.Blocks {
			for _, ins := range b.Instrs {
				st, ok := ins.(*ssa.Store)
				if !ok {
					continue
				}
				ia, ok := st.Addr.(*ssa.IndexAddr)
				if !ok {
					continue
				}
				sl, ok := ia.X.Type().Underlying().(*types.Slice)
				if !ok {
					continue
				}
				if bt, ok := sl.Elem().Underlying().(*types.Basic); !ok || bt.Kind() != types.Uint8 {
					continue
				}
				bo, ok := st.Val.(*ssa.BinOp)
				if !ok || bo.Op != token.OR {
					continue
				}
				// one operand is the element itself
				self := false
				for _, o := range []ssa.Value{bo.X, bo.Y} {
					if u, ok := o.(*ssa.UnOp); ok && u.Op == token.MUL {
						if ia2, ok := u.X.(*ssa.IndexAddr); ok && ia2.X == ia.X {
							self = true
						}
					}
				}
				if !self {
					continue
				}
				n++
				cn := fmt.Sprintf("%s|bits OR-ed into a byte buffer#%d", fname(f), n)
				// where does the buffer come from?
				origin, bad := "", ""
				seen := map[ssa.Value]bool{}
				var walk func(v ssa.Value)
				walk = func(v ssa.Value) {
					if seen[v] {
						return
					}
					seen[v] = true
					switch x := v.(type) {
					case *ssa.Slice:
						walk(x.X)
					case *ssa.MakeSlice:
						origin = "make at " + p.ipos(x)
					case *ssa.Parameter:
						origin = "parameter " + x.Name()
					case *ssa.Phi:
						for _, e := range x.Edges {
							walk(e)
						}
					case *ssa.Alloc:
						origin = "a local array"
					case *ssa.UnOp:
						if fa, ok := x.X.(*ssa.FieldAddr); ok {
							bad = "the field " + fieldName(fa.X.Type(), fa.Field)
						} else {
							bad = "memory loaded at " + p.ipos(x)
						}
					case *ssa.Call:
						if bi, ok := x.Call.Value.(*ssa.Builtin); ok && bi.Name() == "append" {
							walk(x.Call.Args[0])
						} else {
							bad = "the result of " + calleeName(&x.Call)
						}
					default:
						bad = fmt.Sprintf("%T", v)
					}
				}
				walk(ia.X)
				// cleared before use?
				if bad != "" {
					for _, b2 := range f.Blocks {
						if b2 != b && !b2.Dominates(b) {
							continue
						}
						for _, in2 := range b2.Instrs {
							if in2 == ins {
								break
							}
							if c, ok := in2.(*ssa.Call); ok {
								if bi, ok := c.Call.Value.(*ssa.Builtin); ok && bi.Name() == "clear" && len(c.Call.Args) == 1 && seen[c.Call.Args[0]] {
									origin, bad = "cleared at "+p.ipos(c), ""
								}
							}
						}
					}
				}
				if bad != "" {
					res.bad(cn, p.ipos(st), fmt.Sprintf("the buffer comes from %s: whatever bits it held before are still set after the |=", bad))
				} else {
					res.ok(cn, p.ipos(st), "the buffer is "+origin)
				}
			}
		}
	}
	return res
}
