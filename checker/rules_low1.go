package main

import (
	"fmt"
	"go/token"
	"go/types"
	"sort"

	"golang.org/x/tools/go/ssa"
)

func init() {
	register("LOW1", "the low half of a caller-supplied value means something only inside the chunk (bucket) whose key is the value's high half. Where a chunk is picked by position in a scan (getContainerAtIndex(i) with i not the answer of a key search for that high half) and is then asked about the low half (rank, contains, nextValue ...), the call sits where the scan has established key == high half: an equality test, or both 'key < high' and 'key > high' excluded on the way. A two-way test ('key < high: count the chunk, else: ask it') also asks chunks that lie beyond the value", ruleLOW1)
}

func ruleLOW1(p *Prog) *RuleResult {
	res := newResult("LOW1", ruleDoc["LOW1"], 1)
	fns := append([]*ssa.Function(nil), p.sourceFns()...)
	sort.Slice(fns, func(i, j int) bool { return fname(fns[i]) < fname(fns[j]) })
	size := func(t types.Type) int64 {
		bt, ok := t.Underlying().(*types.Basic)
		if !ok || bt.Info()&types.IsInteger == 0 {
			return 0
		}
		return p.sizeofBasic(bt)
	}
	for _, f := range fns {
		if f.Blocks == nil || len(f.Params) == 0 {
			continue
		}
		wide := map[ssa.Value]bool{}
		for _, prm := range f.Params {
			if bt, ok := prm.Type().Underlying().(*types.Basic); ok && (bt.Kind() == types.Uint32 || bt.Kind() == types.Uint64) {
				wide[prm] = true
			}
		}
		if len(wide) == 0 {
			continue
		}
		fromParam := func(v ssa.Value) []ssa.Value {
			return sliceBack(v, func(x ssa.Value) bool { return wide[x] })
		}
		// the low half: a value narrower than the parameter it derives from, not shifted right first
		// the low half of a parameter itself: the parameter narrowed by a conversion, a mask or a helper that does
		// not shift — not a quantity computed from it (an index counted down through the chunks is no value)
		var chainToParam func(v ssa.Value, d int) ssa.Value
		chainToParam = func(v ssa.Value, d int) ssa.Value {
			if d > 5 {
				return nil
			}
			if wide[v] {
				return v
			}
			switch x := v.(type) {
			case *ssa.Convert:
				return chainToParam(x.X, d+1)
			case *ssa.ChangeType:
				return chainToParam(x.X, d+1)
			case *ssa.BinOp:
				if x.Op == token.AND {
					if _, isC := x.Y.(*ssa.Const); isC {
						return chainToParam(x.X, d+1)
					}
				}
			case *ssa.Call:
				if g := x.Call.StaticCallee(); g != nil && !x.Call.IsInvoke() && len(x.Call.Args) == 1 {
					return chainToParam(x.Call.Args[0], d+1)
				}
			}
			return nil
		}
		isLow := func(v ssa.Value) bool {
			s := size(v.Type())
			if s == 0 {
				return false
			}
			prm := chainToParam(v, 0)
			return prm != nil && s < size(prm.Type()) && !hasShiftRight(v, 0)
		}
		n := 0
		for _, b := range f.Blocks {
			for _, ins := range b.Instrs {
				c, ok := ins.(*ssa.Call)
				if !ok {
					continue
				}
				var recv ssa.Value
				args := c.Call.Args
				if c.Call.IsInvoke() {
					recv = c.Call.Value
				} else if g := c.Call.StaticCallee(); g != nil && g.Signature.Recv() != nil && len(args) > 0 {
					recv = args[0]
					args = args[1:]
				} else {
					continue
				}
				low := false
				for _, a := range args {
					if isLow(a) {
						low = true
					}
				}
				if !low {
					continue
				}
				// the receiver: picked by position?
				pc, ok := recv.(*ssa.Call)
				if !ok {
					continue
				}
				pg := pc.Call.StaticCallee()
				if pg == nil || pg.Signature.Recv() == nil || len(pc.Call.Args) != 2 || size(pc.Call.Args[1].Type()) == 0 {
					continue
				}
				if bt, _ := pc.Call.Args[1].Type().Underlying().(*types.Basic); bt == nil || bt.Kind() != types.Int {
					continue // picked by key (getContainer(highbits(x))), not by position
				}
				idx := pc.Call.Args[1]
				// position found by a search for the value's high half?
				searched := false
				for _, s := range sliceBack(idx, func(v ssa.Value) bool {
					cc, ok := v.(*ssa.Call)
					if !ok || cc.Call.IsInvoke() {
						return false
					}
					for _, a := range cc.Call.Args {
						if len(fromParam(a)) > 0 {
							return true
						}
					}
					return false
				}) {
					_ = s
					searched = true
				}
				if searched {
					continue
				}
				n++
				cn := fmt.Sprintf("%s|low half handed to the chunk at a scanned position#%d", fname(f), n)
				// relations established on the way: key ? high
				rel := map[string]bool{"<": true, "=": true, ">": true}
				found := false
				for _, b2 := range f.Blocks {
					iff, ok := b2.Instrs[len(b2.Instrs)-1].(*ssa.If)
					if !ok {
						continue
					}
					bo, ok := iff.Cond.(*ssa.BinOp)
					if !ok {
						continue
					}
					hx, hy := len(fromParam(bo.X)) > 0, len(fromParam(bo.Y)) > 0
					if hx == hy {
						continue
					}
					op := bo.Op
					if hx { // high on the left: mirror so that the relation reads key op high
						switch op {
						case token.LSS:
							op = token.GTR
						case token.GTR:
							op = token.LSS
						case token.LEQ:
							op = token.GEQ
						case token.GEQ:
							op = token.LEQ
						}
					}
					var holds map[string]bool
					switch op {
					case token.LSS:
						holds = map[string]bool{"<": true}
					case token.GTR:
						holds = map[string]bool{">": true}
					case token.LEQ:
						holds = map[string]bool{"<": true, "=": true}
					case token.GEQ:
						holds = map[string]bool{">": true, "=": true}
					case token.EQL:
						holds = map[string]bool{"=": true}
					case token.NEQ:
						holds = map[string]bool{"<": true, ">": true}
					default:
						continue
					}
					t, e := b2.Succs[0], b2.Succs[1]
					domT := len(t.Preds) == 1 && (t == b || t.Dominates(b))
					domE := len(e.Preds) == 1 && (e == b || e.Dominates(b))
					if domT == domE {
						continue
					}
					found = true
					for r := range rel {
						if domT && !holds[r] || domE && holds[r] {
							delete(rel, r)
						}
					}
				}
				if found && len(rel) == 1 && rel["="] {
					res.ok(cn, p.ipos(c), "key == high half established on every way to the call")
				} else {
					var left []string
					for _, r := range []string{"<", "=", ">"} {
						if rel[r] {
							left = append(left, r)
						}
					}
					res.bad(cn, p.ipos(c), fmt.Sprintf("the chunk at a scanned position is asked about the low half of the argument where its key may still be %v the argument's high half", left))
				}
			}
		}
	}
	return res
}

// hasShiftRight: the value is computed with a right shift (directly, or inside a one-level static helper)
func hasShiftRight(v ssa.Value, d int) bool {
	if d > 6 {
		return false
	}
	switch x := v.(type) {
	case *ssa.BinOp:
		if x.Op == token.SHR {
			return true
		}
		return hasShiftRight(x.X, d+1) || hasShiftRight(x.Y, d+1)
	case *ssa.Convert:
		return hasShiftRight(x.X, d+1)
	case *ssa.ChangeType:
		return hasShiftRight(x.X, d+1)
	case *ssa.Call:
		if g := x.Call.StaticCallee(); g != nil && g.Blocks != nil {
			for _, b := range g.Blocks {
				for _, ins := range b.Instrs {
					if bo, ok := ins.(*ssa.BinOp); ok && bo.Op == token.SHR {
						return true
					}
				}
			}
		}
	}
	return false
}
