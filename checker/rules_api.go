package main

import (
	"fmt"
	"go/token"
	"go/types"
	"os"
	"sort"
	"strings"

	"golang.org/x/tools/go/ssa"
)

func init() {
	register("A1.api32", "read-only 32-bit API: no exported function changes the contents of a bitmap it is given, except the documented mutators on their receiver (table-level MutTab summaries)", func(p *Prog) *RuleResult { return ruleA1API(p, "32") })
	register("A1.api64", "read-only 64-bit API (roaring64.Bitmap): same clause one level up (buckets)", func(p *Prog) *RuleResult { return ruleA1API(p, "64") })
	register("A1.slices", "exported functions never write the backing array of a slice argument, except documented output buffers (OWN shallow effects)", ruleA1Slices)
}

// Methods documented as changing their receiver's contents (or its representation). Every other
// exported function, and every other parameter of these, must leave bitmap contents unchanged.
var mutatorMethods = map[string]bool{
	"Add": true, "AddInt": true, "AddMany": true, "AddRange": true, "And": true, "AndAny": true, "AndNot": true,
	"CheckedAdd": true, "CheckedRemove": true, "Clear": true, "CloneCopyOnWriteContainers": true,
	"Flip": true, "FlipInt": true, "FromBase64": true, "FromBuffer": true, "FromDense": true, "FromUnsafeBytes": true,
	"FrozenView": true, "MustFrozenView": true, "MustReadFrom": true, "Or": true, "ReadFrom": true, "Remove": true,
	"RemoveRange": true, "RunOptimize": true, "UnmarshalBinary": true, "Xor": true,
}

// Non-receiver parameters documented as modified.
var mutatorParams = map[string]bool{
	"roaring64.ClearBits|target":        true,
	"BitSliceIndexing.ClearBits|target": true,
}

// Documented mutators of the bit-sliced indexes (receiver changes).
var bsiMutators = map[string]bool{
	"SetValue": true, "SetBigValue": true, "SetMany": true, "SetBigMany": true, "ClearValues": true, "Retain": true,
	"ParOr": true, "Add": true, "Increment": true, "IncrementAll": true, "RunOptimize": true,
	"UnmarshalBinary": true, "ReadFrom": true, "FromBitmaps": true,
}

// Methods documented as returning a pointer to an internal bitmap.
var bsiInternalPointer = map[string]bool{"GetExistenceBitmap": true}

func init() {
	register("A1.bsi", "BSI queries are pure and return independent bitmaps: no exported BSI method outside the documented mutators changes the contents of the index's planes / existence bitmap or of an argument, and none returns a pointer to an internal bitmap", ruleA1BSI)
}

func ruleA1BSI(p *Prog) *RuleResult {
	res := newResult("A1.bsi", ruleDoc["A1.bsi"], 40)
	// comparison constants travel to the workers inside task structs and through function values, which
	// the effect summaries do not follow; so every function that receives a *big.Int (or a task holding one)
	// is checked where it stands: none may overwrite it.
	{
		own := p.OWN()
		var fns []*ssa.Function
		for _, f := range p.sourceFns() {
			if pp := fnPkgPath(f); (pp == pkgPathOf("roaring64") || pp == pkgPathOf("BitSliceIndexing")) && f.Blocks != nil {
				fns = append(fns, f)
			}
		}
		sort.Slice(fns, func(i, j int) bool { return fname(fns[i]) < fname(fns[j]) })
		// (function, parameter) pairs that receive a field of a task (the shared comparison constants)
		fromTask := map[*ssa.Function]map[int]bool{}
		for _, f := range fns {
			for _, b := range f.Blocks {
				for _, ins := range b.Instrs {
					call, ok := ins.(*ssa.Call)
					if !ok {
						continue
					}
					g := call.Call.StaticCallee()
					if g == nil {
						continue
					}
					for ai, a := range call.Call.Args {
						ld, ok := a.(*ssa.UnOp)
						if !ok || ld.Op != token.MUL {
							continue
						}
						fa, ok := ld.X.(*ssa.FieldAddr)
						if !ok || !strings.Contains(fieldName(fa.X.Type(), fa.Field), "task.") {
							continue
						}
						if fromTask[g] == nil {
							fromTask[g] = map[int]bool{}
						}
						fromTask[g][ai] = true
					}
				}
			}
		}
		for _, f := range fns {
			sum := own.Sum(f)
			for k, prm := range f.Params {
				ts := typeShort(prm.Type())
				isTask := strings.HasSuffix(ts, "task")
				isConst := strings.HasSuffix(ts, "big.Int") && (fromTask[f][k] || isExportedAPI(f))
				if !isTask && !isConst {
					continue
				}
				if k == 0 && f.Signature.Recv() != nil {
					continue
				}
				c := fmt.Sprintf("%s|constant %s unchanged", fname(f), prm.Name())
				if sum == nil {
					res.undecided(c, p.pos(f.Pos()), "no effect summary")
					continue
				}
				var cells []string
				if e := sum.mut[k]; e != nil {
					for cell, wit := range e.cells {
						// a task is the one object every worker goroutine of a query shares: nothing in it may be
						// written by the code that receives it (lazily cached fields included)
						if strings.Contains(cell, "big.Int") || cell == "" || (isTask && strings.Contains(cell, "task.")) {
							cells = append(cells, cell+": "+wit)
						}
					}
				}
				sort.Strings(cells)
				if len(cells) > 0 {
					res.bad(c, p.pos(f.Pos()), "a *big.Int reachable from "+prm.Name()+" is overwritten: it is the caller's comparison constant, shared by every column and every worker goroutine", cells...)
				} else {
					res.ok(c, p.pos(f.Pos()), "no big.Int reachable from it is written")
				}
			}
		}
	}
	for _, level := range []string{"64", "B32"} {
		e, err := p.TL(level)
		if err != nil {
			res.undecided("anchors:"+level, "-", err.Error())
			continue
		}
		for _, f := range e.fns {
			if !isExportedAPI(f) || f.Signature.Recv() == nil || !strings.HasSuffix(typeShort(f.Signature.Recv().Type()), "BSI") {
				continue
			}
			s := e.sums[e.sumKey(f, "")]
			if s == nil || !s.done {
				res.undecided(fname(f), p.pos(f.Pos()), "no table-level summary")
				continue
			}
			var tabs []string
			for tab := range s.mutTab {
				tabs = append(tabs, tab)
			}
			sort.Strings(tabs)
			if os.Getenv("RB_DEBUG_TABS") != "" && strings.Contains(fname(f), os.Getenv("RB_DEBUG_TABS")) {
				fmt.Fprintln(os.Stderr, "TABS", fname(f), tabs)
			}
			var bad, wit []string
			for _, tab := range tabs {
				pi, _, ok := rootParam(tab)
				switch {
				case ok && pi == 0 && bsiMutators[f.Name()]:
					continue
				case ok:
					bad = append(bad, fmt.Sprintf("contents of %s (%s)", paramName(f, pi), tab))
				default:
					if bsiMutators[f.Name()] {
						continue // a mutator may build temporaries reached through its own planes
					}
					bad = append(bad, "a bitmap of unknown identity ("+tab+")")
				}
				wit = append(wit, strings.Split(s.mutTab[tab], " -> ")...)
			}
			// a mutator that touches the value planes keeps the existence bitmap in step: it writes eBM as well
			// (set / increment / add / or / retain / clear all change which columns exist or re-encode both)
			if bsiMutators[f.Name()] {
				planes, ebm := false, false
				for _, tab := range tabs {
					if strings.Contains(tab, "P0.bA") {
						planes = true
					}
					if strings.Contains(tab, "P0.eBM") {
						ebm = true
					}
				}
				// the existence bitmap may also be replaced as a whole: b.eBM = <new bitmap>
				for _, bb := range f.Blocks {
					for _, ins := range bb.Instrs {
						if st, ok := ins.(*ssa.Store); ok {
							if _, ok := st.Addr.(*ssa.FieldAddr); ok && e.funcState(f).root(st.Addr) == "P0.eBM" {
								ebm = true
							}
						}
					}
				}
				if planes {
					ce := fname(f) + "|existence bitmap updated"
					if ebm {
						res.ok(ce, p.pos(f.Pos()), "writes the planes and the existence bitmap")
					} else {
						res.bad(ce, p.pos(f.Pos()), "the mutator writes value planes but never the existence bitmap: columns it creates read as absent (and a later SetValue takes its 'column is new' shortcut on stale plane bits)")
					}
				}
			}
			c := fname(f) + "|pure"
			if len(bad) > 0 {
				res.bad(c, p.pos(f.Pos()), "may change "+strings.Join(bad, ", "), wit...)
			} else {
				note := "query: changes no bitmap it did not create"
				if bsiMutators[f.Name()] {
					note = "mutator: changes only its receiver"
				}
				res.ok(c, p.pos(f.Pos()), note)
			}
			// arguments that are not bitmaps (big.Int constants, value lists): unchanged, by the effect summaries
			if osum := p.OWN().Sum(f); osum != nil {
				for k := 1; k < len(f.Params); k++ {
					pt := f.Params[k].Type()
					if !hasPointers(pt) {
						continue
					}
					ts := typeShort(pt)
					if strings.HasSuffix(ts, "Bitmap") || strings.HasSuffix(ts, "BSI") {
						continue // bitmaps: decided above at table level
					}
					if _, isFn := pt.Underlying().(*types.Signature); isFn {
						continue
					}
					if _, isIface := pt.Underlying().(*types.Interface); isIface {
						continue // streams (io.Reader / io.Writer) are advanced by design
					}
					ca := fmt.Sprintf("%s|argument %s unchanged", fname(f), f.Params[k].Name())
					if e := osum.mut[k]; e != nil && (e.shallow || e.deep) {
						var w []string
						for cell, wit := range e.cells {
							w = append(w, cell+": "+wit)
						}
						sort.Strings(w)
						if len(w) > 3 {
							w = w[:3]
						}
						res.bad(ca, p.pos(f.Pos()), "the call may overwrite memory of its argument "+f.Params[k].Name()+" ("+ts+"), which belongs to the caller and may be shared by the worker goroutines", w...)
					} else {
						res.ok(ca, p.pos(f.Pos()), "never written")
					}
				}
			}
			// returned pointers
			for ri := 0; ri < f.Signature.Results().Len() && ri < len(s.retTab); ri++ {
				pt, ok := f.Signature.Results().At(ri).Type().Underlying().(*types.Pointer)
				if !ok {
					continue
				}
				if n, ok := pt.Elem().(*types.Named); !ok || n.Obj().Name() != "Bitmap" {
					continue
				}
				c := fmt.Sprintf("%s|result%d independent", fname(f), ri)
				var internal []string
				for _, r := range s.retTab[ri] {
					if r != "L" && r != "nil" {
						internal = append(internal, r)
					}
				}
				switch {
				case len(internal) == 0:
					res.ok(c, p.pos(f.Pos()), "always a bitmap created by the call")
				case bsiInternalPointer[f.Name()]:
					res.ok(c, p.pos(f.Pos()), "documented to return the internal bitmap")
				default:
					res.bad(c, p.pos(f.Pos()), "may return a pointer to a bitmap it did not create: "+strings.Join(internal, ", ")+" (an internal plane / the existence bitmap / an argument)")
				}
			}
		}
	}
	return res
}

func isExportedAPI(f *ssa.Function) bool {
	if f.Parent() != nil || f.Synthetic != "" || f.Object() == nil || !f.Object().Exported() {
		return false
	}
	if recv := f.Signature.Recv(); recv != nil {
		t := recv.Type()
		if p, ok := t.(*types.Pointer); ok {
			t = p.Elem()
		}
		if n, ok := t.(*types.Named); ok {
			return n.Obj().Exported()
		}
		return false
	}
	return true
}

func ruleA1API(p *Prog, level string) *RuleResult {
	id := "A1.api" + level
	res := newResult(id, ruleDoc[id], 40)
	e, err := p.TL(level)
	if err != nil {
		res.undecided("anchors", "-", err.Error())
		return res
	}
	for _, f := range e.fns {
		if !isExportedAPI(f) {
			continue
		}
		recvName := ""
		if r := f.Signature.Recv(); r != nil {
			recvName = typeShort(r.Type())
		}
		if strings.HasSuffix(recvName, "BSI") {
			continue // the bit-sliced index is judged by its own rule
		}
		s := e.sums[e.sumKey(f, "")]
		if s == nil || !s.done {
			res.undecided(fname(f), p.pos(f.Pos()), "no table-level summary")
			continue
		}
		isMutator := strings.HasSuffix(recvName, "Bitmap") && mutatorMethods[f.Name()]
		var tabs []string
		for tab := range s.mutTab {
			tabs = append(tabs, tab)
		}
		sort.Strings(tabs)
		var bad []string
		var wit []string
		for _, tab := range tabs {
			if pi, _, ok := rootParam(tab); ok {
				if pi == 0 && isMutator {
					continue
				}
				if mutatorParams[fmt.Sprintf("%s|%s", fname(f), paramName(f, pi))] {
					continue
				}
				bad = append(bad, fmt.Sprintf("contents of parameter %s (%s)", paramName(f, pi), tab))
			} else {
				bad = append(bad, "a table of unknown identity ("+tab+")")
			}
			wit = append(wit, strings.Split(s.mutTab[tab], " -> ")...)
		}
		c := fname(f)
		if len(bad) > 0 {
			res.bad(c, p.pos(f.Pos()), "may change "+strings.Join(bad, ", "), wit...)
		} else {
			note := "pure"
			if isMutator {
				note = "mutates only its receiver"
			}
			res.ok(c, p.pos(f.Pos()), note)
		}
	}
	res.Assumptions = append(res.Assumptions, "payload writes are confined to owned containers (rule A2 at the same level): a function changes a bitmap's contents only by writing its table or by writing through a container obtained from that table")
	return res
}

// Slice parameters that are documented output buffers.
var outputBuffers = map[string]bool{
	"(*roaring.Bitmap).FreezeTo|buf":            true,
	"(*roaring.Bitmap).WriteDenseTo|bitmap":     true,
	"(*roaring.manyIntIterator).NextMany|buf":   true,
	"(*roaring.manyIntIterator).NextMany64|buf": true,
	"(*roaring64.manyIntIterator).NextMany|buf": true,
	"(*internal.ByteBuffer).Read|p":             true,
	"(*internal.ByteInputAdapter).Read|p":       true,
	"(*internal.ByteInputAdapter).Read|buf":     true,
	"(*internal.ByteBuffer).Read|buf":           true,
}

// directSliceWrites computes, for every repo function, the slice parameters whose backing array
// the function may write through direct value flow (no heap load in between): element stores,
// copy into it, append onto a reslice of it, or passing it to a callee that does so.
func (p *Prog) directSliceWrites() map[*ssa.Function]map[int]string {
	out := map[*ssa.Function]map[int]string{}
	fns := p.sourceFns()
	// derives: the slice value v is (a reslice / phi of) parameter k
	var derive func(f *ssa.Function, v ssa.Value, depth int) (int, bool, bool)
	derive = func(f *ssa.Function, v ssa.Value, depth int) (k int, resliced bool, ok bool) {
		if depth > 10 {
			return 0, false, false
		}
		switch x := v.(type) {
		case *ssa.Parameter:
			for i, q := range f.Params {
				if q == x {
					if _, isSl := x.Type().Underlying().(*types.Slice); isSl {
						return i, false, true
					}
				}
			}
		case *ssa.Slice:
			k, _, ok := derive(f, x.X, depth+1)
			return k, true, ok
		case *ssa.ChangeType:
			return derive(f, x.X, depth+1)
		case *ssa.UnOp:
			// a local variable that holds the parameter (spilled because a closure captures it)
			if al, isAl := x.X.(*ssa.Alloc); isAl && x.Op == token.MUL {
				for _, r := range *al.Referrers() {
					if st, isSt := r.(*ssa.Store); isSt && st.Addr == al {
						if _, isLoad := st.Val.(*ssa.UnOp); isLoad {
							continue
						}
						if k, rs, ok := derive(f, st.Val, depth+1); ok {
							return k, rs, true
						}
					}
				}
			}
		case *ssa.Phi:
			for _, e := range x.Edges {
				if k, r, ok := derive(f, e, depth+1); ok {
					return k, r, true
				}
			}
		case *ssa.Call:
			if bi, isB := x.Call.Value.(*ssa.Builtin); isB && bi.Name() == "append" {
				return derive(f, x.Call.Args[0], depth+1) // the result may still be the same backing array
			}
		}
		return 0, false, false
	}
	ext := func(name string) []int {
		switch {
		case strings.HasPrefix(name, "sort.Slice"), strings.HasPrefix(name, "sort.Ints"), strings.HasPrefix(name, "slices.Sort"), strings.HasPrefix(name, "slices.Reverse"):
			return []int{0}
		case name == "io.ReadFull", name == "io.ReadAtLeast":
			return []int{1}
		case strings.Contains(name, ").PutUint"):
			return []int{1}
		}
		return nil
	}
	for round := 0; round < 20; round++ {
		changed := false
		for _, f := range fns {
			mark := func(k int, why string) {
				if out[f] == nil {
					out[f] = map[int]string{}
				}
				if _, ok := out[f][k]; !ok {
					out[f][k] = why
					changed = true
				}
			}
			for _, b := range f.Blocks {
				for _, ins := range b.Instrs {
					switch x := ins.(type) {
					case *ssa.Store:
						if ia, ok := x.Addr.(*ssa.IndexAddr); ok {
							if k, _, ok := derive(f, ia.X, 0); ok {
								mark(k, "element store @"+p.ipos(x))
							}
						}
					case *ssa.Call, *ssa.Go, *ssa.Defer:
						var c *ssa.CallCommon
						switch y := ins.(type) {
						case *ssa.Call:
							c = &y.Call
						case *ssa.Go:
							c = &y.Call
						case *ssa.Defer:
							c = &y.Call
						}
						if bi, ok := c.Value.(*ssa.Builtin); ok {
							switch bi.Name() {
							case "copy", "clear":
								if k, _, ok := derive(f, c.Args[0], 0); ok {
									mark(k, bi.Name()+" @"+p.ipos(ins))
								}
							case "append":
								if k, resliced, ok := derive(f, c.Args[0], 0); ok && resliced && len(c.Args) > 1 {
									mark(k, "append onto a reslice @"+p.ipos(ins))
								}
							}
							continue
						}
						callee := c.StaticCallee()
						if callee == nil {
							continue
						}
						var idxs []int
						why := ""
						if callee.Blocks == nil || !inRepo(callee) {
							idxs = ext(callee.String())
							why = callee.String()
						} else {
							for k, w := range out[callee] {
								idxs = append(idxs, k)
								why = fname(callee) + " -> " + w
							}
						}
						for _, ai := range idxs {
							if ai < len(c.Args) {
								if k, _, ok := derive(f, c.Args[ai], 0); ok {
									mark(k, why+" @"+p.ipos(ins))
								}
							}
						}
					}
				}
			}
		}
		if !changed {
			break
		}
	}
	return out
}

func ruleA1Slices(p *Prog) *RuleResult {
	res := newResult("A1.slices", ruleDoc["A1.slices"], 30)
	dw := p.directSliceWrites()
	for _, f := range p.sourceFns() {
		if !isExportedAPI(f) {
			continue
		}
		for i, prm := range f.Params {
			if _, ok := prm.Type().Underlying().(*types.Slice); !ok {
				continue
			}
			c := fmt.Sprintf("%s|%s", fname(f), prm.Name())
			why, written := dw[f][i]
			switch {
			case !written:
				res.ok(c, p.pos(f.Pos()), "")
			case outputBuffers[c]:
				res.ok(c, p.pos(f.Pos()), "documented output buffer")
			default:
				res.bad(c, p.pos(f.Pos()), fmt.Sprintf("may write the backing array of its slice argument %s", prm.Name()), strings.Split(why, " -> ")...)
			}
		}
	}
	_ = token.NoPos
	res.Assumptions = append(res.Assumptions, "only direct value flow is followed (a slice argument stored in memory and written through a later load is the business of rules A3/A4)")
	return res
}

func init() {
	register("A7", "no second header over shared arrays: a bitmap / slot-table struct is copied by value into memory only from a freshly created one (Clone / constructor result), never from a bitmap that stays in use", ruleA7)
}

// Constructors documented as taking over (not copying) the bitmaps they are given.
var noCopyConstructors = map[string]string{
	"(*roaring64.BSI).FromBitmaps": "FromBitmaps documents that the index is initialised from the pre-built bitmaps without copying",
}

func containsTableByValue(t types.Type, lvs []*tlLevel, depth int) bool {
	if depth > 4 {
		return false
	}
	for _, lv := range lvs {
		if lv.isTableStruct(t) {
			return true
		}
	}
	switch u := t.Underlying().(type) {
	case *types.Struct:
		for i := 0; i < u.NumFields(); i++ {
			if containsTableByValue(u.Field(i).Type(), lvs, depth+1) {
				return true
			}
		}
	case *types.Array:
		return containsTableByValue(u.Elem(), lvs, depth+1)
	}
	return false
}

func ruleA7(p *Prog) *RuleResult {
	res := newResult("A7", ruleDoc["A7"], 5)
	l32, l64, err := p.tlLevels()
	if err != nil {
		res.undecided("anchors", "-", err.Error())
		return res
	}
	lvs := []*tlLevel{l32, l64}
	for _, level := range []string{"32", "64", "B32"} {
		e, err := p.TL(level)
		if err != nil {
			res.undecided("anchors:"+level, "-", err.Error())
			continue
		}
		for _, f := range e.fns {
			t := e.funcState(f)
			n := 0
			check := func(ins ssa.Instruction, srcAddr ssa.Value, what string) {
				n++
				c := fmt.Sprintf("%s|%s#%d", fname(f), what, n)
				if why, ok := noCopyConstructors[fname(f)]; ok {
					res.ok(c, p.ipos(ins), "documented no-copy constructor: "+why)
					return
				}
				root := t.root(srcAddr)
				if isLocalRoot(root) || t.rootLocal(root) {
					res.ok(c, p.ipos(ins), "copied from a freshly created value ("+root+")")
				} else {
					res.bad(c, p.ipos(ins), "a bitmap/table struct is copied by value from "+root+", which stays in use: both headers now share the same key/container arrays and later in-place updates of one corrupt the other")
				}
			}
			for _, b := range f.Blocks {
				for _, ins := range b.Instrs {
					switch x := ins.(type) {
					case *ssa.Store:
						if !containsTableByValue(x.Val.Type(), lvs, 0) {
							continue
						}
						if _, toLocal := x.Addr.(*ssa.Alloc); toLocal {
							continue // a temporary (by-value parameter spill, local copy) does not outlive the call
						}
						if u, ok := x.Val.(*ssa.UnOp); ok && u.Op == token.MUL {
							if _, fromLocal := u.X.(*ssa.Alloc); fromLocal {
								continue // composite literal built in a local
							}
							check(x, u.X, "struct copy")
						}
					case *ssa.Call:
						if bi, ok := x.Call.Value.(*ssa.Builtin); ok && (bi.Name() == "copy" || bi.Name() == "append") {
							var src ssa.Value
							if bi.Name() == "copy" {
								src = x.Call.Args[1]
							} else if len(x.Call.Args) > 1 {
								src = x.Call.Args[1]
							}
							if src == nil {
								continue
							}
							if sl, ok := src.Type().Underlying().(*types.Slice); ok && containsTableByValue(sl.Elem(), lvs, 0) {
								// elements copied out of another slice of bitmaps
								if _, isLocalArr := srcBase(src).(*ssa.Alloc); isLocalArr {
									continue // variadic temporary holding fresh values
								}
								check(x, src, bi.Name()+" of bitmap structs")
							}
						}
					}
				}
			}
		}
	}
	return res
}

func srcBase(v ssa.Value) ssa.Value {
	for i := 0; i < 4; i++ {
		if s, ok := v.(*ssa.Slice); ok {
			v = s.X
			continue
		}
		break
	}
	return v
}

func init() {
	register("F11", "copy-on-write flags are book-keeping: no exported function with a scalar result (predicate, count, extremum, ...) reads needCopyOnWrite, directly or through scalar-valued callees", ruleF11)
}

func ruleF11(p *Prog) *RuleResult {
	res := newResult("F11", ruleDoc["F11"], 40)
	// functions that read a flag directly
	direct := map[*ssa.Function]string{}
	for _, f := range p.sourceFns() {
		for _, b := range f.Blocks {
			for _, ins := range b.Instrs {
				u, ok := ins.(*ssa.UnOp)
				if !ok || u.Op != token.MUL {
					continue
				}
				if ia, ok := u.X.(*ssa.IndexAddr); ok {
					if ld, ok := ia.X.(*ssa.UnOp); ok && ld.Op == token.MUL {
						if fa, ok := ld.X.(*ssa.FieldAddr); ok && strings.HasSuffix(fieldName(fa.X.Type(), fa.Field), ".needCopyOnWrite") {
							direct[f] = p.ipos(u)
						}
					}
					if fl, ok := ia.X.(*ssa.Field); ok && strings.HasSuffix(fieldName(fl.X.Type(), fl.Field), ".needCopyOnWrite") {
						direct[f] = p.ipos(u)
					}
				}
			}
		}
	}
	if len(direct) < 3 {
		res.undecided("flag readers", "-", fmt.Sprintf("only %d functions read needCopyOnWrite: the field was renamed or the recogniser is stale", len(direct)))
	}
	hasBitmapResult := func(f *ssa.Function) bool {
		rs := f.Signature.Results()
		for i := 0; i < rs.Len(); i++ {
			if hasPointers(rs.At(i).Type()) && !isErrorType(rs.At(i).Type()) {
				return true
			}
		}
		return false
	}
	// transitive closure over static calls and interface dispatch inside the repo
	own := p.OWN()
	reads := map[*ssa.Function]string{}
	for f, w := range direct {
		reads[f] = fname(f) + " @" + w
	}
	for changed := true; changed; {
		changed = false
		for _, f := range p.sourceFns() {
			if _, ok := reads[f]; ok {
				continue
			}
			for _, b := range f.Blocks {
				for _, ins := range b.Instrs {
					var c *ssa.CallCommon
					switch x := ins.(type) {
					case *ssa.Call:
						c = &x.Call
					case *ssa.Go:
						c = &x.Call
					case *ssa.Defer:
						c = &x.Call
					default:
						continue
					}
					var callees []*ssa.Function
					if c.IsInvoke() {
						callees = own.lookupImpls(c)
					} else if g := c.StaticCallee(); g != nil {
						callees = append(callees, g)
					}
					for _, g := range callees {
						// a callee that builds or updates a bitmap reads flags to decide sharing of that
						// object, not to compute a value: only scalar-valued callees carry the dependency
						if g.Signature.Results().Len() == 0 || hasBitmapResult(g) {
							continue
						}
						if w, ok := reads[g]; ok {
							if _, seen := reads[f]; !seen {
								reads[f] = fname(f) + " -> " + w
								changed = true
							}
						}
					}
				}
			}
		}
	}
	for _, f := range p.sourceFns() {
		if !isExportedAPI(f) || hasBitmapResult(f) || f.Signature.Results().Len() == 0 {
			continue
		}
		recv := ""
		if r := f.Signature.Recv(); r != nil {
			recv = typeShort(r.Type())
		}
		if (strings.HasSuffix(recv, "Bitmap") && mutatorMethods[f.Name()]) || (strings.HasSuffix(recv, "BSI") && bsiMutators[f.Name()]) {
			continue
		}
		if !(strings.HasSuffix(recv, "Bitmap") || strings.HasSuffix(recv, "BSI") || recv == "") {
			continue
		}
		if f.Name() == "Stats" || f.Name() == "GetSizeInBytes" {
			continue // diagnostics about the in-memory representation, not functions of the set
		}
		c := fname(f)
		if w, ok := reads[f]; ok {
			res.bad(c, p.pos(f.Pos()), "a scalar query depends on copy-on-write flags: its answer can differ between bitmaps with equal contents", strings.Split(w, " -> ")...)
		} else {
			res.ok(c, p.pos(f.Pos()), "")
		}
	}
	return res
}
